// cx.cpp — compile-time serialization (C17): values serialized by constant expressions through
// ConstexprBufferWriter into arrays of exactly Encoding<T>::Size bytes, compared with the run-time writers.
// A separate program: when the library stops being able to do this at compile time the program does not
// build, which the C17 check reports with these very values as the failing input; the other programs of the
// harness are not affected.
#include <array>
#include <cstdint>
#include <cstring>
#include <iostream>
#include <limits>
#include <memory>
#include <new>
#include <sstream>
#include <string>
#include <tuple>
#include <utility>
#include <vector>

#include <sys/mman.h>
#include "glue.h"
#include <nop/utility/endian.h>
#include <nop/utility/sip_hash.h>
#include <nop/rpc/interface.h>
#include <nop/base/reference_wrapper.h>
#include <nop/protocol.h>
#include <functional>

std::size_t& vh::AllocCounter() { static std::size_t c = 0; return c; }

using namespace vh;

// ------------------------------------------- compile-time serialization --
namespace cx {
template <typename T, size_t Size>
struct Arr {
  T elements[Size];
  constexpr T* data() { return elements; }
  constexpr const T* data() const { return elements; }
  constexpr size_t size() const { return Size; }
  NOP_VALUE(Arr, elements);
};
template <std::size_t Size, typename T>
constexpr auto Ser(const T& value) {
  Arr<std::uint8_t, Size> bytes{{}};
  nop::Serializer<nop::ConstexprBufferWriter> serializer{bytes.data(), bytes.size()};
  auto status = serializer.Write(value);
  return status ? bytes : throw status;
}
struct S1 { std::uint8_t a; std::uint32_t b; std::int64_t c; std::int16_t d; NOP_STRUCTURE(S1, a, b, c, d); };
struct S2 { S1 s; Arr<std::uint16_t, 3> v; bool f; NOP_STRUCTURE(S2, s, v, f); };
struct T1 { nop::Entry<int, 0> a; nop::Entry<char, 1> b; nop::Entry<Arr<char, 10>, 2> c; nop::Entry<std::uint64_t, 300> d;
            NOP_TABLE_NS("Verif.Cx", T1, a, b, c, d); };
constexpr S1 kS1{200, 0xa5a5a5a5u, -4000000000LL, -129};
constexpr S2 kS2{{127, 65536, 2147483648LL, 127}, {{0, 255, 65535}}, true};
constexpr T1 kT1{-65, 'z', {{{'h', 'e', 'l', 'l', 'o', 0, 0, 0, 0, 0}}}, 0xffffffffffffffffULL};
constexpr Arr<S1, 2> kA{{{1, 2, 3, 4}, {128, 256, -32769, -64}}};
constexpr auto kB1 = Ser<nop::Encoding<S1>::Size(kS1)>(kS1);
constexpr auto kB2 = Ser<nop::Encoding<S2>::Size(kS2)>(kS2);
constexpr auto kB3 = Ser<nop::Encoding<T1>::Size(kT1)>(kT1);
constexpr auto kB4 = Ser<nop::Encoding<Arr<S1, 2>>::Size(kA)>(kA);
template <typename T>
std::string RunTime(const T& v) {
  std::size_t n = nop::Encoding<T>::Size(v);
  OutBuf ob(n);
  nop::Serializer<nop::ConstexprBufferWriter> s{ob.p, n};
  auto st = s.Write(v);
  std::vector<std::uint8_t> out;
  { nop::Serializer<IWriter> s2; (void)s2.Write(v); out = s2.writer().out; }
  return std::string(st ? "" : "FAILED ") + Hex(ob.p, n) + "/" + Hex(out);
}
}  // namespace cx
static std::string DoCx() {
  using namespace cx;
  return "s1=" + Hex(kB1.data(), kB1.size()) + "/" + RunTime(kS1) +
         " s2=" + Hex(kB2.data(), kB2.size()) + "/" + RunTime(kS2) +
         " t1=" + Hex(kB3.data(), kB3.size()) + "/" + RunTime(kT1) +
         " a=" + Hex(kB4.data(), kB4.size()) + "/" + RunTime(kA);
}


int main() {
  std::ios::sync_with_stdio(false);
  std::string line;
  while (std::getline(std::cin, line)) {
    if (line.empty() || line[0] == '#') { std::cout << line << "\n"; continue; }
    std::cout << DoCx() << "\n" << std::flush;
  }
  return 0;
}
