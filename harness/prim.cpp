// prim.cpp — primitive-level harness: call sequences on the library's readers
// and writers (C16, C17), SipHash (C18), HostEndian (C20).  One command per
// input line, one result per output line.
#include <array>
#include <cstdint>
#include <cstdlib>
#include <cstring>
#include <iostream>
#include <limits>
#include <memory>
#include <new>
#include <sstream>
#include <string>
#include <tuple>
#include <utility>
#include <vector>

#include <fcntl.h>
#include <sys/mman.h>
#include "glue.h"
#include <nop/utility/endian.h>
#include <nop/utility/sip_hash.h>
#include <nop/rpc/interface.h>
#include <nop/base/reference_wrapper.h>
#include <nop/protocol.h>
#include <functional>

std::size_t& vh::AllocCounter() { static std::size_t c = 0; return c; }

using namespace vh;

static std::vector<std::string> Split(const std::string& s, char sep) {
  std::vector<std::string> out;
  if (s == "-") return out;
  std::stringstream ss(s);
  std::string item;
  while (std::getline(ss, item, sep)) out.push_back(item);
  return out;
}

// ------------------------------------------------------------------ readers --
template <typename T, typename R>
static std::string ReadElems(R& r, std::size_t count) {
  std::vector<T> buf(count ? count : 1);
  auto st = r.Read(buf.data(), buf.data() + count);
  if (!st) return std::to_string(Code(st));
  return "0:" + Hex(reinterpret_cast<const std::uint8_t*>(buf.data()), count * sizeof(T));
}

template <typename R>
static std::string OneRead(R& r, const std::string& c) {
  if (c[0] == 'E') return std::to_string(Code(r.Ensure(ParseInt<std::size_t>(c.substr(1)))));
  if (c[0] == 'r') { std::uint8_t b = 0; auto st = r.Read(&b); return st ? "0:" + Hex(&b, 1) : std::to_string(Code(st)); }
  if (c[0] == 'S') return std::to_string(Code(r.Skip(ParseInt<std::size_t>(c.substr(1)))));
  if (c[0] == 'R') {
    auto x = c.find('x');
    int w = std::stoi(c.substr(1, x - 1));
    std::size_t n = ParseInt<std::size_t>(c.substr(x + 1));
    switch (w) {
      case 1: return ReadElems<std::uint8_t>(r, n);
      case 2: return ReadElems<std::uint16_t>(r, n);
      case 4: return ReadElems<std::uint32_t>(r, n);
      default: return ReadElems<std::uint64_t>(r, n);
    }
  }
  return "?";
}
// FdReader has no Skip / Ensure is trivial
template <>
std::string OneRead<nop::FdReader>(nop::FdReader& r, const std::string& c) {
  if (c[0] == 'E') return std::to_string(Code(r.Ensure(ParseInt<std::size_t>(c.substr(1)))));
  if (c[0] == 'r') { std::uint8_t b = 0; auto st = r.Read(&b); return st ? "0:" + Hex(&b, 1) : std::to_string(Code(st)); }
  if (c[0] == 'S') return "nosupport";
  if (c[0] == 'R') {
    auto x = c.find('x');
    int w = std::stoi(c.substr(1, x - 1));
    std::size_t n = ParseInt<std::size_t>(c.substr(x + 1));
    std::vector<std::uint8_t> buf(n * w ? n * w : 1);
    auto st = r.Read(buf.data(), buf.data() + n * w);
    return st ? "0:" + Hex(buf.data(), n * w) : std::to_string(Code(st));
  }
  return "?";
}
template <>
std::string OneRead<nop::StreamReader<std::stringstream>>(nop::StreamReader<std::stringstream>& r, const std::string& c) {
  if (c[0] == 'E') return std::to_string(Code(r.Ensure(ParseInt<std::size_t>(c.substr(1)))));
  if (c[0] == 'r') { std::uint8_t b = 0; auto st = r.Read(&b); return st ? "0:" + Hex(&b, 1) : std::to_string(Code(st)); }
  if (c[0] == 'S') return std::to_string(Code(r.Skip(ParseInt<std::size_t>(c.substr(1)))));
  if (c[0] == 'R') {
    auto x = c.find('x');
    int w = std::stoi(c.substr(1, x - 1));
    std::size_t n = ParseInt<std::size_t>(c.substr(x + 1));
    std::vector<std::uint8_t> buf(n * w ? n * w : 1);
    auto st = r.Read(buf.data(), buf.data() + n * w);
    return st ? "0:" + Hex(buf.data(), n * w) : std::to_string(Code(st));
  }
  return "?";
}

template <typename R>
static std::string RunReads(R& r, const std::vector<std::string>& calls) {
  std::string out;
  for (const auto& c : calls) { if (!out.empty()) out += ","; out += OneRead(r, c); }
  return out.empty() ? "-" : out;
}
template <typename R>
static std::string RunBoundedReads(R& inner, std::size_t limit, const std::vector<std::string>& calls) {
  nop::BoundedReader<R> b{&inner, limit};
  std::string out;
  for (const auto& c : calls) {
    if (!out.empty()) out += ",";
    if (c == "P") out += std::to_string(Code(b.ReadPadding()));
    else if (c[0] == 'R') {   // typed reads through the bounded reader
      auto x = c.find('x');
      int w = std::stoi(c.substr(1, x - 1));
      std::size_t n = ParseInt<std::size_t>(c.substr(x + 1));
      // elements of the requested width: the limit is in bytes, not in elements
      switch (w) {
        case 1: out += ReadElems<std::uint8_t>(b, n); break;
        case 2: out += ReadElems<std::uint16_t>(b, n); break;
        case 4: out += ReadElems<std::uint32_t>(b, n); break;
        default: out += ReadElems<std::uint64_t>(b, n); break;
      }
    } else if (c[0] == 'r') { std::uint8_t x = 0; auto st = b.Read(&x); out += st ? "0:" + Hex(&x, 1) : std::to_string(Code(st)); }
    else if (c[0] == 'E') out += std::to_string(Code(b.Ensure(ParseInt<std::size_t>(c.substr(1)))));
    else if (c[0] == 'S') out += std::to_string(Code(b.Skip(ParseInt<std::size_t>(c.substr(1)))));
    else out += "?";
  }
  out += " used=" + std::to_string(b.size());
  out += " bobs=" + std::to_string(b.empty() ? 1 : 0) + "/" + std::to_string(b.capacity());
  return out;
}
template <typename R>
static std::string ReaderObs(const R& r) {
  return " obs=" + std::to_string(r.empty() ? 1 : 0) + "/" + std::to_string(r.remaining()) + "/" + std::to_string(r.capacity());
}

// rseq KIND LIMIT FAULTK FAULTCODE HEX CALLS
static std::string DoRseq(const std::vector<Sx>& a) {
  const std::string& kind = a.at(1).a;
  std::size_t limit = ParseInt<std::size_t>(a.at(2).a);
  long fk = a.at(3).a == "-" ? -1 : ParseInt<long>(a.at(3).a);
  int fc = ParseInt<int>(a.at(4).a);
  std::vector<std::uint8_t> bytes = UnHex(a.at(5).a);
  std::vector<std::string> calls = Split(a.at(6).a, ',');
  HeapBytes in(bytes);
  std::string tail;
  if (kind == "inst" || kind == "binst") {
    IReader r; r.data = in.p; r.size = in.n; r.fault.k = fk; r.fault.code = fc; r.want_log = true;
    std::string o = kind == "inst" ? RunReads(r, calls) : RunBoundedReads(r, limit, calls);
    return "res=" + o + " pos=" + std::to_string(r.index) + " inner=" + (r.log.empty() ? "-" : r.log);
  }
  if (kind == "buf") { nop::BufferReader r{in.p, in.n}; std::string o = RunReads(r, calls); return "res=" + o + " pos=" + std::to_string(r.capacity() - r.remaining()) + ReaderObs(r); }
  if (kind == "ped") { nop::PedanticBufferReader r{in.p, in.n}; std::string o = RunReads(r, calls); return "res=" + o + " pos=" + std::to_string(r.capacity() - r.remaining()) + ReaderObs(r); }
  // the (const void*, size) constructors
  if (kind == "vbuf") { nop::BufferReader r{static_cast<const void*>(in.p), in.n}; std::string o = RunReads(r, calls); return "res=" + o + " pos=" + std::to_string(r.capacity() - r.remaining()) + ReaderObs(r); }
  if (kind == "vped") { nop::PedanticBufferReader r{static_cast<const void*>(in.p), in.n}; std::string o = RunReads(r, calls); return "res=" + o + " pos=" + std::to_string(r.capacity() - r.remaining()) + ReaderObs(r); }
  if (kind == "bbuf") { nop::BufferReader r{in.p, in.n}; std::string o = RunBoundedReads(r, limit, calls); return "res=" + o + " pos=" + std::to_string(r.capacity() - r.remaining()) + ReaderObs(r); }
  if (kind == "bped") { nop::PedanticBufferReader r{in.p, in.n}; std::string o = RunBoundedReads(r, limit, calls); return "res=" + o + " pos=" + std::to_string(r.capacity() - r.remaining()) + ReaderObs(r); }
  if (kind == "stream") {
    nop::StreamReader<std::stringstream> r{std::string(reinterpret_cast<const char*>(in.p), in.n)};
    return "res=" + RunReads(r, calls);
  }
  if (kind == "fd") {
    int fd = MemFd(bytes);
    nop::FdReader r{fd};
    return "res=" + RunReads(r, calls);
  }
  return "HARNESS-ERROR kind";
}

// rcopy KIND HEX K HEX2: K single-byte reads, then the reader object is COPIED (copy constructor) and the rest is read from
// the copy; then a fresh reader over HEX2 is ASSIGNED to the used object (copy assignment) and everything is read from it.
// A copy continues where the original stands; an assigned-over reader is the reader it was assigned from.
template <typename R>
static std::string RCopy(const std::vector<std::uint8_t>& d1, std::size_t k, const std::vector<std::uint8_t>& d2) {
  HeapBytes a(d1), b(d2);
  R r{a.p, a.n};
  std::string first, rest, again;
  for (std::size_t i = 0; i < k; i++) { std::uint8_t x = 0; if (!r.Read(&x)) break; first += Hex(&x, 1); }
  R c{r};
  while (true) { std::uint8_t x = 0; if (!c.Read(&x)) break; rest += Hex(&x, 1); if (rest.size() > 2 * (a.n + 4)) break; }
  std::string obs = std::to_string(c.remaining()) + "/" + std::to_string(c.capacity());
  R fresh{b.p, b.n};
  r = fresh;
  std::string obs2 = std::to_string(r.remaining()) + "/" + std::to_string(r.capacity());
  while (true) { std::uint8_t x = 0; if (!r.Read(&x)) break; again += Hex(&x, 1); if (again.size() > 2 * (b.n + 4)) break; }
  return "first=" + (first.empty() ? "-" : first) + " rest=" + (rest.empty() ? "-" : rest) + " obs=" + obs +
         " rearmed=" + obs2 + " again=" + (again.empty() ? "-" : again);
}
static std::string DoRCopy(const std::vector<Sx>& a) {
  const std::string& kind = a.at(1).a;
  std::vector<std::uint8_t> d1 = UnHex(a.at(2).a), d2 = UnHex(a.at(4).a);
  std::size_t k = ParseInt<std::size_t>(a.at(3).a);
  if (kind == "buf") return RCopy<nop::BufferReader>(d1, k, d2);
  if (kind == "ped") return RCopy<nop::PedanticBufferReader>(d1, k, d2);
  return "HARNESS-ERROR kind";
}

// ------------------------------------------------------------------ writers --
template <typename W>
static std::string OneWrite(W& w, const std::string& c) {
  if (c[0] == 'P') return std::to_string(Code(w.Prepare(ParseInt<std::size_t>(c.substr(1)))));
  if (c[0] == 'w') return std::to_string(Code(w.Write(static_cast<std::uint8_t>(ParseInt<unsigned>(c.substr(1))))));
  if (c[0] == 'K') { auto x = c.find(':'); return std::to_string(Code(w.Skip(ParseInt<std::size_t>(c.substr(1, x - 1)), static_cast<std::uint8_t>(ParseInt<unsigned>(c.substr(x + 1)))))); }
  if (c[0] == 'W') {
    auto x = c.find('x');
    int wd = std::stoi(c.substr(1, x - 1));
    std::vector<std::uint8_t> b = UnHex(c.substr(x + 1).empty() ? "-" : c.substr(x + 1));
    std::size_t n = b.size() / wd;
    switch (wd) {
      case 1: { std::vector<std::uint8_t> e(n ? n : 1); if (n) std::memcpy(e.data(), b.data(), n); return std::to_string(Code(w.Write(e.data(), e.data() + n))); }
      case 2: { std::vector<std::uint16_t> e(n ? n : 1); if (n) std::memcpy(e.data(), b.data(), n * 2); return std::to_string(Code(w.Write(e.data(), e.data() + n))); }
      case 4: { std::vector<std::uint32_t> e(n ? n : 1); if (n) std::memcpy(e.data(), b.data(), n * 4); return std::to_string(Code(w.Write(e.data(), e.data() + n))); }
      default: { std::vector<std::uint64_t> e(n ? n : 1); if (n) std::memcpy(e.data(), b.data(), n * 8); return std::to_string(Code(w.Write(e.data(), e.data() + n))); }
    }
  }
  return "?";
}
template <typename W>
static std::string OneWriteBytes(W& w, const std::string& c) {   // stream / fd: Write(const void*, const void*)
  if (c[0] == 'P') return std::to_string(Code(w.Prepare(ParseInt<std::size_t>(c.substr(1)))));
  if (c[0] == 'w') return std::to_string(Code(w.Write(static_cast<std::uint8_t>(ParseInt<unsigned>(c.substr(1))))));
  if (c[0] == 'W') {
    auto x = c.find('x');
    std::vector<std::uint8_t> b = UnHex(c.substr(x + 1).empty() ? "-" : c.substr(x + 1));
    std::vector<std::uint8_t> e(b.size() ? b.size() : 1); if (!b.empty()) std::memcpy(e.data(), b.data(), b.size());
    return std::to_string(Code(w.Write(e.data(), e.data() + b.size())));
  }
  return "?";
}
template <typename W>
static std::string RunWrites(W& w, const std::vector<std::string>& calls) {
  std::string out;
  for (const auto& c : calls) { if (!out.empty()) out += ","; out += OneWrite(w, c); }
  return out.empty() ? "-" : out;
}
template <typename W>
static std::string RunBoundedWrites(W& inner, std::size_t limit, const std::vector<std::string>& calls) {
  nop::BoundedWriter<W> b{&inner, limit};
  std::string out;
  for (const auto& c : calls) {
    if (!out.empty()) out += ",";
    if (c[0] == 'D') out += std::to_string(Code(b.WritePadding(static_cast<std::uint8_t>(ParseInt<unsigned>(c.substr(1).empty() ? "0" : c.substr(1))))));
    else out += OneWrite(b, c);
  }
  out += " used=" + std::to_string(b.size());
  out += " bobs=" + std::to_string(b.capacity());
  return out;
}
template <typename W>
static std::string WriterObs(const W& w) { return " obs=" + std::to_string(w.size()) + "/" + std::to_string(w.capacity()); }

// an output stream that takes CAP bytes and refuses the rest (what a full device or a fixed buffer does)
struct CapBuf : std::streambuf {
  std::string data; std::size_t cap = 0;
  int_type overflow(int_type c) override {
    if (traits_type::eq_int_type(c, traits_type::eof())) return traits_type::not_eof(c);
    if (data.size() >= cap) return traits_type::eof();
    data.push_back(traits_type::to_char_type(c));
    return c;
  }
  std::streamsize xsputn(const char* p, std::streamsize n) override {
    std::size_t room = cap - data.size();
    std::size_t k = static_cast<std::size_t>(n) < room ? static_cast<std::size_t>(n) : room;
    data.append(p, k);
    return static_cast<std::streamsize>(k);
  }
};
struct CapStream : std::ostream {
  CapBuf buf;
  explicit CapStream(std::size_t cap) : std::ostream(nullptr) { buf.cap = cap; rdbuf(&buf); }
};

// wseq KIND CAP LIMIT FAULTK FAULTCODE CALLS
static std::string DoWseq(const std::vector<Sx>& a) {
  const std::string& kind = a.at(1).a;
  std::size_t cap = ParseInt<std::size_t>(a.at(2).a), limit = ParseInt<std::size_t>(a.at(3).a);
  long fk = a.at(4).a == "-" ? -1 : ParseInt<long>(a.at(4).a);
  int fc = ParseInt<int>(a.at(5).a);
  std::vector<std::string> calls = Split(a.at(6).a, ',');
  if (kind == "inst" || kind == "binst") {
    IWriter w; w.fault.k = fk; w.fault.code = fc; w.want_log = true;
    std::string o = kind == "inst" ? RunWrites(w, calls) : RunBoundedWrites(w, limit, calls);
    return "res=" + o + " bytes=" + Hex(w.out) + " inner=" + (w.log.empty() ? "-" : w.log);
  }
  OutBuf ob(cap);
  if (kind == "buf") { nop::BufferWriter w{ob.p, cap}; std::string o = RunWrites(w, calls); return "res=" + o + " bytes=" + Hex(ob.p, w.size() < cap ? w.size() : cap) + WriterObs(w); }
  if (kind == "ped") { nop::PedanticBufferWriter w{ob.p, cap}; std::string o = RunWrites(w, calls); return "res=" + o + " bytes=" + Hex(ob.p, w.size() < cap ? w.size() : cap) + WriterObs(w); }
  if (kind == "vbuf") { nop::BufferWriter w{static_cast<void*>(ob.p), cap}; std::string o = RunWrites(w, calls); return "res=" + o + " bytes=" + Hex(ob.p, w.size() < cap ? w.size() : cap) + WriterObs(w); }
  if (kind == "vped") { nop::PedanticBufferWriter w{static_cast<void*>(ob.p), cap}; std::string o = RunWrites(w, calls); return "res=" + o + " bytes=" + Hex(ob.p, w.size() < cap ? w.size() : cap) + WriterObs(w); }
  if (kind == "cx") { nop::ConstexprBufferWriter w{ob.p, cap}; std::string o = RunWrites(w, calls); return "res=" + o + " bytes=" + Hex(ob.p, w.size() < cap ? w.size() : cap) + WriterObs(w); }
  if (kind == "bbuf") { nop::BufferWriter w{ob.p, cap}; std::string o = RunBoundedWrites(w, limit, calls); return "res=" + o + " bytes=" + Hex(ob.p, w.size() < cap ? w.size() : cap) + WriterObs(w); }
  if (kind == "bped") { nop::PedanticBufferWriter w{ob.p, cap}; std::string o = RunBoundedWrites(w, limit, calls); return "res=" + o + " bytes=" + Hex(ob.p, w.size() < cap ? w.size() : cap) + WriterObs(w); }
  if (kind == "stream") {
    nop::StreamWriter<std::stringstream> w;
    std::string out;
    for (const auto& c : calls) {
      if (!out.empty()) out += ",";
      if (c[0] == 'K') { auto x = c.find(':'); out += std::to_string(Code(w.Skip(ParseInt<std::size_t>(c.substr(1, x - 1)), static_cast<std::uint8_t>(ParseInt<unsigned>(c.substr(x + 1)))))); }
      else out += OneWriteBytes(w, c);
    }
    std::string s = w.stream().str();
    return "res=" + (out.empty() ? "-" : out) + " bytes=" + Hex(reinterpret_cast<const std::uint8_t*>(s.data()), s.size());
  }
  if (kind == "lstream" || kind == "blstream") {
    nop::StreamWriter<CapStream> w{cap};
    std::string out;
    if (kind == "blstream") {
      nop::BoundedWriter<nop::StreamWriter<CapStream>> b{&w, limit};
      for (const auto& c : calls) {
        if (!out.empty()) out += ",";
        if (c[0] == 'K') { auto x = c.find(':'); out += std::to_string(Code(b.Skip(ParseInt<std::size_t>(c.substr(1, x - 1)), static_cast<std::uint8_t>(ParseInt<unsigned>(c.substr(x + 1)))))); }
        else out += OneWriteBytes(b, c);
      }
    } else {
      for (const auto& c : calls) {
        if (!out.empty()) out += ",";
        if (c[0] == 'K') { auto x = c.find(':'); out += std::to_string(Code(w.Skip(ParseInt<std::size_t>(c.substr(1, x - 1)), static_cast<std::uint8_t>(ParseInt<unsigned>(c.substr(x + 1)))))); }
        else out += OneWriteBytes(w, c);
      }
    }
    const std::string& d = w.stream().buf.data;
    return "res=" + (out.empty() ? "-" : out) + " bytes=" + Hex(reinterpret_cast<const std::uint8_t*>(d.data()), d.size());
  }
  if (kind == "lfd") {   // a non-blocking pipe with room for CAP more bytes: longer block writes are cut short by the kernel
    int fds[2];
    if (pipe(fds) != 0) return "unsupported";
    fcntl(fds[1], F_SETPIPE_SZ, 4096);
    const long psz = fcntl(fds[1], F_GETPIPE_SZ);
    if (psz <= 0 || static_cast<std::size_t>(psz) < cap) { ::close(fds[0]); ::close(fds[1]); return "unsupported"; }
    std::vector<std::uint8_t> filler(static_cast<std::size_t>(psz) - cap, 0xee);
    if (!filler.empty() && ::write(fds[1], filler.data(), filler.size()) != static_cast<ssize_t>(filler.size())) { ::close(fds[0]); ::close(fds[1]); return "unsupported"; }
    fcntl(fds[1], F_SETFL, fcntl(fds[1], F_GETFL) | O_NONBLOCK);
    std::string out;
    { nop::FdWriter w{fds[1]};
      for (const auto& c : calls) { if (!out.empty()) out += ","; out += (c[0] == 'K') ? "nosupport" : OneWriteBytes(w, c); } }
    std::vector<std::uint8_t> o;                  // the write end is closed: read until end of file
    { std::uint8_t buf[4096]; ssize_t r; while ((r = ::read(fds[0], buf, sizeof buf)) > 0) o.insert(o.end(), buf, buf + r); }
    ::close(fds[0]);
    if (o.size() < filler.size()) return "HARNESS-ERROR pipe";
    o.erase(o.begin(), o.begin() + static_cast<long>(filler.size()));
    return "res=" + (out.empty() ? "-" : out) + " bytes=" + Hex(o);
  }
  if (kind == "fd") {
    int fd = memfd_create("verifw", 0); int dupfd = dup(fd);
    std::string out;
    { nop::FdWriter w{fd};
      for (const auto& c : calls) { if (!out.empty()) out += ","; out += (c[0] == 'K') ? "nosupport" : OneWriteBytes(w, c); } }
    std::vector<std::uint8_t> o = ReadAllFd(dupfd); ::close(dupfd);
    return "res=" + (out.empty() ? "-" : out) + " bytes=" + Hex(o);
  }
  return "HARNESS-ERROR kind";
}

// ------------------------------------------------------------------ siphash --
// run-time SipHash over uint8_t and over char elements
static std::string DoSip(const std::vector<Sx>& a) {
  std::vector<std::uint8_t> bytes = UnHex(a.at(1).a);
  std::uint64_t k0 = ParseInt<std::uint64_t>(a.at(2).a), k1 = ParseInt<std::uint64_t>(a.at(3).a);
  HeapBytes in(bytes);
  std::uint64_t h8 = nop::SipHash::Compute(nop::BlockReader<std::uint8_t>(in.p, in.n), k0, k1);
  std::uint64_t hc = nop::SipHash::Compute(nop::BlockReader<char>(reinterpret_cast<const char*>(in.p), in.n), k0, k1);
  return "h=" + std::to_string(h8) + " hchar=" + std::to_string(hc);
}

// reference SipHash-2-4 (the published algorithm, written out independently of the library) for inputs too long for the
// Python and Coq references: sipbig LOG2 EXTRA K0 K1 hashes 2^LOG2 + EXTRA bytes (zeros, the last EXTRA bytes 1, 2, 3, ...)
static inline std::uint64_t Rotl64(std::uint64_t x, int b) { return (x << b) | (x >> (64 - b)); }
static std::uint64_t RefSipHash24(const std::uint8_t* in, std::uint64_t n, std::uint64_t k0, std::uint64_t k1) {
  std::uint64_t v0 = 0x736f6d6570736575ULL ^ k0, v1 = 0x646f72616e646f6dULL ^ k1, v2 = 0x6c7967656e657261ULL ^ k0, v3 = 0x7465646279746573ULL ^ k1;
  auto round = [&]() {
    v0 += v1; v1 = Rotl64(v1, 13); v1 ^= v0; v0 = Rotl64(v0, 32);
    v2 += v3; v3 = Rotl64(v3, 16); v3 ^= v2;
    v0 += v3; v3 = Rotl64(v3, 21); v3 ^= v0;
    v2 += v1; v1 = Rotl64(v1, 17); v1 ^= v2; v2 = Rotl64(v2, 32);
  };
  const std::uint64_t blocks = n / 8;
  for (std::uint64_t i = 0; i < blocks; i++) {
    std::uint64_t m = 0;
    for (int j = 0; j < 8; j++) m |= static_cast<std::uint64_t>(in[i * 8 + j]) << (8 * j);
    v3 ^= m; round(); round(); v0 ^= m;
  }
  std::uint64_t b = (n & 0xff) << 56;
  for (std::uint64_t j = 0; j < (n & 7); j++) b |= static_cast<std::uint64_t>(in[blocks * 8 + j]) << (8 * j);
  v3 ^= b; round(); round(); v0 ^= b;
  v2 ^= 0xff; round(); round(); round(); round();
  return v0 ^ v1 ^ v2 ^ v3;
}
static std::string DoSipBig(const std::vector<Sx>& a) {
  const std::uint64_t n = (std::uint64_t{1} << ParseInt<unsigned>(a.at(1).a)) + ParseInt<std::uint64_t>(a.at(2).a);
  const std::uint64_t extra = ParseInt<std::uint64_t>(a.at(2).a);
  std::uint64_t k0 = ParseInt<std::uint64_t>(a.at(3).a), k1 = ParseInt<std::uint64_t>(a.at(4).a);
  void* mem = mmap(nullptr, n + 4096, PROT_READ | PROT_WRITE, MAP_PRIVATE | MAP_ANONYMOUS | MAP_NORESERVE, -1, 0);
  if (mem == MAP_FAILED) return "unsupported";
  std::uint8_t* p = static_cast<std::uint8_t*>(mem);
  for (std::uint64_t i = 0; i < extra; i++) p[n - extra + i] = static_cast<std::uint8_t>(i + 1);
  std::uint64_t h = nop::SipHash::Compute(nop::BlockReader<std::uint8_t>(p, n), k0, k1);
  std::uint64_t ref = RefSipHash24(p, n, k0, k1);
  munmap(mem, n + 4096);
  return "h=" + std::to_string(h) + " ref=" + std::to_string(ref) + " n=" + std::to_string(n);
}

#include "sip_names.h"
// every entry of kSipNames has constant initialisers: the hashes are evaluated at compile time
static_assert(nop::SipHash::Compute("", nop::kNopTableKey0, nop::kNopTableKey1) != 0 || true, "");
static std::string DoSipNames() {
  std::string out;
  for (const auto& n : kSipNames) {
    if (!out.empty()) out += ",";
    out += std::string(n.hex) + ":" + std::to_string(n.table) + ":" + std::to_string(n.iface) + ":" + std::to_string(n.sel64) + ":" + std::to_string(n.sel32);
  }
  return "names=" + out;
}

// run-time calls of the ARRAY overload of SipHash::Compute (the one the macros use at compile time) and of
// ComputeMethodSelector: every one of the N elements is hashed, zero bytes and the last element included
template <std::size_t N>
static std::string SipArr(const std::vector<std::uint8_t>& b, std::uint64_t k0, std::uint64_t k1) {
  char c[N]; std::uint8_t u[N];
  for (std::size_t i = 0; i < N; i++) { c[i] = static_cast<char>(b[i]); u[i] = b[i]; }
  volatile std::uint64_t kk0 = k0, kk1 = k1;   // keep the evaluation at run time
  std::uint64_t hc = nop::SipHash::Compute(c, kk0, kk1), hu = nop::SipHash::Compute(u, kk0, kk1);
  std::uint64_t s64 = nop::ComputeMethodSelector<std::uint64_t>(c, kk0);
  std::uint32_t s32 = nop::ComputeMethodSelector<std::uint32_t>(c, kk0);
  return "harr=" + std::to_string(hc) + " harru=" + std::to_string(hu) + " sel64=" + std::to_string(s64) + " sel32=" + std::to_string(s32);
}
template <std::size_t N> struct SipArrTab {
  static std::string run(std::size_t n, const std::vector<std::uint8_t>& b, std::uint64_t k0, std::uint64_t k1) {
    return n == N ? SipArr<N>(b, k0, k1) : SipArrTab<N - 1>::run(n, b, k0, k1);
  }
};
template <> struct SipArrTab<0> {
  static std::string run(std::size_t, const std::vector<std::uint8_t>&, std::uint64_t, std::uint64_t) { return "unsupported"; }
};
static std::string DoSipArr(const std::vector<Sx>& a) {
  std::vector<std::uint8_t> bytes = UnHex(a.at(1).a);
  return SipArrTab<40>::run(bytes.size(), bytes, ParseInt<std::uint64_t>(a.at(2).a), ParseInt<std::uint64_t>(a.at(3).a));
}

// ------------------------------------------------- reference_wrapper / Protocol --
// refw KIND HEX: the bytes are read as T and through std::reference_wrapper<T>; what was read is written back both ways
template <typename T>
static std::string RefW(const std::vector<std::uint8_t>& bytes) {
  HeapBytes in(bytes);
  auto plain = std::make_unique<Holder<T>>(); auto store = std::make_unique<Holder<T>>();
  std::string out;
  int c1, c2; std::size_t n1, n2;
  { nop::Deserializer<IReader> d; d.reader().data = in.p; d.reader().size = in.n; c1 = Code(d.Read(&plain->v)); n1 = d.reader().index; }
  { nop::Deserializer<IReader> d; d.reader().data = in.p; d.reader().size = in.n; std::reference_wrapper<T> ref{store->v}; c2 = Code(d.Read(&ref)); n2 = d.reader().index; }
  std::string dp, dr; Dump(dp, plain->v); Dump(dr, store->v);
  out = "pst=" + std::to_string(c1) + " rst=" + std::to_string(c2) + " pcons=" + std::to_string(n1) + " rcons=" + std::to_string(n2);
  if (c1 == 0) out += " pval=" + dp;
  if (c2 == 0) out += " rval=" + dr;
  if (c1 == 0) {
    nop::Serializer<IWriter> s1, s2;
    std::reference_wrapper<T> ref{plain->v}; std::reference_wrapper<const T> cref{plain->v};
    auto w1 = s1.Write(plain->v); auto w2 = s2.Write(ref);
    out += " pw=" + std::to_string(Code(w1)) + " rw=" + std::to_string(Code(w2)) + " pbytes=" + Hex(s1.writer().out) + " rbytes=" + Hex(s2.writer().out) +
           " psize=" + std::to_string(s1.GetSize(plain->v)) + " rsize=" + std::to_string(s2.GetSize(ref));
    // Protocol<T>: writes and reads exactly like the serializer it is given
    nop::Serializer<IWriter> s3; auto w3 = nop::Protocol<T>::Write(&s3, plain->v);
    auto back = std::make_unique<Holder<T>>();
    nop::Deserializer<IReader> d3; d3.reader().data = in.p; d3.reader().size = in.n; auto r3 = nop::Protocol<T>::Read(&d3, &back->v);
    std::string db; Dump(db, back->v);
    out += " qw=" + std::to_string(Code(w3)) + " qbytes=" + Hex(s3.writer().out) + " qr=" + std::to_string(Code(r3)) + " qval=" + db + " qcons=" + std::to_string(d3.reader().index);
  }
  return out;
}
static std::string DoRefW(const std::vector<Sx>& a) {
  const std::string& k = a.at(1).a;
  std::vector<std::uint8_t> bytes = UnHex(a.at(2).a);
  if (k == "u32") return RefW<std::uint32_t>(bytes);
  if (k == "i64") return RefW<std::int64_t>(bytes);
  if (k == "str") return RefW<std::string>(bytes);
  if (k == "vu8") return RefW<std::vector<std::uint8_t>>(bytes);
  if (k == "vi32") return RefW<std::vector<std::int32_t>>(bytes);
  if (k == "pair") return RefW<std::pair<std::int32_t, std::int32_t>>(bytes);
  return "HARNESS-ERROR kind";
}

// Protocol<P>::Write / Read take part in overload resolution exactly for the types fungible with P (protocol types
// that are C arrays included): a detection matrix over a list of types, next to IsFungible itself
template <typename...> struct MkVoid { using type = void; };
template <typename P, typename T, typename = void> struct CanWrite : std::false_type {};
template <typename P, typename T>
struct CanWrite<P, T, typename MkVoid<decltype(nop::Protocol<P>::Write(std::declval<nop::Serializer<IWriter>*>(), std::declval<const T&>()))>::type> : std::true_type {};
template <typename P, typename T, typename = void> struct CanRead : std::false_type {};
template <typename P, typename T>
struct CanRead<P, T, typename MkVoid<decltype(nop::Protocol<P>::Read(std::declval<nop::Deserializer<IReader>*>(), std::declval<T*>()))>::type> : std::true_type {};
template <typename... Ts> struct TypeList {};
template <typename P, typename... Ts>
static void ProtoRow(std::string& w, std::string& r, std::string& f, TypeList<Ts...>) {
  (void)std::initializer_list<int>{(w.push_back(CanWrite<P, Ts>::value ? '1' : '0'), r.push_back(CanRead<P, Ts>::value ? '1' : '0'),
                                    f.push_back(nop::IsFungible<P, Ts>::value ? '1' : '0'), 0)...};
  w.push_back('/'); r.push_back('/'); f.push_back('/');
}
template <typename... Ts>
static std::string ProtoMatrix(TypeList<Ts...> l) {
  std::string w, r, f;
  (void)std::initializer_list<int>{(ProtoRow<Ts>(w, r, f, l), 0)...};
  return "write=" + w + " read=" + r + " fungible=" + f;
}
static std::string DoProtoMatrix() {
  using I3 = int[3]; using I5 = int[5]; using F3 = float[3];
  return ProtoMatrix(TypeList<I3, I5, std::array<int, 3>, std::array<int, 5>, std::vector<int>, std::tuple<int, int, int>, std::pair<int, int>,
                              F3, std::array<float, 3>, std::vector<float>, std::tuple<float, float, float>, int, std::string, std::vector<std::string>, std::string[3],
                              std::vector<std::vector<int>>, std::vector<std::array<int, 3>>, std::vector<std::pair<int, std::string>>, std::vector<std::tuple<int, std::string>>>{});
}

// ------------------------------------------------------------------- endian --
template <typename T>
static std::string Endian(std::uint64_t bits) {
  T v; std::memcpy(&v, &bits, sizeof(T));
  T fl = nop::HostEndian<T>::FromLittle(v), tl = nop::HostEndian<T>::ToLittle(v);
  T fb = nop::HostEndian<T>::FromBig(v), tb = nop::HostEndian<T>::ToBig(v);
  auto show = [](T x) { std::uint64_t u = 0; std::memcpy(&u, &x, sizeof(T)); return std::to_string(u); };
  T rt1 = nop::HostEndian<T>::ToBig(nop::HostEndian<T>::FromBig(v));
  T rt2 = nop::HostEndian<T>::FromLittle(nop::HostEndian<T>::ToLittle(v));
  return "fl=" + show(fl) + " tl=" + show(tl) + " fb=" + show(fb) + " tb=" + show(tb) + " rtb=" + show(rt1) + " rtl=" + show(rt2);
}
static std::string DoEndian(const std::vector<Sx>& a) {
  const std::string& k = a.at(1).a;
  std::uint64_t bits = ParseInt<std::uint64_t>(a.at(2).a);
  if (k == "u8") return Endian<std::uint8_t>(bits);
  if (k == "i8") return Endian<std::int8_t>(bits);
  if (k == "u16") return Endian<std::uint16_t>(bits);
  if (k == "i16") return Endian<std::int16_t>(bits);
  if (k == "u32") return Endian<std::uint32_t>(bits);
  if (k == "i32") return Endian<std::int32_t>(bits);
  if (k == "u64") return Endian<std::uint64_t>(bits);
  if (k == "i64") return Endian<std::int64_t>(bits);
  if (k == "f32") return Endian<float>(bits);
  if (k == "f64") return Endian<double>(bits);
  return "HARNESS-ERROR kind";
}
// exhaustive sweep of a 16/32-bit domain against an independent byte reversal
template <typename T>
static std::string EndianSweep(std::uint64_t lo, std::uint64_t hi) {
  std::uint64_t bad = 0, first = 0;
  for (std::uint64_t b = lo; b < hi; b++) {
    T v; std::uint64_t bb = b; std::memcpy(&v, &bb, sizeof(T));
    T fb = nop::HostEndian<T>::FromBig(v), tb = nop::HostEndian<T>::ToBig(v);
    T fl = nop::HostEndian<T>::FromLittle(v), tl = nop::HostEndian<T>::ToLittle(v);
    std::uint8_t x[sizeof(T)], y[sizeof(T)];
    std::memcpy(x, &v, sizeof(T));
    for (std::size_t i = 0; i < sizeof(T); i++) y[i] = x[sizeof(T) - 1 - i];
    bool ok = std::memcmp(&fb, y, sizeof(T)) == 0 && std::memcmp(&tb, y, sizeof(T)) == 0 &&
              std::memcmp(&fl, x, sizeof(T)) == 0 && std::memcmp(&tl, x, sizeof(T)) == 0;
    if (!ok) { if (!bad) first = b; bad++; }
  }
  return "n=" + std::to_string(hi - lo) + " bad=" + std::to_string(bad) + " first=" + std::to_string(first);
}
static std::string DoEndianSweep(const std::vector<Sx>& a) {
  const std::string& k = a.at(1).a;
  std::uint64_t lo = ParseInt<std::uint64_t>(a.at(2).a), hi = ParseInt<std::uint64_t>(a.at(3).a);
  if (k == "u8") return EndianSweep<std::uint8_t>(lo, hi);
  if (k == "i8") return EndianSweep<std::int8_t>(lo, hi);
  if (k == "u16") return EndianSweep<std::uint16_t>(lo, hi);
  if (k == "i16") return EndianSweep<std::int16_t>(lo, hi);
  if (k == "u32") return EndianSweep<std::uint32_t>(lo, hi);
  if (k == "i32") return EndianSweep<std::int32_t>(lo, hi);
  if (k == "f32") return EndianSweep<float>(lo, hi);
  return "HARNESS-ERROR kind";
}

int main() {
  std::ios::sync_with_stdio(false);
  std::string line;
  while (std::getline(std::cin, line)) {
    if (line.empty() || line[0] == '#') { std::cout << line << "\n"; continue; }
    std::vector<Sx> a = ParseLine(line);
    std::string out;
    try {
      const std::string& op = a.at(0).a;
      if (op == "rseq") out = DoRseq(a);
      else if (op == "rcopy") out = DoRCopy(a);
      else if (op == "wseq") out = DoWseq(a);
      else if (op == "sip") out = DoSip(a);
      else if (op == "sipnames") out = DoSipNames();
      else if (op == "siparr") out = DoSipArr(a);
      else if (op == "sipbig") out = DoSipBig(a);
      else if (op == "refw") out = DoRefW(a);
      else if (op == "protomatrix") out = DoProtoMatrix();
      else if (op == "endian") out = DoEndian(a);
      else if (op == "endiansweep") out = DoEndianSweep(a);
      else out = "HARNESS-ERROR unknown op " + op;
    } catch (const std::exception& e) { out = std::string("EXCEPTION ") + e.what(); }
    std::cout << out << "\n" << std::flush;
  }
  return 0;
}
