// objs.cpp — object-lifetime harness (C12, C13, C15): operation sequences on
// nop::Optional / Entry, nop::Result / Status, nop::Variant and nop::UniqueHandle
// holding element types that track their own lifetime.
#include <array>
#include <cstdint>
#include <cstring>
#include <iostream>
#include <limits>
#include <memory>
#include <new>
#include <sstream>
#include <string>
#include <vector>

#include <nop/status.h>
#include <nop/table.h>
#include <nop/types/handle.h>
#include <nop/types/file_handle.h>
#include <fcntl.h>
#include <sys/mman.h>
#include <sys/syscall.h>
#include <unistd.h>
#include <nop/types/optional.h>
#include <nop/types/result.h>
#include <nop/types/variant.h>

// ------------------------------------------------------------ tracked element --
static long g_ctor = 0, g_dtor = 0, g_bad = 0;
static bool g_throw = false;   // the next element construction throws
struct Boom {};

template <int Tag>
struct Tr {
  int v;
  unsigned magic;
  static constexpr unsigned kAlive = 0xA11CE000u + Tag, kDead = 0xDEAD0000u + Tag;
  void Born() { if (g_throw) { g_throw = false; throw Boom{}; } magic = kAlive; g_ctor++; }
  bool Live() const { return magic == kAlive; }
  Tr() : v(0) { Born(); }
  Tr(int x) : v(x) { Born(); }
  Tr(const Tr& o) : v(o.v) { if (!o.Live()) g_bad++; Born(); }
  Tr(Tr&& o) : v(o.v) { if (!o.Live()) g_bad++; Born(); o.v = -1; }
  Tr& operator=(const Tr& o) { if (!Live() || !o.Live()) g_bad++; v = o.v; return *this; }
  Tr& operator=(Tr&& o) { if (!Live() || !o.Live()) g_bad++; int t = o.v; if (&o != this) o.v = -1; v = t; return *this; }
  Tr& operator=(int x) { if (!Live()) g_bad++; v = x; return *this; }
  ~Tr() { if (!Live()) g_bad++; magic = kDead; g_dtor++; }
  bool operator==(const Tr& o) const { return v == o.v; }
  bool operator<(const Tr& o) const { return v < o.v; }
};
using T0 = Tr<0>;

static std::vector<std::string> Split(const std::string& s, char sep) {
  std::vector<std::string> out;
  std::stringstream ss(s);
  std::string item;
  while (std::getline(ss, item, sep)) out.push_back(item);
  return out;
}

// windowed accounting: only what happens between Open() and Close() is attributed to the library
struct Window {
  long c0, d0;
  static long ctor, dtor;
  void Open() { c0 = g_ctor; d0 = g_dtor; }
  void Close() { ctor += g_ctor - c0; dtor += g_dtor - d0; }
};
long Window::ctor = 0, Window::dtor = 0;

template <typename Obj, int K = 3>
struct Pool {
  alignas(Obj) unsigned char mem[K][sizeof(Obj)];
  bool alive[K] = {false, false, false};
  Obj* at(int i) { return reinterpret_cast<Obj*>(mem[i]); }
};

static std::string Head() { return std::to_string(Window::ctor) + ":" + std::to_string(Window::dtor) + ":" + std::to_string(g_bad); }

// ------------------------------------------------------------------ Optional --
template <typename O>
static std::string DumpOpt(Pool<O>& p) {
  std::string s;
  for (int i = 0; i < 3; i++) {
    if (i) s += ";";
    if (!p.alive[i]) { s += "X"; continue; }
    O* o = p.at(i);
    bool e = o->empty();
    if (static_cast<bool>(*o) == e) { s += "INCONSISTENT"; continue; }
    if (e) s += "E"; else s += "S" + std::to_string(o->get().v);
  }
  return s;
}

template <typename O>
static std::string RunOpt(const std::vector<std::string>& ops) {
  auto p = std::make_unique<Pool<O>>();
  std::string out;
  Window w;
  for (const auto& op : ops) {
    char c = op[0];
    std::vector<std::string> a = Split(op.substr(1), ':');
    int i = std::stoi(a[0]);
    int x = a.size() > 1 ? std::stoi(a[1]) : 0;
    bool done = true;
    std::string extra;
    auto dead = [&](int k) { return k >= 0 && k < 3 && !p->alive[k]; };
    auto live = [&](int k) { return k >= 0 && k < 3 && p->alive[k]; };
    switch (c) {
      case 'N': if (dead(i)) { w.Open(); new (p->mem[i]) O(); w.Close(); p->alive[i] = true; } else done = false; break;
      case 'V': if (dead(i)) { T0 tmp(x); w.Open(); new (p->mem[i]) O(tmp); w.Close(); p->alive[i] = true; } else done = false; break;
      case 'M': if (dead(i)) { T0 tmp(x); w.Open(); new (p->mem[i]) O(std::move(tmp)); w.Close(); p->alive[i] = true; } else done = false; break;
      case 'I': if (dead(i)) { w.Open(); new (p->mem[i]) O(nop::InPlace{}, x); w.Close(); p->alive[i] = true; } else done = false; break;
      case 'C': if (dead(i) && live(x)) { w.Open(); new (p->mem[i]) O(*p->at(x)); w.Close(); p->alive[i] = true; } else done = false; break;
      case 'X': if (dead(i) && live(x)) { w.Open(); new (p->mem[i]) O(std::move(*p->at(x))); w.Close(); p->alive[i] = true; } else done = false; break;
      case 'D': if (live(i)) { w.Open(); p->at(i)->~O(); w.Close(); p->alive[i] = false; } else done = false; break;
      case 'a': if (live(i) && live(x)) { w.Open(); *p->at(i) = *p->at(x); w.Close(); } else done = false; break;
      case 'm': if (live(i) && live(x)) { w.Open(); *p->at(i) = std::move(*p->at(x)); w.Close(); } else done = false; break;
      case 'v': if (live(i)) { T0 tmp(x); w.Open(); *p->at(i) = tmp; w.Close(); } else done = false; break;
      case 'w': if (live(i)) { T0 tmp(x); w.Open(); *p->at(i) = std::move(tmp); w.Close(); } else done = false; break;
      case 'u': if (live(i)) { nop::Optional<int> oi(x); w.Open(); *p->at(i) = oi; w.Close(); } else done = false; break;
      case 'e': if (live(i)) { nop::Optional<int> oi; w.Open(); *p->at(i) = oi; w.Close(); } else done = false; break;
      case 'c': if (live(i)) { w.Open(); p->at(i)->clear(); w.Close(); } else done = false; break;
      case 't': if (live(i) && !p->at(i)->empty()) { w.Open(); { T0 y = p->at(i)->take(); (void)y; } w.Close(); } else done = false; break;
      // T: assignment of a value whose copy constructor throws (when the target is empty the element is constructed in
      // place: the exception must leave the target empty); O: move-assignment from a plain Optional<T> holding x,
      // which must be left empty (the target may be an Entry)
      case 'T':
        if (live(i)) { T0 tmp(x); w.Open(); g_throw = true; try { *p->at(i) = tmp; } catch (const Boom&) {} g_throw = false; w.Close(); } else done = false;
        break;
      case 'O':
        if (live(i)) {
          w.Open();
          { nop::Optional<T0> src{T0(x)}; *p->at(i) = std::move(src); if (!src.empty()) extra = "SRC-NOT-EMPTIED"; }
          w.Close();
          Window::ctor -= 1; Window::dtor -= 1;      // the temporary T0(x) of the harness
        } else done = false;
        break;
      default: done = false;
    }
    if (!out.empty()) out += " ";
    out += (done ? "" : "skip ") + Head() + "|" + DumpOpt(*p) + extra;
  }
  for (int i = 0; i < 3; i++) if (p->alive[i]) { w.Open(); p->at(i)->~O(); w.Close(); }
  out += " end=" + Head();
  return out;
}

// -------------------------------------------------------------------- Result --
enum class Er : int { None = 0, A = 1, B = 2, C = 3 };

template <typename R>
static std::string DumpRes(Pool<R>& p) {
  std::string s;
  for (int i = 0; i < 3; i++) {
    if (i) s += ";";
    if (!p.alive[i]) { s += "X"; continue; }
    R* r = p.at(i);
    bool hv = r->has_value(), he = r->has_error();
    if ((hv && he) || static_cast<bool>(*r) != hv || (!he && static_cast<int>(r->error()) != 0)) { s += "INCONSISTENT"; continue; }
    if (hv) s += "V" + std::to_string(r->get().v);
    else if (he) s += "R" + std::to_string(static_cast<int>(r->error()));
    else s += "E";
  }
  return s;
}

template <typename R, typename E>
static std::string RunRes(const std::vector<std::string>& ops) {
  auto p = std::make_unique<Pool<R>>();
  std::string out;
  Window w;
  for (const auto& op : ops) {
    char c = op[0];
    std::vector<std::string> a = Split(op.substr(1), ':');
    int i = std::stoi(a[0]);
    int x = a.size() > 1 ? std::stoi(a[1]) : 0;
    bool done = true;
    auto dead = [&](int k) { return k >= 0 && k < 3 && !p->alive[k]; };
    auto live = [&](int k) { return k >= 0 && k < 3 && p->alive[k]; };
    switch (c) {
      case 'N': if (dead(i)) { w.Open(); new (p->mem[i]) R(); w.Close(); p->alive[i] = true; } else done = false; break;
      case 'V': if (dead(i)) { T0 tmp(x); w.Open(); new (p->mem[i]) R(tmp); w.Close(); p->alive[i] = true; } else done = false; break;
      case 'M': if (dead(i)) { T0 tmp(x); w.Open(); new (p->mem[i]) R(std::move(tmp)); w.Close(); p->alive[i] = true; } else done = false; break;
      case 'E': if (dead(i)) { w.Open(); new (p->mem[i]) R(static_cast<E>(x)); w.Close(); p->alive[i] = true; } else done = false; break;
      case 'C': if (dead(i) && live(x)) { w.Open(); new (p->mem[i]) R(*p->at(x)); w.Close(); p->alive[i] = true; } else done = false; break;
      case 'X': if (dead(i) && live(x)) { w.Open(); new (p->mem[i]) R(std::move(*p->at(x))); w.Close(); p->alive[i] = true; } else done = false; break;
      case 'D': if (live(i)) { w.Open(); p->at(i)->~R(); w.Close(); p->alive[i] = false; } else done = false; break;
      case 'a': if (live(i) && live(x)) { w.Open(); *p->at(i) = *p->at(x); w.Close(); } else done = false; break;
      case 'm': if (live(i) && live(x)) { w.Open(); *p->at(i) = std::move(*p->at(x)); w.Close(); } else done = false; break;
      case 'v': if (live(i)) { T0 tmp(x); w.Open(); *p->at(i) = tmp; w.Close(); } else done = false; break;
      case 'w': if (live(i)) { T0 tmp(x); w.Open(); *p->at(i) = std::move(tmp); w.Close(); } else done = false; break;
      case 'r': if (live(i)) { w.Open(); *p->at(i) = static_cast<E>(x); w.Close(); } else done = false; break;
      case 'c': if (live(i)) { w.Open(); p->at(i)->clear(); w.Close(); } else done = false; break;
      case 't': if (live(i) && p->at(i)->has_value()) { w.Open(); { T0 y = p->at(i)->take(); (void)y; } w.Close(); } else done = false; break;
      default: done = false;
    }
    if (!out.empty()) out += " ";
    out += (done ? "" : "skip ") + Head() + "|" + DumpRes(*p);
  }
  for (int i = 0; i < 3; i++) if (p->alive[i]) { w.Open(); p->at(i)->~R(); w.Close(); }
  out += " end=" + Head();
  return out;
}

// ------------------------------------------------------------------- Variant --
using Var = nop::Variant<Tr<0>, Tr<1>, Tr<2>>;

struct Visitor {
  int calls = 0, index = -2, value = 0;
  void operator()(const Tr<0>& e) { calls++; index = 0; value = e.v; }
  void operator()(const Tr<1>& e) { calls++; index = 1; value = e.v; }
  void operator()(const Tr<2>& e) { calls++; index = 2; value = e.v; }
  void operator()(nop::EmptyVariant) { calls++; index = -1; }
};

static std::string DumpVar(Pool<Var>& p) {
  std::string s;
  for (int i = 0; i < 3; i++) {
    if (i) s += ";";
    if (!p.alive[i]) { s += "X"; continue; }
    Var* v = p.at(i);
    Visitor vis;
    v->Visit(vis);
    int idx = v->index();
    bool ok = vis.calls == 1 && vis.index == idx && v->empty() == (idx == -1) &&
              (v->get<Tr<0>>() != nullptr) == (idx == 0) && (v->get<Tr<1>>() != nullptr) == (idx == 1) &&
              (v->get<Tr<2>>() != nullptr) == (idx == 2) && v->is<Tr<0>>() == (idx == 0) &&
              v->is<Tr<1>>() == (idx == 1) && v->is<Tr<2>>() == (idx == 2) && idx >= -1 && idx <= 2;
    if (!ok) { s += "INCONSISTENT"; continue; }
    if (idx == -1) s += "E"; else s += "A" + std::to_string(idx) + ":" + std::to_string(vis.value);
  }
  return s;
}

template <int K>
static void VarConstruct(void* mem, int x, bool thr) { Tr<K> tmp(x); g_throw = thr; try { new (mem) Var(tmp); } catch (...) { g_throw = false; throw; } g_throw = false; }
template <int K>
static void VarSet(Var* v, int x, bool thr) { Tr<K> tmp(x); g_throw = thr; try { *v = tmp; } catch (...) {} g_throw = false; }

static std::string RunVar(const std::vector<std::string>& ops) {
  auto p = std::make_unique<Pool<Var>>();
  std::string out;
  Window w;
  for (const auto& op : ops) {
    char c = op[0];
    std::vector<std::string> a = Split(op.substr(1), ':');
    int i = std::stoi(a[0]);
    int k = a.size() > 1 ? std::stoi(a[1]) : 0;
    int x = a.size() > 2 ? std::stoi(a[2]) : 0;
    bool thr = a.size() > 3 && a[3] == "1";
    bool done = true;
    auto dead = [&](int q) { return q >= 0 && q < 3 && !p->alive[q]; };
    auto live = [&](int q) { return q >= 0 && q < 3 && p->alive[q]; };
    auto alt = [&](int q) { return q >= 0 && q < 3; };
    switch (c) {
      case 'N': if (dead(i)) { w.Open(); new (p->mem[i]) Var(); w.Close(); p->alive[i] = true; } else done = false; break;
      case 'V':
        if (dead(i) && alt(k)) {
          w.Open();
          try { if (k == 0) VarConstruct<0>(p->mem[i], x, thr); else if (k == 1) VarConstruct<1>(p->mem[i], x, thr); else VarConstruct<2>(p->mem[i], x, thr); p->alive[i] = true; }
          catch (...) {}
          w.Close();
          // the temporary made by the harness is not the library's: take it out of the window
          Window::ctor -= 1; Window::dtor -= 1;
        } else done = false;
        break;
      case 'C': if (dead(i) && live(k)) { w.Open(); new (p->mem[i]) Var(*p->at(k)); w.Close(); p->alive[i] = true; } else done = false; break;
      case 'X': if (dead(i) && live(k)) { w.Open(); new (p->mem[i]) Var(std::move(*p->at(k))); w.Close(); p->alive[i] = true; } else done = false; break;
      case 'D': if (live(i)) { w.Open(); p->at(i)->~Var(); w.Close(); p->alive[i] = false; } else done = false; break;
      case 's':
        if (live(i) && alt(k)) {
          w.Open();
          if (k == 0) VarSet<0>(p->at(i), x, thr); else if (k == 1) VarSet<1>(p->at(i), x, thr); else VarSet<2>(p->at(i), x, thr);
          w.Close(); Window::ctor -= 1; Window::dtor -= 1;
        } else done = false;
        break;
      case 'e': if (live(i)) { w.Open(); *p->at(i) = nop::EmptyVariant{}; w.Close(); } else done = false; break;
      case 'a': if (live(i) && live(k)) { w.Open(); *p->at(i) = *p->at(k); w.Close(); } else done = false; break;
      case 'm': if (live(i) && live(k)) { w.Open(); *p->at(i) = std::move(*p->at(k)); w.Close(); } else done = false; break;
      case 'B': if (live(i)) { w.Open(); p->at(i)->Become(k); w.Close(); } else done = false; break;
      // the element's move constructor throws while the Variant is move-constructed (Y) / move-assigned (y): the
      // exception must come out (no std::terminate), nothing is constructed that is not destroyed later
      case 'Y':
        if (dead(i) && live(k)) {
          w.Open(); g_throw = true;
          try { new (p->mem[i]) Var(std::move(*p->at(k))); p->alive[i] = true; } catch (const Boom&) {}
          g_throw = false; w.Close();
        } else done = false;
        break;
      case 'y':
        if (live(i) && live(k)) {
          w.Open(); g_throw = true;
          try { *p->at(i) = std::move(*p->at(k)); } catch (const Boom&) {}
          g_throw = false; w.Close();
        } else done = false;
        break;
      default: done = false;
    }
    if (!out.empty()) out += " ";
    out += (done ? "" : "skip ") + Head() + "|" + DumpVar(*p);
  }
  for (int i = 0; i < 3; i++) if (p->alive[i]) { w.Open(); p->at(i)->~Var(); w.Close(); }
  out += " end=" + Head();
  return out;
}

// ---------------------------------------- Variant with trivially destructible siblings --
// alternatives 0 (float) and 2 (int) are trivially destructible, 1 and 3 track their lifetime
using VarM = nop::Variant<float, Tr<1>, int, Tr<3>>;

struct VisitorM {
  int calls = 0, index = -2, value = 0;
  void operator()(const float& e) { calls++; index = 0; value = static_cast<int>(e); }
  void operator()(const Tr<1>& e) { calls++; index = 1; value = e.v; }
  void operator()(const int& e) { calls++; index = 2; value = e; }
  void operator()(const Tr<3>& e) { calls++; index = 3; value = e.v; }
  void operator()(nop::EmptyVariant) { calls++; index = -1; }
};

static std::string DumpVarM(Pool<VarM>& p) {
  std::string s;
  for (int i = 0; i < 3; i++) {
    if (i) s += ";";
    if (!p.alive[i]) { s += "X"; continue; }
    VarM* v = p.at(i);
    VisitorM vis;
    v->Visit(vis);
    int idx = v->index();
    bool ok = vis.calls == 1 && vis.index == idx && v->empty() == (idx == -1) &&
              (v->get<float>() != nullptr) == (idx == 0) && (v->get<Tr<1>>() != nullptr) == (idx == 1) &&
              (v->get<int>() != nullptr) == (idx == 2) && (v->get<Tr<3>>() != nullptr) == (idx == 3) && idx >= -1 && idx <= 3;
    if (!ok) { s += "INCONSISTENT"; continue; }
    if (idx == -1) s += "E"; else s += "A" + std::to_string(idx) + ":" + std::to_string(vis.value);
  }
  return s;
}

// constructs / assigns alternative k from x; returns the number of harness temporaries of a tracked type it made
static int VarMConstruct(void* mem, int k, int x, bool thr) {
  switch (k) {
    case 0: new (mem) VarM(static_cast<float>(x)); return 0;
    case 1: { Tr<1> tmp(x); g_throw = thr; try { new (mem) VarM(tmp); } catch (...) { g_throw = false; throw; } g_throw = false; return 1; }
    case 2: new (mem) VarM(x); return 0;
    default: { Tr<3> tmp(x); g_throw = thr; try { new (mem) VarM(tmp); } catch (...) { g_throw = false; throw; } g_throw = false; return 1; }
  }
}
static int VarMSet(VarM* v, int k, int x, bool thr) {
  switch (k) {
    case 0: *v = static_cast<float>(x); return 0;
    case 1: { Tr<1> tmp(x); g_throw = thr; try { *v = tmp; } catch (...) {} g_throw = false; return 1; }
    case 2: *v = x; return 0;
    default: { Tr<3> tmp(x); g_throw = thr; try { *v = tmp; } catch (...) {} g_throw = false; return 1; }
  }
}

static std::string RunVarM(const std::vector<std::string>& ops) {
  auto p = std::make_unique<Pool<VarM>>();
  std::string out;
  Window w;
  for (const auto& op : ops) {
    char c = op[0];
    std::vector<std::string> a = Split(op.substr(1), ':');
    int i = std::stoi(a[0]);
    int k = a.size() > 1 ? std::stoi(a[1]) : 0;
    int x = a.size() > 2 ? std::stoi(a[2]) : 0;
    bool thr = a.size() > 3 && a[3] == "1" && (k == 1 || k == 3);
    bool done = true;
    auto dead = [&](int q) { return q >= 0 && q < 3 && !p->alive[q]; };
    auto live = [&](int q) { return q >= 0 && q < 3 && p->alive[q]; };
    auto alt = [&](int q) { return q >= 0 && q < 4; };
    switch (c) {
      case 'N': if (dead(i)) { w.Open(); new (p->mem[i]) VarM(); w.Close(); p->alive[i] = true; } else done = false; break;
      case 'V':
        if (dead(i) && alt(k)) {
          int tmp = (k == 1 || k == 3) ? 1 : 0;
          w.Open();
          try { VarMConstruct(p->mem[i], k, x, thr); p->alive[i] = true; } catch (...) {}
          w.Close();
          Window::ctor -= tmp; Window::dtor -= tmp;
        } else done = false;
        break;
      case 'C': if (dead(i) && live(k)) { w.Open(); new (p->mem[i]) VarM(*p->at(k)); w.Close(); p->alive[i] = true; } else done = false; break;
      case 'X': if (dead(i) && live(k)) { w.Open(); new (p->mem[i]) VarM(std::move(*p->at(k))); w.Close(); p->alive[i] = true; } else done = false; break;
      case 'D': if (live(i)) { w.Open(); p->at(i)->~VarM(); w.Close(); p->alive[i] = false; } else done = false; break;
      case 's':
        if (live(i) && alt(k)) {
          int tmp = (k == 1 || k == 3) ? 1 : 0;
          w.Open(); VarMSet(p->at(i), k, x, thr); w.Close();
          Window::ctor -= tmp; Window::dtor -= tmp;
        } else done = false;
        break;
      case 'e': if (live(i)) { w.Open(); *p->at(i) = nop::EmptyVariant{}; w.Close(); } else done = false; break;
      case 'a': if (live(i) && live(k)) { w.Open(); *p->at(i) = *p->at(k); w.Close(); } else done = false; break;
      case 'm': if (live(i) && live(k)) { w.Open(); *p->at(i) = std::move(*p->at(k)); w.Close(); } else done = false; break;
      case 'B': if (live(i)) { w.Open(); p->at(i)->Become(k); w.Close(); } else done = false; break;
      default: done = false;
    }
    if (!out.empty()) out += " ";
    out += (done ? "" : "skip ") + Head() + "|" + DumpVarM(*p);
  }
  for (int i = 0; i < 3; i++) if (p->alive[i]) { w.Open(); p->at(i)->~VarM(); w.Close(); }
  out += " end=" + Head();
  return out;
}

// ------------------------------------------ Variant over convertible element types --
// SrcA converts to TcA only and SrcB to TcB only (constructor and assignment operator, so no temporaries); VarO is another
// Variant type whose alternatives are all convertible to an alternative of VarC.
struct SrcA { int v; };
struct SrcB { int v; };
struct TcA : Tr<1> { TcA() {} TcA(const SrcA& s) : Tr<1>(s.v) {} TcA& operator=(const SrcA& s) { Tr<1>::operator=(s.v); return *this; } };
struct TcB : Tr<3> { TcB() {} TcB(const SrcB& s) : Tr<3>(s.v) {} TcB& operator=(const SrcB& s) { Tr<3>::operator=(s.v); return *this; } };
using VarC = nop::Variant<float, TcA, int, TcB>;
using VarO = nop::Variant<SrcA, SrcB, float, int>;

struct VisitorC {
  int calls = 0, index = -2, value = 0;
  void operator()(const float& e) { calls++; index = 0; value = static_cast<int>(e); }
  void operator()(const TcA& e) { calls++; index = 1; value = e.v; }
  void operator()(const int& e) { calls++; index = 2; value = e; }
  void operator()(const TcB& e) { calls++; index = 3; value = e.v; }
  void operator()(nop::EmptyVariant) { calls++; index = -1; }
};

static std::string DumpVarC(Pool<VarC>& p) {
  std::string s;
  for (int i = 0; i < 3; i++) {
    if (i) s += ";";
    if (!p.alive[i]) { s += "X"; continue; }
    VarC* v = p.at(i);
    const VarC* cv = v;
    VisitorC vis;
    v->Visit(vis);
    int idx = v->index();
    bool ok = vis.calls == 1 && vis.index == idx && v->empty() == (idx == -1) && idx >= -1 && idx <= 3 &&
              (v->get<float>() != nullptr) == (idx == 0) && (v->get<TcA>() != nullptr) == (idx == 1) &&
              (v->get<int>() != nullptr) == (idx == 2) && (v->get<TcB>() != nullptr) == (idx == 3);
    // by index, through const, and through std::get: the same element or nothing
    ok = ok && static_cast<const void*>(v->get<0>()) == static_cast<const void*>(v->get<float>()) &&
         static_cast<const void*>(v->get<1>()) == static_cast<const void*>(v->get<TcA>()) &&
         static_cast<const void*>(cv->get<2>()) == static_cast<const void*>(cv->get<int>()) &&
         static_cast<const void*>(cv->get<3>()) == static_cast<const void*>(v->get<TcB>());
    if (ok && idx == 1) ok = &std::get<TcA>(*v) == v->get<TcA>() && &std::get<1>(*cv) == v->get<TcA>() && std::get<TcA>(*v).v == vis.value;
    if (ok && idx == 2) ok = &std::get<int>(*cv) == v->get<int>() && &std::get<2>(*v) == v->get<int>();
    // IfAnyOf: the operation runs exactly when the active alternative is one of the listed types
    int tracked_calls = 0, tracked_value = -12345; double num = -12345;
    bool r1 = nop::IfAnyOf<TcA, TcB>::Call(v, [&](const auto& e) { tracked_calls++; tracked_value = e.v; });
    bool r2 = nop::IfAnyOf<float, int>::Get(cv, &num);
    ok = ok && r1 == (idx == 1 || idx == 3) && tracked_calls == (r1 ? 1 : 0) && (!r1 || tracked_value == vis.value) &&
         r2 == (idx == 0 || idx == 2) && (!r2 || static_cast<int>(num) == vis.value);
    if (!ok) { s += "INCONSISTENT"; continue; }
    if (idx == -1) s += "E"; else s += "A" + std::to_string(idx) + ":" + std::to_string(vis.value);
  }
  return s;
}

static int VarCConstruct(void* mem, int k, int x, bool thr) {
  switch (k) {
    case 0: new (mem) VarC(static_cast<float>(x)); return 0;
    case 1: { TcA tmp(SrcA{x}); g_throw = thr; try { new (mem) VarC(tmp); } catch (...) { g_throw = false; throw; } g_throw = false; return 1; }
    case 2: new (mem) VarC(x); return 0;
    default: { TcB tmp(SrcB{x}); g_throw = thr; try { new (mem) VarC(tmp); } catch (...) { g_throw = false; throw; } g_throw = false; return 1; }
  }
}
static int VarCSet(VarC* v, int k, int x, bool thr) {
  switch (k) {
    case 0: *v = static_cast<float>(x); return 0;
    case 1: { TcA tmp(SrcA{x}); g_throw = thr; try { *v = tmp; } catch (...) {} g_throw = false; return 1; }
    case 2: *v = x; return 0;
    default: { TcB tmp(SrcB{x}); g_throw = thr; try { *v = tmp; } catch (...) {} g_throw = false; return 1; }
  }
}
static VarO MakeOther(int j, int x) {
  switch (j) {
    case 0: return VarO(SrcA{x});
    case 1: return VarO(SrcB{x});
    case 2: return VarO(static_cast<float>(x));
    case 3: return VarO(x);
    default: return VarO();
  }
}

static std::string RunVarC(const std::vector<std::string>& ops) {
  auto p = std::make_unique<Pool<VarC>>();
  std::string out;
  Window w;
  for (const auto& op : ops) {
    char c = op[0];
    std::vector<std::string> a = Split(op.substr(1), ':');
    int i = std::stoi(a[0]);
    int k = a.size() > 1 ? std::stoi(a[1]) : 0;
    int x = a.size() > 2 ? std::stoi(a[2]) : 0;
    bool thr = a.size() > 3 && a[3] == "1" && (k == 1 || k == 3);
    bool done = true;
    auto dead = [&](int q) { return q >= 0 && q < 3 && !p->alive[q]; };
    auto live = [&](int q) { return q >= 0 && q < 3 && p->alive[q]; };
    auto alt = [&](int q) { return q >= 0 && q < 4; };
    switch (c) {
      case 'N': if (dead(i)) { w.Open(); new (p->mem[i]) VarC(); w.Close(); p->alive[i] = true; } else done = false; break;
      case 'V':
        if (dead(i) && alt(k)) {
          int tmp = (k == 1 || k == 3) ? 1 : 0;
          w.Open();
          try { VarCConstruct(p->mem[i], k, x, thr); p->alive[i] = true; } catch (...) {}
          w.Close();
          Window::ctor -= tmp; Window::dtor -= tmp;
        } else done = false;
        break;
      case 'C': if (dead(i) && live(k)) { w.Open(); new (p->mem[i]) VarC(*p->at(k)); w.Close(); p->alive[i] = true; } else done = false; break;
      case 'X': if (dead(i) && live(k)) { w.Open(); new (p->mem[i]) VarC(std::move(*p->at(k))); w.Close(); p->alive[i] = true; } else done = false; break;
      case 'D': if (live(i)) { w.Open(); p->at(i)->~VarC(); w.Close(); p->alive[i] = false; } else done = false; break;
      case 's':
        if (live(i) && alt(k)) {
          int tmp = (k == 1 || k == 3) ? 1 : 0;
          w.Open(); VarCSet(p->at(i), k, x, thr); w.Close();
          Window::ctor -= tmp; Window::dtor -= tmp;
        } else done = false;
        break;
      case 'e': if (live(i)) { w.Open(); *p->at(i) = nop::EmptyVariant{}; w.Close(); } else done = false; break;
      case 'a': if (live(i) && live(k)) { w.Open(); *p->at(i) = *p->at(k); w.Close(); } else done = false; break;
      case 'm': if (live(i) && live(k)) { w.Open(); *p->at(i) = std::move(*p->at(k)); w.Close(); } else done = false; break;
      case 'B': if (live(i)) { w.Open(); p->at(i)->Become(k); w.Close(); } else done = false; break;
      // converting construction / assignment from a type that is not an alternative (k = 1: SrcA -> TcA, k = 3: SrcB -> TcB)
      case 'K':
        if (dead(i) && (k == 1 || k == 3)) {
          w.Open(); if (k == 1) new (p->mem[i]) VarC(SrcA{x}); else new (p->mem[i]) VarC(SrcB{x}); w.Close();
          p->alive[i] = true;
        } else done = false;
        break;
      case 'k':
        if (live(i) && (k == 1 || k == 3)) { w.Open(); if (k == 1) *p->at(i) = SrcA{x}; else *p->at(i) = SrcB{x}; w.Close(); } else done = false;
        break;
      // construction / assignment from another Variant type holding alternative k (-1: empty), by copy and by move
      case 'O': if (dead(i) && k >= -1 && k < 4) { VarO o = MakeOther(k, x); w.Open(); new (p->mem[i]) VarC(o); w.Close(); p->alive[i] = true; } else done = false; break;
      case 'P': if (dead(i) && k >= -1 && k < 4) { VarO o = MakeOther(k, x); w.Open(); new (p->mem[i]) VarC(std::move(o)); w.Close(); p->alive[i] = true; } else done = false; break;
      case 'o': if (live(i) && k >= -1 && k < 4) { VarO o = MakeOther(k, x); w.Open(); *p->at(i) = o; w.Close(); } else done = false; break;
      case 'q': if (live(i) && k >= -1 && k < 4) { VarO o = MakeOther(k, x); w.Open(); *p->at(i) = std::move(o); w.Close(); } else done = false; break;
      default: done = false;
    }
    if (!out.empty()) out += " ";
    out += (done ? "" : "skip ") + Head() + "|" + DumpVarC(*p);
  }
  for (int i = 0; i < 3; i++) if (p->alive[i]) { w.Open(); p->at(i)->~VarC(); w.Close(); }
  out += " end=" + Head();
  return out;
}

// bool alternatives and pointers: a pointer never converts to the bool alternative (the library's IsConstructible
// excludes it), on construction as on assignment
static std::string VarBool() {
  std::string bad;
  const char* p = "abc";
  { nop::Variant<bool, std::string> v("abc"); if (!v.is<std::string>() || v.get<std::string>() == nullptr || *v.get<std::string>() != "abc") bad += " ctor-literal:" + std::to_string(v.index()); }
  { nop::Variant<int, bool, std::string> v(p); if (v.index() != 2) bad += " ctor-pointer:" + std::to_string(v.index()); }
  { nop::Variant<bool, std::string> v; v = "abc"; if (!v.is<std::string>()) bad += " assign-literal:" + std::to_string(v.index()); }
  { nop::Variant<bool, std::string> v(true); if (!v.is<bool>() || !*v.get<bool>()) bad += " ctor-bool:" + std::to_string(v.index()); v = p; if (!v.is<std::string>()) bad += " assign-pointer:" + std::to_string(v.index()); }
  { nop::Variant<std::string, bool> v(p); if (v.index() != 0) bad += " ctor-pointer-string-first:" + std::to_string(v.index()); }
  return "varbool=" + (bad.empty() ? std::string("ok") : bad.substr(1));
}

// -------------------------------------------------------------- UniqueHandle --
static std::vector<long> g_closed, g_released;
struct CountPolicy {
  using Type = long;
  static constexpr Type Default() { return -1; }
  static bool IsValid(const Type& v) { return v >= 0; }
  static void Close(Type* v) { if (*v >= 0) g_closed.push_back(*v); *v = -1; }
  static Type Release(Type* v) { Type t = *v; *v = -1; return t; }
  static constexpr std::uint64_t HandleType() { return 1; }
};
using UH = nop::UniqueHandle<CountPolicy>;

static std::string ListOf(const std::vector<long>& v) {
  if (v.empty()) return "-";
  std::string s;
  for (size_t i = 0; i < v.size(); i++) { if (i) s += ","; s += std::to_string(v[i]); }
  return s;
}

static std::string RunUh(const std::vector<std::string>& ops) {
  auto p = std::make_unique<Pool<UH>>();
  g_closed.clear(); g_released.clear();
  std::string out;
  for (const auto& op : ops) {
    char c = op[0];
    std::vector<std::string> a = Split(op.substr(1), ':');
    int i = std::stoi(a[0]);
    long x = a.size() > 1 ? std::stol(a[1]) : 0;
    bool done = true;
    auto dead = [&](int q) { return q >= 0 && q < 3 && !p->alive[q]; };
    auto live = [&](int q) { return q >= 0 && q < 3 && p->alive[q]; };
    switch (c) {
      case 'N': if (dead(i)) { new (p->mem[i]) UH(); p->alive[i] = true; } else done = false; break;
      case 'V': if (dead(i)) { new (p->mem[i]) UH(x); p->alive[i] = true; } else done = false; break;
      case 'X': if (dead(i) && live(static_cast<int>(x))) { new (p->mem[i]) UH(std::move(*p->at(static_cast<int>(x)))); p->alive[i] = true; } else done = false; break;
      case 'D': if (live(i)) { p->at(i)->~UH(); p->alive[i] = false; } else done = false; break;
      case 'm': if (live(i) && live(static_cast<int>(x))) { *p->at(i) = std::move(*p->at(static_cast<int>(x))); } else done = false; break;
      case 'c': if (live(i)) { p->at(i)->close(); } else done = false; break;
      case 'r': if (live(i)) { long r = p->at(i)->release(); if (r >= 0) g_released.push_back(r); } else done = false; break;
      default: done = false;
    }
    std::string s;
    for (int q = 0; q < 3; q++) {
      if (q) s += ";";
      if (!p->alive[q]) { s += "X"; continue; }
      UH* h = p->at(q);
      if (static_cast<bool>(*h) != (h->get() >= 0)) { s += "INCONSISTENT"; continue; }
      s += std::to_string(h->get());
    }
    if (!out.empty()) out += " ";
    out += std::string(done ? "" : "skip ") + s + "|" + ListOf(g_closed) + "|" + ListOf(g_released);
  }
  for (int i = 0; i < 3; i++) if (p->alive[i]) { p->at(i)->~UH(); }
  out += " end=" + ListOf(g_closed) + "|" + ListOf(g_released);
  return out;
}

// the library's own DefaultHandlePolicy (Close only resets the value; nothing to log)
static std::string RunUdh(const std::vector<std::string>& ops) {
  using DH = nop::UniqueHandle<nop::DefaultHandlePolicy<long, -1>>;
  auto p = std::make_unique<Pool<DH>>();
  g_released.clear();
  std::string out;
  for (const auto& op : ops) {
    char c = op[0];
    std::vector<std::string> a = Split(op.substr(1), ':');
    int i = std::stoi(a[0]);
    long x = a.size() > 1 ? std::stol(a[1]) : 0;
    bool done = true;
    auto dead = [&](int q) { return q >= 0 && q < 3 && !p->alive[q]; };
    auto live = [&](int q) { return q >= 0 && q < 3 && p->alive[q]; };
    switch (c) {
      case 'N': if (dead(i)) { new (p->mem[i]) DH(); p->alive[i] = true; } else done = false; break;
      case 'V': if (dead(i)) { new (p->mem[i]) DH(x); p->alive[i] = true; } else done = false; break;
      case 'X': if (dead(i) && live(static_cast<int>(x))) { new (p->mem[i]) DH(std::move(*p->at(static_cast<int>(x)))); p->alive[i] = true; } else done = false; break;
      case 'D': if (live(i)) { p->at(i)->~DH(); p->alive[i] = false; } else done = false; break;
      case 'm': if (live(i) && live(static_cast<int>(x))) { *p->at(i) = std::move(*p->at(static_cast<int>(x))); } else done = false; break;
      case 'c': if (live(i)) { p->at(i)->close(); } else done = false; break;
      case 'r': if (live(i)) { long r = p->at(i)->release(); if (r >= 0) g_released.push_back(r); } else done = false; break;
      default: done = false;
    }
    std::string s;
    for (int q = 0; q < 3; q++) {
      if (q) s += ";";
      if (!p->alive[q]) { s += "X"; continue; }
      DH* h = p->at(q);
      if (static_cast<bool>(*h) != (h->get() != -1)) { s += "INCONSISTENT"; continue; }
      s += std::to_string(h->get());
    }
    if (!out.empty()) out += " ";
    out += std::string(done ? "" : "skip ") + s + "|-|" + ListOf(g_released);
  }
  for (int i = 0; i < 3; i++) if (p->alive[i]) { p->at(i)->~DH(); }
  out += " end=-|" + ListOf(g_released);
  return out;
}

// ------------------------------------------- UniqueFileHandle (real descriptors) --
// Every ::close() the library issues goes through this definition, which logs the descriptor while a history runs.
static bool g_track_close = false;
extern "C" int close(int fd) {
  if (g_track_close && fd >= 0) g_closed.push_back(fd);
  return static_cast<int>(syscall(SYS_close, fd));
}
static int RealClose(int fd) { return static_cast<int>(syscall(SYS_close, fd)); }

// the same histories as RunUh; resource number x >= 0 is the open descriptor x (descriptor 0 included: the harness's
// own standard input is parked on another descriptor while the history runs)
static std::string RunUfh(const std::vector<std::string>& ops) {
  using FH = nop::UniqueFileHandle;
  auto p = std::make_unique<Pool<FH>>();
  g_closed.clear(); g_released.clear();
  const int parked = fcntl(0, F_DUPFD, 300);
  RealClose(0);
  std::vector<int> made;
  auto make_fd = [&](long x) {
    int m = memfd_create("verif-ufh", 0);
    if (m != x) { dup2(m, static_cast<int>(x)); RealClose(m); }
    made.push_back(static_cast<int>(x));
  };
  std::string out;
  g_track_close = true;
  for (const auto& op : ops) {
    char c = op[0];
    std::vector<std::string> a = Split(op.substr(1), ':');
    int i = std::stoi(a[0]);
    long x = a.size() > 1 ? std::stol(a[1]) : 0;
    bool done = true;
    auto dead = [&](int q) { return q >= 0 && q < 3 && !p->alive[q]; };
    auto live = [&](int q) { return q >= 0 && q < 3 && p->alive[q]; };
    switch (c) {
      case 'N': if (dead(i)) { new (p->mem[i]) FH(); p->alive[i] = true; } else done = false; break;
      case 'V': if (dead(i)) { if (x >= 0) { g_track_close = false; make_fd(x); g_track_close = true; } new (p->mem[i]) FH(static_cast<int>(x)); p->alive[i] = true; } else done = false; break;
      case 'X': if (dead(i) && live(static_cast<int>(x))) { new (p->mem[i]) FH(std::move(*p->at(static_cast<int>(x)))); p->alive[i] = true; } else done = false; break;
      case 'D': if (live(i)) { p->at(i)->~FH(); p->alive[i] = false; } else done = false; break;
      case 'm': if (live(i) && live(static_cast<int>(x))) { *p->at(i) = std::move(*p->at(static_cast<int>(x))); } else done = false; break;
      case 'c': if (live(i)) { p->at(i)->close(); } else done = false; break;
      case 'r': if (live(i)) { long r = p->at(i)->release(); if (r >= 0) g_released.push_back(r); } else done = false; break;
      default: done = false;
    }
    std::string s;
    for (int q = 0; q < 3; q++) {
      if (q) s += ";";
      if (!p->alive[q]) { s += "X"; continue; }
      FH* h = p->at(q);
      if (static_cast<bool>(*h) != (h->get() >= 0)) { s += "INCONSISTENT"; continue; }
      // empty handles of any negative value print as the model's -1 only when they are the policy's empty value
      s += std::to_string(h->get());
    }
    if (!out.empty()) out += " ";
    out += std::string(done ? "" : "skip ") + s + "|" + ListOf(g_closed) + "|" + ListOf(g_released);
  }
  for (int i = 0; i < 3; i++) if (p->alive[i]) { p->at(i)->~FH(); }
  g_track_close = false;
  out += " end=" + ListOf(g_closed) + "|" + ListOf(g_released);
  // a descriptor the library should have closed and did not is still open here
  std::string open_left;
  for (int fd : made) {
    bool released = false;
    for (long r : g_released) released = released || r == fd;
    if (fcntl(fd, F_GETFD) != -1) { if (!released) open_left += (open_left.empty() ? "" : ",") + std::to_string(fd); RealClose(fd); }
  }
  out += " leaked=" + (open_left.empty() ? std::string("-") : open_left);
  dup2(parked, 0); RealClose(parked);
  return out;
}

// the named constructors of UniqueFileHandle: each returns an owner of a NEW descriptor (or an empty handle on failure),
// and the owner closes exactly that descriptor; the handle a duplicate was made from stays open
static std::string UfhNamed() {
  using FH = nop::UniqueFileHandle;
  std::string bad;
  auto is_open = [](int fd) { return fd >= 0 && fcntl(fd, F_GETFD) != -1; };
  g_closed.clear();
  g_track_close = true;
  int a = -1, d = -1, e = -1, src = memfd_create("verif-src", 0);
  {
    FH h = FH::Open("/dev/null", O_RDONLY);
    a = h.get();
    if (!h || !is_open(a)) bad += " open-invalid";
    {
      FH dup = FH::AsDuplicate(nop::FileHandle{src});
      d = dup.get();
      if (!dup || !is_open(d) || d == src) bad += " dup-invalid";
    }
    if (is_open(d)) bad += " dup-not-closed";
    if (!is_open(src)) bad += " dup-closed-its-source";
    if (!is_open(a)) bad += " open-closed-early";
    int dirfd = ::open("/dev", O_RDONLY | O_DIRECTORY);
    {
      FH at = FH::OpenAt(nop::FileHandle{dirfd}, "null", O_RDONLY);
      e = at.get();
      if (!at || !is_open(e) || e == dirfd) bad += " openat-invalid";
    }
    if (is_open(e)) bad += " openat-not-closed";
    if (!is_open(dirfd)) bad += " openat-closed-the-directory";
    g_track_close = false; RealClose(dirfd); g_track_close = true;
    FH none = FH::Open("/nonexistent/verif", O_RDONLY);
    if (none || none.get() >= 0) bad += " open-failure-not-empty";
  }
  g_track_close = false;
  if (is_open(a)) bad += " open-not-closed";
  RealClose(src);
  long ca = 0, cd = 0, ce = 0;
  for (long fd : g_closed) { ca += fd == a; cd += fd == d; ce += fd == e; }
  // d and e may reuse one number (d is closed before e is opened)
  if (ca != 1 || (d != e ? (cd != 1 || ce != 1) : cd + 0 != 2)) bad += " close-counts:" + std::to_string(ca) + "/" + std::to_string(cd) + "/" + std::to_string(ce);
  return "named=" + (bad.empty() ? std::string("ok") : bad.substr(1));
}

// ------------------------------------------------- the 18 comparison operators --
static std::string Cmp() {
  // operand states: E (empty), 0, 1, 2 ; for Optional-value the value side has no E
  std::string out;
  for (int a = -1; a <= 2; a++)
    for (int b = -1; b <= 2; b++) {
      nop::Optional<int> oa, ob;
      if (a >= 0) oa = a;
      if (b >= 0) ob = b;
      std::string bits;
      auto put = [&](bool x) { bits.push_back(x ? '1' : '0'); };
      put(oa == ob); put(oa != ob); put(oa < ob); put(oa > ob); put(oa <= ob); put(oa >= ob);
      if (b >= 0) { put(oa == b); put(oa != b); put(oa < b); put(oa > b); put(oa <= b); put(oa >= b); } else bits += "------";
      if (a >= 0) { put(a == ob); put(a != ob); put(a < ob); put(a > ob); put(a <= ob); put(a >= ob); } else bits += "------";
      if (!out.empty()) out += ",";
      out += std::to_string(a) + "/" + std::to_string(b) + "=" + bits;
    }
  return "cmp=" + out;
}

// the same operators when an operand is a table Entry (a class derived from Optional): Optional-Entry, Entry-Optional,
// Entry-Entry, Entry-value, value-Entry
static std::string CmpEntry() {
  std::string out;
  for (int a = -1; a <= 2; a++)
    for (int b = -1; b <= 2; b++) {
      nop::Optional<int> oa, ob; nop::Entry<int, 5> ea, eb;
      if (a >= 0) { oa = a; ea = a; }
      if (b >= 0) { ob = b; eb = b; }
      std::string bits;
      auto put = [&](bool x) { bits.push_back(x ? '1' : '0'); };
      put(oa == eb); put(oa != eb); put(oa < eb); put(oa > eb); put(oa <= eb); put(oa >= eb);
      put(ea == ob); put(ea != ob); put(ea < ob); put(ea > ob); put(ea <= ob); put(ea >= ob);
      put(ea == eb); put(ea != eb); put(ea < eb); put(ea > eb); put(ea <= eb); put(ea >= eb);
      if (b >= 0) { put(ea == b); put(ea != b); put(ea < b); put(ea > b); put(ea <= b); put(ea >= b); } else bits += "------";
      if (a >= 0) { put(a == eb); put(a != eb); put(a < eb); put(a > eb); put(a <= eb); put(a >= eb); } else bits += "------";
      if (!out.empty()) out += ",";
      out += std::to_string(a) + "/" + std::to_string(b) + "=" + bits;
    }
  return "cmpe=" + out;
}

// ------------------------------------------------------------ error messages --
static std::string Messages() {
  std::string out;
  for (int e = 0; e <= 20; e++) {
    nop::Status<void> s{static_cast<nop::ErrorStatus>(e)};
    if (!out.empty()) out += "|";
    out += std::to_string(e) + ":" + s.GetErrorMessage();
  }
  return "msgs=" + out;
}

int main() {
  std::ios::sync_with_stdio(false);
  std::string line;
  while (std::getline(std::cin, line)) {
    if (line.empty() || line[0] == '#') { std::cout << line << "\n"; continue; }
    std::vector<std::string> tok = Split(line, ' ');
    std::string out;
    g_ctor = g_dtor = g_bad = 0; Window::ctor = Window::dtor = 0; g_throw = false;
    try {
      std::vector<std::string> ops = tok.size() > 1 ? Split(tok[1], ',') : std::vector<std::string>{};
      if (tok[0] == "opt") out = RunOpt<nop::Optional<T0>>(ops);
      else if (tok[0] == "ent") out = RunOpt<nop::Entry<T0, 5>>(ops);
      else if (tok[0] == "res") out = RunRes<nop::Result<Er, T0>, Er>(ops);
      else if (tok[0] == "sta") out = RunRes<nop::Status<T0>, nop::ErrorStatus>(ops);
      else if (tok[0] == "var") out = RunVar(ops);
      else if (tok[0] == "varm") out = RunVarM(ops);
      else if (tok[0] == "varc") out = RunVarC(ops);
      else if (tok[0] == "varbool") out = VarBool();
      else if (tok[0] == "uh") out = RunUh(ops);
      else if (tok[0] == "ufh") out = RunUfh(ops);
      else if (tok[0] == "udh") out = RunUdh(ops);
      else if (tok[0] == "ufhnamed") out = UfhNamed();
      else if (tok[0] == "cmp") out = Cmp();
      else if (tok[0] == "cmpe") out = CmpEntry();
      else if (tok[0] == "msgs") out = Messages();
      else out = "HARNESS-ERROR unknown op";
    } catch (const std::exception& e) { out = std::string("EXCEPTION ") + e.what(); }
    catch (...) { out = "EXCEPTION unknown"; }
    std::cout << out << "\n" << std::flush;
  }
  return 0;
}
