// glue.h — hand-written part of the correspondence harness: s-expressions,
// Build/Dump for every standard and libnop container (written from the C++
// types themselves, never through libnop's traits), the instrumented reader
// and writer, and the per-type operation table.
#ifndef VERIF_HARNESS_GLUE_H_
#define VERIF_HARNESS_GLUE_H_

#include <array>
#include <cstdint>
#include <cstring>
#include <functional>
#include <limits>
#include <map>
#include <new>
#include <fcntl.h>
#include <fstream>
#include <sstream>
#include <string>
#include <tuple>
#include <type_traits>
#include <unordered_map>
#include <utility>
#include <vector>

#include <nop/serializer.h>
#include <nop/structure.h>
#include <nop/table.h>
#include <nop/value.h>
#include <nop/types/handle.h>
#include <nop/types/optional.h>
#include <nop/types/result.h>
#include <nop/types/variant.h>
#include <nop/utility/bounded_reader.h>
#include <nop/utility/bounded_writer.h>
#include <nop/utility/buffer_reader.h>
#include <nop/utility/buffer_writer.h>
#include <nop/utility/constexpr_buffer_writer.h>
#include <nop/utility/fd_reader.h>
#include <nop/utility/fd_writer.h>
#include <nop/utility/pedantic_buffer_reader.h>
#include <nop/utility/pedantic_buffer_writer.h>
#include <nop/utility/stream_reader.h>
#include <nop/utility/stream_writer.h>
#include <sys/mman.h>
#include <unistd.h>

namespace vh {

// ---------------------------------------------------------------- s-expr --
struct Sx {
  bool atom = true;
  std::string a;
  std::vector<Sx> l;
};

inline void SkipWs(const std::string& s, size_t& p) {
  while (p < s.size() && (s[p] == ' ' || s[p] == '\t')) p++;
}
inline Sx ParseItem(const std::string& s, size_t& p) {
  SkipWs(s, p);
  Sx x;
  if (p < s.size() && s[p] == '(') {
    p++;
    x.atom = false;
    while (true) {
      SkipWs(s, p);
      if (p >= s.size()) break;
      if (s[p] == ')') { p++; break; }
      x.l.push_back(ParseItem(s, p));
    }
  } else {
    size_t st = p;
    while (p < s.size() && s[p] != ' ' && s[p] != '(' && s[p] != ')' && s[p] != '\t') p++;
    x.a = s.substr(st, p - st);
  }
  return x;
}
inline std::vector<Sx> ParseLine(const std::string& s) {
  std::vector<Sx> out;
  size_t p = 0;
  while (true) {
    SkipWs(s, p);
    if (p >= s.size()) break;
    out.push_back(ParseItem(s, p));
  }
  return out;
}
inline bool IsTag(const Sx& x, const char* tag) {
  return !x.atom && !x.l.empty() && x.l[0].atom && x.l[0].a == tag;
}

struct BadValue { std::string what; };

// signed 64 / unsigned 64 from decimal text
inline std::uint64_t ParseU(const std::string& s) {
  std::uint64_t v = 0;
  for (char c : s) { if (c < '0' || c > '9') throw BadValue{"int " + s}; v = v * 10 + (c - '0'); }
  return v;
}
template <typename T>
inline T ParseInt(const std::string& s) {
  if (!s.empty() && s[0] == '-') {
    std::uint64_t m = ParseU(s.substr(1));
    return static_cast<T>(static_cast<std::uint64_t>(0) - m);
  }
  return static_cast<T>(ParseU(s));
}

inline std::string Hex(const std::uint8_t* p, size_t n) {
  static const char* d = "0123456789abcdef";
  if (n == 0) return "-";
  std::string s;
  s.reserve(2 * n);
  for (size_t i = 0; i < n; i++) { s.push_back(d[p[i] >> 4]); s.push_back(d[p[i] & 15]); }
  return s;
}
inline std::string Hex(const std::vector<std::uint8_t>& v) { return Hex(v.data(), v.size()); }
inline std::vector<std::uint8_t> UnHex(const std::string& s) {
  std::vector<std::uint8_t> v;
  if (s == "-") return v;
  auto h = [](char c) -> int { return c <= '9' ? c - '0' : (c | 32) - 'a' + 10; };
  for (size_t i = 0; i + 1 < s.size(); i += 2) v.push_back(static_cast<std::uint8_t>(h(s[i]) * 16 + h(s[i + 1])));
  return v;
}
inline std::vector<std::int64_t> ParseHandles(const std::string& s) {
  std::vector<std::int64_t> v;
  if (s == "-") return v;
  std::stringstream ss(s);
  std::string item;
  while (std::getline(ss, item, ',')) v.push_back(ParseInt<std::int64_t>(item));
  return v;
}
inline std::string ShowHandles(const std::vector<std::int64_t>& v) {
  if (v.empty()) return "-";
  std::string s;
  for (size_t i = 0; i < v.size(); i++) { if (i) s += ","; s += std::to_string(v[i]); }
  return s;
}

// ------------------------------------------------------------ Build/Dump --
template <typename T, typename E = void>
struct Glue;

template <typename T> void Build(T& o, const Sx& x) { Glue<T>::build(o, x); }
template <typename T> void Dump(std::string& s, const T& v) { Glue<T>::dump(s, v); }

// bool: through its object byte (array elements may hold any octet)
template <>
struct Glue<bool> {
  static void build(bool& o, const Sx& x) {
    unsigned char c = static_cast<unsigned char>(ParseInt<std::uint64_t>(x.a));
    std::memcpy(&o, &c, 1);
  }
  static void dump(std::string& s, const bool& v) {
    unsigned char c; std::memcpy(&c, &v, 1); s += std::to_string(static_cast<unsigned>(c));
  }
};

template <typename T>
struct Glue<T, std::enable_if_t<std::is_integral<T>::value && !std::is_same<T, bool>::value &&
                                !std::is_same<T, char>::value>> {
  static void build(T& o, const Sx& x) { if (!x.atom) throw BadValue{"int"}; o = ParseInt<T>(x.a); }
  static void dump(std::string& s, const T& v) {
    if (std::is_signed<T>::value) s += std::to_string(static_cast<long long>(v));
    else s += std::to_string(static_cast<unsigned long long>(v));
  }
};
// char: the unsigned octet, as Encoding<char> treats it
template <>
struct Glue<char> {
  static void build(char& o, const Sx& x) { o = static_cast<char>(ParseInt<std::uint8_t>(x.a)); }
  static void dump(std::string& s, const char& v) { s += std::to_string(static_cast<unsigned>(static_cast<unsigned char>(v))); }
};
template <typename T>
struct Glue<T, std::enable_if_t<std::is_enum<T>::value>> {
  using U = typename std::underlying_type<T>::type;
  static void build(T& o, const Sx& x) { U u{}; Glue<U>::build(u, x); std::memcpy(&o, &u, sizeof(u)); }
  static void dump(std::string& s, const T& v) { U u; std::memcpy(&u, &v, sizeof(u)); Glue<U>::dump(s, u); }
};
template <>
struct Glue<float> {
  static void build(float& o, const Sx& x) { std::uint32_t u = ParseInt<std::uint32_t>(x.a); std::memcpy(&o, &u, 4); }
  static void dump(std::string& s, const float& v) { std::uint32_t u; std::memcpy(&u, &v, 4); s += std::to_string(u); }
};
template <>
struct Glue<double> {
  static void build(double& o, const Sx& x) { std::uint64_t u = ParseInt<std::uint64_t>(x.a); std::memcpy(&o, &u, 8); }
  static void dump(std::string& s, const double& v) { std::uint64_t u; std::memcpy(&u, &v, 8); s += std::to_string(static_cast<unsigned long long>(u)); }
};

inline void NeedSeq(const Sx& x, const char* tag) { if (!IsTag(x, tag)) throw BadValue{std::string("expected ") + tag}; }

template <typename C, typename Tr, typename Al>
struct Glue<std::basic_string<C, Tr, Al>> {
  using S = std::basic_string<C, Tr, Al>;
  using UC = std::make_unsigned_t<C>;
  static void build(S& o, const Sx& x) {
    NeedSeq(x, "seq"); o.clear();
    for (size_t i = 1; i < x.l.size(); i++) o.push_back(static_cast<C>(ParseInt<UC>(x.l[i].a)));
  }
  static void dump(std::string& s, const S& v) {
    s += "(seq";
    for (C c : v) { s += " "; s += std::to_string(static_cast<unsigned long long>(static_cast<UC>(c))); }
    s += ")";
  }
};

template <typename T, typename A>
struct Glue<std::vector<T, A>> {
  static void build(std::vector<T, A>& o, const Sx& x) {
    NeedSeq(x, "seq"); o.clear();
    for (size_t i = 1; i < x.l.size(); i++) { T e{}; Build(e, x.l[i]); o.push_back(std::move(e)); }
  }
  static void dump(std::string& s, const std::vector<T, A>& v) {
    s += "(seq"; for (const T& e : v) { s += " "; Dump(s, e); } s += ")";
  }
};
template <typename T, size_t N>
struct Glue<std::array<T, N>> {
  static void build(std::array<T, N>& o, const Sx& x) {
    NeedSeq(x, "seq"); if (x.l.size() != N + 1) throw BadValue{"array length"};
    for (size_t i = 0; i < N; i++) Build(o[i], x.l[i + 1]);
  }
  static void dump(std::string& s, const std::array<T, N>& v) {
    s += "(seq"; for (size_t i = 0; i < N; i++) { s += " "; Dump(s, v[i]); } s += ")";
  }
};
template <typename T, size_t N>
struct Glue<T[N]> {
  static void build(T (&o)[N], const Sx& x) {
    NeedSeq(x, "seq"); if (x.l.size() != N + 1) throw BadValue{"array length"};
    for (size_t i = 0; i < N; i++) Build(o[i], x.l[i + 1]);
  }
  static void dump(std::string& s, const T (&v)[N]) {
    s += "(seq"; for (size_t i = 0; i < N; i++) { s += " "; Dump(s, v[i]); } s += ")";
  }
};
template <typename A, typename B>
struct Glue<std::pair<A, B>> {
  static void build(std::pair<A, B>& o, const Sx& x) {
    NeedSeq(x, "seq"); if (x.l.size() != 3) throw BadValue{"pair"};
    Build(o.first, x.l[1]); Build(o.second, x.l[2]);
  }
  static void dump(std::string& s, const std::pair<A, B>& v) {
    s += "(seq "; Dump(s, v.first); s += " "; Dump(s, v.second); s += ")";
  }
};
template <typename... Ts>
struct Glue<std::tuple<Ts...>> {
  using Tup = std::tuple<Ts...>;
  template <size_t... I>
  static void build_i(Tup& o, const Sx& x, std::index_sequence<I...>) {
    int dummy[] = {0, (Build(std::get<I>(o), x.l[I + 1]), 0)...}; (void)dummy;
  }
  template <size_t... I>
  static void dump_i(std::string& s, const Tup& v, std::index_sequence<I...>) {
    int dummy[] = {0, (s += " ", Dump(s, std::get<I>(v)), 0)...}; (void)dummy;
  }
  static void build(Tup& o, const Sx& x) {
    NeedSeq(x, "seq"); if (x.l.size() != sizeof...(Ts) + 1) throw BadValue{"tuple"};
    build_i(o, x, std::index_sequence_for<Ts...>{});
  }
  static void dump(std::string& s, const Tup& v) {
    s += "(seq"; dump_i(s, v, std::index_sequence_for<Ts...>{}); s += ")";
  }
};
template <typename M>
struct MapGlue {
  using K = typename M::key_type;
  using V = typename M::mapped_type;
  static void build(M& o, const Sx& x) {
    NeedSeq(x, "map"); o.clear();
    for (size_t i = 1; i < x.l.size(); i++) {
      if (x.l[i].atom || x.l[i].l.size() != 2) throw BadValue{"map entry"};
      K k{}; V v{}; Build(k, x.l[i].l[0]); Build(v, x.l[i].l[1]);
      o.emplace(std::move(k), std::move(v));
    }
  }
  // iteration order of the container
  static void dump(std::string& s, const M& m) {
    s += "(map";
    for (const auto& kv : m) { s += " ("; Dump(s, kv.first); s += " "; Dump(s, kv.second); s += ")"; }
    s += ")";
  }
};
template <typename K, typename V, typename C, typename A>
struct Glue<std::map<K, V, C, A>> : MapGlue<std::map<K, V, C, A>> {};
template <typename K, typename V, typename H, typename Q, typename A>
struct Glue<std::unordered_map<K, V, H, Q, A>> : MapGlue<std::unordered_map<K, V, H, Q, A>> {};

template <typename T>
struct Glue<nop::Optional<T>> {
  static void build(nop::Optional<T>& o, const Sx& x) {
    if (x.atom && x.a == "none") { o.clear(); return; }
    // through Optional<T>{T&&}: when T is itself an Optional, `o = std::move(e)` would pick the CONVERTING assignment
    // and an empty inner value would leave the outer one empty
    NeedSeq(x, "some"); T e{}; Build(e, x.l.at(1)); o = nop::Optional<T>{std::move(e)};
  }
  static void dump(std::string& s, const nop::Optional<T>& v) {
    if (v.empty()) { s += "none"; return; }
    s += "(some "; Dump(s, v.get()); s += ")";
  }
};
template <typename T, std::uint64_t Id>
struct Glue<nop::Entry<T, Id, nop::ActiveEntry>> {
  using E = nop::Entry<T, Id, nop::ActiveEntry>;
  static void build(E& o, const Sx& x) {
    if (x.atom && x.a == "none") { o.clear(); return; }
    NeedSeq(x, "some"); T e{}; Build(e, x.l.at(1)); o = nop::Optional<T>{std::move(e)};   // as above (an entry holding an Optional)
  }
  static void dump(std::string& s, const E& v) {
    if (v.empty()) { s += "none"; return; }
    s += "(some "; Dump(s, v.get()); s += ")";
  }
};
template <typename T, std::uint64_t Id>
struct Glue<nop::Entry<T, Id, nop::DeletedEntry>> {
  using E = nop::Entry<T, Id, nop::DeletedEntry>;
  static void build(E&, const Sx&) {}
  static void dump(std::string& s, const E&) { s += "none"; }
};
template <typename En, typename T>
struct Glue<nop::Result<En, T>> {
  using R = nop::Result<En, T>;
  static void build(R& o, const Sx& x) {
    if (IsTag(x, "err")) { En e{}; Build(e, x.l.at(1)); o = e; return; }
    NeedSeq(x, "ok"); T e{}; Build(e, x.l.at(1)); o = std::move(e);
  }
  static void dump(std::string& s, const R& v) {
    if (v.has_value()) { s += "(ok "; Dump(s, v.get()); s += ")"; }
    else { s += "(err "; En e = v.error(); Dump(s, e); s += ")"; }
  }
};
template <typename... Ts>
struct Glue<nop::Variant<Ts...>> {
  using V = nop::Variant<Ts...>;
  template <size_t I> using At = std::tuple_element_t<I, std::tuple<Ts...>>;
  template <size_t I>
  static std::enable_if_t<(I < sizeof...(Ts))> build_at(V& o, size_t i, const Sx& x) {
    if (i == I) { At<I> e{}; Build(e, x); o = std::move(e); } else build_at<I + 1>(o, i, x);
  }
  template <size_t I>
  static std::enable_if_t<(I >= sizeof...(Ts))> build_at(V&, size_t, const Sx&) { throw BadValue{"variant index"}; }
  template <size_t I>
  static std::enable_if_t<(I < sizeof...(Ts))> dump_at(std::string& s, const V& v, size_t i) {
    if (i == I) { const At<I>* p = v.template get<At<I>>(); if (!p) { s += "?"; return; } Dump(s, *p); }
    else dump_at<I + 1>(s, v, i);
  }
  template <size_t I>
  static std::enable_if_t<(I >= sizeof...(Ts))> dump_at(std::string& s, const V&, size_t) { s += "?"; }
  static void build(V& o, const Sx& x) {
    if (x.atom && x.a == "empty") { o = nop::EmptyVariant{}; return; }
    NeedSeq(x, "alt"); build_at<0>(o, ParseInt<std::uint32_t>(x.l.at(1).a), x.l.at(2));
  }
  static void dump(std::string& s, const V& v) {
    if (v.index() < 0) { s += "empty"; return; }
    s += "(alt " + std::to_string(v.index()) + " "; dump_at<0>(s, v, static_cast<size_t>(v.index())); s += ")";
  }
};
template <typename P>
struct Glue<nop::Handle<P>> {
  using H = nop::Handle<P>;
  static void build(H& o, const Sx& x) { NeedSeq(x, "hnd"); o = H{ParseInt<typename P::Type>(x.l.at(1).a)}; }
  static void dump(std::string& s, const H& v) { s += "(hnd " + std::to_string(static_cast<long long>(v.get())) + ")"; }
};

// helpers used by the generated Glue of structures with logical buffers
template <typename T, size_t N, typename S>
void BuildLBuf(T (&data)[N], S& size, const Sx& x) {
  NeedSeq(x, "seq"); size_t n = x.l.size() - 1; if (n > N) throw BadValue{"lbuf capacity"};
  for (size_t i = 0; i < n; i++) Build(data[i], x.l[i + 1]);
  size = static_cast<S>(n);
}
template <typename T, size_t N, typename S>
void BuildLBuf(std::array<T, N>& data, S& size, const Sx& x) {
  NeedSeq(x, "seq"); size_t n = x.l.size() - 1; if (n > N) throw BadValue{"lbuf capacity"};
  for (size_t i = 0; i < n; i++) Build(data[i], x.l[i + 1]);
  size = static_cast<S>(n);
}
template <typename D, typename S>
void DumpLBuf(std::string& s, const D& data, const S& size, size_t cap) {
  s += "(seq";
  size_t n = static_cast<size_t>(size);
  if (static_cast<std::uint64_t>(size) > cap || (std::is_signed<S>::value && size < 0)) { s += " !oversize " + std::to_string(static_cast<long long>(size)) + ")"; return; }
  for (size_t i = 0; i < n; i++) { s += " "; Dump(s, data[i]); }
  s += ")";
}

// ------------------------------------------------ instrumented I/O objects --
struct Fault { long k = -1; int code = 0; };

struct IWriter {
  std::vector<std::uint8_t> out;
  std::vector<std::int64_t> handles;
  Fault fault;
  long calls = 0;
  std::string log;
  bool want_log = false;
  bool table_mode = false;

  bool Hit(const std::string& entry) {
    if (want_log) { if (!log.empty()) log += ","; log += entry; }
    return calls++ == fault.k;
  }
  nop::Status<void> Prepare(std::size_t n) {
    if (Hit("P" + std::to_string(n))) return static_cast<nop::ErrorStatus>(fault.code);
    return {};
  }
  nop::Status<void> Write(std::uint8_t b) {
    if (Hit("w" + std::to_string(b))) return static_cast<nop::ErrorStatus>(fault.code);
    out.push_back(b);
    return {};
  }
  template <typename T, typename En = nop::EnableIfArithmetic<T>>
  nop::Status<void> Write(const T* begin, const T* end) {
    const std::size_t n = static_cast<std::size_t>(end - begin) * sizeof(T);
    std::vector<std::uint8_t> tmp(n);
    if (n) std::memcpy(tmp.data(), begin, n);
    if (Hit(want_log ? "W" + Hex(tmp) : std::string())) return static_cast<nop::ErrorStatus>(fault.code);
    out.insert(out.end(), tmp.begin(), tmp.end());
    return {};
  }
  nop::Status<void> Skip(std::size_t n, std::uint8_t v = 0x00) {
    if (Hit("K" + std::to_string(n) + ":" + std::to_string(v))) return static_cast<nop::ErrorStatus>(fault.code);
    out.insert(out.end(), n, v);
    return {};
  }
  template <typename HandleType>
  nop::Status<nop::HandleReference> PushHandle(const HandleType& h) {
    if (Hit("H" + std::to_string(static_cast<long long>(h.get())))) return static_cast<nop::ErrorStatus>(fault.code);
    if (!table_mode) return static_cast<nop::HandleReference>(h.get());   // identity references
    if (static_cast<long long>(h.get()) < 0) return nop::HandleReference{-1};
    handles.push_back(static_cast<std::int64_t>(h.get()));
    return static_cast<nop::HandleReference>(handles.size() - 1);
  }
};

struct IReader {
  const std::uint8_t* data = nullptr;  // exactly-sized heap block (ASan red zones)
  std::size_t size = 0;
  std::size_t index = 0;
  std::vector<std::int64_t> handles;
  Fault fault;
  long calls = 0;
  std::string log;
  bool want_log = false;
  bool table_mode = false;

  bool Hit(const std::string& entry) {
    if (want_log) { if (!log.empty()) log += ","; log += entry; }
    return calls++ == fault.k;
  }
  nop::Status<void> Ensure(std::size_t n) {
    if (Hit("E" + std::to_string(n))) return static_cast<nop::ErrorStatus>(fault.code);
    if (size - index < n) return nop::ErrorStatus::ReadLimitReached;
    return {};
  }
  nop::Status<void> Read(std::uint8_t* byte) {
    if (Hit("r")) return static_cast<nop::ErrorStatus>(fault.code);
    if (index >= size) return nop::ErrorStatus::ReadLimitReached;
    *byte = data[index++];
    return {};
  }
  template <typename T, typename En = nop::EnableIfArithmetic<T>>
  nop::Status<void> Read(T* begin, T* end) {
    const std::size_t n = static_cast<std::size_t>(end - begin) * sizeof(T);
    if (Hit("R" + std::to_string(n))) return static_cast<nop::ErrorStatus>(fault.code);
    if (n > size - index) return nop::ErrorStatus::ReadLimitReached;
    if (n) std::memcpy(begin, data + index, n);
    index += n;
    return {};
  }
  nop::Status<void> Skip(std::size_t n) {
    if (Hit("S" + std::to_string(n))) return static_cast<nop::ErrorStatus>(fault.code);
    if (n > size - index) return nop::ErrorStatus::ReadLimitReached;
    index += n;
    return {};
  }
  template <typename HandleType>
  nop::Status<HandleType> GetHandle(nop::HandleReference ref) {
    if (Hit("G" + std::to_string(static_cast<long long>(ref)))) return static_cast<nop::ErrorStatus>(fault.code);
    if (!table_mode) return HandleType{static_cast<typename HandleType::Type>(ref)};   // identity references
    if (ref == nop::kEmptyHandleReference) return HandleType{};
    if (ref < 0 || static_cast<std::size_t>(ref) >= handles.size()) return nop::ErrorStatus::InvalidHandleReference;
    return HandleType{static_cast<typename HandleType::Type>(handles[static_cast<std::size_t>(ref)])};
  }
};

template <typename T>
inline int Code(const nop::Status<T>& s) { return s ? 0 : static_cast<int>(s.error()); }

// exactly-sized heap copy of the input so that ASan sees any over-read
struct HeapBytes {
  std::uint8_t* p;
  std::size_t n;
  explicit HeapBytes(const std::vector<std::uint8_t>& v) : p(new std::uint8_t[v.size() ? v.size() : 1]), n(v.size()) {
    if (n) std::memcpy(p, v.data(), n);
  }
  ~HeapBytes() { delete[] p; }
  HeapBytes(const HeapBytes&) = delete;
  HeapBytes& operator=(const HeapBytes&) = delete;
};

// value-initialised object of any T (including C arrays)
template <typename T>
struct Holder { T v{}; };

// ------------------------------------------------------------ operations --
using OpFn = std::string (*)(const std::vector<Sx>&);
struct Registry {
  std::map<std::string, OpFn> core;   // enc / dec / fenc / fdec
  std::map<std::string, OpFn> lib;    // library readers and writers
};

// byte-counting global operator new (defined in main.cpp)
std::size_t& AllocCounter();

// shared stream for the back-to-back (sequence) operations
inline IWriter& SharedWriter() { static IWriter w; return w; }
inline IReader& SharedReader() { static IReader r; return r; }

template <typename T>
std::string CoreOps(const std::vector<Sx>& a) {
  const std::string& op = a.at(0).a;
  try {
    if (op == "hostile") {       // hostile T KIND HEX VALIDHEX : C02 / C11
      const std::string& kind = a.at(2).a;
      std::vector<std::uint8_t> bytes = UnHex(a.at(3).a), good = UnHex(a.at(4).a);
      HeapBytes in(bytes), in2(good);
      auto h = std::make_unique<Holder<T>>();
      AllocCounter() = 0;
      int code = 0; std::size_t consumed = 0;
      if (kind == "inst") {
        nop::Deserializer<IReader> d; d.reader().data = in.p; d.reader().size = in.n;
        code = Code(d.Read(&h->v)); consumed = d.reader().index;
      } else if (kind == "binst") {
        IReader r; r.data = in.p; r.size = in.n;
        nop::Deserializer<nop::BoundedReader<IReader>> d{&r, in.n};
        code = Code(d.Read(&h->v)); consumed = r.index;
      } else return "HARNESS-ERROR kind";
      const std::size_t alloc = AllocCounter();
      std::string partial; Dump(partial, h->v);                 // inspect
      // read a valid encoding into the same object and into a fresh one
      std::string again, fresh; int c2, c3;
      { nop::Deserializer<IReader> d; d.reader().data = in2.p; d.reader().size = in2.n; c2 = Code(d.Read(&h->v)); Dump(again, h->v); }
      { auto f = std::make_unique<Holder<T>>(); nop::Deserializer<IReader> d; d.reader().data = in2.p; d.reader().size = in2.n; c3 = Code(d.Read(&f->v)); Dump(fresh, f->v); }
      return "st=" + std::to_string(code) + " consumed=" + std::to_string(consumed) + " alloc=" + std::to_string(alloc) +
             " reuse=" + ((c2 == c3 && again == fresh) ? "ok" : ("diff:" + std::to_string(c2) + "/" + std::to_string(c3) + ":" + again + "/" + fresh));
    } else if (op == "sizeof") {
      return "sizeof=" + std::to_string(sizeof(T));
    } else if (op == "wput") {          // append one value to the shared stream
      auto h = std::make_unique<Holder<T>>();
      Build(h->v, a.at(2));
      nop::Serializer<IWriter*> ser{&SharedWriter()};
      auto st = ser.Write(h->v);
      return "st=" + std::to_string(Code(st)) + " end=" + std::to_string(SharedWriter().out.size());
    } else if (op == "rget") {   // read the next value from the shared stream
      nop::Deserializer<IReader*> des{&SharedReader()};
      auto h = std::make_unique<Holder<T>>();
      auto st = des.Read(&h->v);
      if (!st) return "st=" + std::to_string(Code(st));
      std::string dump; Dump(dump, h->v);
      return "st=0 val=" + dump + " end=" + std::to_string(SharedReader().index);
    }
    if (op == "enc") {
      auto h = std::make_unique<Holder<T>>();
      Build(h->v, a.at(2));
      std::string dump; Dump(dump, h->v);
      nop::Serializer<IWriter> ser;
      const std::size_t size = ser.GetSize(h->v);
      auto st = ser.Write(h->v);
      return "dump=" + dump + " size=" + std::to_string(size) + " st=" + std::to_string(Code(st)) +
             " bytes=" + Hex(ser.writer().out) + " handles=" + ShowHandles(ser.writer().handles);
    } else if (op == "dec") {
      HeapBytes in(UnHex(a.at(2).a));
      nop::Deserializer<IReader> des;
      des.reader().data = in.p; des.reader().size = in.n; des.reader().handles = ParseHandles(a.at(3).a);
      auto h = std::make_unique<Holder<T>>();
      if (a.size() > 4) Build(h->v, a.at(4));   // prior contents
      auto st = des.Read(&h->v);
      std::string dump; Dump(dump, h->v);
      if (st) return "st=0 val=" + dump + " consumed=" + std::to_string(des.reader().index);
      return "st=" + std::to_string(Code(st)) + " partial=" + dump;
    } else if (op == "tenc") {
      auto h = std::make_unique<Holder<T>>();
      Build(h->v, a.at(2));
      nop::Serializer<IWriter> ser;
      ser.writer().table_mode = true;
      auto st = ser.Write(h->v);
      return "st=" + std::to_string(Code(st)) + " bytes=" + Hex(ser.writer().out) + " handles=" + ShowHandles(ser.writer().handles);
    } else if (op == "tdec") {
      HeapBytes in(UnHex(a.at(2).a));
      nop::Deserializer<IReader> des;
      des.reader().data = in.p; des.reader().size = in.n; des.reader().handles = ParseHandles(a.at(3).a);
      des.reader().table_mode = true;
      auto h = std::make_unique<Holder<T>>();
      auto st = des.Read(&h->v);
      if (!st) return "st=" + std::to_string(Code(st));
      std::string dump; Dump(dump, h->v);
      return "st=0 val=" + dump + " consumed=" + std::to_string(des.reader().index);
    } else if (op == "fenc" || op == "fencp" || op == "fencu") {
      // fenc: Serializer<IWriter>; fencp / fencu: the pointer and unique_ptr specialisations over the same writer
      auto h = std::make_unique<Holder<T>>();
      Build(h->v, a.at(4));
      auto arm = [&](IWriter& w) {
        w.want_log = true;
        if (a.at(2).a != "-") { w.fault.k = ParseInt<long>(a.at(2).a); w.fault.code = ParseInt<int>(a.at(3).a); }
      };
      auto show = [&](int st, IWriter& w) {
        return "st=" + std::to_string(st) + " calls=" + std::to_string(w.calls) + " log=" + (w.log.empty() ? "-" : w.log);
      };
      if (op == "fencp") { IWriter w; arm(w); nop::Serializer<IWriter*> ser{&w}; auto st = ser.Write(h->v); return show(Code(st), w); }
      if (op == "fencu") { nop::Serializer<std::unique_ptr<IWriter>> ser{std::make_unique<IWriter>()}; arm(ser.writer()); auto st = ser.Write(h->v); return show(Code(st), ser.writer()); }
      nop::Serializer<IWriter> ser;
      arm(ser.writer());
      auto st = ser.Write(h->v);
      return show(Code(st), ser.writer());
    } else if (op == "fdec" || op == "fdecp" || op == "fdecu") {
      HeapBytes in(UnHex(a.at(4).a));
      auto arm = [&](IReader& r) {
        r.data = in.p; r.size = in.n; r.handles = ParseHandles(a.at(5).a);
        r.want_log = true;
        if (a.at(2).a != "-") { r.fault.k = ParseInt<long>(a.at(2).a); r.fault.code = ParseInt<int>(a.at(3).a); }
      };
      auto h = std::make_unique<Holder<T>>();
      auto show = [&](int st, IReader& rd) {
        std::string r = "st=" + std::to_string(st);
        if (!st) { std::string dump; Dump(dump, h->v); r += " val=" + dump; }
        return r + " calls=" + std::to_string(rd.calls) + " log=" + (rd.log.empty() ? "-" : rd.log);
      };
      if (op == "fdecp") { IReader rd; arm(rd); nop::Deserializer<IReader*> des{&rd}; auto st = des.Read(&h->v); return show(Code(st), rd); }
      if (op == "fdecu") { nop::Deserializer<std::unique_ptr<IReader>> des{std::make_unique<IReader>()}; arm(des.reader()); auto st = des.Read(&h->v); return show(Code(st), des.reader()); }
      nop::Deserializer<IReader> des;
      arm(des.reader());
      auto st = des.Read(&h->v);
      return show(Code(st), des.reader());
    }
    return "HARNESS-ERROR unknown op " + op;
  } catch (const BadValue& e) {
    return "HARNESS-ERROR bad value: " + e.what;
  } catch (const std::out_of_range&) {
    return "HARNESS-ERROR arguments";
  }
}


// ------------------------------------------- library readers and writers --
// output buffer of exactly `cap` bytes on the heap (ASan red zones around it)
struct OutBuf {
  std::uint8_t* p; std::size_t cap;
  explicit OutBuf(std::size_t c) : p(new std::uint8_t[c ? c : 1]), cap(c) { std::memset(p, 0xa5, c ? c : 1); }
  ~OutBuf() { delete[] p; }
  OutBuf(const OutBuf&) = delete; OutBuf& operator=(const OutBuf&) = delete;
};
inline int MemFd(const std::vector<std::uint8_t>& bytes) {
  int fd = memfd_create("verif", 0);
  if (fd < 0) return -1;
  size_t off = 0;
  while (off < bytes.size()) { ssize_t r = ::write(fd, bytes.data() + off, bytes.size() - off); if (r <= 0) break; off += static_cast<size_t>(r); }
  lseek(fd, 0, SEEK_SET);
  return fd;
}
inline std::vector<std::uint8_t> ReadAllFd(int fd) {
  std::vector<std::uint8_t> v; off_t end = lseek(fd, 0, SEEK_END); lseek(fd, 0, SEEK_SET);
  v.resize(static_cast<size_t>(end)); size_t off = 0;
  while (off < v.size()) { ssize_t r = ::read(fd, v.data() + off, v.size() - off); if (r <= 0) break; off += static_cast<size_t>(r); }
  return v;
}

template <typename T, typename W>
std::string WriteWith(nop::Serializer<W>& ser, const T& v) {
  auto st = ser.Write(v);
  return "st=" + std::to_string(Code(st));
}

// kinds that every handle-free type supports
template <typename T>
std::string EncBuf(const std::string& kind, std::size_t cap, std::size_t limit, const T& v) {
  OutBuf ob(cap);
  std::string r; std::size_t n = 0;
  if (kind == "buf") { nop::Serializer<nop::BufferWriter> s{ob.p, cap}; r = WriteWith(s, v); n = s.writer().size(); }
  else if (kind == "ped") { nop::Serializer<nop::PedanticBufferWriter> s{ob.p, cap}; r = WriteWith(s, v); n = s.writer().size(); }
  else if (kind == "bbuf") { nop::BufferWriter w{ob.p, cap}; nop::Serializer<nop::BoundedWriter<nop::BufferWriter>> s{&w, limit}; r = WriteWith(s, v); n = w.size(); }
  else if (kind == "bped") { nop::PedanticBufferWriter w{ob.p, cap}; nop::Serializer<nop::BoundedWriter<nop::PedanticBufferWriter>> s{&w, limit}; r = WriteWith(s, v); n = w.size(); }
  // the pointer and unique_ptr specialisations of Serializer
  else if (kind == "pbuf") { nop::BufferWriter w{ob.p, cap}; nop::Serializer<nop::BufferWriter*> s{&w}; r = WriteWith(s, v); n = w.size(); }
  else if (kind == "pped") { nop::PedanticBufferWriter w{ob.p, cap}; nop::Serializer<nop::PedanticBufferWriter*> s{&w}; r = WriteWith(s, v); n = w.size(); }
  else if (kind == "ubuf") { nop::Serializer<std::unique_ptr<nop::BufferWriter>> s{std::make_unique<nop::BufferWriter>(ob.p, cap)}; r = WriteWith(s, v); n = s.writer().size(); }
  else if (kind == "uped") { nop::Serializer<std::unique_ptr<nop::PedanticBufferWriter>> s{std::make_unique<nop::PedanticBufferWriter>(ob.p, cap)}; r = WriteWith(s, v); n = s.writer().size(); }
  else if (kind == "stream") { nop::Serializer<nop::StreamWriter<std::stringstream>> s; r = WriteWith(s, v); std::string o = s.writer().stream().str();
    return r + " n=" + std::to_string(o.size()) + " bytes=" + Hex(reinterpret_cast<const std::uint8_t*>(o.data()), o.size()); }
  else return "HARNESS-ERROR kind " + kind;
  return r + " n=" + std::to_string(n) + " bytes=" + Hex(ob.p, n < cap ? n : cap);
}
// the same value written twice through one buffer writer: the second Write sees only the REMAINING capacity
template <typename T>
std::string EncBufTwice(const std::string& kind, std::size_t cap, const T& v) {
  OutBuf ob(cap);
  std::string r1, r2; std::size_t n = 0;
  if (kind == "buf") { nop::Serializer<nop::BufferWriter> s{ob.p, cap}; r1 = WriteWith(s, v); r2 = WriteWith(s, v); n = s.writer().size(); }
  else if (kind == "ped") { nop::Serializer<nop::PedanticBufferWriter> s{ob.p, cap}; r1 = WriteWith(s, v); r2 = WriteWith(s, v); n = s.writer().size(); }
  else if (kind == "pbuf") { nop::BufferWriter w{ob.p, cap}; nop::Serializer<nop::BufferWriter*> s{&w}; r1 = WriteWith(s, v); r2 = WriteWith(s, v); n = w.size(); }
  else if (kind == "ubuf") { nop::Serializer<std::unique_ptr<nop::BufferWriter>> s{std::make_unique<nop::BufferWriter>(ob.p, cap)}; r1 = WriteWith(s, v); r2 = WriteWith(s, v); n = s.writer().size(); }
  else if (kind == "uped") { nop::Serializer<std::unique_ptr<nop::PedanticBufferWriter>> s{std::make_unique<nop::PedanticBufferWriter>(ob.p, cap)}; r1 = WriteWith(s, v); r2 = WriteWith(s, v); n = s.writer().size(); }
  else return "HARNESS-ERROR kind " + kind;
  return "first=" + r1.substr(3) + " second=" + r2.substr(3) + " n=" + std::to_string(n) + " bytes=" + Hex(ob.p, n < cap ? n : cap);
}
template <typename T, bool Ok> struct CxOps { static std::string enc(std::size_t, const T&) { return "unsupported"; } };
template <typename T> struct CxOps<T, true> {
  static std::string enc(std::size_t cap, const T& v) {
    OutBuf ob(cap);
    nop::Serializer<nop::ConstexprBufferWriter> s{ob.p, cap};
    std::string r = WriteWith(s, v); std::size_t n = s.writer().size();
    return r + " n=" + std::to_string(n) + " bytes=" + Hex(ob.p, n < cap ? n : cap);
  }
};
template <typename T, bool Ok> struct FdOps {
  static std::string enc(const T&) { return "unsupported"; }
  static std::string dec(const std::vector<std::uint8_t>&, std::size_t, bool) { return "unsupported"; }
  static std::string encm(const T&) { return "unsupported"; }
  static std::string decm(const std::vector<std::uint8_t>&) { return "unsupported"; }
};
template <typename T> struct FdOps<T, true> {
  static std::string enc(const T& v) {
    int fd = memfd_create("verifw", 0); int dupfd = dup(fd);
    std::string r;
    { nop::Serializer<nop::FdWriter> s{fd}; r = WriteWith(s, v); }   // closes fd
    std::vector<std::uint8_t> o = ReadAllFd(dupfd); ::close(dupfd);
    return r + " n=" + std::to_string(o.size()) + " bytes=" + Hex(o);
  }
  static std::string dec(const std::vector<std::uint8_t>& in, std::size_t limit, bool bounded) {
    int fd = MemFd(in); int dupfd = dup(fd);
    auto h = std::make_unique<Holder<T>>();
    int code;
    if (bounded) { nop::FdReader rd{fd}; nop::Deserializer<nop::BoundedReader<nop::FdReader>> d{&rd, limit}; code = Code(d.Read(&h->v)); }
    else { nop::Deserializer<nop::FdReader> d{fd}; code = Code(d.Read(&h->v)); }
    off_t pos = lseek(dupfd, 0, SEEK_CUR); ::close(dupfd);
    if (code) return "st=" + std::to_string(code);
    std::string dump; Dump(dump, h->v);
    return "st=0 val=" + dump + " consumed=" + std::to_string(static_cast<long long>(pos));
  }
  // the same through objects that were move-constructed and move-assigned, and released at the end: the descriptor
  // travels with the object, a moved-from object closes nothing, Release() hands the descriptor back still open
  static std::string encm(const T& v) {
    int fd = memfd_create("verifw", 0); int dupfd = dup(fd);
    std::string r; bool open_after = false; int rel = -2;
    { nop::FdWriter w1{fd}; nop::FdWriter w2{std::move(w1)}; nop::FdWriter w3; w3 = std::move(w2);
      nop::Serializer<nop::FdWriter*> s{&w3}; r = WriteWith(s, v);
      rel = w3.Release(); }
    open_after = fcntl(fd, F_GETFD) != -1;
    if (open_after) ::close(fd);
    std::vector<std::uint8_t> o = ReadAllFd(dupfd); ::close(dupfd);
    return r + " n=" + std::to_string(o.size()) + " bytes=" + Hex(o) + " moved=" + ((rel == fd && open_after) ? "ok" : "bad:" + std::to_string(rel) + "/" + std::to_string(open_after));
  }
  static std::string decm(const std::vector<std::uint8_t>& in) {
    int fd = MemFd(in); int dupfd = dup(fd);
    auto h = std::make_unique<Holder<T>>();
    int code, rel; bool open_after;
    { nop::FdReader r1{fd}; nop::FdReader r2{std::move(r1)}; nop::FdReader r3; r3 = std::move(r2);
      nop::Deserializer<nop::FdReader*> d{&r3}; code = Code(d.Read(&h->v));
      rel = r3.Release(); }
    open_after = fcntl(fd, F_GETFD) != -1;
    if (open_after) ::close(fd);
    off_t pos = lseek(dupfd, 0, SEEK_CUR); ::close(dupfd);
    std::string mv = std::string(" moved=") + ((rel == fd && open_after) ? "ok" : "bad:" + std::to_string(rel) + "/" + std::to_string(open_after));
    if (code) return "st=" + std::to_string(code) + mv;
    std::string dump; Dump(dump, h->v);
    return "st=0 val=" + dump + " consumed=" + std::to_string(static_cast<long long>(pos)) + mv;
  }
};

// a read-only stream buffer over a byte block that cannot seek (the default seekoff/seekpos fail)
struct NsBuf : std::streambuf {
  NsBuf(const char* p, std::size_t n) { char* b = const_cast<char*>(p); setg(b, b, b + n); }
  std::size_t consumed() const { return static_cast<std::size_t>(gptr() - eback()); }
};
struct NsStream : std::istream {
  explicit NsStream(NsBuf* b) : std::istream(b) {}
};

template <typename T>
std::string DecBuf(const std::string& kind, const std::vector<std::uint8_t>& bytes, std::size_t limit) {
  HeapBytes in(bytes);
  auto h = std::make_unique<Holder<T>>();
  int code; std::size_t consumed = 0;
  if (kind == "buf") { nop::Deserializer<nop::BufferReader> d{in.p, in.n}; code = Code(d.Read(&h->v)); consumed = d.reader().capacity() - d.reader().remaining(); }
  else if (kind == "ped") { nop::Deserializer<nop::PedanticBufferReader> d{in.p, in.n}; code = Code(d.Read(&h->v)); consumed = d.reader().capacity() - d.reader().remaining(); }
  else if (kind == "bbuf") { nop::BufferReader r{in.p, in.n}; nop::Deserializer<nop::BoundedReader<nop::BufferReader>> d{&r, limit}; code = Code(d.Read(&h->v)); consumed = r.capacity() - r.remaining(); }
  else if (kind == "bped") { nop::PedanticBufferReader r{in.p, in.n}; nop::Deserializer<nop::BoundedReader<nop::PedanticBufferReader>> d{&r, limit}; code = Code(d.Read(&h->v)); consumed = r.capacity() - r.remaining(); }
  else if (kind == "bufx2" || kind == "pedx2") {
    // three reads through ONE reader object: after a refused read the reader must still refuse (and stay inside its buffer)
    auto h2 = std::make_unique<Holder<T>>(); auto h3 = std::make_unique<Holder<T>>();
    int c2, c3; std::size_t used;
    if (kind == "bufx2") { nop::Deserializer<nop::BufferReader> d{in.p, in.n}; code = Code(d.Read(&h->v)); c2 = Code(d.Read(&h2->v)); c3 = Code(d.Read(&h3->v)); used = d.reader().capacity() - d.reader().remaining(); }
    else { nop::Deserializer<nop::PedanticBufferReader> d{in.p, in.n}; code = Code(d.Read(&h->v)); c2 = Code(d.Read(&h2->v)); c3 = Code(d.Read(&h3->v)); used = d.reader().capacity() - d.reader().remaining(); }
    return "st=" + std::to_string(code) + " st2=" + std::to_string(c2) + " st3=" + std::to_string(c3) + " used=" + std::to_string(used) + " of=" + std::to_string(in.n);
  }
  else if (kind == "pbuf") { nop::BufferReader r{in.p, in.n}; nop::Deserializer<nop::BufferReader*> d{&r}; code = Code(d.Read(&h->v)); consumed = r.capacity() - r.remaining(); }
  else if (kind == "ubuf") { nop::Deserializer<std::unique_ptr<nop::BufferReader>> d{std::make_unique<nop::BufferReader>(in.p, in.n)}; code = Code(d.Read(&h->v)); consumed = d.reader().capacity() - d.reader().remaining(); }
  else if (kind == "uped") { nop::Deserializer<std::unique_ptr<nop::PedanticBufferReader>> d{std::make_unique<nop::PedanticBufferReader>(in.p, in.n)}; code = Code(d.Read(&h->v)); consumed = d.reader().capacity() - d.reader().remaining(); }
  else if (kind == "stream" || kind == "bstream") {
    std::string sdata(reinterpret_cast<const char*>(in.p), in.n);
    if (kind == "stream") {
      nop::Deserializer<nop::StreamReader<std::stringstream>> d{sdata};
      code = Code(d.Read(&h->v));
      if (!code) { auto pos = d.reader().stream().tellg(); consumed = pos < 0 ? in.n : static_cast<std::size_t>(pos); }
    } else {
      nop::StreamReader<std::stringstream> r{sdata};
      nop::Deserializer<nop::BoundedReader<nop::StreamReader<std::stringstream>>> d{&r, limit};
      code = Code(d.Read(&h->v));
      if (!code) { auto pos = r.stream().tellg(); consumed = pos < 0 ? in.n : static_cast<std::size_t>(pos); }
    }
  }
  else if (kind == "nsstream") {
    // a forward-only stream (pipe- or socket-like): its buffer has no seekoff/seekpos, so tellg/seekg fail
    NsBuf nb(reinterpret_cast<const char*>(in.p), in.n);
    nop::Deserializer<nop::StreamReader<NsStream>> d{&nb};
    code = Code(d.Read(&h->v));
    consumed = nb.consumed();
  }
  else if (kind == "fstream" || kind == "bfstream") {
    // a file-backed stream: seeking past the end of a file does not fail, unlike a string stream
    int fd = MemFd(bytes);
    const std::string path = "/proc/self/fd/" + std::to_string(fd);
    if (kind == "fstream") {
      nop::Deserializer<nop::StreamReader<std::ifstream>> d{path, std::ios::in | std::ios::binary};
      code = d.reader().stream().is_open() ? Code(d.Read(&h->v)) : -1000;
      if (!code) { auto pos = d.reader().stream().tellg(); consumed = pos < 0 ? in.n : static_cast<std::size_t>(pos); }
    } else {
      nop::StreamReader<std::ifstream> r{path, std::ios::in | std::ios::binary};
      nop::Deserializer<nop::BoundedReader<nop::StreamReader<std::ifstream>>> d{&r, limit};
      code = r.stream().is_open() ? Code(d.Read(&h->v)) : -1000;
      if (!code) { auto pos = r.stream().tellg(); consumed = pos < 0 ? in.n : static_cast<std::size_t>(pos); }
    }
    ::close(fd);
    if (code == -1000) return "HARNESS-ERROR cannot open " + path;
  }
  else return "HARNESS-ERROR kind " + kind;
  if (code) return "st=" + std::to_string(code);
  std::string dump; Dump(dump, h->v);
  return "st=0 val=" + dump + " consumed=" + std::to_string(consumed);
}

// Cx: ConstexprBufferWriter usable; Fd: FdReader/FdWriter usable (no Skip => no tables)
template <typename T, bool Cx, bool Fd>
std::string LibOps(const std::vector<Sx>& a) {
  const std::string& op = a.at(0).a;
  try {
    if (op == "encw") {          // encw T KIND CAP LIMIT VAL
      auto h = std::make_unique<Holder<T>>();
      Build(h->v, a.at(5));
      const std::string& kind = a.at(2).a;
      std::size_t cap = ParseInt<std::size_t>(a.at(3).a), limit = ParseInt<std::size_t>(a.at(4).a);
      if (kind == "buf2") return EncBufTwice<T>("buf", cap, h->v);
      if (kind == "ped2") return EncBufTwice<T>("ped", cap, h->v);
      if (kind == "pbuf2") return EncBufTwice<T>("pbuf", cap, h->v);
      if (kind == "ubuf2") return EncBufTwice<T>("ubuf", cap, h->v);
      if (kind == "uped2") return EncBufTwice<T>("uped", cap, h->v);
      if (kind == "cx") return CxOps<T, Cx>::enc(cap, h->v);
      if (kind == "fd") return FdOps<T, Fd>::enc(h->v);
      if (kind == "mfd") return FdOps<T, Fd>::encm(h->v);
      return EncBuf<T>(kind, cap, limit, h->v);
    } else if (op == "decr") {   // decr T KIND LIMIT HEX
      const std::string& kind = a.at(2).a;
      std::size_t limit = ParseInt<std::size_t>(a.at(3).a);
      std::vector<std::uint8_t> bytes = UnHex(a.at(4).a);
      if (kind == "fd") return FdOps<T, Fd>::dec(bytes, limit, false);
      if (kind == "bfd") return FdOps<T, Fd>::dec(bytes, limit, true);
      if (kind == "mfd") return FdOps<T, Fd>::decm(bytes);
      return DecBuf<T>(kind, bytes, limit);
    }
    return "HARNESS-ERROR unknown op " + op;
  } catch (const BadValue& e) {
    return "HARNESS-ERROR bad value: " + e.what;
  } catch (const std::out_of_range&) {
    return "HARNESS-ERROR arguments";
  }
}

}  // namespace vh

#endif  // VERIF_HARNESS_GLUE_H_
