// ubuf.cpp — unbounded logical buffers (C06).  A separate program because the idiom the library documents for them (an array
// member of length 1 at the head of a longer allocation, indexed past its declared length) is exactly what
// -fsanitize=bounds reports: this program is built with that one check off (ASan and the rest of UBSan stay on).
#include <array>
#include <cstdint>
#include <cstdlib>
#include <cstring>
#include <iostream>
#include <limits>
#include <memory>
#include <new>
#include <sstream>
#include <string>
#include <tuple>
#include <utility>
#include <vector>

#include <fcntl.h>
#include <sys/mman.h>
#include "glue.h"
#include <nop/utility/endian.h>
#include <nop/utility/sip_hash.h>
#include <nop/rpc/interface.h>
#include <nop/base/reference_wrapper.h>
#include <nop/protocol.h>
#include <functional>

std::size_t& vh::AllocCounter() { static std::size_t c = 0; return c; }

using namespace vh;

// ---------------------------------------------------------- unbounded buffers --
// NOP_UNBOUNDED_BUFFER: the array member is the head of a longer allocation (the caller provides it); the count is not
// limited by the array's declared length.  ubuf KIND N: N elements are written, sized and read back.
template <typename E>
struct UBuf { std::uint32_t size; E data[1]; NOP_VALUE(UBuf, (data, size)); NOP_UNBOUNDED_BUFFER(UBuf); };
template <typename E>
struct UBufS { std::uint8_t tag; std::uint64_t size; E data[1]; NOP_STRUCTURE(UBufS, tag, (data, size)); NOP_UNBOUNDED_BUFFER(UBufS); };   // the open-ended array is the last member
template <typename U, typename E>
static std::string UnboundedRun(std::size_t n) {
  const std::size_t bytes = sizeof(U) + (n + 2) * sizeof(E);
  U* u = static_cast<U*>(std::calloc(1, bytes)); U* v = static_cast<U*>(std::calloc(1, bytes));
  u->size = static_cast<decltype(u->size)>(n);
  E* d = u->data;
  for (std::size_t i = 0; i < n; i++) d[i] = static_cast<E>(static_cast<long>(i) * 37 - 5);
  nop::Serializer<IWriter> s;
  const std::size_t sz = s.GetSize(*u);
  auto st = s.Write(*u);
  IReader r; r.data = s.writer().out.data(); r.size = s.writer().out.size();
  nop::Deserializer<IReader*> des{&r};
  auto st2 = des.Read(v);
  bool same = st2 && v->size == u->size && std::memcmp(v->data, u->data, n * sizeof(E)) == 0;
  std::string out = "size=" + std::to_string(sz) + " st=" + std::to_string(Code(st)) + " n=" + std::to_string(s.writer().out.size()) +
                    " rst=" + std::to_string(Code(st2)) + " consumed=" + std::to_string(r.index) + " same=" + (same ? "1" : "0");
  std::free(u); std::free(v);
  return out;
}
static std::string DoUnbounded(const std::vector<Sx>& a) {
  const std::string& k = a.at(1).a;
  std::size_t n = ParseInt<std::size_t>(a.at(2).a);
  if (k == "i32") return UnboundedRun<UBuf<std::int32_t>, std::int32_t>(n);
  if (k == "f32") return UnboundedRun<UBuf<float>, float>(n);
  if (k == "u8") return UnboundedRun<UBuf<std::uint8_t>, std::uint8_t>(n);
  if (k == "si16") return UnboundedRun<UBufS<std::int16_t>, std::int16_t>(n);
  if (k == "sf64") return UnboundedRun<UBufS<double>, double>(n);
  return "HARNESS-ERROR kind";
}


int main() {
  std::ios::sync_with_stdio(false);
  std::string line;
  while (std::getline(std::cin, line)) {
    if (line.empty() || line[0] == '#') { std::cout << line << "\n"; continue; }
    std::vector<Sx> a = ParseLine(line);
    std::string out;
    try { out = DoUnbounded(a); } catch (const std::exception& e) { out = std::string("EXCEPTION ") + e.what(); }
    std::cout << out << "\n" << std::flush;
  }
  return 0;
}
