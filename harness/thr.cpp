// thr.cpp — C19 harness (ThreadSanitizer build): N threads, each running its own script of
// ThreadLocal operations and of serializer / table / variant / RPC traffic on its own
// objects; the same scripts are then run one thread after the other and the
// observations are compared.
#include <atomic>
#include <cstdint>
#include <iostream>
#include <map>
#include <sstream>
#include <string>
#include <thread>
#include <vector>

#include <nop/rpc/interface.h>
#include <nop/rpc/simple_method_receiver.h>
#include <nop/rpc/simple_method_sender.h>
#include <nop/serializer.h>
#include <nop/structure.h>
#include <nop/table.h>
#include <nop/types/optional.h>
#include <nop/types/result.h>
#include <nop/types/thread_local.h>
#include <nop/types/variant.h>
#include <nop/utility/buffer_reader.h>
#include <nop/utility/buffer_writer.h>
#include <nop/utility/fd_reader.h>
#include <nop/utility/fd_writer.h>
#include <sys/mman.h>
#include <unistd.h>
#include <nop/utility/stream_reader.h>
#include <nop/utility/stream_writer.h>

namespace {

struct Tag {};
struct Inner { std::uint8_t a; std::string b; NOP_STRUCTURE(Inner, a, b); };
struct Rec { std::vector<std::int32_t> v; std::map<std::string, Inner> m; nop::Optional<double> d; nop::Variant<int, std::string> w; NOP_STRUCTURE(Rec, v, m, d, w); };
struct Tab { nop::Entry<std::uint32_t, 1> a; nop::Entry<std::string, 2> b; nop::Entry<std::vector<std::int16_t>, 3> c; NOP_TABLE_NS("verif.ThrTable", Tab, a, b, c); };
struct Calc : nop::Interface<Calc> {
  NOP_INTERFACE("verif.ThrCalc");
  NOP_METHOD(Add, std::int64_t(std::int32_t, std::int32_t));
  NOP_METHOD(Cat, std::string(std::string, std::string));
  NOP_INTERFACE_API(Add, Cat);
};

std::vector<std::string> Split(const std::string& s, char sep) {
  std::vector<std::string> out; std::string cur;
  for (char c : s) { if (c == sep) { out.push_back(cur); cur.clear(); } else cur.push_back(c); }
  out.push_back(cur); return out;
}

std::string Hex(const std::string& s) {
  static const char* d = "0123456789abcdef"; std::string o;
  for (unsigned char c : s) { o.push_back(d[c >> 4]); o.push_back(d[c & 15]); }
  return o;
}

// ---- ThreadLocal slots: eight (T, Slot) instantiations (5 is the default slot, ThreadLocalSlot<void, 0>) --------------------------------------
template <int K> struct SlotOps;
#define SLOT(K, T, S, FROM, TO)                                                     \
  template <> struct SlotOps<K> {                                                   \
    using TL = nop::ThreadLocal<T, S>;                                              \
    static void New(long x) { TL v{FROM}; (void)v; }                                \
    static void Init(long x) { TL v; v.Initialize(FROM); }                          \
    static std::string Get() { TL v; auto& r = v.Get(); return TO; }                \
    static void Set(long x) { TL v; v.Get() = FROM; }                               \
    static void Clear() { TL v; v.Clear(); }                                        \
    static TL& Shared() { static TL* p = new TL(); return *p; }                     \
    static void SharedInit(long x) { Shared().Initialize(FROM); }                   \
  };
using S0 = nop::ThreadLocalSlot<Tag, 0>;
using S1 = nop::ThreadLocalSlot<Tag, 1>;
SLOT(0, int, S0, static_cast<int>(x), std::to_string(r))
SLOT(1, int, S1, static_cast<int>(x), std::to_string(r))
SLOT(2, long, S0, x, std::to_string(r))
SLOT(3, std::string, nop::ThreadLocalTypeSlot<Tag>, std::to_string(x), r)
SLOT(4, int, nop::ThreadLocalIndexSlot<0>, static_cast<int>(x), std::to_string(r))
SLOT(6, int, nop::ThreadLocalIndexSlot<1>, static_cast<int>(x), std::to_string(r))
using SV1 = nop::ThreadLocalSlot<void, 1>;
SLOT(7, int, SV1, static_cast<int>(x), std::to_string(r))
using DefaultTL = nop::ThreadLocal<int>;
template <> struct SlotOps<5> {
  static void New(long x) { DefaultTL v{static_cast<int>(x)}; (void)v; }
  static void Init(long x) { DefaultTL v; v.Initialize(static_cast<int>(x)); }
  static std::string Get() { DefaultTL v; return std::to_string(v.Get()); }
  static void Set(long x) { DefaultTL v; v.Get() = static_cast<int>(x); }
  static void Clear() { DefaultTL v; v.Clear(); }
  static DefaultTL& Shared() { static DefaultTL* p = new DefaultTL(); return *p; }
  static void SharedInit(long x) { Shared().Initialize(static_cast<int>(x)); }
};

template <int K>
void SlotOp(char c, long x, bool* full, std::string* obs) {
  switch (c) {
    case 'N': SlotOps<K>::New(x); *full = true; break;
    case 'I': SlotOps<K>::Init(x); *full = true; break;
    case 'J': SlotOps<K>::SharedInit(x); *full = true; break;   // Initialize() through an object the main thread constructed
    case 'G': *obs = "G:" + (*full ? SlotOps<K>::Get() : std::string("none")); break;   // Get() on an empty cell is undefined: not called
    case 'S': if (*full) SlotOps<K>::Set(x); break;
    case 'C': SlotOps<K>::Clear(); *full = false; break;
  }
}

// ---- codec traffic on the thread's own objects --------------------------------------------
Rec MakeRec(long n) {
  Rec r;
  for (long i = 0; i < n % 7; i++) r.v.push_back(static_cast<std::int32_t>(n * 31 + i * 1000003));
  for (long i = 0; i < n % 3; i++) r.m["k" + std::to_string(n + i)] = Inner{static_cast<std::uint8_t>(n + i), std::string(static_cast<size_t>((n + i) % 5), 'x')};
  if (n % 2) r.d = static_cast<double>(n) / 3.0;
  if (n % 4 == 0) r.w = static_cast<int>(n); else if (n % 4 == 1) r.w = std::string("s") + std::to_string(n);
  return r;
}

std::string RoundTripRec(long n) {
  Rec r = MakeRec(n);
  nop::Serializer<nop::StreamWriter<std::stringstream>> ser;
  auto st = ser.Write(r);
  std::string bytes = ser.writer().stream().str();
  nop::Deserializer<nop::StreamReader<std::stringstream>> des{bytes};
  Rec back; auto st2 = des.Read(&back);
  nop::Serializer<nop::StreamWriter<std::stringstream>> ser2; ser2.Write(back);
  return std::string(st && st2 ? "ok" : "fail") + ":" + Hex(bytes) + ":" + (ser2.writer().stream().str() == bytes ? "same" : "diff");
}

std::string RoundTripTab(long n) {
  Tab t;
  if (n % 2) t.a = static_cast<std::uint32_t>(n);
  if (n % 3) t.b = std::string(static_cast<size_t>(n % 9), 'b');
  if (n % 5) t.c = std::vector<std::int16_t>(static_cast<size_t>(n % 4), static_cast<std::int16_t>(n));
  std::vector<std::uint8_t> buf(256);
  nop::Serializer<nop::BufferWriter> ser{buf.data(), buf.size()};
  auto st = ser.Write(t);
  size_t len = ser.writer().size();
  nop::Deserializer<nop::BufferReader> des{buf.data(), len};
  Tab back; auto st2 = des.Read(&back);
  std::string s = std::string(st && st2 ? "ok" : "fail") + ":" + Hex(std::string(buf.begin(), buf.begin() + len)) + ":";
  s += (static_cast<bool>(back.a) == static_cast<bool>(t.a) && (!t.a || back.a.get() == t.a.get()) &&
        static_cast<bool>(back.b) == static_cast<bool>(t.b) && (!t.b || back.b.get() == t.b.get()) &&
        static_cast<bool>(back.c) == static_cast<bool>(t.c) && (!t.c || back.c.get() == t.c.get())) ? "same" : "diff";
  return s;
}

// a record through the thread's own file descriptors; the serializer is built from a moved FdWriter, the usual way
static nop::Serializer<nop::FdWriter> MakeFdSerializer(int fd) {
  nop::FdWriter writer{fd};
  return nop::Serializer<nop::FdWriter>{std::move(writer)};
}
std::string RoundTripFd(long n) {
  int fd = memfd_create("thr", 0);
  if (fd < 0) return "fail:memfd";
  int rfd = dup(fd);
  std::string text = "fd-" + std::to_string(n) + std::string(static_cast<size_t>(n % 11), 'z');
  std::string out;
  {
    nop::Serializer<nop::FdWriter> ser = MakeFdSerializer(fd);       // owns fd
    auto st = ser.Write(text);
    auto st2 = ser.Write(static_cast<std::uint32_t>(n * 2654435761u));
    out = (st && st2) ? "ok" : "fail";
  }
  lseek(rfd, 0, SEEK_SET);
  {
    nop::Deserializer<nop::FdReader> des{rfd};                          // owns rfd
    std::string back; std::uint32_t k = 0;
    auto st = des.Read(&back); auto st2 = des.Read(&k);
    out += std::string(":") + ((st && st2 && back == text && k == static_cast<std::uint32_t>(n * 2654435761u)) ? "same" : "diff");
  }
  return out;
}

struct NoDes { template <typename T> nop::Status<void> Read(T*) { return nop::ErrorStatus::ReadLimitReached; } };

std::string Rpc(long n) {
  std::stringstream req, rep;
  using Ser = nop::Serializer<nop::StreamWriter<std::stringstream>>;
  using Des = nop::Deserializer<nop::StreamReader<std::stringstream>>;
  // caller writes the request
  Ser cser;
  {
    NoDes nodes;
    nop::SimpleMethodSender<Ser, NoDes> sender{&cser, &nodes};
    if (n % 2) Calc::Add::Invoke(&sender, static_cast<std::int32_t>(n), static_cast<std::int32_t>(n + 1));
    else Calc::Cat::Invoke(&sender, std::string("a") + std::to_string(n), std::string("b"));
  }
  Des sdes{cser.writer().stream().str()};
  Ser sser;
  auto receiver = nop::MakeSimpleMethodReceiver(&sser, &sdes);
  auto table = nop::BindInterface(Calc::Add::Bind([](std::int32_t a, std::int32_t b) { return static_cast<std::int64_t>(a) + b; }),
                                  Calc::Cat::Bind([](const std::string& a, const std::string& b) { return a + b; }));
  auto st = table(&receiver);
  Des cdes{sser.writer().stream().str()};
  std::string out = st ? "ok" : "fail";
  if (n % 2) { std::int64_t r = 0; cdes.Read(&r); out += ":" + std::to_string(r); }
  else { std::string r; cdes.Read(&r); out += ":" + r; }
  return out;
}

// ---- one thread's script ------------------------------------------------------------------
std::atomic<int> g_ready{0};
std::atomic<bool> g_go{false};

void RunScript(const std::vector<std::string>& ops, std::uint64_t seed, bool concurrent, int nthreads, std::string* out) {
  bool full[8] = {false, false, false, false, false, false, false, false};
  if (concurrent) { g_ready.fetch_add(1); while (!g_go.load()) std::this_thread::yield(); (void)nthreads; }
  std::uint64_t rng = seed * 6364136223846793005ULL + 1442695040888963407ULL;
  for (const auto& op : ops) {
    if (op.empty()) continue;
    std::string obs;
    char c = op[0];
    std::vector<std::string> a = Split(op.substr(1), ':');
    long x0 = a.size() > 0 && !a[0].empty() ? std::stol(a[0]) : 0;
    long x1 = a.size() > 1 ? std::stol(a[1]) : 0;
    switch (c) {
      case 'N': case 'I': case 'J': case 'G': case 'S': case 'C':
        switch (x0) {
          case 0: SlotOp<0>(c, x1, &full[0], &obs); break;
          case 1: SlotOp<1>(c, x1, &full[1], &obs); break;
          case 2: SlotOp<2>(c, x1, &full[2], &obs); break;
          case 3: SlotOp<3>(c, x1, &full[3], &obs); break;
          case 4: SlotOp<4>(c, x1, &full[4], &obs); break;
          case 6: SlotOp<6>(c, x1, &full[6], &obs); break;
          case 7: SlotOp<7>(c, x1, &full[7], &obs); break;
          default: SlotOp<5>(c, x1, &full[5], &obs); break;
        }
        break;
      case 'E': obs = "E:" + RoundTripRec(x0); break;
      case 'T': obs = "T:" + RoundTripTab(x0); break;
      case 'R': obs = "R:" + Rpc(x0); break;
      case 'F': obs = "F:" + RoundTripFd(x0); break;
    }
    if (!obs.empty()) { if (!out->empty()) *out += ","; *out += obs; }
    if (concurrent) {
      rng = rng * 6364136223846793005ULL + 1442695040888963407ULL;
      if ((rng >> 60) < 5) std::this_thread::yield();
      else if ((rng >> 60) == 15) std::this_thread::sleep_for(std::chrono::microseconds((rng >> 40) & 63));
    }
  }
}

}  // namespace

int main() {
  std::ios::sync_with_stdio(false);
  // ThreadLocal objects constructed by the main thread and shared with every thread (never initialised here)
  SlotOps<0>::Shared(); SlotOps<1>::Shared(); SlotOps<2>::Shared(); SlotOps<3>::Shared(); SlotOps<4>::Shared(); SlotOps<5>::Shared();
  SlotOps<6>::Shared(); SlotOps<7>::Shared();
  std::string line;
  while (std::getline(std::cin, line)) {
    if (line.empty() || line[0] == '#') { std::cout << line << "\n"; continue; }
    std::vector<std::string> tok = Split(line, ' ');
    if (tok.size() < 3 || tok[0] != "thr") { std::cout << "HARNESS-ERROR\n"; continue; }
    std::uint64_t seed = std::stoull(tok[1]);
    std::vector<std::vector<std::string>> scripts;
    for (const auto& s : Split(tok[2], ';')) scripts.push_back(Split(s, ','));
    const int n = static_cast<int>(scripts.size());
    std::vector<std::string> conc(scripts.size()), seq(scripts.size());
    {
      g_ready = 0; g_go = false;
      std::vector<std::thread> ts;
      for (int i = 0; i < n; i++) ts.emplace_back(RunScript, std::cref(scripts[i]), seed + static_cast<std::uint64_t>(i) * 7919, true, n, &conc[i]);
      while (g_ready.load() < n) std::this_thread::yield();
      g_go = true;
      for (auto& t : ts) t.join();
    }
    for (int i = 0; i < n; i++) { std::thread t(RunScript, std::cref(scripts[i]), seed, false, n, &seq[i]); t.join(); }
    std::string c, s;
    for (int i = 0; i < n; i++) { if (i) { c += ";"; s += ";"; } c += conc[i].empty() ? "-" : conc[i]; s += seq[i].empty() ? "-" : seq[i]; }
    std::cout << "conc=" << c << " seq=" << s << "\n" << std::flush;
  }
  return 0;
}
