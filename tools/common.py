"""common.py — paths, hashing, subprocess helpers shared by the check scripts."""
import hashlib, json, os, subprocess, sys, time

VERIF = os.path.dirname(os.path.dirname(os.path.abspath(__file__)))
REPO = os.environ.get('VERIF_REPO', '/repo')
BUILD = os.path.join(VERIF, 'build')
NCPU = os.cpu_count() or 4
CXX = 'clang++'
# VERIF_COVERAGE=1 (tools/coverage.py only): the same harness built for llvm-cov instead of the sanitizers, to audit
# which lines of /repo/include the generated cases reach.  Never set by a registered check.
COVERAGE = bool(os.environ.get('VERIF_COVERAGE'))
SANFLAGS = ['-fprofile-instr-generate', '-fcoverage-mapping'] if COVERAGE else ['-fsanitize=address,undefined', '-fno-sanitize-recover=all']
TSANFLAGS = ['-fprofile-instr-generate', '-fcoverage-mapping'] if COVERAGE else ['-fsanitize=thread']
CXXFLAGS = ['-std=c++14', '-O0', '-g1'] + SANFLAGS + [
            '-fno-omit-frame-pointer', '-I' + os.path.join(REPO, 'include'), '-I' + os.path.join(VERIF, 'harness'),
            '-include', 'new', '-include', 'array', '-include', 'limits', '-include', 'memory',
            '-Wno-unused-value', '-DGOOGLE_LIBNOP_VERIF=1']
ASAN_ENV = {'ASAN_OPTIONS': 'detect_leaks=1:abort_on_error=0:allocator_may_return_null=1:max_allocation_size_mb=4096',
            'UBSAN_OPTIONS': 'print_stacktrace=1:halt_on_error=1'}


def sha_files(paths, extra=''):
    h = hashlib.sha256()
    for p in sorted(paths):
        h.update(p.encode())
        with open(p, 'rb') as f:
            h.update(f.read())
    h.update(extra.encode())
    return h.hexdigest()[:16]


def tree_files(root, exts=('.h', '.hpp', '.cpp', '.md')):
    out = []
    for d, _, fs in os.walk(root):
        for f in fs:
            if f.endswith(exts):
                out.append(os.path.join(d, f))
    return out


def repo_include_hash():
    return sha_files(tree_files(os.path.join(REPO, 'include')))


def run(cmd, timeout=None, env=None, input=None, cwd=None):
    e = dict(os.environ)
    if env:
        e.update(env)
    return subprocess.run(cmd, capture_output=True, text=True, timeout=timeout, env=e, input=input, cwd=cwd)


def log(*a):
    print(*a, file=sys.stderr, flush=True)


class HarnessBuildError(SystemExit):
    """the generated C++ harness does not compile / link against /repo's current tree"""
    def __init__(self, log):
        SystemExit.__init__(self, 3)
        self.log = log
