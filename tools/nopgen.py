"""nopgen.py — type pool, descriptors, C++ emission and value generation for the
correspondence harness.  Types are Python tuples:

  ('s', c, k)                      c: 0 plain, 1 char, >=2 enum id; k: bool,u8..i64,f32,f64
  ('str', cw)
  ('seq', ('vec',), t) | ('seq', ('arr', carray, n), t) | ('seq', ('lbuf', carray, cap, sk, unb), t)
  ('tup', 'pair'|'tuple'|'struct', [t...], name?)
  ('wrap', id, t)                  id 0 = reference_wrapper (not emitted), else NOP_VALUE wrapper
  ('map', unordered, k, v)
  ('opt', t) | ('res', eid, ek, t) | ('var', [t...]) | ('hnd', pid, tk, tag)
  ('tab', hash, [(id, active, t)...], name?)
"""
import random

IK = {'u8': (1, False), 'u16': (2, False), 'u32': (4, False), 'u64': (8, False),
      'i8': (1, True), 'i16': (2, True), 'i32': (4, True), 'i64': (8, True)}
CXX_INT = {'u8': 'std::uint8_t', 'u16': 'std::uint16_t', 'u32': 'std::uint32_t', 'u64': 'std::uint64_t',
           'i8': 'std::int8_t', 'i16': 'std::int16_t', 'i32': 'std::int32_t', 'i64': 'std::int64_t'}

# ------------------------------------------------------------------ siphash --
M64 = (1 << 64) - 1


def _rotl(x, b):
    return ((x << b) | (x >> (64 - b))) & M64


def siphash24(data: bytes, k0: int, k1: int) -> int:
    v0 = k0 ^ 0x736f6d6570736575
    v1 = k1 ^ 0x646f72616e646f6d
    v2 = k0 ^ 0x6c7967656e657261
    v3 = k1 ^ 0x7465646279746573

    def rnd():
        nonlocal v0, v1, v2, v3
        v0 = (v0 + v1) & M64; v1 = _rotl(v1, 13); v1 ^= v0; v0 = _rotl(v0, 32)
        v2 = (v2 + v3) & M64; v3 = _rotl(v3, 16); v3 ^= v2
        v0 = (v0 + v3) & M64; v3 = _rotl(v3, 21); v3 ^= v0
        v2 = (v2 + v1) & M64; v1 = _rotl(v1, 17); v1 ^= v2; v2 = _rotl(v2, 32)
    n = len(data)
    for i in range(0, n - n % 8, 8):
        m = int.from_bytes(data[i:i + 8], 'little')
        v3 ^= m; rnd(); rnd(); v0 ^= m
    b = (n & 0xff) << 56
    b |= int.from_bytes(data[n - n % 8:], 'little')
    v3 ^= b; rnd(); rnd(); v0 ^= b
    v2 ^= 0xff
    rnd(); rnd(); rnd(); rnd()
    return v0 ^ v1 ^ v2 ^ v3


TABLE_K0, TABLE_K1 = 0xbaadf00ddeadbeef, 0x0123456789abcdef


# -------------------------------------------------------------- descriptors --
def desc(t):
    k = t[0]
    if k == 's':
        return '(s %d %s)' % (t[1], t[2])
    if k == 'str':
        return '(str %d)' % t[1]
    if k == 'seq':
        c = t[1]
        if c[0] == 'vec':
            cs = 'vec'
        elif c[0] == 'arr':
            cs = '(arr %d %d)' % (int(c[1]), c[2])
        else:
            cs = '(lbuf %d %d %s %d)' % (int(c[1]), c[2], c[3], int(c[4]))
        return '(seq %s %s)' % (cs, desc(t[2]))
    if k == 'tup':
        # 'xstruct' is a structure declared from outside with NOP_EXTERNAL_STRUCTURE: the same type for the model
        return '(tup %s%s)' % ('struct' if t[1] == 'xstruct' else t[1], ''.join(' ' + desc(x) for x in t[2]))
    if k == 'wrap':
        return '(wrap %d %s)' % (t[1], desc(t[2]))
    if k == 'map':
        return '(map %d %s %s)' % (int(t[1]), desc(t[2]), desc(t[3]))
    if k == 'opt':
        return '(opt %s)' % desc(t[1])
    if k == 'res':
        return '(res %d %s %s)' % (t[1], t[2], desc(t[3]))
    if k == 'var':
        return '(var%s)' % ''.join(' ' + desc(x) for x in t[1])
    if k == 'hnd':
        return '(hnd %d %s %d)' % (t[1], t[2], t[3])
    if k == 'tab':
        return '(tab %d%s)' % (t[1], ''.join(' (%d %d %s)' % (i, int(a), desc(x)) for i, a, x in t[2]))
    raise ValueError(t)


def is_integral(t):
    return t[0] == 's' and t[1] < 2 and t[2] not in ('f32', 'f64')


def walk(t):
    yield t
    k = t[0]
    subs = []
    if k == 'seq': subs = [t[2]]
    elif k == 'tup': subs = t[2]
    elif k == 'wrap': subs = [t[2]]
    elif k == 'map': subs = [t[2], t[3]]
    elif k == 'opt': subs = [t[1]]
    elif k == 'res': subs = [t[3]]
    elif k == 'var': subs = t[1]
    elif k == 'tab': subs = [x for _, _, x in t[2]]
    for s in subs:
        yield from walk(s)


def caps(t):
    """capabilities that decide which library readers/writers can be instantiated"""
    c = set()
    for x in walk(t):
        if x[0] == 'tab': c.add('table')
        if x[0] == 'hnd': c.add('handle')
        if x[0] == 's' and x[2] in ('f32', 'f64'): c.add('float')
        if x[0] == 'str' and x[1] != 1: c.add('wide')
        if x[0] == 'map' and x[1]: c.add('unordered')
        if x[0] == 'seq' and x[1][0] != 'vec' and x[2][0] == 's' and x[2][2] == 'bool': c.add('boolarr')
    return c


# -------------------------------------------------------------- C++ emission --
class Emitter:
    """Emits the C++ definitions (enums, structures, wrappers, tables, handle
    policies) a pool needs, each once, plus the generated Glue for them."""

    def __init__(self):
        self.defs = []          # C++ text, in dependency order
        self.done = {}          # key -> C++ name

    def cxx(self, t):
        k = t[0]
        if k == 's':
            c, s = t[1], t[2]
            if c == 0:
                return {'bool': 'bool', 'f32': 'float', 'f64': 'double'}.get(s) or CXX_INT[s]
            if c == 1:
                return 'char'
            return self.enum(c, s)
        if k == 'str':
            return {1: 'std::string', 2: 'std::u16string', 4: 'std::u32string'}[t[1]]
        if k == 'seq':
            c = t[1]
            if c[0] == 'vec':
                return 'std::vector<%s>' % self.cxx(t[2])
            if c[0] == 'arr':
                if c[1]:
                    return self.carray(t)
                return 'std::array<%s, %d>' % (self.cxx(t[2]), c[2])
            raise ValueError('logical buffer outside a structure')
        if k == 'tup':
            if t[1] == 'pair':
                return 'std::pair<%s, %s>' % (self.cxx(t[2][0]), self.cxx(t[2][1]))
            if t[1] == 'tuple':
                return 'std::tuple<%s>' % ', '.join(self.cxx(x) for x in t[2])
            return self.struct(t)
        if k == 'wrap':
            if t[1] == 0:
                raise ValueError('reference_wrapper has no standalone type')
            return self.wrapper(t)
        if k == 'map':
            return '%s<%s, %s>' % ('std::unordered_map' if t[1] else 'std::map', self.cxx(t[2]), self.cxx(t[3]))
        if k == 'opt':
            return 'nop::Optional<%s>' % self.cxx(t[1])
        if k == 'res':
            return 'nop::Result<%s, %s>' % (self.errenum(t[1], t[2]), self.cxx(t[3]))
        if k == 'var':
            return 'nop::Variant<%s>' % ', '.join(self.cxx(x) for x in t[1])
        if k == 'hnd':
            return 'nop::Handle<%s>' % self.policy(t)
        if k == 'tab':
            return self.table(t)
        raise ValueError(t)

    def enum(self, c, s):
        key = ('enum', c, s)
        if key not in self.done:
            name = 'En%d' % c
            self.defs.append('enum class %s : %s { kA = 0, kB = 1 };' % (name, CXX_INT[s]))
            self.done[key] = name
        return self.done[key]

    def errenum(self, eid, ek):
        key = ('err', eid, ek)
        if key not in self.done:
            name = 'Er%d' % eid
            self.defs.append('enum class %s : %s { None = 0, kA = 1, kB = 2 };' % (name, CXX_INT[ek]))
            self.done[key] = name
        return self.done[key]

    def carray(self, t):
        key = ('carr', desc(t))
        if key not in self.done:
            name = 'CA%d' % len(self.done)
            self.defs.append('using %s = %s[%d];' % (name, self.cxx(t[2]), t[1][2]))
            self.done[key] = name
        return self.done[key]

    def policy(self, t):
        key = ('pol', t[1], t[2], t[3])
        if key not in self.done:
            name = 'Pol%d' % t[1]
            self.defs.append(
                'struct %s {\n  using Type = std::int64_t;\n  static constexpr Type Default() { return -1; }\n'
                '  static bool IsValid(const Type& v) { return v >= 0; }\n  static void Close(Type* v) { *v = -1; }\n'
                '  static Type Release(Type* v) { Type t = *v; *v = -1; return t; }\n'
                '  static constexpr %s HandleType() { return %s; }\n};' % (name, CXX_INT[t[2]], lit(t[3], t[2])))
            self.done[key] = name
        return self.done[key]

    def _members(self, ts):
        """[(decl lines, macro arg, build stmt, dump stmt)] for structure members"""
        out = []
        for i, m in enumerate(ts):
            if m[0] == 'seq' and m[1][0] == 'lbuf':
                _, carray, cap, sk, unb = m[1]
                et = self.cxx(m[2])
                d, n = 'm%d_data' % i, 'm%d_size' % i
                decl = ('%s %s[%d]{};' % (et, d, cap)) if carray else ('std::array<%s, %d> %s{};' % (et, cap, d))
                out.append((decl + ' %s %s{};' % (CXX_INT[sk], n), '(%s, %s)' % (d, n),
                            'vh::BuildLBuf(o.%s, o.%s, x.l[%d]);' % (d, n, i + 1),
                            'vh::DumpLBuf(s, v.%s, v.%s, %d);' % (d, n, cap)))
            else:
                out.append(('%s m%d{};' % (self.cxx(m), i), 'm%d' % i,
                            'vh::Build(o.m%d, x.l[%d]);' % (i, i + 1),
                            'vh::Dump(s, v.m%d);' % i))
        return out

    def struct(self, t):
        ext = t[1] == 'xstruct'
        key = ('struct', ext, desc(t))
        if key in self.done:
            return self.done[key]
        ms = self._members(t[2])
        name = ('XSt%d' if ext else 'St%d') % len(self.done)
        unb = any(m[0] == 'seq' and m[1][0] == 'lbuf' and m[1][4] for m in t[2])
        body = 'struct %s {\n' % name
        for d, _, _, _ in ms:
            body += '  %s\n' % d
        if not ext:
            body += '  NOP_STRUCTURE(%s, %s);\n' % (name, ', '.join(a for _, a, _, _ in ms))
            if unb:
                body += '  NOP_UNBOUNDED_BUFFER(%s);\n' % name
        body += '};\n'
        if ext:
            body += 'NOP_EXTERNAL_STRUCTURE(%s, %s);\n' % (name, ', '.join(a for _, a, _, _ in ms))
            if unb:
                body += 'NOP_EXTERNAL_UNBOUNDED_BUFFER(%s);\n' % name
        body += 'namespace vh { template <> struct Glue<%s> {\n' % name
        body += '  static void build(%s& o, const Sx& x) { NeedSeq(x, "seq"); if (x.l.size() != %d) throw BadValue{"member count"};\n' % (name, len(ms) + 1)
        for _, _, b, _ in ms:
            body += '    %s\n' % b
        body += '  }\n  static void dump(std::string& s, const %s& v) { s += "(seq";\n' % name
        for _, _, _, d in ms:
            body += '    s += " "; %s\n' % d
        body += '    s += ")"; }\n}; }\n'
        self.defs.append(body)
        self.done[key] = name
        return name

    def wrapper(self, t):
        key = ('wrap', desc(t))
        if key in self.done:
            return self.done[key]
        ms = self._members([t[2]])
        name = 'Wr%d_%d' % (t[1], len(self.done))
        d, a, b, du = ms[0]
        body = 'struct %s {\n  %s\n  NOP_VALUE(%s, %s);\n};\n' % (name, d, name, a)
        b = b.replace('x.l[1]', 'x')
        body += 'namespace vh { template <> struct Glue<%s> {\n' % name
        body += '  static void build(%s& o, const Sx& x) { %s }\n' % (name, b)
        body += '  static void dump(std::string& s, const %s& v) { %s }\n}; }\n' % (name, du)
        self.defs.append(body)
        self.done[key] = name
        return name

    def table(self, t):
        key = ('tab', desc(t))
        if key in self.done:
            return self.done[key]
        es = t[2]
        decls, args = [], []
        for i, (eid, act, et) in enumerate(es):
            ct = self.cxx(et)
            if act:
                decls.append('nop::Entry<%s, %d> e%d;' % (ct, eid, i))
            else:
                decls.append('nop::Entry<%s, %d, nop::DeletedEntry> e%d;' % (ct, eid, i))
            args.append('e%d' % i)
        name = 'Tb%d' % len(self.done)
        body = 'struct %s {\n' % name
        for d in decls:
            body += '  %s\n' % d
        tname = t[3] if len(t) > 3 and t[3] else None
        if tname is not None:
            body += '  NOP_TABLE_NS("%s", %s, %s);\n' % (tname, name, ', '.join(args))
        else:
            body += '  NOP_TABLE_HASH(%dULL, %s, %s);\n' % (t[1], name, ', '.join(args))
        body += '};\n'
        body += 'namespace vh { template <> struct Glue<%s> {\n' % name
        body += '  static void build(%s& o, const Sx& x) { NeedSeq(x, "tab"); if (x.l.size() != %d) throw BadValue{"entry count"};\n' % (name, len(es) + 1)
        for i in range(len(es)):
            body += '    vh::Build(o.e%d, x.l[%d]);\n' % (i, i + 1)
        body += '  }\n  static void dump(std::string& s, const %s& v) { s += "(tab";\n' % name
        for i in range(len(es)):
            body += '    s += " "; vh::Dump(s, v.e%d);\n' % i
        body += '    s += ")"; }\n}; }\n'
        self.defs.append(body)
        self.done[key] = name
        return name


def lit(z, k):
    if k == 'u64':
        return '%dULL' % z
    if k == 'i64':
        return '(-9223372036854775807LL - 1)' if z == -(1 << 63) else '%dLL' % z
    return '%s{%d}' % (CXX_INT[k], z) if False else 'static_cast<%s>(%d)' % (CXX_INT[k], z)


def named_table(name, es):
    h = siphash24(name.encode('latin-1') + b'\0', TABLE_K0, TABLE_K1)  # the literal's NUL is hashed too
    return ('tab', h, es, name)


# ---------------------------------------------------------------- the pool --
def S(k, c=0):
    return ('s', c, k)


FAMILY_HASH = 777
OUTER_HASH = 888


def family_entry_types():
    vec = lambda t: ('seq', ('vec',), t)
    s2 = ('tup', 'struct', [S('u8'), ('str', 1), ('opt', S('i64'))])
    s2t = ('tup', 'struct', [('wrap', 9, S('u8')), ('str', 1), ('opt', S('i64'))])   # member-wise fungible with s2
    # ids above 2^32 differ from small ids only in their upper half (7 -> u16 would collide with a truncated (1 << 32) + 7)
    return {1: S('u32'), 2: ('str', 1), 3: vec(S('i16')), 4: s2, 5: ('opt', S('u8')), 6: S('f64'), '4t': s2t,
            (1 << 32) + 1: S('u16'), (1 << 32) + 3: ('str', 1), (1 << 45) + 2: S('i8')}


def version_family():
    """definitions of one table (same hash) that differ by added / removed /
    deleted / reordered entries and by a fungible replacement of an entry type,
    plus the same nested in a structure, a vector and another table's entry"""
    E = family_entry_types()
    a = lambda i: (i, True, E[i])
    d = lambda i: (i, False, E[i])
    V = [
        [a(1), a(2), a(3)],
        [a(1), a(2), a(3), a(4)],
        [a(1), a(3)],
        [a(1), d(2), a(3)],
        [a(3), a(2), a(1)],
        [a(1), a(2), a(3), a(4), a(5), a(6)],
        [a(6), d(1), a(5)],
        [a(2)],
        [a(4), d(3), a(2), a(1)],
        [a(1), (4, True, E['4t'])],
        [a(1), a(2), a(3), a(5)],
        [a(5), a(6), a(4), d(2)],
        [a(1), a((1 << 32) + 1), a(3), a((1 << 45) + 2)],
        [a((1 << 32) + 3), a(1), d((1 << 32) + 1), a(2)],
    ]
    tabs = [('tab', FAMILY_HASH, es) for es in V]
    out = list(tabs)
    st = lambda *ts: ('tup', 'struct', list(ts))
    vec = lambda t: ('seq', ('vec',), t)
    out += [st(tabs[0], S('u16')), st(tabs[1], S('u16')), vec(tabs[0]), vec(tabs[2]),
            ('tab', OUTER_HASH, [(1, True, tabs[0]), (2, True, S('u8'))]),
            ('tab', OUTER_HASH, [(2, True, S('u8')), (1, True, tabs[1])])]
    return out


def fungible_family():
    """small types exercising every specialisation of IsFungible: sequence-like
    containers of integral / non-integral / wrapped elements, tuples and pairs of
    matching and non-matching arity, maps, logical buffers of several capacities"""
    vec = lambda t: ('seq', ('vec',), t)
    arr = lambda n, t, ca=False: ('seq', ('arr', ca, n), t)
    lbuf = lambda cap, sk, t, ca=True: ('seq', ('lbuf', ca, cap, sk, False), t)
    st = lambda *ts: ('tup', 'struct', list(ts))
    tup = lambda *ts: ('tup', 'tuple', list(ts))
    out = []
    w32 = ('wrap', 1, S('i32'))
    for e in (S('i32'), S('f32'), ('str', 1), w32):
        out += [vec(e), arr(2, e), arr(3, e), arr(2, e, True), tup(e, e), tup(e, e, e), ('tup', 'pair', [e, e]), tup(e)]
    out += [tup(S('i32'), S('f32')), ('tup', 'pair', [S('i32'), S('f32')]), tup(S('f32'), S('i32'))]
    out += [('map', False, S('i32'), ('str', 1)), ('map', True, S('i32'), ('str', 1))]
    out += [st(lbuf(2, 'u8', S('i32'))), st(lbuf(2, 'i64', S('i32'), False)), st(lbuf(3, 'u8', S('i32'))), st(vec(S('i32'))),
            st(lbuf(2, 'u8', S('f32'))), st(vec(S('f32'))), st(arr(2, S('i32'))), st(lbuf(2, 'u16', w32)), st(lbuf(150, 'i32', S('f32')))]
    out += [('opt', S('i32')), ('opt', w32), ('res', 1, 'i32', S('i32')), ('res', 2, 'u8', S('i32')), ('res', 1, 'i32', w32),
            ('var', [S('i32'), ('str', 1)]), ('var', [w32, ('str', 1)]), ('var', [('str', 1), S('i32')]), S('i32'), w32, ('wrap', 3, w32)]
    # tables whose entries hold fungible structures: the entry's SIZE field is computed from the member's size, so a
    # partially filled buffer must size like the vector that holds the same elements
    FG = 0x0f0f0f0f0f0f
    out += [('tab', FG, [(0, True, st(vec(S('u32')))), (1, True, S('u8'))]), ('tab', FG, [(0, True, st(lbuf(6, 'u8', S('u32')))), (1, True, S('u8'))]),
            ('tab', FG + 1, [(3, True, st(vec(S('f32'))))]), ('tab', FG + 1, [(3, True, st(lbuf(5, 'u16', S('f32'), False)))])]
    seen, res = set(), []
    for t in out:
        if desc(t) not in seen:
            seen.add(desc(t)); res.append(t)
    return res


def cx_family():
    """the types/values serialized at compile time in harness/prim.cpp (C17)"""
    arr = lambda n, t: ('wrap', 7, ('seq', ('arr', True, n), t))
    st = lambda *ts: ('tup', 'struct', list(ts))
    s1 = st(S('u8'), S('u32'), S('i64'), S('i16'))
    s2 = st(s1, arr(3, S('u16')), S('bool'))
    t1 = named_table('Verif.Cx', [(0, True, S('i32')), (1, True, S('u8', 1)), (2, True, arr(10, S('u8', 1))), (300, True, S('u64'))])
    a = arr(2, s1)
    return [(s1, ('s1', '(seq 200 2779096485 -4000000000 -129)')),
            (s2, ('s2', '(seq (seq 127 65536 2147483648 127) (seq 0 255 65535) 1)')),
            (t1, ('t1', '(tab (some -65) (some 122) (some (seq 104 101 108 108 111 0 0 0 0 0)) (some 18446744073709551615))')),
            (a, ('a', '(seq (seq 1 2 3 4) (seq 128 256 -32769 -64))'))]


def core_pool():
    """Deterministic pool: every constructor x integer kind x integral/non-integral
    elements x small arities.  Returns a list of types."""
    P = []
    ints = ['u8', 'u16', 'u32', 'u64', 'i8', 'i16', 'i32', 'i64']
    P += [S('bool'), S('u8', 1)] + [S(k) for k in ints] + [S('f32'), S('f64')]
    P += [S('u8', 2), S('i16', 3), S('u32', 4), S('i64', 5)]
    P += [('str', 1), ('str', 2), ('str', 4)]
    vec = lambda t: ('seq', ('vec',), t)
    arr = lambda n, t, ca=False: ('seq', ('arr', ca, n), t)
    lbuf = lambda cap, sk, t, ca=True, unb=False: ('seq', ('lbuf', ca, cap, sk, unb), t)
    st = lambda *ts: ('tup', 'struct', list(ts))
    # vectors
    P += [vec(S(k)) for k in ['u8', 'i16', 'u32', 'i64']] + [vec(S('u8', 1))]
    P += [vec(S('f32')), vec(S('u8', 2)), vec(('str', 1)), vec(vec(S('u16'))), vec(('opt', S('i32')))]
    # arrays
    P += [arr(4, S('u8')), arr(3, S('i32')), arr(3, S('bool')), arr(2, ('str', 1)), arr(2, S('f64')),
          arr(3, S('u16'), True), arr(2, ('str', 1), True), arr(2, S('i64'), True), arr(1, vec(S('u8')))]
    # pairs / tuples
    P += [('tup', 'pair', [S('u8'), ('str', 1)]), ('tup', 'tuple', []), ('tup', 'tuple', [S('i32')]),
          ('tup', 'tuple', [S('u64'), S('f64'), ('str', 1)]),
          ('tup', 'pair', [('tup', 'pair', [S('i8'), S('i16')]), vec(S('u8'))])]
    # maps
    P += [('map', False, S('u8'), ('str', 1)), ('map', False, ('str', 1), S('u32')),
          ('map', False, S('i16'), vec(S('i32'))), ('map', True, S('u32'), ('str', 1)),
          ('map', False, S('u8', 2), ('tup', 'tuple', [S('u8'), S('i64')]))]
    # optional / result / variant
    P += [('opt', S('u8')), ('opt', ('str', 1)), ('opt', vec(S('u16'))), ('opt', S('i64')), ('opt', S('f32'))]
    P += [('res', 1, 'i32', S('u32')), ('res', 2, 'u8', ('str', 1)), ('res', 1, 'i32', vec(S('i16')))]
    P += [('var', [S('i32'), ('str', 1)]), ('var', [S('u8'), vec(S('u8')), st(S('i16'), ('str', 1))]),
          ('var', [S('f32')]), ('var', [S('bool'), S('u64'), S('i8'), ('opt', S('u16'))])]
    # structures
    s1 = st(S('u8'))
    s2 = st(S('u8'), ('str', 1), ('opt', S('i64')))
    P += [s1, s2, st(s2, vec(s1), S('f32')), st(S('u32', 4), ('tup', 'pair', [S('i8'), S('u64')]), arr(2, S('i16')))]
    # logical buffers: every size-member kind, integral and non-integral elements
    for i, sk in enumerate(ints):
        P.append(st(lbuf(5, sk, S(ints[(i + 2) % 8]), ca=(i % 2 == 0)), S('u8')))
    # counts of 128 and more with a signed count member (the count travels as a 64-bit unsigned length)
    P += [st(lbuf(200, 'i32', S('f32'))), st(lbuf(130, 'i16', ('str', 1), ca=False), S('u8'))]
    P += [st(lbuf(3, 'u8', ('str', 1))), st(lbuf(4, 'i32', S('f32'), ca=False)),
          st(S('i8'), lbuf(2, 'u64', vec(S('u8'))), lbuf(100, 'u8', S('u32')))]
    # wrappers
    P += [('wrap', 1, S('i32')), ('wrap', 2, ('str', 1)), ('wrap', 3, vec(S('u8'))),
          ('wrap', 4, lbuf(4, 'u16', S('i16'))), vec(('wrap', 1, S('i32'))), st(('wrap', 2, ('str', 1)), S('u8'))]
    # handles
    h0 = ('hnd', 1, 'u64', 0)
    h1 = ('hnd', 2, 'u32', 77)
    P += [h0, st(h0, S('u8'), h1), vec(h0), ('opt', h1)]
    # tables
    t1 = named_table('Verif.TableA', [(1, True, S('u32')), (2, True, ('str', 1))])
    t2 = ('tab', 12345, [(1, True, S('u32')), (2, False, S('u8')), (3, True, vec(S('i16'))), (300, True, s2)])
    t3 = named_table('Verif.Outer', [(5, True, t1), (6, True, vec(t1)), (70000, True, S('i8'))])
    t4 = ('tab', 0, [(1, True, h0), (2, True, ('opt', S('u8')))])
    # a table declared with plain NOP_TABLE (hash 0), without handles
    t0 = ('tab', 0, [(1, True, S('u32')), (2, True, ('str', 1)), (3, False, S('u8'))])
    # wide strings inside table entries (their size estimate frames the entry)
    tw = ('tab', 9, [(1, True, ('str', 2)), (2, True, ('str', 4)), (3, True, vec(S('u32')))])
    # entries that hold an Optional (a present entry whose value is Nil is still a present entry)
    to = ('tab', 41, [(1, True, ('opt', S('u8'))), (2, True, ('opt', ('str', 1))), (3, True, S('u32')), (4, False, S('u8'))])
    # integral arrays as entry values (BIN length = count * width), ids that need more than 32 bits
    ta = ('tab', 42, [(1, True, arr(4, S('u32'))), (2, True, arr(3, S('i16'))), ((1 << 32) + 1, True, S('u16')), ((1 << 40) + 7, True, ('str', 1)), (7, True, S('u8'))])
    P += [t1, t2, t3, t4, t0, tw, to, ta, st(t1, S('u16')), vec(t2)]
    # handles at every nesting position (C15): variant alternatives, optional members of sequence
    # elements, map values, arrays, pairs, Result values, table entries, nested tables
    hv = ('var', [h0, S('u8'), h1])
    t5 = ('tab', 5, [(1, True, h0), (2, True, vec(h0)), (3, True, st(h1, S('u8'))), (4, True, hv)])
    t6 = ('tab', 6, [(1, True, t5), (2, True, h1), (3, True, ('opt', h0))])
    P += [hv, vec(st(h0, ('opt', h1))), ('map', False, S('u8'), h0), arr(3, h0), ('tup', 'pair', [h0, h1]),
          ('res', 3, 'i32', h0), t5, t6, vec(hv)]
    P += version_family()
    P += fungible_family()
    P += [t for t, _ in cx_family()]
    # finding K1: Optional/Result whose payload can itself start with NIL/ERR (not prefix-disjoint)
    P += [('opt', ('opt', S('u8'))), ('res', 1, 'i32', ('res', 2, 'u8', S('u8')))]
    # feature interactions: a table inside a variant / optional / result / map value, wide strings in a logical buffer,
    # enums and chars as map keys, optionals and results as container elements, bool and char sequences, nested maps
    P += [('var', [t1, S('u8'), ('str', 2)]), ('opt', t1), ('res', 1, 'i32', t1), ('map', False, S('u8'), t1),
          st(lbuf(3, 'u8', ('str', 2)), S('u8')), ('map', False, S('i16', 3), ('opt', vec(('str', 1)))), ('map', False, S('u8', 1), S('f64')),
          arr(2, ('opt', S('u8'))), vec(('res', 2, 'u8', ('str', 1))), vec(S('u8', 1)), ('tup', 'pair', [S('bool'), S('u8', 1)]),
          ('map', False, ('str', 1), ('map', False, S('u8'), vec(S('i32')))), ('tup', 'tuple', [('opt', ('str', 4)), ('var', [S('f64'), vec(S('i64'))])]),
          vec(('var', [S('i8'), ('tup', 'pair', [S('u16'), ('str', 1)])]))]
    # integral arrays whose element count and byte count fall into different length classes (40 x 4, 70 x 2, 100 x 8 bytes)
    P += [arr(40, S('u32'), True), arr(70, S('i16')), arr(100, S('u64'), True), st(lbuf(60, 'u8', S('u32')), S('u8'))]
    # handle policies whose type tag is a signed type, 128 or more / negative
    P += [('hnd', 3, 'i16', 200), st(('hnd', 4, 'i32', -3), S('u8'))]
    # a variant with more alternatives than a fixint counts (the index leaves the one-byte class at 128)
    P += [('var', [('wrap', 1000 + i, S('u8')) for i in range(130)])]
    # a structure with more members than a fixint counts (the member count leaves the one-byte class at 128)
    P += [st(*([S('u8')] * 130))]
    # structures declared from outside (NOP_EXTERNAL_STRUCTURE): members of every kind, nested, in containers and entries
    xst = lambda *ts: ('tup', 'xstruct', list(ts))
    x1 = xst(S('u8'), ('str', 1), ('opt', S('i64')))
    P += [x1, xst(lbuf(4, 'u8', S('i16')), S('u8')), vec(x1), xst(x1, vec(S('u32'))), ('tab', 31, [(1, True, x1), (2, True, S('u8'))])]
    seen, out = set(), []
    for t in P:
        key = desc(t) + ('|x' if any(x[0] == 'tup' and x[1] == 'xstruct' for x in walk(t)) else '')
        if key not in seen:
            seen.add(key); out.append(t)
    return out


# ----------------------------------------------------------- value generation --
def int_pool(k):
    w, sg = IK[k]
    b = 8 * w
    lo, hi = (-(1 << (b - 1)), (1 << (b - 1)) - 1) if sg else (0, (1 << b) - 1)
    cand = [0, 1, 2, 63, 64, 65, 126, 127, 128, 129, 254, 255, 256, 257, 32767, 32768, 65535, 65536,
            (1 << 31) - 1, 1 << 31, (1 << 32) - 1, 1 << 32, (1 << 63) - 1, 1 << 63, (1 << 64) - 1,
            -1, -2, -63, -64, -65, -66, -127, -128, -129, -130, -32768, -32769, -(1 << 31), -(1 << 31) - 1, -(1 << 63)]
    return [c for c in cand if lo <= c <= hi], lo, hi


def gen_int(k, rng):
    cand, lo, hi = int_pool(k)
    r = rng.random()
    if r < 0.6:
        return rng.choice(cand)
    if r < 0.8:
        return rng.randint(max(lo, -300), min(hi, 300))
    return rng.randint(lo, hi)


def gen_value(t, rng, depth=0):
    """returns the value as s-expression text"""
    k = t[0]
    small = depth > 2
    if k == 's':
        s = t[2]
        if s == 'bool':
            return str(rng.randint(0, 1))
        if s == 'f32':
            return str(rng.choice([0, 0x3f800000, 0x7fc00001, 0xffc12345, 0x80000000, rng.getrandbits(32)]))
        if s == 'f64':
            return str(rng.choice([0, 0x3ff0000000000000, 0x7ff8000000000001, 0xfff8123456789abc, rng.getrandbits(64)]))
        return str(gen_int(s, rng))
    if k == 'str':
        n = rng.choice([0, 1, 2, 3, 5, 127, 128, 200] if not small else [0, 1, 2])
        mx = (1 << (8 * t[1])) - 1
        return '(seq%s)' % ''.join(' %d' % rng.choice([97, 0, 127, 128, 255, mx, rng.randint(0, mx)]) for _ in range(n))
    if k == 'seq':
        c = t[1]
        if c[0] == 'vec':
            n = rng.choice([0, 1, 2, 3, 7] if not small else [0, 1, 2])
            if is_integral(t[2]) and not small and rng.random() < 0.15:
                n = rng.choice([127, 128, 129, 255, 256, 300])
            elif t[2][0] == 's' and not small and rng.random() < 0.1:
                n = rng.choice([127, 128, 129, 200])      # counts that leave the fixint class, non-integral scalars too
        elif c[0] == 'arr':
            n = c[2]
        else:
            n = rng.choice([0, 1, c[2] - 1, c[2], rng.randint(0, c[2])])
            n = max(0, min(n, c[2]))
        return '(seq%s)' % ''.join(' ' + gen_elem(t[2], rng, depth) for _ in range(n))
    if k == 'tup':
        return '(seq%s)' % ''.join(' ' + gen_value(x, rng, depth + 1) for x in t[2])
    if k == 'wrap':
        return gen_value(t[2], rng, depth)
    if k == 'map':
        n = rng.choice([0, 1, 2, 4] if not small else [0, 1])
        seen, items = set(), []
        for _ in range(n):
            kv = gen_value(t[2], rng, depth + 1)
            if kv in seen:
                continue
            seen.add(kv)
            items.append((kv, gen_value(t[3], rng, depth + 1)))
        return '(map%s)' % ''.join(' (%s %s)' % kv for kv in items)
    if k == 'opt':
        return 'none' if rng.random() < 0.3 else '(some %s)' % gen_value(t[1], rng, depth + 1)
    if k == 'res':
        if rng.random() < 0.4:
            return '(err %d)' % (rng.choice([0, 1, 2]) if rng.random() < 0.5 else gen_int(t[2], rng))
        return '(ok %s)' % gen_value(t[3], rng, depth + 1)
    if k == 'var':
        if rng.random() < 0.2 or not t[1]:
            return 'empty'
        i = rng.randrange(len(t[1]))
        if len(t[1]) > 128:       # around the point where the index leaves the one-byte class
            i = rng.choice([0, 127, 128, len(t[1]) - 1, i])
        return '(alt %d %s)' % (i, gen_value(t[1][i], rng, depth + 1))
    if k == 'hnd':
        return '(hnd %d)' % rng.choice([-1, 0, 3, 7, 1 << 40, -5, -(1 << 40)])
    if k == 'tab':
        out = []
        for eid, act, et in t[2]:
            if not act or rng.random() < 0.35:
                out.append('none')
            else:
                out.append('(some %s)' % gen_value(et, rng, depth + 1))
        return '(tab%s)' % ''.join(' ' + x for x in out)
    raise ValueError(t)


def gen_elem(t, rng, depth):
    # array<bool> elements: keep to 0/1 when the harness builds them (other octets come from the decode side)
    return gen_value(t, rng, depth + 1)



# ---------------------------------------------------------- overfull containers --
def bounded_seqs(t):
    return [x for x in walk(t) if x[0] == 'seq' and x[1][0] != 'vec']


def widen(t):
    """the same type with every array / logical buffer replaced by a vector: the wire format is the same and the model's
    format encoder then accepts any element count.  Used only to PRODUCE encodings that overfill a bounded destination."""
    k = t[0]
    if k == 'seq':
        return ('seq', ('vec',), widen(t[2]))
    if k == 'tup':
        return ('tup', t[1], [widen(x) for x in t[2]])
    if k == 'wrap':
        return ('wrap', t[1], widen(t[2]))
    if k == 'map':
        return ('map', t[1], widen(t[2]), widen(t[3]))
    if k == 'opt':
        return ('opt', widen(t[1]))
    if k == 'res':
        return ('res', t[1], t[2], widen(t[3]))
    if k == 'var':
        return ('var', [widen(x) for x in t[1]])
    if k == 'tab':
        return ('tab', t[1], [(i, a, widen(x)) for i, a, x in t[2]])
    return t


def overfull_counts(t, rng):
    """element counts above the capacity of the bounded container t, aimed at the places where a narrowed or wrapped
    count would pass a capacity check: cap+1, and cap-or-less modulo 2^8 / 2^16"""
    cap = t[1][2]
    small = is_integral(t[2]) or (t[2][0] == 's' and t[2][2] in ('f32', 'f64', 'bool'))
    out = [cap + 1, cap + 2, 256 + rng.randint(0, cap), 256, 512 + rng.randint(0, cap), 255, 257]
    if small:
        out += [65536 + rng.randint(0, cap), 65536]
    return [n for n in out if n > cap]


def gen_overfull(t, rng):
    """(value text of widen(t), count, element) with ONE bounded container holding more elements than it has room for;
    None when t has no bounded container on the generated path"""
    bs = bounded_seqs(t)
    if not bs:
        return None
    which = rng.randrange(len(bs))
    state = {'i': 0, 'n': None}

    def go(t, depth):
        k = t[0]
        if k == 'seq' and t[1][0] != 'vec':
            mine = state['i'] == which
            state['i'] += 1
            if mine:
                n = rng.choice(overfull_counts(t, rng))
                state['n'] = n
                if n > 300:          # long runs repeat one element; the caller splices the bytes (see props.check_C02)
                    state['one'] = gen_value(t[2], rng, 3)
                    return '(seq@@)'
                return '(seq%s)' % ''.join(' ' + gen_value(t[2], rng, 3) for _ in range(n))
            n = t[1][2] if t[1][0] == 'arr' else rng.randint(0, t[1][2])
            return '(seq%s)' % ''.join(' ' + go(t[2], depth + 1) for _ in range(n))
        if k == 'seq':
            return '(seq%s)' % ''.join(' ' + go(t[2], depth + 1) for _ in range(rng.choice([1, 2])))
        if k == 'tup':
            return '(seq%s)' % ''.join(' ' + go(x, depth + 1) for x in t[2])
        if k == 'wrap':
            return go(t[2], depth)
        if k == 'opt':
            return '(some %s)' % go(t[1], depth + 1)
        if k == 'res':
            return '(ok %s)' % go(t[3], depth + 1)
        if k == 'tab':
            return '(tab%s)' % ''.join(' ' + ('(some %s)' % go(et, depth + 1) if act else 'none') for _, act, et in t[2])
        if k == 'var':
            # take the alternative that holds the chosen container when there is one
            for i, a in enumerate(t[1]):
                cnt = len(bounded_seqs(a))
                if state['i'] <= which < state['i'] + cnt:
                    return '(alt %d %s)' % (i, go(a, depth + 1))
                state['i'] += cnt
            return 'empty'
        if k == 'map':
            state['i'] += len(bounded_seqs(t[2])) + len(bounded_seqs(t[3]))
            return gen_value(t, rng, 3)
        return gen_value(t, rng, 3)
    v = go(t, 0)
    return (v, state['n'], state.get('one')) if state['n'] is not None else None


def emit_pool(pool, path_h, path_txt, shards=16):
    """writes the descriptor list and the C++ definitions + registration code"""
    em = Emitter()
    names = []
    for i, t in enumerate(pool):
        names.append((('T%d' % i), em.cxx(t), desc(t), caps(t)))
    with open(path_txt, 'w') as f:
        for n, _, d, c in names:
            f.write('%s %s %s\n' % (n, d, ','.join(sorted(c)) or '-'))
    with open(path_h, 'w') as f:
        f.write('// generated by tools/nopgen.py — do not edit\n#ifndef VERIF_POOL_TYPES_H_\n#define VERIF_POOL_TYPES_H_\n')
        f.write('#include "glue.h"\n\n')
        for d in em.defs:
            f.write(d + '\n')
        for n, cx, d, c in names:
            f.write('using %s = %s;  // %s\n' % (n, cx, d))
        f.write('#define VERIF_POOL_SIZE %d\n' % len(names))
        f.write('#endif\n')
    return names
