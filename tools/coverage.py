"""coverage.py — audit, not a check: which lines of /repo/include/nop do the generated cases of the
twenty quick checks reach?  Builds the harness for llvm-cov (VERIF_COVERAGE=1: no sanitizers), runs every
check, merges the profiles and writes build/cov/report.txt: per header, the lines that carry code and
were never executed, and the functions that were never entered.  Templates that no harness program
instantiates have no coverage record at all; they are listed separately as "no record" lines by
comparing with the lines that look like statements.

  python3 tools/coverage.py [C01 C02 ...]      (default: all twenty)
The evidence files written during this run come from the coverage build; re-run the checks afterwards."""
import glob, json, os, re, shutil, subprocess, sys

sys.path.insert(0, os.path.dirname(os.path.abspath(__file__)))
os.environ['VERIF_COVERAGE'] = '1'
from common import *

COV = os.path.join(BUILD, 'cov')


def main():
    ids = sys.argv[1:] or ['C%02d' % i for i in range(1, 21)]
    shutil.rmtree(COV, ignore_errors=True)
    os.makedirs(os.path.join(COV, 'raw'))
    env = dict(os.environ)
    env['LLVM_PROFILE_FILE'] = os.path.join(COV, 'raw', '%p-%8m.profraw')
    for c in ids:
        r = subprocess.run([os.path.join(VERIF, 'check'), c, '--tier', 'quick'], cwd=VERIF, env=env, capture_output=True, text=True)
        last = [l for l in r.stdout.splitlines() if l.startswith(('OK', 'VIOLATION'))]
        print(c, r.returncode, (last or ['?'])[-1][:120], flush=True)
    raws = glob.glob(os.path.join(COV, 'raw', '*.profraw'))
    prof = os.path.join(COV, 'all.profdata')
    lst = os.path.join(COV, 'raws.txt')
    open(lst, 'w').write('\n'.join(raws) + '\n')
    subprocess.run(['llvm-profdata', 'merge', '-sparse', '-f', lst, '-o', prof], check=True)
    hdirs = sorted(glob.glob(os.path.join(BUILD, 'h-core-cov-*')))
    hdir = hdirs[-1]
    bins = [os.path.join(hdir, b) for b in ('harness', 'prim', 'objs', 'rpc', 'rpcp', 'thr') if os.path.exists(os.path.join(hdir, b))]
    cmd = ['llvm-cov', 'export', '-format=text', '-instr-profile=' + prof, bins[0]]
    for b in bins[1:]:
        cmd += ['-object', b]
    cmd += ['--ignore-filename-regex=^(?!/repo/include/).*']
    r = subprocess.run(cmd, capture_output=True, text=True)
    if r.returncode:
        sys.stderr.write(r.stderr[-3000:])
        raise SystemExit(1)
    data = json.loads(r.stdout)['data'][0]
    rep = []
    tot_l = tot_c = 0
    funcs_never = {}
    for fn in data.get('functions', []):
        if fn['count'] == 0:
            for f in fn['filenames']:
                if f.startswith(os.path.join(REPO, 'include')):
                    funcs_never.setdefault(f, set()).add((fn['regions'][0][0], fn['name'][:160]))
    have = set()
    for f in sorted(data['files'], key=lambda x: x['filename']):
        name = f['filename']
        if not name.startswith(os.path.join(REPO, 'include')):
            continue
        have.add(name)
        # segments: [line, col, count, hasCount, isRegionEntry, isGap]
        lines = {}
        segs = f['segments']
        src = open(name).read().splitlines()
        # per line: executed if any region entry on the line has count > 0; uncovered if some has count 0 and none > 0
        cur = None
        for i, s in enumerate(segs):
            line, col, cnt, has, entry = s[0], s[1], s[2], s[3], s[4]
            nxt = segs[i + 1][0] if i + 1 < len(segs) else line
            if has:
                for l in range(line, max(line, nxt) + 1):
                    a = lines.setdefault(l, [0, 0])
                    if cnt > 0:
                        a[0] += 1
                    else:
                        a[1] += 1
        unc = [l for l, (p, z) in sorted(lines.items()) if p == 0 and z > 0 and l - 1 < len(src) and re.search(r'[A-Za-z0-9_]', src[l - 1]) and not src[l - 1].strip().startswith('//')]
        s = f['summary']['lines']
        tot_l += s['count']; tot_c += s['covered']
        rep.append('== %s  lines %d/%d  functions %d/%d' % (name[len(REPO) + 1:], s['covered'], s['count'], f['summary']['functions']['covered'], f['summary']['functions']['count']))
        # group consecutive lines
        grp = []
        for l in unc:
            if grp and l == grp[-1][1] + 1:
                grp[-1][1] = l
            else:
                grp.append([l, l])
        for a, b in grp:
            rep.append('   never executed %d-%d: %s' % (a, b, src[a - 1].strip()[:110]))
    rep.append('')
    rep.append('TOTAL lines with a coverage record: %d, executed: %d' % (tot_l, tot_c))
    missing = [p for p in tree_files(os.path.join(REPO, 'include'), exts=('.h',)) if p not in have]
    rep.append('headers without any coverage record (not included, or only declarations/templates never instantiated):')
    rep += ['   ' + m[len(REPO) + 1:] for m in sorted(missing)]
    open(os.path.join(COV, 'report.txt'), 'w').write('\n'.join(rep) + '\n')
    print('\n'.join(rep[-(len(missing) + 3):]))
    print('report:', os.path.join(COV, 'report.txt'))


if __name__ == '__main__':
    main()
