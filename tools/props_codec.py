"""props_codec.py — correspondence streams and direct oracles for the codec
properties (C01, C02, C03, C04, C05, C06, C11 ...)."""
import os, sys
from framework import *
import json


def proofs_or_violation(ctx, files, bridge=True):
    """builds the property's theorem files; a failed obligation is recorded and
    reported after the search for a failing input (done by the caller's streams)"""
    ob, di, detail, ok, lg = check_proofs(ctx, files, bridge)
    ctx.proof = {'obligations': ob, 'discharged': di, 'detail': detail, 'ok': ok}
    if not ok:
        ctx.proof['failure'] = getattr(ctx, 'proof_failure', None)
    return ok


def finish_with_proofs(ctx, extra=None):
    p = ctx.proof
    if not p['ok'] and not any(not v[2].get('no_failing_input') for v in ctx.violations):
        ctx.violate('proof', 'proof obligations of %s no longer check: %s' % (ctx.pid, json.dumps(p.get('failure'))[:300]),
                    {'no_failing_input': True, 'theorem_files': [d['file'] for d in p['detail'] if d['status'] != 'proved'],
                     'errors': p.get('failure')})
    ex = {'proof_detail': p['detail']}
    if extra:
        ex.update(extra)
    return finish(ctx, 'proof', p['obligations'], p['discharged'],
                  'make -C /verif/coq ' + ' '.join(d['file'][:-2] + '.vo' for d in p['detail']), ex)


def le(n, w):
    return ''.join('%02x' % ((n >> (8 * i)) & 255) for i in range(w))


def mutations(hx, rng, budget):
    """single- and multi-defect derivations of a valid encoding (hex text)"""
    bs = [] if hx == '-' else [hx[i:i + 2] for i in range(0, len(hx), 2)]
    n = len(bs)
    out = []
    j = lambda l: ''.join(l) or '-'
    # truncation at every cut
    cuts = range(n) if n <= 48 else sorted(set(list(range(12)) + [rng.randrange(n) for _ in range(24)] + [n - 1, n - 2, n - 3]))
    for k in cuts:
        out.append(('trunc', j(bs[:k])))
    pos = list(range(n)) if n <= 24 else sorted(set(list(range(8)) + [rng.randrange(n) for _ in range(16)]))
    interesting = ['00', '01', '7f', '80', '81', '82', '83', '84', '85', '86', '87', '88', '89', '8a', 'b4', 'b5', 'b6',
                   'b7', 'b8', 'b9', 'ba', 'bb', 'bc', 'bd', 'be', 'bf', 'c0', 'ff']
    for i in pos:
        for v in rng.sample(interesting, 6):
            if v != bs[i]:
                out.append(('byte', j(bs[:i] + [v] + bs[i + 1:])))
        b = int(bs[i], 16)
        if b < 128:
            # same value in a wider (legal or illegal) class; inflated lengths
            out.append(('widen8', j(bs[:i] + ['80', bs[i]] + bs[i + 1:])))
            out.append(('widen16', j(bs[:i] + ['81', bs[i], '00'] + bs[i + 1:])))
            out.append(('widen32', j(bs[:i] + ['82', bs[i], '00', '00', '00'] + bs[i + 1:])))
            out.append(('widen64', j(bs[:i] + ['83', bs[i]] + ['00'] * 7 + bs[i + 1:])))
            out.append(('swiden', j(bs[:i] + ['84', bs[i]] + bs[i + 1:])))
            # also counts that equal the original modulo 2^8 / 2^16 / 2^32 (a narrowed count would pass a length check)
            for big in (2 ** 64 - 1, 2 ** 63, 2 ** 32, 2 ** 32 - 1, b + 1, 65536, 2 ** 32 + b, 3 * 2 ** 32 + b, 2 ** 16 + b, 2 ** 8 + b, 2 ** 63 + b):
                out.append(('inflate', j(bs[:i] + ['83', le(big, 8)] + bs[i + 1:])))
            out.append(('inc', j(bs[:i] + ['%02x' % ((b + 1) & 127)] + bs[i + 1:])))
            if b:
                out.append(('dec', j(bs[:i] + ['%02x' % (b - 1)] + bs[i + 1:])))
        out.append(('del', j(bs[:i] + bs[i + 1:])))
        out.append(('ins', j(bs[:i] + [rng.choice(interesting)] + bs[i:])))
    out.append(('extend', j(bs + ['00'])))
    out.append(('extend', j(bs + ['ff', '01'])))
    if len(out) > budget:
        keep = [m for m in out if m[0] == 'trunc'][:budget // 3]
        rest = [m for m in out if m[0] != 'trunc']
        rng.shuffle(rest)
        out = keep + rest[:budget - len(keep)]
    return out


class CodecStreams:
    """generates the cases once per run; properties pick the parts they need"""

    def __init__(self, ctx, nvals=None, mut_budget=None, types=None):
        self.ctx = ctx
        self.pool = get_pool()
        self.nvals = nvals or (12 if ctx.quick else 120)
        self.mut_budget = mut_budget or (60 if ctx.quick else 400)
        self.sel = types if types is not None else list(range(len(self.pool.types)))
        self.enc_rows = None

    # -- phase 1: encode on both sides ------------------------------------
    def run_enc(self):
        if self.enc_rows is not None:
            return self.enc_rows
        ctx, pool = self.ctx, self.pool
        cases = []
        for i in self.sel:
            t = pool.types[i]
            seen = set()
            for _ in range(self.nvals):
                v = nopgen.gen_value(t, ctx.rng)
                if v in seen:
                    continue
                seen.add(v)
                cases.append((i, v))
        hl = ['enc T%d %s' % c for c in cases]
        hout = run_harness(pool, hl)
        rows = []
        ml = []
        for (i, v), line, o in zip(cases, hl, hout):
            f = sx.fields(o) if not o.startswith(('HARNESS', 'CRASH', 'OOM', 'EXCEPTION')) else None
            rows.append({'tid': i, 'input': v, 'case': line, 'h': f, 'hraw': o})
            ml.append('enc T%d %s' % (i, f['dump']) if f and 'dump' in f and '!' not in f['dump'] else '# skipped')
        mout = run_driver(pool, ml)
        for r, line, o in zip(rows, ml, mout):
            r['mcase'] = line
            r['m'] = sx.fields(o) if not o.startswith(('DRIVER', 'CRASH', '#')) else None
            r['mraw'] = o
        self.enc_rows = rows
        return rows

    # -- phase 2: decode a list of (tid, hex, handles, tag) on both sides --
    def run_dec(self, items, prior=None):
        pool = self.pool
        lines = ['dec T%d %s %s' % (i, hx, hs) + ((' ' + p) if p else '') for (i, hx, hs, tag, p) in items]
        hout = run_harness(pool, lines)
        mlines = ['dec T%d %s %s' % (i, hx, hs) for (i, hx, hs, tag, p) in items]
        mout = run_driver(pool, mlines)
        rows = []
        for it, line, a, b in zip(items, lines, hout, mout):
            rows.append({'tid': it[0], 'hex': it[1], 'handles': it[2], 'tag': it[3], 'prior': it[4], 'case': line,
                         'h': sx.fields(a) if not a.startswith(('HARNESS', 'CRASH', 'OOM', 'EXCEPTION')) else None, 'hraw': a,
                         'm': sx.fields(b) if not b.startswith(('DRIVER', 'CRASH')) else None, 'mraw': b})
        return rows


def same(a, b, keys):
    return a is not None and b is not None and all(a.get(k) == b.get(k) for k in keys)


def val_eq(a, b):
    return a is not None and b is not None and sx.canon_text(a) == sx.canon_text(b)


def hexlen(hx):
    return 0 if hx == '-' else len(hx) // 2


def type_desc(pool, i):
    return nopgen.desc(pool.types[i])


# --------------------------------------------------------------------------
# shared sub-checks; each returns nothing and records violations in ctx
# --------------------------------------------------------------------------
def corr_enc(ctx, S, prop_oracle):
    """stream enc: implementation Serializer::Write/GetSize vs model enc/tsize.
    prop_oracle(row) -> None or (signature, message): the property's own
    predicate on the implementation's output, evaluated when the
    correspondence breaks (and always, as the direct oracle)."""
    rows = S.run_enc()
    pool = S.pool
    broken = []
    for r in rows:
        ctx.count('enc', r['case'], nontrivial=r['h'] is not None)
        if r['h'] is None:
            ctx.violate('harness-crash:enc', 'harness failed on %s: %s' % (r['case'][:200], r['hraw'][:300]),
                        {'stream': 'enc', 'case': r['case'], 'type': type_desc(pool, r['tid']), 'harness': r['hraw']})
            continue
        if r['m'] is None:
            continue
        v = prop_oracle(r)
        if v:
            ctx.violate(v[0], v[1], {'stream': 'enc', 'case': r['case'], 'type': type_desc(pool, r['tid']),
                                     'implementation': r['hraw'], 'model': r['mraw']})
        elif not same(r['h'], r['m'], ('size', 'st', 'bytes')):
            broken.append(r)
    return broken


def report_broken(ctx, broken, stream, what):
    """correspondence broke but the property's oracle found no failing input"""
    if not broken:
        return
    r = broken[0]
    ctx.violate('corr:' + stream, 'correspondence %s no longer checks (%d cases disagree), e.g. %s' % (what, len(broken), r['case'][:160]),
                {'no_failing_input': True, 'correspondence': what, 'stream': stream, 'disagreements': len(broken),
                 'first': {'case': r['case'], 'implementation': r['hraw'][:2000], 'model': r['mraw'][:2000]}})
