"""seeded.py — confirm a seeded change and run the checks against it.

  python3 tools/seeded.py confirm ID SRC_DIR     copy SRC_DIR/{patch.diff,demo.cpp,demo.txt,meta.json} to seeded/ID,
                                                 confirm in a scratch worktree (suite passes, demo differs)
  python3 tools/seeded.py run ID [CHECK ...]      apply seeded/ID/patch.diff to /repo, run the named checks
                                                 (default: the property's own), undo, record the outcome
The scratch worktree lives under /tmp and is removed before returning; /repo is restored
with `git checkout -- .` whatever happens."""
import json, os, shutil, subprocess, sys, time

VERIF = os.path.dirname(os.path.dirname(os.path.abspath(__file__)))
REPO = '/repo'


def sh(cmd, cwd=None, timeout=3600):
    return subprocess.run(cmd, cwd=cwd, stdout=subprocess.PIPE, stderr=subprocess.STDOUT, text=True, timeout=timeout)


def confirm(sid, src):
    dst = os.path.join(VERIF, 'seeded', sid)
    os.makedirs(dst, exist_ok=True)
    for f in ('patch.diff', 'demo.cpp', 'demo.txt', 'meta.json'):
        if os.path.exists(os.path.join(src, f)):
            shutil.copy(os.path.join(src, f), dst)
    wt = '/tmp/cf-' + sid
    sh(['git', '-C', REPO, 'worktree', 'remove', '--force', wt])
    r = sh(['git', '-C', REPO, 'worktree', 'add', '--detach', wt, 'HEAD'])
    out = {}
    try:
        def demo(tag):
            exe = os.path.join(wt, 'demo_' + tag)
            c = sh(['g++', '-std=c++14', '-O1', '-I' + os.path.join(wt, 'include'), os.path.join(dst, 'demo.cpp'), '-o', exe, '-pthread'], timeout=900)
            if c.returncode:
                return {'compile_error': c.stdout[-1500:]}
            try:
                r = sh([exe], cwd=wt, timeout=300)
                return {'exit': r.returncode, 'tail': r.stdout[-1200:]}
            except subprocess.TimeoutExpired:
                return {'exit': 'timeout'}
        out['demo_original'] = demo('orig')
        a = sh(['git', '-C', wt, 'apply', os.path.join(dst, 'patch.diff')])
        out['patch_applies'] = a.returncode == 0
        if a.returncode == 0:
            out['demo_modified'] = demo('mod')
            m = sh(['make', '-C', wt, '-j16', 'out/test'], timeout=1800)
            if m.returncode:
                out['suite'] = 'BUILD FAILED: ' + m.stdout[-800:]
            else:
                t = sh([os.path.join(wt, 'out', 'test')], cwd=wt, timeout=900)
                out['suite'] = [l for l in t.stdout.splitlines() if 'PASSED' in l or 'FAILED' in l][-3:]
        else:
            out['apply_error'] = a.stdout[-800:]
    finally:
        sh(['git', '-C', REPO, 'worktree', 'remove', '--force', wt])
        shutil.rmtree(wt, ignore_errors=True)
    out['confirmed'] = bool(out.get('patch_applies') and 'demo_modified' in out and out['demo_original'] != out['demo_modified']
                            and any('PASSED' in l and '315' in l for l in out.get('suite', []) if isinstance(out.get('suite'), list)))
    mp = os.path.join(dst, 'meta.json')
    meta = json.load(open(mp)) if os.path.exists(mp) else {}
    meta['confirmation'] = out
    json.dump(meta, open(mp, 'w'), indent=1)
    print(sid, 'confirmed' if out['confirmed'] else 'NOT CONFIRMED', json.dumps({k: v for k, v in out.items() if k != 'demo_original' and k != 'demo_modified'})[:400])
    return out['confirmed']


def run(sid, checks):
    dst = os.path.join(VERIF, 'seeded', sid)
    meta = json.load(open(os.path.join(dst, 'meta.json')))
    prop = meta.get('property', sid.split('-')[0])
    checks = checks or [prop]
    st = sh(['git', '-C', REPO, 'status', '--porcelain'])
    if st.stdout.strip():
        raise SystemExit('/repo is not clean: ' + st.stdout)
    res = {}
    a = sh(['git', '-C', REPO, 'apply', os.path.join(dst, 'patch.diff')])
    if a.returncode:
        raise SystemExit('patch does not apply: ' + a.stdout)
    try:
        for c in checks:
            t0 = time.time()
            r = sh([os.path.join(VERIF, 'check'), c, '--tier', 'quick'], cwd=VERIF, timeout=7200)
            lines = [l for l in r.stdout.splitlines() if l.startswith(('VIOLATION', 'OK ', 'KNOWN-FINDING'))]
            res[c] = {'exit': r.returncode, 'wall_s': round(time.time() - t0, 1), 'lines': [l[:500] for l in lines[:4]],
                      'caught': r.returncode == 1 and any(l.startswith('VIOLATION') for l in lines),
                      'with_failing_input': any(l.startswith('VIOLATION') and not l.rstrip().endswith('no-failing-input-found') for l in lines)}
            if r.returncode not in (0, 1):
                res[c]['output_tail'] = r.stdout[-1500:]
    finally:
        sh(['git', '-C', REPO, 'checkout', '--', '.'])
    meta.setdefault('checks', {}).update(res)
    meta['caught_by'] = sorted(c for c, v in meta['checks'].items() if v.get('caught'))
    json.dump(meta, open(os.path.join(dst, 'meta.json'), 'w'), indent=1)
    for c, v in res.items():
        print(sid, c, 'CAUGHT' if v['caught'] else 'missed', '(failing input)' if v['with_failing_input'] else '', v['lines'][:1])


if __name__ == '__main__':
    if sys.argv[1] == 'confirm':
        sys.exit(0 if confirm(sys.argv[2], sys.argv[3]) else 1)
    run(sys.argv[2], sys.argv[3:])
