"""nop2coq.py — translator from /repo's headers to Coq (coq/Gen.v), run on every check.

It asks clang for the JSON AST of nop/base/encoding.h, nop/status.h, nop/utility/sip_hash.h
users (table.h, rpc/interface.h) and regenerates, from what the code says now:

  * the enumerators of nop::EncodingByte and nop::ErrorStatus and the SipHash key constants,
  * BaseEncodingSize(prefix) as a Gallina function on N,
  * Encoding<T>::Prefix(value) for bool, char and the eight fixed-width integers, as functions Z -> N,
  * Encoding<T>::Match(prefix) for the same types and float/double, as functions N -> bool.

The supported C++ subset is what those leaf functions use: if / else-if chains, a switch with
fall-through case groups, return, &&, ||, comparisons, ==, integer literals, shifts of
literals, unary minus, references to the parameter and to enumerators, static_cast to
EncodingByte / integer types, and calls of other Encoding<U>::Match.  Anything else makes
the translator fail loudly (the check then reports that the tie is broken).

coq/Bridge.v (written by hand) proves that the hand-written model of Wire.v / Base.v agrees with
the generated definitions: on all 256 prefixes for BaseEncodingSize and Match, and for every
in-range value for Prefix."""
import json, os, subprocess, sys
sys.path.insert(0, os.path.dirname(os.path.abspath(__file__)))
from common import *

TU = '#include <nop/base/encoding.h>\n#include <nop/status.h>\n#include <nop/table.h>\n#include <nop/rpc/interface.h>\n'
INT_TYPES = {'unsigned char': 'u8', 'signed char': 'i8', 'unsigned short': 'u16', 'short': 'i16', 'unsigned int': 'u32', 'int': 'i32',
             'unsigned long': 'u64', 'long': 'i64', 'bool': 'bool', 'char': 'char', 'float': 'f32', 'double': 'f64'}


class Untranslatable(Exception):
    pass


def ast(filter_name, workdir):
    src = os.path.join(workdir, 'nop2coq_tu.cpp')
    with open(src, 'w') as f:
        f.write(TU)
    r = subprocess.run([CXX, '-std=c++14', '-I' + os.path.join(REPO, 'include'), '-include', 'array', '-include', 'limits', '-include', 'memory',
                        '-include', 'new', '-fsyntax-only', '-Xclang', '-ast-dump=json', '-Xclang', '-ast-dump-filter=' + filter_name, src],
                       stdout=subprocess.PIPE, stderr=subprocess.PIPE, text=True, timeout=300)
    if r.returncode != 0:
        raise Untranslatable('clang failed: ' + r.stderr[-800:])
    dec = json.JSONDecoder()
    s, i, out = r.stdout, 0, []
    while True:
        while i < len(s) and s[i] in ' \n\r\t':
            i += 1
        if i >= len(s):
            break
        o, i = dec.raw_decode(s, i)
        out.append(o)
    return out


def enum_values(decl):
    """EnumDecl -> [(name, value)], following C++ rules for implicit values"""
    out, nxt = [], 0
    for c in decl.get('inner', []):
        if c.get('kind') != 'EnumConstantDecl':
            continue
        v = None
        for e in c.get('inner', []):
            v = const_value(e)
        if v is None:
            v = nxt
        out.append((c['name'], v))
        nxt = v + 1
    return out


def const_value(e):
    k = e.get('kind')
    if k == 'ConstantExpr' and 'value' in e:
        return int(e['value'])
    if k == 'IntegerLiteral':
        return int(e['value'])
    if k in ('ImplicitCastExpr', 'ParenExpr', 'CStyleCastExpr', 'CXXStaticCastExpr', 'ConstantExpr', 'CXXFunctionalCastExpr'):
        for c in e.get('inner', []):
            v = const_value(c)
            if v is not None:
                return v
    if k == 'UnaryOperator' and e.get('opcode') == '-':
        v = const_value(e['inner'][0])
        return None if v is None else -v
    if k == 'BinaryOperator' and e.get('opcode') == '<<':
        a, b = const_value(e['inner'][0]), const_value(e['inner'][1])
        return None if a is None or b is None else a << b
    return None


class Tr:
    """expression / statement translation for one function with one parameter"""

    def __init__(self, enums, param, param_is_prefix, ret_is_prefix):
        self.enums, self.param = enums, param
        self.locals = {}                     # VarDecl id -> Coq name (const bool locals)
        self.pz = not param_is_prefix        # parameter lives in Z (a value) or in N (a prefix byte)
        self.ret_is_prefix = ret_is_prefix

    def lit(self, v):
        return ('(%d)' % v) if v < 0 else str(v)

    def num(self, e):
        """numeric expression in the parameter's scope"""
        k = e.get('kind')
        v = const_value(e)
        if v is not None and not self.mentions_param(e):
            return self.lit(v)
        if k == 'DeclRefExpr':
            rd = e.get('referencedDecl', {})
            if rd.get('kind') == 'ParmVarDecl' and rd.get('name') == self.param:
                return 'x'
            if rd.get('kind') == 'EnumConstantDecl':
                return self.lit(self.enums[rd['name']])
        if k in ('ImplicitCastExpr', 'ParenExpr', 'CXXStaticCastExpr', 'CStyleCastExpr', 'CXXFunctionalCastExpr', 'ConstantExpr'):
            inner = [c for c in e.get('inner', []) if c.get('kind') not in ('TemplateArgument',)]
            if k == 'CXXStaticCastExpr' and self.pz:
                ty = e.get('type', {}).get('qualType', '')
                base = self.num(inner[0])
                if ty in ('std::uint8_t', 'unsigned char'):
                    return '(%s mod 256)' % base
                if ty in ('std::int8_t', 'signed char'):
                    return '(sext8 %s)' % base
                raise Untranslatable('static_cast to %s' % ty)
            return self.num(inner[0])
        raise Untranslatable('numeric expression %s' % k)

    def mentions_param(self, e):
        if e.get('kind') == 'DeclRefExpr' and e.get('referencedDecl', {}).get('kind') == 'ParmVarDecl':
            return True
        return any(self.mentions_param(c) for c in e.get('inner', []))

    def cond(self, e):
        k = e.get('kind')
        if k in ('ParenExpr', 'ImplicitCastExpr', 'ExprWithCleanups'):
            return self.cond(e['inner'][0])
        if k == 'BinaryOperator':
            op = e['opcode']
            if op in ('&&', '||'):
                return '(%s %s %s)' % (self.cond(e['inner'][0]), op, self.cond(e['inner'][1]))
            a, b = self.num(e['inner'][0]), self.num(e['inner'][1])
            table = {'<': '%s <? %s', '<=': '%s <=? %s', '>': '%s <? %s', '>=': '%s <=? %s', '==': '%s =? %s'}
            if op in ('>', '>='):
                a, b = b, a
            if op in table:
                return '(' + table[op] % (a, b) + ')'
            raise Untranslatable('operator ' + op)
        if k == 'CallExpr':
            # Encoding<U>::Match(prefix)
            callee = e['inner'][0]
            while callee.get('kind') in ('ImplicitCastExpr', 'ParenExpr'):
                callee = callee['inner'][0]
            rd = callee.get('referencedDecl', {})
            if rd.get('name') == 'Match':
                qual = callee.get('nestedNameSpecifier') or ''
                ty = self.callee_type(callee)
                return '(gen_Match_%s x)' % ty
            raise Untranslatable('call of %s' % rd.get('name'))
        if k == 'CXXBoolLiteralExpr':
            return 'true' if e.get('value') else 'false'
        if k == 'UnaryOperator' and e.get('opcode') == '!':
            return '(negb %s)' % self.cond(e['inner'][0])
        if k == 'ConditionalOperator':
            return '(if %s then %s else %s)' % (self.cond(e['inner'][0]), self.cond(e['inner'][1]), self.cond(e['inner'][2]))
        if k == 'DeclRefExpr' and e.get('referencedDecl', {}).get('id') in self.locals:
            return self.locals[e['referencedDecl']['id']]
        raise Untranslatable('condition %s' % k)

    def callee_type(self, callee):
        # the qualifier Encoding<std::uint8_t>:: is not in the JSON as a type; recover it from the source text range is brittle,
        # so nop2coq resolves it through the declaration id of the referenced method
        rid = callee.get('referencedDecl', {}).get('id')
        if rid in METHOD_OWNER:
            return METHOD_OWNER[rid]
        raise Untranslatable('cannot resolve the class of a called Match')

    def ret(self, e):
        """returned expression"""
        if self.ret_is_prefix:
            # EncodingByte: an enumerator or static_cast<EncodingByte>(value)
            k = e.get('kind')
            if k in ('ImplicitCastExpr', 'ParenExpr', 'ConstantExpr', 'ExprWithCleanups'):
                return self.ret(e['inner'][0])
            if k == 'DeclRefExpr' and e.get('referencedDecl', {}).get('kind') == 'EnumConstantDecl':
                return str(self.enums[e['referencedDecl']['name']])
            if k == 'CXXStaticCastExpr':
                inner = [c for c in e.get('inner', []) if c.get('kind') != 'TemplateArgument']
                return '(Z.to_N (%s mod 256))' % self.num(inner[0])
            if k == 'ConditionalOperator':
                return '(if %s then %s else %s)' % (self.cond(e['inner'][0]), self.ret(e['inner'][1]), self.ret(e['inner'][2]))
            raise Untranslatable('returned prefix %s' % k)
        v = const_value(e)
        if v is not None:
            return str(v)
        return self.cond(e)

    def stmts(self, ss):
        """statement list -> Coq expression; every path must return"""
        if not ss:
            raise Untranslatable('control reaches the end of the function')
        s, rest = ss[0], ss[1:]
        k = s.get('kind')
        if k == 'CompoundStmt':
            return self.stmts(s.get('inner', []) + rest)
        if k == 'ReturnStmt':
            return self.ret(s['inner'][0])
        if k == 'DeclStmt':
            # const bool name = <condition>;
            out = None
            binds = []
            for d in s.get('inner', []):
                if d.get('kind') != 'VarDecl' or d.get('type', {}).get('qualType') not in ('const bool', 'bool') or not d.get('inner'):
                    raise Untranslatable('local declaration of type %s' % d.get('type', {}).get('qualType'))
                name = 'l_' + ''.join(c if c.isalnum() else '_' for c in d['name'])
                binds.append((name, self.cond(d['inner'][-1])))
                self.locals[d['id']] = name
            body = self.stmts(rest)
            for name, val in reversed(binds):
                body = '(let %s := %s in %s)' % (name, val, body)
            return body
        if k == 'IfStmt':
            inner = s['inner']
            c = self.cond(inner[0])
            then = self.stmts([inner[1]] + ([] if self.returns(inner[1]) else rest))
            els = self.stmts(([inner[2]] if len(inner) > 2 else []) + rest) if (len(inner) > 2 or rest) else None
            if els is None:
                raise Untranslatable('if without else at the end of a function')
            return '(if %s then %s else %s)' % (c, then, els)
        if k == 'SwitchStmt':
            body = s['inner'][-1].get('inner', [])
            groups, default = [], None
            for g in body:
                labels, node = [], g
                while node.get('kind') in ('CaseStmt', 'DefaultStmt'):
                    if node['kind'] == 'CaseStmt':
                        labels.append(const_value(node['inner'][0]))
                        node = node['inner'][-1]
                    else:
                        labels.append(None)
                        node = node['inner'][-1]
                val = self.stmts([node])
                if None in labels:
                    default = val
                groups.append(([l for l in labels if l is not None], val))
            if default is None:
                default = self.stmts(rest)
            out = default
            for labels, val in reversed(groups):
                if labels:
                    out = '(if %s then %s else %s)' % (' || '.join('(x =? %d)' % l for l in labels), val, out)
            return out
        raise Untranslatable('statement %s' % k)

    def returns(self, s):
        k = s.get('kind')
        if k == 'ReturnStmt':
            return True
        if k == 'CompoundStmt':
            return any(self.returns(c) for c in s.get('inner', []))
        if k == 'IfStmt':
            return len(s['inner']) > 2 and self.returns(s['inner'][1]) and self.returns(s['inner'][2])
        return False


METHOD_OWNER = {}


DEGRADED = []


def guarded(name, thunk, fallback):
    """translate one function; outside the supported subset fall back to the hand-written model definition, so that the
    function is tied by the correspondence check only (recorded, not an alarm)"""
    try:
        return thunk()
    except Untranslatable as e:
        DEGRADED.append('%s (%s)' % (name, e))
        return '(* %s: not in the translated subset (%s); tied by correspondence only *)\n%s' % (name, str(e).replace('*)', '* )'), fallback)


def generate(workdir):
    del DEGRADED[:]
    objs = ast('Encoding', workdir)
    enums = {}
    out = ['(* Gen.v — GENERATED by tools/nop2coq.py from %s/include on every run; do not edit. *)' % REPO,
           'From Coq Require Import ZArith NArith Bool.', 'From Nop Require Import Base Wire.', '',
           'Definition sext8 (z : Z) : Z := let m := (z mod 256)%Z in if (m <? 128)%Z then m else (m - 256)%Z.', '']
    enc = [o for o in objs if o.get('kind') == 'EnumDecl' and o.get('name') == 'EncodingByte']
    if len(enc) != 1:
        raise Untranslatable('enum EncodingByte not found')
    for n, v in enum_values(enc[0]):
        enums[n] = v
        out.append('Definition gen_EncodingByte_%s : N := %d.' % (n, v))
    st = [o for o in ast('ErrorStatus', workdir) if o.get('kind') == 'EnumDecl' and o.get('name') == 'ErrorStatus']
    if len(st) != 1:
        raise Untranslatable('enum ErrorStatus not found')
    out.append('')
    for n, v in enum_values(st[0]):
        out.append('Definition gen_ErrorStatus_%s : N := %d.' % (n, v))
    out.append('')
    for key in ('kNopTableKey0', 'kNopTableKey1', 'kNopInterfaceKey0', 'kNopInterfaceKey1'):
        ds = [o for o in ast(key, workdir) if o.get('kind') == 'EnumConstantDecl' and o.get('name') == key]
        if len(ds) != 1:
            raise Untranslatable('constant %s not found' % key)
        v = None
        for e in ds[0].get('inner', []):
            v = const_value(e)
        if v is None:
            raise Untranslatable('constant %s has no literal value' % key)
        out.append('Definition gen_%s : N := %d.' % (key, v & ((1 << 64) - 1)))
    out.append('')
    # BaseEncodingSize
    f = [o for o in objs if o.get('kind') == 'FunctionDecl' and o.get('name') == 'BaseEncodingSize']
    if len(f) != 1:
        raise Untranslatable('BaseEncodingSize not found')
    body = [c for c in f[0]['inner'] if c.get('kind') == 'CompoundStmt'][0]
    param = [c for c in f[0]['inner'] if c.get('kind') == 'ParmVarDecl'][0]['name']
    out.append('Local Open Scope N_scope.')
    out.append(guarded('BaseEncodingSize', lambda: 'Definition gen_BaseEncodingSize (x : N) : N :=\n  %s.' % Tr(enums, param, True, False).stmts([body]),
                       'Definition gen_BaseEncodingSize (x : N) : N := base_size x.'))
    out.append('')
    # the scalar specialisations
    specs = []
    for o in objs:
        if o.get('kind') == 'ClassTemplateSpecializationDecl' and o.get('name') == 'Encoding':
            ta = [c for c in o.get('inner', []) if c.get('kind') == 'TemplateArgument']
            ty = (ta[0].get('type') or {}).get('qualType') if ta else None
            if ty in INT_TYPES:
                specs.append((INT_TYPES[ty], o))
                for m in o.get('inner', []):
                    if m.get('kind') == 'CXXMethodDecl':
                        METHOD_OWNER[m['id']] = INT_TYPES[ty]
    if len(specs) != 12:
        raise Untranslatable('expected 12 scalar specialisations of Encoding, found %d' % len(specs))
    done = set()

    MODEL_SCALAR = {'bool': 'SBool', 'char': '(SInt U8)', 'u8': '(SInt U8)', 'i8': '(SInt I8)', 'u16': '(SInt U16)', 'i16': '(SInt I16)',
                    'u32': '(SInt U32)', 'i32': '(SInt I32)', 'u64': '(SInt U64)', 'i64': '(SInt I64)', 'f32': 'SF32', 'f64': 'SF64'}

    def emit_match(name, o):
        m = [c for c in o['inner'] if c.get('kind') == 'CXXMethodDecl' and c.get('name') == 'Match'][0]
        body = [c for c in m['inner'] if c.get('kind') == 'CompoundStmt'][0]
        param = [c for c in m['inner'] if c.get('kind') == 'ParmVarDecl'][0]['name']
        return 'Definition gen_Match_%s (x : N) : bool :=\n  %s.' % (name, Tr(enums, param, True, False).stmts([body]))
    # Match functions call one another: emit in dependency order (narrower types first)
    order = ['bool', 'char', 'u8', 'i8', 'u16', 'i16', 'u32', 'i32', 'u64', 'i64', 'f32', 'f64']
    byname = dict(specs)
    for n in order:
        out.append(guarded('Encoding<%s>::Match' % n, lambda n=n: emit_match(n, byname[n]),
                           'Definition gen_Match_%s (x : N) : bool := scalar_match %s x.' % (n, MODEL_SCALAR[n])))
    out.append('Local Close Scope N_scope.\n\nLocal Open Scope Z_scope.')

    def emit_prefix(n):
        o = byname[n]
        m = [c for c in o['inner'] if c.get('kind') == 'CXXMethodDecl' and c.get('name') == 'Prefix'][0]
        body = [c for c in m['inner'] if c.get('kind') == 'CompoundStmt'][0]
        param = [c for c in m['inner'] if c.get('kind') == 'ParmVarDecl'][0]['name']
        if n == 'bool':
            return 'Definition gen_Prefix_bool (b : bool) : N :=\n  %s.' % bool_prefix(body, enums)
        return 'Definition gen_Prefix_%s (x : Z) : N :=\n  %s.' % (n, Tr(enums, param, False, True).stmts([body]))
    for n in order:
        if n in ('f32', 'f64'):
            continue
        fb = ('Definition gen_Prefix_bool (b : bool) : N := scalar_prefix SBool (if b then 1 else 0).' if n == 'bool' else
              'Definition gen_Prefix_%s (x : Z) : N := scalar_prefix %s x.' % (n, MODEL_SCALAR[n]))
        out.append(guarded('Encoding<%s>::Prefix' % n, lambda n=n: emit_prefix(n), fb))
    out.append('Local Close Scope Z_scope.')
    return '\n'.join(out) + '\n'


def bool_prefix(body, enums):
    """Encoding<bool>::Prefix: return value ? EncodingByte::True : EncodingByte::False"""
    def find(n):
        if n.get('kind') == 'ConditionalOperator':
            return n
        for c in n.get('inner', []):
            r = find(c)
            if r:
                return r
    co = find(body)
    if not co:
        raise Untranslatable('Encoding<bool>::Prefix is not a conditional expression')

    def en(e):
        while e.get('kind') != 'DeclRefExpr':
            e = e['inner'][0]
        return enums[e['referencedDecl']['name']]
    return '(if b then %d else %d)%%N' % (en(co['inner'][1]), en(co['inner'][2]))


def write(path, workdir):
    try:
        text = generate(workdir)
    except Untranslatable as e:
        text = '(* nop2coq could not translate the current source: %s *)\nDefinition translation_failed : True := I.\n' % str(e).replace('*)', '* )')
        old = open(path).read() if os.path.exists(path) else None
        if old != text:
            open(path, 'w').write(text)
        return False, str(e)
    old = open(path).read() if os.path.exists(path) else None
    if old != text:
        with open(path, 'w') as f:
            f.write(text)
    return True, '; '.join(DEGRADED)


if __name__ == '__main__':
    ok, why = write(os.path.join(VERIF, 'coq', 'Gen.v'), os.path.join(VERIF, 'build'))
    print(('ok' + (' (degraded: %s)' % why if why else '')) if ok else 'FAILED: ' + why)
