"""setup.py — MANIFEST.setup_cmd: builds the Coq development, extracts the
model, compiles the OCaml driver.  Offline; nothing from /repo is needed."""
import os, sys
sys.path.insert(0, os.path.dirname(os.path.abspath(__file__)))
from framework import *

regenerate_leaves()
regenerate_bounded()
ok, lg = coq_make()
if not ok:
    sys.stderr.write(lg[-6000:])
    sys.exit(1)
build_driver()
print('setup ok')
