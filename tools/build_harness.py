"""build_harness.py — generates the type pool, the sharded C++ harness and
compiles it against /repo's current working tree (ASan+UBSan).  Cached under
build/h-<hash of /repo/include + harness sources + pool>."""
import os, sys, shutil, concurrent.futures as cf
sys.path.insert(0, os.path.dirname(os.path.abspath(__file__)))
from common import *
import nopgen

MAIN = r'''
#include "pool_types.h"
#include <cstdlib>
#include <iostream>
%(decls)s
// byte-counting allocator (C02): every operator new in the process is counted
static thread_local std::size_t g_alloc_bytes = 0;
std::size_t& vh::AllocCounter() { return g_alloc_bytes; }
// a single request above 256 MiB, or 1 GiB in total since the last reset, is refused:
// hostile lengths must be rejected before memory is committed (C02)
static void* CountedAlloc(std::size_t n) {
  g_alloc_bytes += n;
  if (n > (std::size_t{1} << 28) || g_alloc_bytes > (std::size_t{1} << 30)) throw std::bad_alloc();
  void* p = std::malloc(n ? n : 1);
  if (!p) throw std::bad_alloc();
  return p;
}
void* operator new(std::size_t n) { return CountedAlloc(n); }
void* operator new[](std::size_t n) { return CountedAlloc(n); }
void operator delete(void* p) noexcept { std::free(p); }
void operator delete[](void* p) noexcept { std::free(p); }
void operator delete(void* p, std::size_t) noexcept { std::free(p); }
void operator delete[](void* p, std::size_t) noexcept { std::free(p); }
int main() {
  vh::Registry reg;
  std::map<std::string, std::string> fung;
%(calls)s
  std::ios::sync_with_stdio(false);
  std::string line;
  while (std::getline(std::cin, line)) {
    if (line.empty() || line[0] == '#') { std::cout << line << "\n"; continue; }
    vh::AllocCounter() = 0;          // the allocation budget is per case
    std::vector<vh::Sx> a = vh::ParseLine(line);
    std::string out;
    if (a.size() < 2) out = "HARNESS-ERROR short";
    else if (a[0].a == "fungrow") { auto it = fung.find(a[1].a); out = it == fung.end() ? "HARNESS-ERROR unknown type" : "row=" + it->second; }
    else if (a[0].a == "seq") {
      // seq (T v) (T v) ... : write all back to back, then read all back
      vh::SharedWriter() = vh::IWriter();
      std::string w, r;
      for (size_t i = 1; i < a.size(); i++) {
        auto it = reg.core.find(a[i].l.at(0).a);
        if (it == reg.core.end()) { w += " ?"; continue; }
        vh::Sx op; op.a = "wput";
        w += " [" + it->second({op, a[i].l[0], a[i].l.at(1)}) + "]";
      }
      std::vector<std::uint8_t> bytes = vh::SharedWriter().out;
      bytes.push_back(0xff);   // a continuation that must be left untouched
      vh::HeapBytes in(bytes);
      vh::SharedReader() = vh::IReader();
      vh::SharedReader().data = in.p; vh::SharedReader().size = in.n;
      for (size_t i = 1; i < a.size(); i++) {
        auto it = reg.core.find(a[i].l.at(0).a);
        if (it == reg.core.end()) { r += " ?"; continue; }
        vh::Sx op; op.a = "rget";
        r += " [" + it->second({op, a[i].l[0]}) + "]";
      }
      out = "w=" + w + " | r=" + r + " | total=" + std::to_string(bytes.size() - 1);
    }
    else {
      bool lib = (a[0].a == "encw" || a[0].a == "decr");
      auto& tab = lib ? reg.lib : reg.core;
      auto it = tab.find(a[1].a);
      if (it == tab.end()) out = lib ? "unsupported" : "HARNESS-ERROR unknown type " + a[1].a;
      else {
        try { out = it->second(a); }
        catch (const std::bad_alloc&) { out = "OOM alloc=" + std::to_string(vh::AllocCounter()); vh::AllocCounter() = 0; }
        catch (const std::exception& e) { out = std::string("EXCEPTION ") + e.what() + " alloc=" + std::to_string(vh::AllocCounter()); vh::AllocCounter() = 0; }
      }
    }
    std::cout << out << "\n" << std::flush;
  }
  return 0;
}
'''


def build(pool=None, tag='core', shards=16, force=False):
    pool = pool if pool is not None else nopgen.core_pool()
    srcs = [os.path.join(VERIF, 'harness', 'glue.h'), os.path.join(VERIF, 'harness', 'prim.cpp'), os.path.join(VERIF, 'harness', 'objs.cpp'), os.path.join(VERIF, 'harness', 'thr.cpp'), os.path.join(VERIF, 'harness', 'cx.cpp'), os.path.join(VERIF, 'harness', 'ubuf.cpp'), os.path.join(VERIF, 'tools', 'nopgen.py'), os.path.join(VERIF, 'tools', 'rpcgen.py'),
            os.path.abspath(__file__), os.path.join(VERIF, 'tools', 'common.py')]
    if COVERAGE:
        tag = tag + '-cov'
    key = sha_files(srcs + tree_files(os.path.join(REPO, 'include')), extra=tag + '|'.join(nopgen.desc(t) for t in pool))
    out = os.path.join(BUILD, 'h-%s-%s' % (tag, key))
    exe = os.path.join(out, 'harness')
    if os.path.exists(exe) and not force:
        return out
    # drop older builds of the same tag
    if os.path.isdir(BUILD):
        for d in os.listdir(BUILD):
            if d.startswith('h-%s-' % tag) and d != os.path.basename(out):
                shutil.rmtree(os.path.join(BUILD, d), ignore_errors=True)
    os.makedirs(out, exist_ok=True)
    names = nopgen.emit_pool(pool, os.path.join(out, 'pool_types.h'), os.path.join(out, 'pool.txt'))
    nsh = min(shards, max(1, len(names)))
    groups = [names[i::nsh] for i in range(nsh)]
    files = []
    for k, g in enumerate(groups):
        p = os.path.join(out, 'shard%d.cpp' % k)
        with open(p, 'w') as f:
            f.write('#include "pool_types.h"\nvoid RegisterShard%d(vh::Registry& r) {\n' % k)
            for n, _, _, c in g:
                f.write('  r.core["%s"] = &vh::CoreOps<%s>;\n' % (n, n))
                if 'handle' not in c:
                    cx = 'false' if c & {'float', 'wide', 'boolarr'} else 'true'
                    fd = 'false' if 'table' in c else 'true'
                    f.write('  r.lib["%s"] = &vh::LibOps<%s, %s, %s>;\n' % (n, n, cx, fd))
            f.write('}\n')
        files.append(p)
    # IsFungible<Ti,Tj>::value for all ordered pairs, sharded by row
    for k in range(nsh):
        p = os.path.join(out, 'fung%d.cpp' % k)
        with open(p, 'w') as f:
            f.write('#include "pool_types.h"\n#include <nop/traits/is_fungible.h>\nvoid FungRows%d(std::map<std::string, std::string>& m) {\n' % k)
            for i in range(k, len(names), nsh):
                f.write('  { static const bool row[] = {%s};\n    std::string s; for (bool b : row) s.push_back(b ? \'1\' : \'0\'); m["%s"] = s; }\n'
                        % (', '.join('nop::IsFungible<%s, %s>::value' % (names[i][0], nj[0]) for nj in names), names[i][0]))
            f.write('}\n')
        files.append(p)
    with open(os.path.join(out, 'main.cpp'), 'w') as f:
        f.write(MAIN % {'decls': '\n'.join('void RegisterShard%d(vh::Registry&);\nvoid FungRows%d(std::map<std::string, std::string>&);' % (k, k) for k in range(nsh)),
                        'calls': '\n'.join('  RegisterShard%d(reg);\n  FungRows%d(fung);' % (k, k) for k in range(nsh))})
    files.append(os.path.join(out, 'main.cpp'))
    prim_src = os.path.join(VERIF, 'harness', 'prim.cpp')
    # names hashed at compile time (C18): every length residue mod 8, long names, non-ASCII bytes
    import random as _r
    rr = _r.Random(20260930)
    sipnames = [b'', b'a', b'Verif.TableA', b'caf\xc3\xa9.Table', b'io.github.eieio.example.MyInterface', b'Add', b'\xff\x80\x7f']
    for n in list(range(0, 40)) + [63, 64, 65, 127, 128, 255, 256, 257, 300]:
        sipnames.append(bytes(rr.choice([rr.randrange(1, 128), rr.randrange(128, 256)]) for _ in range(n)))
    # names with zero bytes inside: the array overload hashes all Size elements, the literal's final NUL included
    sipnames += [b'\0', b'\0\0\0', b'com.example.Config\0v1', b'com.example.Config\0v2', b'a\0b\0c\0d\0e\0f\0g\0h\0i', b'\0tail']
    for n in (5, 8, 13, 16, 33):
        sipnames.append(bytes(rr.choice([0, 0, rr.randrange(1, 256)]) for _ in range(n)))
    with open(os.path.join(out, 'sip_names.h'), 'w') as f:
        f.write('// generated: names hashed at compile time\nstruct SipName { const char* hex; std::uint64_t table, iface, sel64; std::uint32_t sel32; };\n')
        f.write('static const SipName kSipNames[] = {\n')
        for nm in sipnames:
            lit = '"' + ''.join('\\x%02x""' % c for c in nm) + '"'
            f.write('  {"%s", nop::SipHash::Compute(%s, nop::kNopTableKey0, nop::kNopTableKey1), nop::SipHash::Compute(%s, nop::kNopInterfaceKey0, nop::kNopInterfaceKey1),\n'
                    '   nop::ComputeMethodSelector<std::uint64_t>(%s, 0x1234567890abcdefULL), nop::ComputeMethodSelector<std::uint32_t>(%s, 0x1234567890abcdefULL)},\n'
                    % (nm.hex() or '-', lit, lit, lit, lit))
        f.write('};\n')

    def cc(p):
        o = p[:-4] + '.o'
        r = run([CXX] + CXXFLAGS + ['-I' + out, '-c', p, '-o', o], timeout=1200)
        return p, r
    t0 = time.time()
    def cc_prim(_):
        r = run([CXX] + CXXFLAGS + ['-I' + out, prim_src, '-o', os.path.join(out, 'prim')], timeout=1200)
        return prim_src, r

    def cc_ubuf(_):
        src = os.path.join(VERIF, 'harness', 'ubuf.cpp')
        r = run([CXX] + CXXFLAGS + ([] if COVERAGE else ['-fno-sanitize=bounds']) + ['-I' + out, src, '-o', os.path.join(out, 'ubuf')], timeout=1200)
        return src, r

    def cc_cx(_):
        # compile-time serialization: a build failure is what the C17 check reports (with the values of cx.cpp), not a
        # failure of the whole harness
        src = os.path.join(VERIF, 'harness', 'cx.cpp')
        r = run([CXX] + CXXFLAGS + ['-I' + out, src, '-o', os.path.join(out, 'cx')], timeout=1200)
        if r.returncode != 0:
            with open(os.path.join(out, 'cx.err'), 'w') as f:
                f.write(r.stderr[-8000:])
            class Ok: returncode = 0; stderr = ''
            return src, Ok()
        return src, r

    import rpcgen
    ifs, sets = rpcgen.interfaces(pool)
    with open(os.path.join(out, 'rpc.txt'), 'w') as f:
        f.write(rpcgen.describe(ifs, sets))
    for which in ('rpc', 'rpcp'):
        with open(os.path.join(out, which + '.cpp'), 'w') as f:
            f.write(rpcgen.emit(ifs, sets, which))

    def cc_rpc(which):
        src = os.path.join(out, which + '.cpp')
        r = run([CXX] + CXXFLAGS + ['-I' + out, src, '-o', os.path.join(out, which)], timeout=1200)
        if which == 'rpcp' and r.returncode != 0:
            # handlers with passthrough arguments: a compile failure is reported by the C14 check, not here
            with open(os.path.join(out, 'rpcp.err'), 'w') as f:
                f.write(r.stderr[-8000:])
            class Ok: returncode = 0; stderr = ''
            return src, Ok()
        return src, r

    def cc_thr(_):
        src = os.path.join(VERIF, 'harness', 'thr.cpp')
        r = run([CXX, '-std=c++14', '-O1', '-g1'] + TSANFLAGS + ['-fno-omit-frame-pointer', '-I' + os.path.join(REPO, 'include'),
                 src, '-o', os.path.join(out, 'thr'), '-pthread'], timeout=1200)
        return src, r

    def cc_objs(_):
        src = os.path.join(VERIF, 'harness', 'objs.cpp')
        r = run([CXX] + CXXFLAGS + [src, '-o', os.path.join(out, 'objs')], timeout=1200)
        return src, r
    with cf.ThreadPoolExecutor(NCPU) as ex:
        fut = ex.submit(cc_prim, None)
        fut6 = ex.submit(cc_cx, None)
        fut7 = ex.submit(cc_ubuf, None)
        fut2 = ex.submit(cc_objs, None)
        fut3 = ex.submit(cc_rpc, 'rpc')
        fut5 = ex.submit(cc_thr, None)
        fut4 = ex.submit(cc_rpc, 'rpcp')
        res = list(ex.map(cc, files))
        res.append(fut.result())
        res.append(fut6.result())
        res.append(fut7.result())
        res.append(fut2.result())
        res.append(fut3.result())
        res.append(fut4.result())
        res.append(fut5.result())
    bad = [(p, r) for p, r in res if r.returncode != 0]
    if bad:
        p, r = bad[0]
        sys.stderr.write('COMPILE FAILED %s\n%s\n' % (p, r.stderr[-6000:]))
        shutil.rmtree(out, ignore_errors=True)
        raise HarnessBuildError('COMPILE FAILED %s\n%s' % (p, r.stderr[-6000:]))
    r = run([CXX] + ([f for f in SANFLAGS if f != '-fno-sanitize-recover=all']) + [p[:-4] + '.o' for p in files] + ['-o', exe], timeout=600)
    if r.returncode != 0:
        sys.stderr.write('LINK FAILED\n' + r.stderr[-4000:])
        shutil.rmtree(out, ignore_errors=True)
        raise HarnessBuildError('LINK FAILED\n' + r.stderr[-4000:])
    log('harness built in %.1fs -> %s' % (time.time() - t0, out))
    return out


if __name__ == '__main__':
    print(build(force='--force' in sys.argv))
