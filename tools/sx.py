"""sx.py — tiny s-expression reader/printer and canonicalisation of values."""


def parse(s):
    pos = 0
    n = len(s)

    def item():
        nonlocal pos
        while pos < n and s[pos] in ' \t':
            pos += 1
        if pos < n and s[pos] == '(':
            pos += 1
            out = []
            while True:
                while pos < n and s[pos] in ' \t':
                    pos += 1
                if pos >= n:
                    break
                if s[pos] == ')':
                    pos += 1
                    break
                out.append(item())
            return out
        st = pos
        while pos < n and s[pos] not in ' \t()':
            pos += 1
        return s[st:pos]
    out = []
    while True:
        while pos < n and s[pos] in ' \t':
            pos += 1
        if pos >= n:
            break
        out.append(item())
    return out


def show(x):
    if isinstance(x, str):
        return x
    return '(' + ' '.join(show(y) for y in x) + ')'


def canon(x):
    """sort map entries by their printed text, recursively"""
    if isinstance(x, str):
        return x
    y = [canon(e) for e in x]
    if y and y[0] == 'map':
        return ['map'] + sorted(y[1:], key=show)
    return y


def canon_text(s):
    p = parse(s)
    return show(canon(p[0])) if p else s


def fields(line):
    """'k=v k2=(a b) ...' -> dict; values may contain spaces inside parentheses"""
    out = {}
    i, n = 0, len(line)
    while i < n:
        while i < n and line[i] == ' ':
            i += 1
        j = line.find('=', i)
        if j < 0:
            break
        key = line[i:j]
        k = j + 1
        depth = 0
        while k < n and (line[k] != ' ' or depth > 0):
            if line[k] == '(':
                depth += 1
            elif line[k] == ')':
                depth -= 1
            k += 1
        out[key] = line[j + 1:k]
        i = k
    return out
