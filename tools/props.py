import re
"""props.py — one function per property; dispatch."""
import json, os, sys
from framework import *
from props_codec import *


# ------------------------------------------------------------------ C03 -----
def check_C03(ctx):
    proofs_or_violation(ctx, ['Properties_C03.v'])
    S = CodecStreams(ctx, nvals=(None if ctx.quick else 500))

    def oracle(r):
        h, m = r['h'], r['m']
        if m.get('typed') != 'true':
            return None
        if h['st'] != '0':
            return ('enc-fails', 'Write of an encodable value failed with status %s: %s' % (h['st'], r['case'][:200]))
        if h['bytes'] != m['spec']:
            return ('bytes-differ-from-format', 'bytes written differ from docs/format.md encoding: %s wrote %s, format says %s'
                    % (r['case'][:160], h['bytes'][:120], m['spec'][:120]))
        return None
    broken = corr_enc(ctx, S, oracle)
    # determinism: write a sample twice
    rows = [r for r in S.run_enc() if r['h'] is not None][:400]
    again = run_harness(S.pool, [r['case'] for r in rows])
    for r, o in zip(rows, again):
        ctx.count('enc-twice', r['case'])
        f = sx.fields(o)
        if f.get('bytes') != r['h'].get('bytes'):
            ctx.violate('nondeterministic', 'writing the same object twice gave different bytes: ' + r['case'][:200],
                        {'case': r['case'], 'first': r['hraw'], 'second': o})
    # the same bytes through every writer the library provides (buffer, pedantic, constexpr, stream, fd, bounded)
    pool = S.pool
    sample = [r for r in S.run_enc() if r['h'] and r['h']['st'] == '0' and r['m'] and r['m'].get('typed') == 'true' and 'handle' not in pool.caps[r['tid']]]
    ctx.rng.shuffle(sample)
    sample = sample[: (150 if ctx.quick else 3000)]
    wl = []
    for r in sample:
        size = int(r['h']['size'])
        for k in ('buf', 'ped', 'cx', 'stream', 'fd', 'bbuf', 'bped'):
            wl.append((r, k, 'encw T%d %s %d %d %s' % (r['tid'], k, size + 3, size, r['input'])))
    wo = run_harness(pool, [x[2] for x in wl])
    for (r, k, line), o in zip(wl, wo):
        if o == 'unsupported':
            continue
        ctx.count('library-writer:' + k, line)
        f = sx.fields(o) if not o.startswith(('CRASH', 'HARNESS', 'OOM', 'EXCEPTION')) else {}
        if f.get('st') != '0' or f.get('bytes') != r['m']['spec']:
            ctx.violate('bytes-differ-from-format', 'writer %s: bytes written differ from docs/format.md encoding: %s wrote st=%s %s, format says %s' %
                        (k, line[:160], f.get('st'), str(f.get('bytes'))[:100], r['m']['spec'][:100]), {'case': line, 'output': o, 'expected': r['m']['spec']})
    report_broken(ctx, broken, 'enc', 'Serializer::Write/GetSize = model enc/tsize')
    return finish_with_proofs(ctx)


# ------------------------------------------------------------------ C06 -----
def check_C06(ctx):
    proofs_or_violation(ctx, ['Properties_C06.v'])
    S = CodecStreams(ctx, nvals=(None if ctx.quick else 400))
    pool = S.pool

    def oracle(r):
        h, m = r['h'], r['m']
        if m.get('typed') != 'true' or h['st'] != '0':
            return None
        n = hexlen(h['bytes'])
        if int(h['size']) < n:
            return ('size-underestimates', 'GetSize=%s but Write emitted %d bytes: %s' % (h['size'], n, r['case'][:200]))
        if m.get('nohandles') == 'true' and int(h['size']) != n:
            return ('size-inexact', 'GetSize=%s differs from the %d bytes written for a handle-free type: %s' % (h['size'], n, r['case'][:200]))
        return None
    broken = corr_enc(ctx, S, oracle)
    report_broken(ctx, [b for b in broken if not same(b['h'], b['m'], ('size',))], 'size', 'GetSize = model tsize')
    # capacity sweep over the library's buffer writers
    rows = [r for r in S.run_enc() if r['h'] and r['h']['st'] == '0' and 'handle' not in pool.caps[r['tid']]]
    ctx.rng.shuffle(rows)
    rows = rows[: (150 if ctx.quick else 6000)]
    cases = []
    for r in rows:
        size = int(r['h']['size'])
        caps = list(range(0, size + 2)) if size <= (40 if ctx.quick else 200) else sorted({0, 1, size // 2, size - 1, size, size + 1, size + 7})
        for kind in ('buf', 'ped', 'cx', 'pbuf', 'pped', 'ubuf', 'uped'):
            for cap in caps:
                cases.append((r, kind, cap, 0, 'encw T%d %s %d 0 %s' % (r['tid'], kind, cap, r['input'])))
        for kind in ('bbuf', 'bped'):
            for lim in caps:
                cases.append((r, kind, size + 8, lim, 'encw T%d %s %d %d %s' % (r['tid'], kind, size + 8, lim, r['input'])))
    outs = run_harness(pool, [c[4] for c in cases])
    mouts = run_driver(pool, ['encw T%d %d %d %s' % (c[0]['tid'], 0 if c[1] in ('buf', 'bbuf', 'pbuf', 'ubuf') else 1, min(c[2], c[3]) if c[1].startswith('b') and c[1] != 'buf' else c[2], c[0]['h']['dump'])
                              for c in cases])
    cbroken = []
    for (r, kind, cap, lim, line), o, mo in zip(cases, outs, mouts):
        if o == 'unsupported':
            continue
        ctx.count('capacity:' + kind, line)
        if o.startswith(('CRASH', 'HARNESS', 'OOM', 'EXCEPTION')):
            ctx.violate('crash:encw:' + kind, 'writer %s crashed or stored out of bounds: %s -> %s' % (kind, line[:160], o[:200]),
                        {'case': line, 'output': o})
            continue
        f = sx.fields(o)
        size = int(r['h']['size'])
        room = lim if kind in ('bbuf', 'bped') else cap
        if room >= size:
            if f['st'] != '0' or f['bytes'] != r['h']['bytes']:
                ctx.violate('fit-fails:' + kind, 'capacity %d >= GetSize %d but %s returned st=%s / wrong bytes: %s' % (room, size, kind, f['st'], line[:160]),
                            {'case': line, 'output': o, 'expected_bytes': r['h']['bytes']})
        else:
            if f['st'] != '13' or f['n'] != '0':
                ctx.violate('small-buffer:' + kind, 'capacity %d < GetSize %d but %s returned st=%s after writing %s bytes: %s' % (room, size, kind, f['st'], f['n'], line[:160]),
                            {'case': line, 'output': o})
        if kind in ('buf', 'ped', 'cx', 'pbuf', 'pped', 'ubuf', 'uped') and not mo.startswith('DRIVER'):
            mf = sx.fields(mo)
            if mf.get('st') != f['st'] or (f['st'] == '0' and mf.get('bytes') != f['bytes']):
                cbroken.append({'case': line, 'hraw': o, 'mraw': mo})
    report_broken(ctx, cbroken, 'capacity', 'buffer writers = model bufw_ops')
    # unbounded logical buffers (NOP_UNBOUNDED_BUFFER: the count is not limited by the declared array length): GetSize is what
    # Write emits, and the value comes back
    ul = ['ubuf %s %d' % (k, n) for k in ('i32', 'f32', 'u8', 'si16', 'sf64') for n in (0, 1, 2, 3, 31, 32, 127, 128, 255, 256, 1000)]
    uo = run_parallel([os.path.join(pool.dir, 'ubuf')], ul, env=ASAN_ENV, what='ubuf')
    for line, o in zip(ul, uo):
        ctx.count('unbounded-buffer', line)
        if o.startswith(('CRASH', 'HARNESS', 'OOM', 'EXCEPTION')):
            ctx.violate('crash:ubuf', 'an unbounded logical buffer crashed the writer/reader or tripped a sanitizer: %s -> %s' % (line, o[:300]), {'case': line, 'output': o})
            continue
        f = sx.fields(o)
        if f['st'] != '0' or f['rst'] != '0' or f['same'] != '1' or f['consumed'] != f['n']:
            ctx.violate('unbounded-roundtrip', 'an unbounded logical buffer does not round-trip: %s -> %s' % (line, o[:200]), {'case': line, 'output': o})
        elif f['size'] != f['n']:
            ctx.violate('size-underestimates' if int(f['size']) < int(f['n']) else 'size-inexact', 'GetSize=%s but Write emitted %s bytes for an unbounded logical buffer: %s' % (f['size'], f['n'], line),
                        {'case': line, 'output': o})
    # remaining capacity: the same value written twice through one writer
    tw = []
    for r in rows[: (120 if ctx.quick else 3000)]:
        size = int(r['h']['size'])
        n = hexlen(r['h']['bytes'])
        if size == 0 or size != n:
            continue
        for kind in ('buf2', 'ped2', 'pbuf2', 'ubuf2', 'uped2'):
            for cap in sorted({size, size + 1, 2 * size - 1, 2 * size, 2 * size + 3}):
                tw.append((r, kind, cap, size, 'encw T%d %s %d %d %s' % (r['tid'], kind, cap, cap, r['input'])))
    two = run_harness(pool, [x[4] for x in tw])
    for (r, kind, cap, size, line), o in zip(tw, two):
        if o == 'unsupported':
            continue
        ctx.count('write-twice:' + kind, line)
        if o.startswith(('CRASH', 'HARNESS', 'OOM', 'EXCEPTION')):
            ctx.violate('crash:encw:' + kind, 'writer %s crashed or stored out of bounds on the second Write: %s -> %s' % (kind, line[:160], o[:200]), {'case': line, 'output': o})
            continue
        f = sx.fields(o)
        want2 = '0' if cap >= 2 * size else '13'
        wantn = 2 * size if cap >= 2 * size else size
        if f.get('first') != '0' or f.get('second') != want2 or f.get('n') != str(wantn):
            ctx.violate('remaining-capacity:' + kind, 'two Writes of a %d-byte value into %d bytes through %s: first=%s second=%s (expected %s), %s bytes in the buffer (expected %d): %s' %
                        (size, cap, kind, f.get('first'), f.get('second'), want2, f.get('n'), wantn, line[:160]), {'case': line, 'output': o})
    return finish_with_proofs(ctx)


# ------------------------------------------------------------------ C01 -----
def is_k1(pool, tid):
    """Optional<X>/Result<E,X> whose X can start with NIL/ERR: finding K1"""
    def amb(t):
        for x in nopgen.walk(t):
            if x[0] == 'opt' and x[1][0] == 'opt':
                return True
            if x[0] == 'res' and x[3][0] == 'res':
                return True
        return False
    return amb(pool.types[tid])


def dec_items_from_enc(S, suffix=''):
    items = []
    for r in S.run_enc():
        if r['h'] and r['h']['st'] == '0':
            hx = r['h']['bytes']
            if suffix:
                hx = (hx if hx != '-' else '') + suffix
            items.append((r['tid'], hx, '-', r, None))
    return items


def check_C01(ctx):
    proofs_or_violation(ctx, ['Properties_C01.v'])
    S = CodecStreams(ctx, nvals=(None if ctx.quick else 500))
    pool = S.pool
    def writable(r):
        h, m = r['h'], r['m']
        if m.get('typed') == 'true' and h['st'] != '0':
            return ('write-fails', 'Write of an encodable value failed with status %s, so it cannot round-trip: %s' % (h['st'], r['case'][:200]))
        return None
    broken = corr_enc(ctx, S, writable)
    # decode what was written, with and without a continuation
    dbroken = []
    for suffix in ('', 'ff01', 'prior'):
        if suffix == 'prior':
            # the destination is an object of the same type that already holds a value (a reused object)
            items = [(tid, hx, hs, tag, nopgen.gen_value(pool.types[tid], ctx.rng)) for (tid, hx, hs, tag, _) in dec_items_from_enc(S, '')]
            if ctx.quick:
                items = items[::2]
            rows = S.run_dec(items)
        else:
            rows = S.run_dec(dec_items_from_enc(S, suffix))
        for d in rows:
            e = d['tag']
            ctx.count('roundtrip' + ('+cont' if suffix == 'ff01' else '+populated' if suffix == 'prior' else ''), d['case'], nontrivial=d['h'] is not None)
            if d['h'] is None:
                ctx.violate('harness-crash:dec', 'reader crashed: %s -> %s' % (d['case'][:160], d['hraw'][:300]), {'case': d['case'], 'output': d['hraw']})
                continue
            want = hexlen(e['h']['bytes'])
            ok = d['h'].get('st') == '0' and val_eq(d['h'].get('val'), e['h']['dump']) and d['h'].get('consumed') == str(want)
            if not ok:
                sig = 'k1:nested-optional' if is_k1(pool, d['tid']) else 'roundtrip'
                ctx.violate(sig, 'Read(Write(v)) != v or wrong byte count: wrote %s as %s, read back %s' % (e['h']['dump'][:120], e['h']['bytes'][:80], d['hraw'][:160]),
                            {'type': type_desc(pool, d['tid']), 'value': e['h']['dump'], 'bytes': e['h']['bytes'], 'read': d['hraw'], 'case': d['case']})
            elif not same(d['h'], d['m'], ('st', 'val', 'consumed')) and not (d['m'] and val_eq(d['h'].get('val'), d['m'].get('val')) and same(d['h'], d['m'], ('st', 'consumed'))):
                dbroken.append(d)
    # sequences of 2..4 values back to back on one stream
    enc_ok = [r for r in S.run_enc() if r['h'] and r['h']['st'] == '0' and not is_k1(pool, r['tid'])]
    seqs = []
    for _ in range(300 if ctx.quick else 5000):
        k = ctx.rng.randint(2, 4)
        seqs.append([ctx.rng.choice(enc_ok) for _ in range(k)])
    lines = ['seq ' + ' '.join('(T%d %s)' % (r['tid'], r['input']) for r in s) for s in seqs]
    outs = run_harness(pool, lines)
    for s, line, o in zip(seqs, lines, outs):
        ctx.count('sequence', line)
        if o.startswith(('CRASH', 'HARNESS', 'OOM', 'EXCEPTION')):
            ctx.violate('harness-crash:seq', 'sequence crashed: ' + o[:300], {'case': line, 'output': o})
            continue
        parts = o.split(' | ')
        reads = [sx.fields(x) for x in parts[1][3:].strip().strip('[]').split('] [')]
        total = int(parts[2].split('=')[1])
        pos, good = 0, len(reads) == len(s)
        for r, f in zip(s, reads):
            pos += hexlen(r['h']['bytes'])
            good = good and f.get('st') == '0' and val_eq(f.get('val'), r['h']['dump']) and f.get('end') == str(pos)
        if not good or pos != total:
            ctx.violate('sequence', 'values written back to back did not read back in frame: ' + line[:200], {'case': line, 'output': o})
    # std::reference_wrapper<T> forwards to T, and Protocol<T> to the serializer it is given: same status, value, position,
    # bytes and size as T itself, on valid and on damaged encodings
    D = {nopgen.desc(t): i for i, t in enumerate(pool.types)}
    kinds = {'u32': '(s 0 u32)', 'i64': '(s 0 i64)', 'str': '(str 1)', 'vu8': '(seq vec (s 0 u8))', 'vi32': '(seq vec (s 0 i32))', 'pair': '(tup pair (s 0 i32) (s 0 i32))'}
    rl = []
    for k, dsc in kinds.items():
        if dsc not in D:
            continue
        hexes = [r['h']['bytes'] for r in enc_ok if r['tid'] == D[dsc]][: (12 if ctx.quick else 200)]
        for hx in hexes:
            rl.append((k, hx, 'valid'))
            for kind, m in mutations(hx, ctx.rng, 6 if ctx.quick else 30):
                rl.append((k, m, 'damaged'))
    ro = run_prim(pool, ['refw %s %s' % (k, hx) for k, hx, _ in rl])
    for (k, hx, tag), o in zip(rl, ro):
        line = 'refw %s %s' % (k, hx)
        ctx.count('reference-wrapper:' + tag, line)
        if o.startswith(('CRASH', 'HARNESS', 'OOM', 'EXCEPTION')):
            ctx.violate('crash:refw', 'reading/writing through std::reference_wrapper or Protocol crashed: %s -> %s' % (line[:160], o[:300]), {'case': line, 'output': o})
            continue
        f = sx.fields(o)
        bad = None
        if f.get('pst') != f.get('rst') or f.get('pcons') != f.get('rcons') or (f.get('pst') == '0' and f.get('pval') != f.get('rval')):
            bad = 'reading through std::reference_wrapper<T> differs from reading T'
        elif f.get('pst') == '0' and (f.get('pw') != '0' or f.get('rw') != '0' or f.get('pbytes') != f.get('rbytes') or f.get('psize') != f.get('rsize')):
            bad = 'writing through std::reference_wrapper<T> differs from writing T'
        elif f.get('pst') == '0' and (f.get('qw') != '0' or f.get('qbytes') != f.get('pbytes') or f.get('qr') != '0' or f.get('qval') != f.get('pval') or f.get('qcons') != f.get('pcons')):
            bad = 'Protocol<T>::Write/Read differs from the serializer it was given'
        elif tag == 'valid' and (f.get('pst') != '0' or f.get('pbytes') != hx or f.get('pcons') != str(hexlen(hx))):
            bad = 'a value the library wrote does not read back and re-encode to the same bytes'
        if bad:
            ctx.violate('roundtrip:refw', '%s: %s -> %s' % (bad, line[:160], o[:300]), {'case': line, 'output': o})
    # every writer x reader pairing the type supports
    sample = [r for r in enc_ok if 'handle' not in pool.caps[r['tid']]]
    ctx.rng.shuffle(sample)
    sample = sample[: (120 if ctx.quick else 2500)]
    wkinds = ['buf', 'ped', 'cx', 'stream', 'fd', 'mfd', 'bbuf', 'bped', 'pbuf', 'ubuf', 'uped']
    rkinds = ['buf', 'ped', 'stream', 'fstream', 'fd', 'mfd', 'bbuf', 'bped', 'bstream', 'bfstream', 'bfd', 'pbuf', 'ubuf', 'uped']
    wl = []
    for r in sample:
        size = int(r['h']['size'])
        for k in wkinds:
            wl.append((r, k, 'encw T%d %s %d %d %s' % (r['tid'], k, size + 3, size, r['input'])))
    wo = run_harness(pool, [x[2] for x in wl])
    rl = []
    for (r, k, line), o in zip(wl, wo):
        if o == 'unsupported':
            continue
        ctx.count('pairing-write:' + k, line)
        f = sx.fields(o) if not o.startswith(('CRASH', 'HARNESS', 'OOM', 'EXCEPTION')) else {}
        if f.get('moved', 'ok') != 'ok':
            ctx.violate('fd-ownership:' + k, 'a moved FdWriter did not carry its descriptor along, or Release() did not hand it back open (released/open = %s): %s' % (f.get('moved'), line[:160]), {'case': line, 'output': o})
        if f.get('st') != '0' or f.get('bytes') != r['h']['bytes']:
            ctx.violate('writer:' + k, 'writer %s produced st=%s bytes=%s, expected %s: %s' % (k, f.get('st'), str(f.get('bytes'))[:80], r['h']['bytes'][:80], line[:160]),
                        {'case': line, 'output': o, 'expected': r['h']['bytes']})
            continue
        if k == 'buf':   # the bytes are the same for every writer: read them with every reader
            n = hexlen(f['bytes'])
            cont = (f['bytes'] if f['bytes'] != '-' else '') + '7f'
            for rk in rkinds:
                rl.append((r, rk, n, 'decr T%d %s %d %s' % (r['tid'], rk, n, cont)))
    ro = run_harness(pool, [x[3] for x in rl])
    for (r, rk, n, line), o in zip(rl, ro):
        if o == 'unsupported':
            continue
        ctx.count('pairing-read:' + rk, line)
        f = sx.fields(o) if not o.startswith(('CRASH', 'HARNESS', 'OOM', 'EXCEPTION')) else {}
        if f.get('moved', 'ok') != 'ok':
            ctx.violate('fd-ownership:' + rk, 'a moved FdReader did not carry its descriptor along, or Release() did not hand it back open (released/open = %s): %s' % (f.get('moved'), line[:160]), {'case': line, 'output': o})
        if f.get('st') != '0' or not val_eq(f.get('val'), r['h']['dump']) or f.get('consumed') != str(n):
            ctx.violate('reader:' + rk, 'reader %s did not return the written value / byte count: %s -> %s' % (rk, line[:160], o[:200]),
                        {'case': line, 'output': o, 'expected_value': r['h']['dump'], 'expected_consumed': n})
    report_broken(ctx, broken, 'enc', 'Serializer::Write/GetSize = model enc/tsize')
    report_broken(ctx, dbroken, 'dec', 'Deserializer::Read = model dec')
    return finish_with_proofs(ctx)


# ------------------------------------------------------------------ C05 -----
def valid_encodings(ctx, S, extra_mut=True):
    """complete valid encodings: what the implementation wrote, plus
    non-canonical ones (wider classes, grown entry frames) that the model
    decoder accepts and consumes entirely"""
    pool = S.pool
    base = [(r['tid'], r['h']['bytes']) for r in S.run_enc() if r['h'] and r['h']['st'] == '0' and not is_k1(pool, r['tid'])]
    out = list(base)
    if extra_mut:
        cand = []
        for tid, hx in base[:: (3 if ctx.quick else 1)]:
            for kind, m in mutations(hx, ctx.rng, 30):
                if kind in ('widen8', 'widen16', 'widen32', 'widen64', 'swiden', 'inc', 'ins'):
                    cand.append((tid, m))
        # what another version of the same table wrote (unknown and deleted entries to skip at any position, the last included)
        by_t = {}
        for tid, hx in base:
            by_t.setdefault(tid, []).append(hx)
        pairs = [(a, b) for a, b in compat_pairs(pool) if a != b and a in by_t]
        ctx.rng.shuffle(pairs)
        for a, b in pairs[: (150 if ctx.quick else 2000)]:
            for hx in ctx.rng.sample(by_t[a], min(2 if ctx.quick else 6, len(by_t[a]))):
                cand.append((b, hx))
        mo = run_driver(pool, ['dec T%d %s' % c for c in cand])
        for (tid, m), o in zip(cand, mo):
            f = sx.fields(o)
            if f.get('st') == '0' and f.get('consumed') == str(hexlen(m)) and not is_k1(pool, tid):
                out.append((tid, m))
    return out


def check_C05(ctx):
    proofs_or_violation(ctx, ['Properties_C05.v'])
    S = CodecStreams(ctx)
    pool = S.pool
    encs = valid_encodings(ctx, S)
    ctx.rng.shuffle(encs)
    encs = encs[: (700 if ctx.quick else 12000)]
    items, lib = [], []
    rkinds = ['buf', 'ped', 'stream', 'nsstream', 'fstream', 'fd', 'mfd', 'bbuf', 'bped', 'bstream', 'bfstream', 'bfd', 'pbuf', 'ubuf', 'uped']
    for tid, hx in encs:
        n = hexlen(hx)
        cuts = range(n) if n <= 40 else sorted(set(list(range(10)) + [ctx.rng.randrange(n) for _ in range(20)] + [n - 1, n - 2]))
        for k in cuts:
            pre = hx[:2 * k] or '-'
            items.append((tid, pre, '-', (hx, k), None))
            if 'handle' not in pool.caps[tid] and (k % 3 == 0 or k >= n - 2):
                for rk in rkinds:
                    lib.append((tid, rk, hx, k, 'decr T%d %s %d %s' % (tid, rk, max(k, 1) if rk.startswith('b') and rk != 'buf' else 0, pre)))
    rows = S.run_dec(items)
    broken = []
    for d in rows:
        ctx.count('cut:instrumented', d['case'], nontrivial=d['h'] is not None)
        if d['h'] is None:
            ctx.violate('harness-crash:dec', 'reader crashed on a truncated input: %s -> %s' % (d['case'][:160], d['hraw'][:300]), {'case': d['case'], 'output': d['hraw']})
        elif d['h'].get('st') == '0':
            ctx.violate('truncation-accepted', 'a strict prefix (%d of %d bytes) of a valid encoding was accepted: %s' % (d['tag'][1], hexlen(d['tag'][0]), d['case'][:200]),
                        {'type': type_desc(pool, d['tid']), 'full': d['tag'][0], 'cut': d['tag'][1], 'case': d['case'], 'output': d['hraw']})
        elif not same(d['h'], d['m'], ('st',)):
            broken.append(d)
    lo = run_harness(pool, [x[4] for x in lib])
    for (tid, rk, hx, k, line), o in zip(lib, lo):
        if o == 'unsupported':
            continue
        ctx.count('cut:' + rk, line)
        if o.startswith(('CRASH', 'HARNESS', 'OOM', 'EXCEPTION')):
            ctx.violate('crash:' + rk, 'reader %s crashed on a truncated input: %s -> %s' % (rk, line[:160], o[:300]), {'case': line, 'output': o})
        elif sx.fields(o).get('st') == '0':
            ctx.violate('truncation-accepted:' + rk, 'reader %s accepted a strict prefix (%d of %d bytes): %s' % (rk, k, hexlen(hx), line[:200]),
                        {'type': type_desc(pool, tid), 'full': hx, 'cut': k, 'case': line, 'output': o})
    report_broken(ctx, broken, 'dec-truncated', 'Deserializer::Read status = model dec status on truncated input')
    return finish_with_proofs(ctx)


# ------------------------------------------------------------------ C04 -----
def check_C04(ctx):
    proofs_or_violation(ctx, ['Properties_C04.v'])
    S = CodecStreams(ctx)
    pool = S.pool
    encs = [(r['tid'], r['h']['bytes']) for r in S.run_enc() if r['h'] and r['h']['st'] == '0']
    items = []
    per = 40 if ctx.quick else 160
    seen = set()
    for tid, hx in encs:
        for kind, m in mutations(hx, ctx.rng, per):
            if (tid, m) not in seen:
                seen.add((tid, m))
                items.append((tid, m, '-', kind, None))
        items.append((tid, hx, '-', 'valid', None))
        # what the bytes denote does not depend on what the destination held: the same input into an object of the type
        # that already holds another value (judged against the documented decoding like every other case)
        items.append((tid, hx, '-', 'valid', nopgen.gen_value(pool.types[tid], ctx.rng)))
    # all 256 first bytes for one value of every type; random bytes
    first = {}
    for tid, hx in encs:
        first.setdefault(tid, hx)
    for tid, hx in first.items():
        body = '' if hx == '-' else hx[2:]
        for b in range(256):
            items.append((tid, '%02x' % b + body, '-', 'prefix-sweep', None))
        for _ in range(20 if ctx.quick else 400):
            n = ctx.rng.randint(0, 24)
            items.append((tid, ''.join('%02x' % ctx.rng.randrange(256) for _ in range(n)) or '-', '-', 'random', None))
    rows = S.run_dec(items)
    broken = []
    for d in rows:
        ctx.count('dec:' + d['tag'], d['case'], nontrivial=d['h'] is not None)
        if d['h'] is None:
            ctx.violate('harness-crash:dec', 'reader crashed: %s -> %s' % (d['case'][:160], d['hraw'][:300]), {'case': d['case'], 'output': d['hraw']})
            continue
        if d['m'] is None:
            continue
        h, m = d['h'], d['m']
        agree = h.get('st') == m.get('st') and (h.get('st') != '0' or (val_eq(h.get('val'), m.get('val')) and h.get('consumed') == m.get('consumed')))
        if agree:
            continue
        # the model decoder is the documented language (Properties_C04); decide what kind of disagreement this is
        if (h.get('st') == '0') != (m.get('st') == '0'):
            sig = 'k2:variant-index-class' if False else 'accept-reject'
            ctx.violate(sig, 'decoder %s an input the documented format %s: %s' % ('accepts' if h.get('st') == '0' else 'rejects', 'rejects' if h.get('st') == '0' else 'accepts', d['case'][:200]),
                        {'type': type_desc(pool, d['tid']), 'case': d['case'], 'implementation': d['hraw'], 'model': d['mraw'], 'mutation': d['tag']})
        elif h.get('st') == '0':
            ctx.violate('wrong-value', 'decoded value or consumed length differs from the documented format: %s' % d['case'][:200],
                        {'type': type_desc(pool, d['tid']), 'case': d['case'], 'implementation': d['hraw'], 'model': d['mraw']})
        else:
            # both reject with different codes: constrained only for single-defect inputs
            if d['tag'] in ('trunc', 'prefix-sweep'):
                ctx.violate('error-category', 'single-defect input (%s) rejected with status %s, documented category is %s: %s' % (d['tag'], h.get('st'), m.get('st'), d['case'][:200]),
                            {'type': type_desc(pool, d['tid']), 'case': d['case'], 'implementation': d['hraw'], 'model': d['mraw'], 'mutation': d['tag']})
            else:
                broken.append(d)
    # finding K2: the document gives the variant index as INT64; probe the I64 class
    probes = []
    for tid, t in enumerate(pool.types):
        if t[0] == 'var' and t[1] and t[1][0] == ('s', 0, 'i32'):
            probes.append((tid, 'b887' + '00' * 8 + '05', '-', 'k2', None))
    for d in S.run_dec(probes):
        ctx.count('dec:k2-probe', d['case'])
        if d['h'] and d['h'].get('st') != '0':
            ctx.violate('k2:variant-index-int64', 'variant index in the I64 class (admitted by docs/format.md) is rejected: ' + d['case'],
                        {'case': d['case'], 'implementation': d['hraw']})
    report_broken(ctx, broken, 'dec-status', 'Deserializer::Read error code = model dec error code on multiply-mutated inputs')
    return finish_with_proofs(ctx)


# ------------------------------------------------------------------ C02 -----
def osz(t):
    """generous LP64 object-size estimate, used only for the allocation bound"""
    k = t[0]
    if k == 's': return 8
    if k == 'str': return 32
    if k == 'seq':
        c = t[1]
        if c[0] == 'vec': return 24
        if c[0] == 'arr': return c[2] * osz(t[2])
        return c[2] * osz(t[2]) + 8
    if k == 'tup': return sum(osz(x) + 8 for x in t[2]) + 8
    if k == 'wrap': return osz(t[2])
    if k == 'map': return 112
    if k == 'opt': return osz(t[1]) + 16
    if k == 'res': return osz(t[3]) + 16
    if k == 'var': return max([osz(x) for x in t[1]] + [8]) + 16
    if k == 'hnd': return 8
    if k == 'tab': return sum(osz(x) + 16 for _, _, x in t[2]) + 8
    raise ValueError(t)


def alloc_factor(t):
    return 4 * sum(osz(x) + 64 for x in nopgen.walk(t)) + 128


def has_unbounded(t):
    return any(x[0] == 'seq' and x[1][0] == 'lbuf' and x[1][4] for x in nopgen.walk(t))


def twin_pool(pool):
    """a pool description for the model driver only (never compiled): every type with its arrays and logical buffers
    widened to vectors, under the same ids"""
    import hashlib
    types = [nopgen.widen(t) for t in pool.types]
    txt = ''.join('T%d %s %s\n' % (i, nopgen.desc(t), ','.join(sorted(nopgen.caps(t))) or '-') for i, t in enumerate(types))
    d = os.path.join(BUILD, 'twin-' + hashlib.sha256(txt.encode()).hexdigest()[:16])
    os.makedirs(d, exist_ok=True)
    fp = os.path.join(d, 'pool.txt')
    if not os.path.exists(fp):
        with open(fp + '.tmp', 'w') as f:
            f.write(txt)
        os.replace(fp + '.tmp', fp)
    return Pool(types, d)


def reuse_ok(o):
    """the `reuse=` field of a hostile run: 'ok', or 'diff:<status into the used object>/<status into a fresh one>:<dumps>'.
    When the second read fails in both with the same status the property asks nothing of the contents left behind (a
    failed read leaves a valid but unspecified value), so only a differing status, or differing values after success, count."""
    v = sx.fields(o).get('reuse')
    if v == 'ok':
        return True
    m = re.match(r'diff:(-?\d+)/(-?\d+):', v or '')
    return bool(m and m.group(1) == m.group(2) and m.group(1) != '0')



def check_C02(ctx):
    proofs_or_violation(ctx, ['Properties_C02.v'])
    S = CodecStreams(ctx)
    pool = S.pool
    encs = [(r['tid'], r['h']['bytes']) for r in S.run_enc()
            if r['h'] and r['h']['st'] == '0' and not has_unbounded(pool.types[r['tid']])]
    per = 30 if ctx.quick else 100
    if not ctx.quick:
        # keep the thorough tier within memory: at most 30 encodings per type, chosen at random
        by_t = {}
        for e in encs:
            by_t.setdefault(e[0], []).append(e)
        encs = [e for t in sorted(by_t) for e in ctx.rng.sample(by_t[t], min(30, len(by_t[t])))]
    cases, libcases = [], []
    for tid, hx in encs:
        muts = [m for m in mutations(hx, ctx.rng, per * 3) if m[0] in ('inflate', 'trunc', 'byte', 'widen64', 'del', 'ins', 'inc')]
        ctx.rng.shuffle(muts)
        infl = [m for m in muts if m[0] == 'inflate'][: per // 2]
        muts = infl + [m for m in muts if m[0] != 'inflate'][: per - len(infl)]
        for kind, m in muts:
            for rk in ('inst', 'binst'):
                cases.append((tid, rk, m, hx, kind, 'hostile T%d %s %s %s' % (tid, rk, m, hx)))
            if 'handle' not in pool.caps[tid]:
                for rk in ('buf', 'ped', 'bbuf', 'bped', 'bstream', 'bfstream', 'bfd'):
                    libcases.append((tid, rk, m, 'decr T%d %s %d %s' % (tid, rk, hexlen(m), m)))
                if kind in ('trunc', 'inflate', 'del'):
                    for rk in ('bufx2', 'pedx2'):      # the same reader object asked again after it refused
                        libcases.append((tid, rk, m, 'decr T%d %s %d %s' % (tid, rk, hexlen(m), m)))
        for _ in range(4 if ctx.quick else 40):
            n = ctx.rng.randint(0, 32)
            m = ''.join('%02x' % ctx.rng.randrange(256) for _ in range(n)) or '-'
            cases.append((tid, 'inst', m, hx, 'random', 'hostile T%d inst %s %s' % (tid, m, hx)))
    # overfull bounded containers: well-formed encodings whose array / logical-buffer count exceeds the destination's
    # capacity with every element present (cap+1, and counts that are small modulo 2^8 / 2^16).  The bytes are the
    # model's format encoding of the same value under the type with its bounded containers widened to vectors.
    twin = twin_pool(pool)
    valid = {}
    for tid, hx in encs:
        valid.setdefault(tid, hx)
    over = []
    for tid in sorted(valid):
        if not nopgen.bounded_seqs(pool.types[tid]):
            continue
        for _ in range(6 if ctx.quick else 40):
            g = nopgen.gen_overfull(pool.types[tid], ctx.rng)
            if g:
                over.append((tid,) + g)
    # short runs: the model encodes the whole value.  Long runs (one element repeated): the model encodes the value with
    # 1, 2 and 3 copies; prefix, element and suffix are read off the first two and the splice is accepted only when it
    # reproduces the third (so an enclosing size field, which would also change, rules the case out).
    def count_enc(n):
        return '%02x' % n if n < 128 else '80%02x' % n if n < 256 else '81' + le(n, 2) if n < 65536 else '82' + le(n, 4)
    lines, idx = [], []
    for tid, v, n, one in over:
        if one is None:
            idx.append((tid, n, len(lines), 1)); lines.append('enc T%d %s' % (tid, v))
        else:
            idx.append((tid, n, len(lines), 3))
            lines += ['enc T%d %s' % (tid, v.replace('@@', (' ' + one) * k)) for k in (1, 2, 3)]
    tw = [sx.fields(o).get('spec') for o in run_driver(twin, lines)]
    for tid, n, at, k in idx:
        if k == 1:
            sp = tw[at]
        else:
            s1, s2, s3 = tw[at:at + 3]
            sp = None
            if s1 and s2 and s3 and '?' not in (s1, s2, s3):
                el = len(s2) - len(s1)
                pos = next((i for i in range(0, len(s1), 2) if s1[i:i + 2] != s2[i:i + 2]), None)
                if pos is not None and el > 0:
                    c1 = int(s1[pos:pos + 2], 16)
                    pre, e, suf = s1[:pos], s1[pos + 2:pos + 2 + el], s1[pos + 2 + el:]
                    if c1 < 32 and pre + count_enc(3 * c1) + e * 3 + suf == s3:
                        sp = pre + count_enc(n * c1) + e * n + suf
        if not sp or sp == '?':
            continue
        for rk in ('inst', 'binst'):
            cases.append((tid, rk, sp, valid[tid], 'overfull', 'hostile T%d %s %s %s' % (tid, rk, sp, valid[tid])))
    outs = run_harness(pool, [c[5] for c in cases])
    mouts = run_driver(pool, ['dec T%d %s' % (c[0], c[2]) for c in cases])
    broken = []
    for (tid, rk, m, hx, kind, line), o, mo in zip(cases, outs, mouts):
        ctx.count('hostile:%s:%s' % (rk, kind), line, nontrivial=not o.startswith('HARNESS'))
        if kind == 'overfull' and o.startswith('st=0 '):
            ctx.violate('overfull-accepted', 'an encoding with more elements than the bounded destination has room for was read with success '
                        '(the surplus elements were written past the destination or lost): %s -> %s' % (line[:200], o[:200]),
                        {'type': type_desc(pool, tid), 'case': line, 'output': o})
            continue
        if o.startswith(('OOM', 'EXCEPTION')):
            ctx.violate('over-allocation', 'decoding %d input bytes requested more than 256 MiB at once / 1 GiB in total (%s): %s' % (hexlen(m), o[:80], line[:160]),
                        {'type': type_desc(pool, tid), 'case': line, 'output': o})
            continue
        if o.startswith(('CRASH', 'HARNESS', 'OOM', 'EXCEPTION')):
            ctx.violate('memory-error:' + rk, 'hostile input crashed the reader or tripped a sanitizer: %s -> %s' % (line[:160], o[:400]),
                        {'type': type_desc(pool, tid), 'case': line, 'output': o})
            continue
        f = sx.fields(o)
        bound = alloc_factor(pool.types[tid]) * (hexlen(m) + 1)
        if int(f['alloc']) > bound:
            ctx.violate('over-allocation', 'decoding %d input bytes allocated %s bytes (bound for this type: %d): %s' % (hexlen(m), f['alloc'], bound, line[:160]),
                        {'type': type_desc(pool, tid), 'case': line, 'output': o, 'bound': bound})
        if not reuse_ok(o):
            ctx.violate('not-reusable', 'after the read the destination could not be read into again like a fresh object: %s -> %s' % (line[:160], o[:300]),
                        {'type': type_desc(pool, tid), 'case': line, 'output': o})
        mf = sx.fields(mo)
        if mf.get('st') != f.get('st'):
            broken.append({'case': line, 'hraw': o, 'mraw': mo})
    lo = run_harness(pool, [c[3] for c in libcases])
    for (tid, rk, m, line), o in zip(libcases, lo):
        if o == 'unsupported':
            continue
        ctx.count('hostile-lib:' + rk, line)
        if o.startswith(('CRASH', 'HARNESS', 'OOM', 'EXCEPTION')):
            ctx.violate('memory-error:' + rk, 'hostile input crashed %s or tripped a sanitizer: %s -> %s' % (rk, line[:160], o[:400]),
                        {'type': type_desc(pool, tid), 'case': line, 'output': o})
        elif rk.endswith('x2'):
            f = sx.fields(o)
            if int(f['used']) > int(f['of']):
                ctx.violate('out-of-bounds:' + rk, 'after three reads through one reader it has consumed %s of the %s bytes it was given: %s -> %s' % (f['used'], f['of'], line[:160], o[:160]),
                            {'type': type_desc(pool, tid), 'case': line, 'output': o})
    report_broken(ctx, broken, 'hostile-status', 'Deserializer::Read status = model dec status on hostile input')
    return finish_with_proofs(ctx, {'alloc_bound_rule': 'bytes passed to operator new during Read <= alloc_factor(type) * (input length + 1), alloc_factor = 4 * sum over reachable types of (object size estimate + 64) + 128'})


# ------------------------------------------------------------------ C10 -----
CODES = list(range(1, 19))


def check_C10(ctx):
    proofs_or_violation(ctx, ['Properties_C10.v'])
    # the library's own writers over a sink that fails (a full stream, a pipe without room): the failure comes back
    rng10 = ctx.rng
    wl10 = []
    for _ in range(120 if ctx.quick else 6000):
        cap = rng10.choice([0, 1, 4, 16])
        calls = []
        for _ in range(rng10.randint(1, 6)):
            k = rng10.choice('wWKK')
            if k == 'w':
                calls.append('w%d' % rng10.randrange(256))
            elif k == 'W':
                w = rng10.choice([1, 2, 4]); c = rng10.choice([1, 2, 5])
                calls.append('W%dx%s' % (w, ''.join('%02x' % rng10.randrange(256) for _ in range(w * c))))
            else:
                calls.append('K%d:%d' % (rng10.choice([1, 3, 9]), rng10.randrange(256)))
        wl10.append((cap, calls, 0))
    refusing_sinks(ctx, get_pool(), rng10, wl10)
    S = CodecStreams(ctx, nvals=(5 if ctx.quick else 80))
    pool = S.pool
    rows = [r for r in S.run_enc() if r['h'] and r['h']['st'] == '0']
    # fault-free runs first (write and read), to learn the call sequences
    base = []
    for r in rows:
        base.append(('w', r, 'fenc T%d - 0 %s' % (r['tid'], r['input']), 'fenc T%d - 0 %s' % (r['tid'], r['h']['dump'])))
        base.append(('r', r, 'fdec T%d - 0 %s -' % (r['tid'], r['h']['bytes']), 'fdec T%d - 0 %s -' % (r['tid'], r['h']['bytes'])))
    ho = run_harness(pool, [b[2] for b in base])
    mo = run_driver(pool, [b[3] for b in base])
    broken, cases = [], []
    limit = 120 if ctx.quick else 2000
    ci = 0
    for (kind, r, hl, ml), o, m in zip(base, ho, mo):
        ctx.count('fault-free:' + kind, hl)
        if o.startswith(('CRASH', 'HARNESS', 'OOM', 'EXCEPTION')):
            ctx.violate('harness-crash', 'instrumented run crashed: %s -> %s' % (hl[:160], o[:300]), {'case': hl, 'output': o})
            continue
        f, g = sx.fields(o), sx.fields(m)
        if not same(f, g, ('st', 'calls', 'log')):
            broken.append({'case': hl, 'hraw': o, 'mraw': m})
        n = int(f['calls'])
        ks = range(n) if n <= limit else sorted(set(list(range(40)) + [ctx.rng.randrange(n) for _ in range(60)] + [n - 1]))
        log = f['log'].split(',') if f['log'] != '-' else []
        for k in ks:
            code = CODES[ci % len(CODES)]
            ci += 1
            # the pointer and unique_ptr specialisations of Serializer / Deserializer take turns with the plain one
            # (same model line: they must behave alike); a failing Prepare (k = 0) goes through all three
            fls = ('', 'p', 'u') if (kind == 'w' and k == 0) else (('', 'p', 'u')[ci % 3],)
            for fl in fls:
                if kind == 'w':
                    cases.append((kind, r, k, code, log, 'fenc%s T%d %d %d %s' % (fl, r['tid'], k, code, r['input']), 'fenc T%d %d %d %s' % (r['tid'], k, code, r['h']['dump'])))
                else:
                    cases.append((kind, r, k, code, log, 'fdec%s T%d %d %d %s -' % (fl, r['tid'], k, code, r['h']['bytes']), 'fdec T%d %d %d %s -' % (r['tid'], k, code, r['h']['bytes'])))
    ho = run_harness(pool, [c[5] for c in cases])
    mo = run_driver(pool, [c[6] for c in cases])
    for (kind, r, k, code, log, hl, ml), o, m in zip(cases, ho, mo):
        ctx.count('fault:' + kind, hl)
        if o.startswith(('CRASH', 'HARNESS', 'OOM', 'EXCEPTION')):
            ctx.violate('harness-crash', 'instrumented run crashed: %s -> %s' % (hl[:160], o[:300]), {'case': hl, 'output': o})
            continue
        f = sx.fields(o)
        got = f['log'].split(',') if f['log'] != '-' else []
        if f['st'] == '0':
            ctx.violate('success-after-failure', '%s reported success although primitive call %d failed with %d: %s' % ('Write' if kind == 'w' else 'Read', k, code, hl[:200]),
                        {'type': type_desc(pool, r['tid']), 'case': hl, 'output': o, 'fault_free_log': log})
        elif f['st'] != str(code):
            ctx.violate('error-not-verbatim', 'call %d failed with %d but the operation returned %s: %s' % (k, code, f['st'], hl[:200]),
                        {'type': type_desc(pool, r['tid']), 'case': hl, 'output': o})
        elif int(f['calls']) != k + 1:
            ctx.violate('calls-after-failure', 'call %d failed but %s calls were made in total: %s' % (k, f['calls'], hl[:200]),
                        {'type': type_desc(pool, r['tid']), 'case': hl, 'output': o, 'fault_free_log': log})
        elif got != log[:k + 1]:
            ctx.violate('different-calls', 'calls up to the failing one differ from the fault-free run: ' + hl[:200],
                        {'case': hl, 'output': o, 'fault_free_log': log})
        elif kind == 'w' and k == 0 and (len(got) != 1 or not got[0].startswith('P')):
            ctx.violate('prepare-not-first', 'a failing Prepare was not the only call: ' + hl[:200], {'case': hl, 'output': o})
        if not m.startswith('DRIVER') and not same(f, sx.fields(m), ('st', 'calls', 'log')):
            broken.append({'case': hl, 'hraw': o, 'mraw': m})
    report_broken(ctx, broken, 'fault', 'call sequence and status under fault injection = model (inst wrapper)')
    from props_objs import rpc_sender_faults
    n_rpc = rpc_sender_faults(ctx)
    return finish_with_proofs(ctx, {'rpc_sender_fault_cases': n_rpc})


# ------------------------------------------------------------------ C11 -----
def check_C11(ctx):
    import framework
    proofs_or_violation(ctx, ['Properties_C11.v'])
    S = CodecStreams(ctx)
    pool = S.pool
    rows = [r for r in S.run_enc() if r['h'] and r['h']['st'] == '0']
    by_type = {}
    for r in rows:
        by_type.setdefault(r['tid'], []).append(r)
    items, hcases = [], []
    per = 6 if ctx.quick else 40
    for tid, rs in by_type.items():
        if has_unbounded(pool.types[tid]):
            continue
        for r in rs:
            others = [ctx.rng.choice(rs) for _ in range(per)]
            muts = [m for _, m in mutations(r['h']['bytes'], ctx.rng, per)]
            for q in others:
                # (a) prior built by assignment, then valid and mutated inputs
                items.append((tid, r['h']['bytes'], '-', 'assigned', q['input']))
                # (b) prior left by a successful read
                hcases.append((tid, 'ok-read', 'hostile T%d inst %s %s' % (tid, q['h']['bytes'], r['h']['bytes'])))
            for m in muts:
                items.append((tid, m, '-', 'assigned-mut', ctx.rng.choice(rs)['input']))
                # (c) prior left by a failed (or odd) read
                hcases.append((tid, 'failed-read', 'hostile T%d inst %s %s' % (tid, m, r['h']['bytes'])))
    # (a): read into the prior vs read into a fresh object
    rows_p = S.run_dec(items)
    fresh = S.run_dec([(i, hx, hs, tag, None) for (i, hx, hs, tag, p) in items])
    broken = []
    for d, f in zip(rows_p, fresh):
        ctx.count('prior:' + d['tag'], d['case'], nontrivial=d['h'] is not None)
        if d['h'] is None or f['h'] is None:
            ctx.violate('harness-crash:dec', 'reader crashed: %s -> %s' % (d['case'][:160], d['hraw'][:300]), {'case': d['case'], 'output': d['hraw']})
            continue
        a, b = d['h'], f['h']
        if a.get('st') != b.get('st') or (a.get('st') == '0' and (not val_eq(a.get('val'), b.get('val')) or a.get('consumed') != b.get('consumed'))):
            ctx.violate('prior-dependent', 'reading into an object holding a prior value gave a different result than into a fresh object: %s -> %s vs fresh %s'
                        % (d['case'][:200], d['hraw'][:120], f['hraw'][:120]),
                        {'type': type_desc(pool, d['tid']), 'case': d['case'], 'with_prior': d['hraw'], 'fresh': f['hraw']})
        elif d['m'] is not None and a.get('st') != d['m'].get('st'):
            broken.append(d)
    ho = run_harness(pool, [c[2] for c in hcases])
    for (tid, kind, line), o in zip(hcases, ho):
        ctx.count('prior:' + kind, line)
        if o.startswith(('CRASH', 'HARNESS', 'OOM', 'EXCEPTION')):
            ctx.violate('memory-error', 'reading twice into one object crashed or tripped a sanitizer: %s -> %s' % (line[:160], o[:300]), {'case': line, 'output': o})
        elif not reuse_ok(o):
            ctx.violate('prior-dependent:' + kind, 'an object left by an earlier %s does not read like a fresh one: %s -> %s' % (kind, line[:200], o[:300]),
                        {'type': type_desc(pool, tid), 'case': line, 'output': o})
    for e in framework.EXIT_PROBLEMS:
        ctx.violate('leak-or-exit-error', 'the harness process reported a leak or an error at exit: ' + e[:300], {'stderr': e})
    report_broken(ctx, broken, 'dec-prior', 'Deserializer::Read status = model dec status')
    return finish_with_proofs(ctx)


# ------------------------------------------------------------- C07 / C08 -----
def compat_pairs(pool):
    """ordered pairs (A, B) of pool types related by table evolution (same
    hash), possibly nested in structures / vectors / table entries"""
    def rel(a, b):
        if a == b:
            return True
        if a[0] == 'wrap':
            return rel(a[2], b)
        if b[0] == 'wrap':
            return rel(a, b[2])
        if a[0] != b[0]:
            return False
        k = a[0]
        if k == 'tab':
            if a[1] != b[1]:
                return False
            da = {i: (act, t) for i, act, t in a[2]}
            for i, act, t in b[2]:
                if i in da and act and da[i][0] and not rel(da[i][1], t):
                    return False
            return True
        if k == 'tup':
            return a[1] == b[1] and len(a[2]) == len(b[2]) and all(rel(x, y) for x, y in zip(a[2], b[2]))
        if k == 'seq':
            return a[1] == b[1] and rel(a[2], b[2])
        return False
    fam = [i for i, t in enumerate(pool.types) if any(x[0] == 'tab' and x[1] in (nopgen.FAMILY_HASH, nopgen.OUTER_HASH) for x in nopgen.walk(t))]
    return [(i, j) for i in fam for j in fam if rel(pool.types[i], pool.types[j])]


def project(a, b, v):
    """the value a reader of type b must see after reading what a writer of type a wrote"""
    if isinstance(v, str):
        return v
    if a[0] == 'wrap':
        return project(a[2], b, v)
    if b[0] == 'wrap':
        return project(a, b[2], v)
    k = a[0]
    if k == 'tab':
        da = {}
        for (i, act, t), x in zip(a[2], v[1:]):
            da[i] = (act, t, x)
        out = ['tab']
        for i, act, t in b[2]:
            if act and i in da and da[i][0] and not isinstance(da[i][2], str):
                out.append(['some', project(da[i][1], t, da[i][2][1])])
            else:
                out.append('none')
        return out
    if k == 'tup':
        return ['seq'] + [project(x, y, e) for x, y, e in zip(a[2], b[2], v[1:])]
    if k == 'seq':
        return ['seq'] + [project(a[2], b[2], e) for e in v[1:]]
    return v


def check_C07(ctx):
    proofs_or_violation(ctx, ['Properties_C07.v'])
    pool = get_pool()
    pairs = compat_pairs(pool)
    fam = sorted({i for i, _ in pairs})
    S = CodecStreams(ctx, nvals=(40 if ctx.quick else 400), types=fam)
    rows = [r for r in S.run_enc() if r['h'] and r['h']['st'] == '0']
    def writable(r):
        if r['m'].get('typed') == 'true' and r['h']['st'] != '0':
            return ('write-fails', 'Write of an encodable table value failed with status %s: %s' % (r['h']['st'], r['case'][:200]))
        return None
    broken = corr_enc(ctx, S, writable)
    by = {}
    for r in rows:
        by.setdefault(r['tid'], []).append(r)
    items = []
    for a, b in pairs:
        for r in by.get(a, []):
            hx = r['h']['bytes']
            items.append((b, (hx if hx != '-' else '') + '2a', '-', (a, r), None))
            # the same read into a destination that already holds entries (a reused object): entries the writer
            # lacked or left empty must come out empty, not keep what was there
            if ctx.rng.random() < (0.5 if ctx.quick else 1.0):
                items.append((b, (hx if hx != '-' else '') + '2a', '-', (a, r), nopgen.gen_value(pool.types[b], ctx.rng)))
    drows = S.run_dec(items)
    dbroken = []
    for d in drows:
        a, r = d['tag']
        ctx.count('cross-version', d['case'], nontrivial=d['h'] is not None)
        if d['h'] is None:
            ctx.violate('harness-crash:dec', 'reader crashed: %s -> %s' % (d['case'][:160], d['hraw'][:300]), {'case': d['case'], 'output': d['hraw']})
            continue
        want = sx.show(sx.canon(project(pool.types[a], pool.types[d['tid']], sx.parse(r['h']['dump'])[0])))
        n = hexlen(r['h']['bytes'])
        if d['h'].get('st') != '0' or not val_eq(d['h'].get('val'), want) or d['h'].get('consumed') != str(n):
            ctx.violate('cross-version', 'data written with one table definition did not read correctly with another: writer %s value %s, reader %s got %s (expected %s, %d bytes)'
                        % (type_desc(pool, a)[:80], r['h']['dump'][:80], type_desc(pool, d['tid'])[:80], d['hraw'][:120], want[:80], n),
                        {'writer': type_desc(pool, a), 'reader': type_desc(pool, d['tid']), 'value': r['h']['dump'], 'bytes': r['h']['bytes'],
                         'read': d['hraw'], 'expected': want})
        elif d['m'] is not None and not (same(d['h'], d['m'], ('st', 'consumed')) and val_eq(d['h'].get('val'), d['m'].get('val'))):
            dbroken.append(d)
    # the same cross-version reads through the library's own readers, a forward-only stream (no seekg/tellg) included
    lib = []
    for d in drows:
        if d['h'] is None or d['case'].count('(') == 0 and False:
            continue
        a, r = d['tag']
        hx = r['h']['bytes']
        if not hx or hx == '-':
            continue
        for rk in ('buf', 'stream', 'nsstream', 'fstream', 'bbuf'):
            lib.append((d, a, r, rk, 'decr T%d %s %d %s' % (d['tid'], rk, hexlen(hx) + 1, hx + '2a')))
    seen_lib = set()
    lib = [x for x in lib if not (x[4] in seen_lib or seen_lib.add(x[4]))]
    lo = run_harness(pool, [x[4] for x in lib])
    for (d, a, r, rk, line), o in zip(lib, lo):
        if o == 'unsupported':
            continue
        ctx.count('cross-version:' + rk, line)
        if o.startswith(('CRASH', 'HARNESS', 'OOM', 'EXCEPTION')):
            ctx.violate('crash:' + rk, 'reader %s crashed on a cross-version read: %s -> %s' % (rk, line[:160], o[:300]), {'case': line, 'output': o})
            continue
        f = sx.fields(o)
        want = sx.show(sx.canon(project(pool.types[a], pool.types[d['tid']], sx.parse(r['h']['dump'])[0])))
        n = hexlen(r['h']['bytes'])
        if f.get('st') != '0' or not val_eq(f.get('val'), want) or f.get('consumed') != str(n):
            ctx.violate('cross-version:' + rk, 'data written with one table definition did not read correctly with another through reader %s: writer %s value %s, reader %s got %s (expected %s, %d bytes)'
                        % (rk, type_desc(pool, a)[:80], r['h']['dump'][:80], type_desc(pool, d['tid'])[:80], o[:120], want[:80], n),
                        {'writer': type_desc(pool, a), 'reader': type_desc(pool, d['tid']), 'value': r['h']['dump'], 'bytes': r['h']['bytes'],
                         'case': line, 'read': o, 'expected': want})
    report_broken(ctx, broken, 'enc', 'Serializer::Write = model enc')
    report_broken(ctx, dbroken, 'dec', 'Deserializer::Read = model dec')
    return finish_with_proofs(ctx, {'version_pairs': len(pairs)})


def read_uint(bs, i):
    p = bs[i]
    if p < 0x80:
        return p, i + 1
    n = {0x80: 1, 0x81: 2, 0x82: 4, 0x83: 8}.get(p)
    if n is None:
        return None, i + 1           # not an unsigned-integer class: the caller sees a mismatch
    return int.from_bytes(bytes(bs[i + 1:i + 1 + n]), 'little'), i + 1 + n


def enc_uint(n):
    if n < 128:
        return [n]
    for p, w in ((0x80, 1), (0x81, 2), (0x82, 4), (0x83, 8)):
        if n < (1 << (8 * w)):
            return [p] + list(n.to_bytes(w, 'little'))


def parse_table(hx):
    bs = list(bytes.fromhex(hx))
    assert bs[0] == 0xb5
    h, i = read_uint(bs, 1)
    cnt, i = read_uint(bs, i)
    ents = []
    for _ in range(cnt):
        eid, i = read_uint(bs, i)
        sz, i = read_uint(bs, i)
        ents.append((eid, bs[i:i + sz]))
        i += sz
    return h, ents, bs[i:]


def build_table(h, ents, sizes=None):
    out = [0xb5] + enc_uint(h) + enc_uint(len(ents))
    for k, (eid, body) in enumerate(ents):
        sz = len(body) if sizes is None or sizes[k] is None else sizes[k]
        out += enc_uint(eid) + enc_uint(sz) + list(body)
    return bytes(out).hex() or '-'


def check_C08(ctx):
    proofs_or_violation(ctx, ['Properties_C08.v'])
    pool = get_pool()
    # the version family, and the tables that hold a table in an entry (frames inside frames)
    fam = [i for i, t in enumerate(pool.types) if t[0] == 'tab' and 'handle' not in pool.caps[i] and
           True]
    S = CodecStreams(ctx, nvals=(30 if ctx.quick else 300), types=fam)
    rows = [r for r in S.run_enc() if r['h'] and r['h']['st'] == '0']
    items = []
    for r in rows:
        t = pool.types[r['tid']]
        known = {i: act for i, act, _ in t[2]}
        h, ents, _ = parse_table(r['h']['bytes'])
        val = r['h']['dump']
        n0 = hexlen(r['h']['bytes'])
        # permutations
        if len(ents) > 1:
            for _ in range(3):
                p = ents[:]
                ctx.rng.shuffle(p)
                items.append((r['tid'], build_table(h, p), '-', ('permute', val, n0), None))
        # hash
        for hh in (h + 1, 0, 2 ** 64 - 1):
            if hh != h:
                items.append((r['tid'], build_table(hh, ents), '-', ('hash', None, None), None))
        for k, (eid, body) in enumerate(ents):
            # duplicate a known active entry (adjacent and at the end)
            dup = ents[:k + 1] + [(eid, body)] + ents[k + 1:]
            items.append((r['tid'], build_table(h, dup), '-', ('duplicate', None, None), None))
            items.append((r['tid'], build_table(h, ents + [(eid, body)]), '-', ('duplicate', None, None), None))
            # larger declared size with matching padding
            for pad in (1, 3, 200):
                g = ents[:k] + [(eid, body + [ctx.rng.randrange(256) for _ in range(pad)])] + ents[k + 1:]
                items.append((r['tid'], build_table(h, g), '-', ('grow', val, n0 + pad + (len(enc_uint(len(body) + pad)) - len(enc_uint(len(body))))), None))
            # smaller declared size, body cut to it
            for cut in sorted({0, len(body) // 2, len(body) - 1}):
                if 0 <= cut < len(body):
                    g = ents[:k] + [(eid, body[:cut])] + ents[k + 1:]
                    items.append((r['tid'], build_table(h, g), '-', ('shrink', None, None), None))
            # a declared size far beyond the input (up to 2^64-1, where offset + size wraps): recognised, unknown and deleted ids
            for big in (2 ** 64 - 1, 2 ** 64 - 2 - ctx.rng.randrange(40), 2 ** 63, 2 ** 32 + len(body), n0 + 64):
                for eid2 in (eid, 9997 if 9997 not in known else 70003):
                    g = ents[:k] + [(eid2, body)] + ents[k + 1:]
                    items.append((r['tid'], build_table(h, g, [None] * k + [big] + [None] * (len(ents) - k - 1)), '-', ('oversize', None, None), None))
            # corrupt one byte inside the entry
            if body:
                j = ctx.rng.randrange(len(body))
                g = ents[:k] + [(eid, body[:j] + [body[j] ^ ctx.rng.choice([1, 0x80, 0xff, 0x3c])] + body[j + 1:])] + ents[k + 1:]
                items.append((r['tid'], build_table(h, g), '-', ('corrupt', None, None), None))
        # the same manipulations one level down: a table stored in an entry of this table.  The inner frame ends
        # inside the outer frame, so the outer entry has to account for what the inner table skipped.
        for k, (eid, body) in enumerate(ents):
            if not body or body[0] != 0xb5:
                continue
            try:
                ih, ients, irest = parse_table(bytes(body).hex())
            except Exception:
                continue
            if irest:
                continue
            variants = []
            if len(ients) > 1:
                q = ients[:]
                ctx.rng.shuffle(q)
                variants.append(('permute', q))
            for j, (ie, ib) in enumerate(ients):
                for pad in (1, 5):
                    variants.append(('grow', ients[:j] + [(ie, ib + [ctx.rng.randrange(256) for _ in range(pad)])] + ients[j + 1:]))
            iknown = {ie for ie, _ in ients} | {i2 for i2, _, _ in pool.types[r['tid']][2][[e[0] for e in pool.types[r['tid']][2]].index(eid)][2][2]} if eid in [e[0] for e in pool.types[r['tid']][2]] and pool.types[r['tid']][2][[e[0] for e in pool.types[r['tid']][2]].index(eid)][2][0] == 'tab' else {ie for ie, _ in ients}
            u1, u2 = [x for x in (9999, 9998, 9997, 70000, 70001, 70002) if x not in iknown][:2]
            variants.append(('unknown', [(u1, [1, 2, 3])] + ients + [(u2, [0xff] * 4), (u1, [])]))
            for kind2, iv in variants:
                nb = list(bytes.fromhex(build_table(ih, iv)))
                g = ents[:k] + [(eid, nb)] + ents[k + 1:]
                hx = build_table(h, g)
                items.append((r['tid'], hx, '-', (kind2, val, hexlen(hx)), None))
                # and with the outer entry grown as well
                g2 = ents[:k] + [(eid, nb + [0xee, 0xee])] + ents[k + 1:]
                hx2 = build_table(h, g2)
                items.append((r['tid'], hx2, '-', (kind2, val, hexlen(hx2)), None))
        # unknown / deleted ids, also repeated
        f1, f2 = [x for x in (9999, 9998, 9997, 70000, 70001, 70002) if x not in known][:2]
        unk = [(f1, [1, 2, 3]), (f1, []), (f2, [0xff] * 5)]
        items.append((r['tid'], build_table(h, unk[:1] + ents + unk[1:]), '-', ('unknown', val, None), None))
        # unknown ids that differ from a known id only above bit 32 (and the other way round)
        alias = [x for x in [(1 << 32) + i for i in known] + [i - (1 << 32) for i in known if i >= (1 << 32)] if x not in known and x >= 0][:2]
        if alias:
            items.append((r['tid'], build_table(h, [(alias[0], [0x07])] + ents + [(alias[-1], [0xbd, 0x01, 0x41])]), '-', ('unknown', val, None), None))
        # every one of the first bytes of an entry's value (prefix, length, count) moved up by one, the frame grown to match:
        # whether that is still an encoding of the entry's type is the documented format's call (judged against the model)
        for k, (eid, body) in enumerate(ents):
            for j in range(min(3, len(body))):
                if body[j] < 0xff:
                    g = ents[:k] + [(eid, body[:j] + [body[j] + 1] + body[j + 1:] + [0] * 3)] + ents[k + 1:]
                    items.append((r['tid'], build_table(h, g), '-', ('corrupt', None, None), None))
        dels = [i for i, act in known.items() if not act]
        if dels:
            items.append((r['tid'], build_table(h, [(dels[0], [7, 7]), (dels[0], [8])] + ents), '-', ('deleted-twice', val, None), None))
    drows = S.run_dec(items)
    broken = []
    for d in drows:
        kind, val, n = d['tag']
        ctx.count('framing:' + kind, d['case'], nontrivial=d['h'] is not None)
        if d['h'] is None:
            ctx.violate('harness-crash:dec', 'reader crashed: %s -> %s' % (d['case'][:160], d['hraw'][:300]), {'case': d['case'], 'output': d['hraw']})
            continue
        h = d['h']
        bad = None
        if kind in ('permute', 'grow', 'unknown', 'deleted-twice'):
            if h.get('st') != '0' or not val_eq(h.get('val'), val) or (n is not None and h.get('consumed') != str(n)):
                bad = 'a table with %s entries was not read to the original value / position' % kind
        elif kind == 'hash' and h.get('st') != '7':
            bad = 'a table with a different hash was not rejected with InvalidTableHash'
        elif kind == 'duplicate' and h.get('st') != '11':
            bad = 'a repeated recognised active entry was not rejected with DuplicateTableEntry'
        elif kind == 'shrink' and h.get('st') == '0':
            bad = 'an entry whose declared size is smaller than its value needs was accepted'
        elif kind == 'oversize' and h.get('st') == '0':
            bad = 'an entry that declares more bytes than the input holds was accepted'
        if bad:
            ctx.violate('framing:' + kind, '%s: %s -> %s' % (bad, d['case'][:160], d['hraw'][:160]),
                        {'type': type_desc(pool, d['tid']), 'case': d['case'], 'output': d['hraw'], 'model': d['mraw']})
        elif d['m'] is not None and not (h.get('st') == d['m'].get('st') and (h.get('st') != '0' or (val_eq(h.get('val'), d['m'].get('val')) and h.get('consumed') == d['m'].get('consumed')))):
            if kind == 'corrupt' and (h.get('st') == '0') != (d['m'].get('st') == '0'):
                ctx.violate('framing:corrupt', 'a corrupted entry is %s although the documented decoding of its frame %s: %s' % (
                    'accepted' if h.get('st') == '0' else 'rejected', 'fails' if h.get('st') == '0' else 'succeeds', d['case'][:200]),
                    {'type': type_desc(pool, d['tid']), 'case': d['case'], 'output': d['hraw'], 'model': d['mraw']})
            else:
                broken.append(d)
    # the same inputs through the library's own readers: same verdict, value and position as the instrumented reader
    lib = []
    step = 1 if not ctx.quick else 2
    for d in drows[::step]:
        if d['h'] is None:
            continue
        hx = d['hex']
        if not hx or hx == '-':
            continue
        for rk in ('buf', 'ped', 'stream', 'nsstream', 'fstream', 'bbuf'):
            lib.append((d, rk, 'decr T%d %s %d %s' % (d['tid'], rk, hexlen(hx), hx)))
    lo = run_harness(pool, [x[2] for x in lib])
    for (d, rk, line), o in zip(lib, lo):
        if o == 'unsupported':
            continue
        kind = d['tag'][0]
        ctx.count('framing:%s:%s' % (rk, kind), line)
        if o.startswith(('CRASH', 'HARNESS', 'OOM', 'EXCEPTION')):
            ctx.violate('crash:' + rk, 'reader %s crashed on a manipulated table: %s -> %s' % (rk, line[:160], o[:300]), {'case': line, 'output': o})
            continue
        f, h = sx.fields(o), d['h']
        if (f.get('st') == '0') != (h.get('st') == '0') or (f.get('st') == '0' and (not val_eq(f.get('val'), h.get('val')) or f.get('consumed') != h.get('consumed'))):
            ctx.violate('framing:%s:%s' % (rk, kind), 'reader %s reads a table with %s entries differently from the byte-at-a-time reference reader: %s -> %s, reference %s' %
                        (rk, kind, line[:200], o[:120], d['hraw'][:120]), {'type': type_desc(pool, d['tid']), 'case': line, 'output': o, 'reference': d['hraw']})
    report_broken(ctx, broken, 'dec-table', 'Deserializer::Read = model dec on manipulated tables')
    return finish_with_proofs(ctx)


# ------------------------------------------------------------------ C09 -----
def is_k3_pair(ta, tb):
    """a sequence whose elements are an integral type on one side and a NOP_VALUE
    wrapper of an integral type on the other (BIN vs ARY): finding K3"""
    def strip(t):
        while t[0] == 'wrap' and t[1] != 0:
            t = t[2]
        return t

    def walk2(a, b):
        a0, b0 = strip(a), strip(b)
        if a0[0] == 'seq' and b0[0] == 'seq':
            ea, eb = a0[2], b0[2]
            if nopgen.is_integral(ea) != nopgen.is_integral(eb) and nopgen.is_integral(strip(ea)) and nopgen.is_integral(strip(eb)):
                return True
            return walk2(ea, eb)
        if a0[0] == 'tup' and b0[0] == 'tup' and len(a0[2]) == len(b0[2]):
            return any(walk2(x, y) for x, y in zip(a0[2], b0[2]))
        for k, idx in (('opt', 1), ('res', 3)):
            if a0[0] == k and b0[0] == k:
                return walk2(a0[idx], b0[idx])
        if a0[0] == 'var' and b0[0] == 'var' and len(a0[1]) == len(b0[1]):
            return any(walk2(x, y) for x, y in zip(a0[1], b0[1]))
        if a0[0] == 'map' and b0[0] == 'map':
            return walk2(a0[2], b0[2]) or walk2(a0[3], b0[3])
        if a0[0] == 'tab' and b0[0] == 'tab' and len(a0[2]) == len(b0[2]):
            return any(walk2(x[2], y[2]) for x, y in zip(a0[2], b0[2]))
        return False
    return walk2(ta, tb)


def check_C09(ctx):
    proofs_or_violation(ctx, ['Properties_C09.v'])
    pool = get_pool()
    n = len(pool.types)
    lines = ['fungrow T%d' % i for i in range(n)]
    ho = run_harness(pool, lines)
    mo = run_driver(pool, lines)
    M = []
    broken = []
    for i, (a, b) in enumerate(zip(ho, mo)):
        ra = a.split('=')[1] if a.startswith('row=') else None
        rb = b.split('=')[1] if b.startswith('row=') else None
        if ra is None or len(ra) != n:
            ctx.violate('harness-crash', 'IsFungible matrix row missing: ' + a[:200], {'row': i, 'output': a})
            M.append('0' * n)
            continue
        M.append(ra)
        if rb is not None:
            for j in range(n):
                ctx.count('trait', 'IsFungible<T%d,T%d>' % (i, j), nontrivial=(ra[j] == '1' or rb[j] == '1'))
                if ra[j] != rb[j]:
                    broken.append({'case': 'IsFungible<%s, %s>' % (type_desc(pool, i), type_desc(pool, j)), 'hraw': ra[j], 'mraw': rb[j]})
    # reflexive, symmetric (on the implementation's own trait)
    for i in range(n):
        if M[i][i] != '1':
            ctx.violate('not-reflexive', 'IsFungible<A,A> is false for A = ' + type_desc(pool, i), {'type': type_desc(pool, i)})
        for j in range(i + 1, n):
            if M[i][j] != M[j][i]:
                ctx.violate('not-symmetric', 'IsFungible<A,B> = %s but IsFungible<B,A> = %s for A = %s, B = %s' % (M[i][j], M[j][i], type_desc(pool, i), type_desc(pool, j)),
                            {'A': type_desc(pool, i), 'B': type_desc(pool, j)})
    # fungible pairs: every encoding of an A value whose counts fit B decodes as B to the
    # corresponding value, and re-encoding that B value reproduces the bytes
    pairs = [(i, j) for i in range(n) for j in range(n) if i != j and M[i][j] == '1']
    S = CodecStreams(ctx, nvals=(10 if ctx.quick else 400), types=sorted({i for i, _ in pairs}))
    rows = [r for r in S.run_enc() if r['h'] and r['h']['st'] == '0']
    by = {}
    for r in rows:
        by.setdefault(r['tid'], []).append(r)
    items = []
    for i, j in pairs:
        for r in by.get(i, []):
            items.append((j, r['h']['bytes'], '-', (i, r), None))
    # does the value fit B?  the model's typing decides (array extents, buffer capacities)
    fits = run_driver(pool, ['enc T%d %s' % (j, tag[1]['h']['dump']) for (j, hx, hs, tag, p) in items])
    drows = S.run_dec(items)
    re = []
    for d, f in zip(drows, fits):
        i, r = d['tag']
        ff = sx.fields(f) if not f.startswith('DRIVER') else {}
        if ff.get('typed') != 'true':
            continue          # element counts do not fit B's capacity
        ctx.count('cross-decode', d['case'], nontrivial=d['h'] is not None)
        k3 = is_k3_pair(pool.types[i], pool.types[d['tid']])
        if d['h'] is None:
            ctx.violate('harness-crash:dec', 'reader crashed: %s -> %s' % (d['case'][:160], d['hraw'][:300]), {'case': d['case'], 'output': d['hraw']})
            continue
        ok = d['h'].get('st') == '0' and val_eq(d['h'].get('val'), r['h']['dump']) and d['h'].get('consumed') == str(hexlen(r['h']['bytes']))
        if not ok:
            ctx.violate('k3:wrapped-integral-elements' if k3 else 'fungible-not-wire-compatible',
                        'IsFungible<A,B> is true but an A value does not decode as B: A = %s, B = %s, value %s, bytes %s -> %s'
                        % (type_desc(pool, i)[:70], type_desc(pool, d['tid'])[:70], r['h']['dump'][:60], r['h']['bytes'][:60], d['hraw'][:100]),
                        {'A': type_desc(pool, i), 'B': type_desc(pool, d['tid']), 'value': r['h']['dump'], 'bytes': r['h']['bytes'], 'read_as_B': d['hraw']})
        else:
            re.append((d['tid'], r))
    # re-encode as B
    ro = run_harness(pool, ['enc T%d %s' % (j, r['h']['dump']) for j, r in re])
    # an unordered_map re-encodes its entries in its own iteration order: for such pairs the
    # re-encoded bytes are compared as the value they denote (decoded as A) and by length
    unordered = [('unordered' in pool.caps[j] or 'unordered' in pool.caps[r['tid']]) for j, r in re]
    back = run_harness(pool, ['dec T%d %s -' % (r['tid'], sx.fields(o).get('bytes', '-')) if u and o.startswith('dump=') else '# skip'
                              for (j, r), o, u in zip(re, ro, unordered)])
    for (j, r), o, u, bk in zip(re, ro, unordered, back):
        ctx.count('re-encode', 'enc T%d %s' % (j, r['h']['dump']))
        f = sx.fields(o) if not o.startswith(('CRASH', 'HARNESS', 'OOM', 'EXCEPTION')) else {}
        if u and f.get('bytes') is not None and hexlen(f['bytes']) == hexlen(r['h']['bytes']) and val_eq(sx.fields(bk).get('val'), r['h']['dump']):
            continue
        if f.get('bytes') != r['h']['bytes']:
            k3 = is_k3_pair(pool.types[r['tid']], pool.types[j])
            ctx.violate('k3:wrapped-integral-elements' if k3 else 'fungible-different-bytes',
                        'IsFungible<A,B> is true but re-encoding the value as B gives different bytes: A = %s, B = %s, value %s: %s vs %s'
                        % (type_desc(pool, r['tid'])[:70], type_desc(pool, j)[:70], r['h']['dump'][:60], r['h']['bytes'][:60], str(f.get('bytes'))[:60]),
                        {'A': type_desc(pool, r['tid']), 'B': type_desc(pool, j), 'value': r['h']['dump']})
    # Protocol<P>: Write / Read are callable exactly for the types fungible with P — also when P is a C array
    pm = run_prim(pool, ['protomatrix'])[0]
    ctx.count('protocol-matrix', 'protomatrix')
    pf = sx.fields(pm) if pm.startswith('write=') else {}
    names = ['int[3]', 'int[5]', 'array<int,3>', 'array<int,5>', 'vector<int>', 'tuple<int,int,int>', 'pair<int,int>', 'float[3]', 'array<float,3>',
             'vector<float>', 'tuple<float,float,float>', 'int', 'string', 'vector<string>', 'string[3]',
             'vector<vector<int>>', 'vector<array<int,3>>', 'vector<pair<int,string>>', 'vector<tuple<int,string>>']
    if not pf:
        ctx.violate('harness-crash', 'protomatrix failed: ' + pm[:200], {'output': pm})
    else:
        fw, fr, ff = (pf[k].strip('/').split('/') for k in ('write', 'read', 'fungible'))
        for i, pn in enumerate(names):
            for j, tn in enumerate(names):
                if fw[i][j] != ff[i][j] or fr[i][j] != ff[i][j]:
                    ctx.violate('protocol-gate', 'Protocol<%s>::Write(%s) is %s and Read is %s although IsFungible<%s, %s> is %s' %
                                (pn, tn, 'callable' if fw[i][j] == '1' else 'rejected', 'callable' if fr[i][j] == '1' else 'rejected', pn, tn, 'true' if ff[i][j] == '1' else 'false'),
                                {'protocol_type': pn, 'value_type': tn, 'matrix': pm})
        # documented relations among these types: arrays and vectors of one element type (equal lengths for arrays); tuples
        # join them for non-integral elements only (integral sequences are BIN, tuples are ARY)
        want_true = [(0, 2), (2, 0), (0, 4), (4, 0), (7, 8), (8, 9), (7, 10), (10, 7), (1, 3), (3, 4), (13, 14), (15, 16), (16, 15), (17, 18), (18, 17)]
        want_false = [(0, 1), (1, 0), (0, 3), (2, 3), (0, 7), (4, 9), (11, 12), (0, 11), (5, 6), (1, 5), (0, 5), (4, 5)]
        for (i, j), w in [(p, '1') for p in want_true] + [(p, '0') for p in want_false]:
            if ff[i][j] != w:
                ctx.violate('fungible-doc', 'IsFungible<%s, %s> is %s' % (names[i], names[j], 'true' if ff[i][j] == '1' else 'false'), {'matrix': pm})
    report_broken(ctx, broken, 'trait', 'IsFungible<A,B>::value = model fungible a b over all ordered pairs of the pool')
    return finish_with_proofs(ctx, {'pool_types': n, 'ordered_pairs': n * n, 'fungible_pairs': len(pairs)})


# ------------------------------------------------------------- C16 / C17 -----
OBS_RE = re.compile(r' (b?obs)=(\S+)')


def split_obs(o):
    """the observer fields the harness appends (obs= of the library object, bobs= of the bounded wrapper) are judged by
    their own oracle and removed before the output is compared with the model's"""
    return OBS_RE.sub('', o), dict(OBS_RE.findall(o))


def obs_violation(kind, f, obs, n=None, lim=None, cap=None):
    """position observers after a call sequence: empty()/remaining()/capacity() of the buffer readers, size()/capacity() of
    the buffer writers, empty()/capacity() of the bounded wrappers"""
    if 'obs' in obs and n is not None and 'pos' in f:
        pos = int(f['pos'])
        want = '%d/%d/%d' % (1 if pos == n else 0, n - pos, n)
        if obs['obs'] != want:
            return 'after consuming %d of %d bytes empty()/remaining()/capacity() = %s, expected %s' % (pos, n, obs['obs'], want)
    if 'obs' in obs and cap is not None and 'bytes' in f:
        sz = obs['obs'].split('/')
        nb = 0 if f['bytes'] == '-' else len(f['bytes']) // 2
        if sz[1] != str(cap) or (int(sz[0]) <= cap and int(sz[0]) != nb):
            return 'size()/capacity() = %s with %d bytes in a buffer of %d' % (obs['obs'], nb, cap)
    if 'bobs' in obs and lim is not None and 'used' in f:
        want = ('%d/%d' % (1 if int(f['used']) == lim else 0, lim)) if '/' in obs['bobs'] else str(lim)
        if obs['bobs'] != want:
            return 'the bounded wrapper reports empty()/capacity() = %s after %s of %d bytes, expected %s' % (obs['bobs'], f['used'], lim, want)
    return None


def run_prim(pool, lines):
    return run_parallel([os.path.join(pool.dir, 'prim')], lines, env=ASAN_ENV, what='prim')


BIG = [2 ** 64 - 1, 2 ** 63, 2 ** 32]


def gen_rcalls(rng, n, length, bounded):
    rem = n
    out = []
    for _ in range(length):
        k = rng.choice('ErRRSSP' if bounded else 'ErRRSS')
        if k == 'E':
            out.append('E%d' % rng.choice([0, 1, rem, rem + 1, max(rem - 1, 0)] + BIG))
        elif k == 'r':
            out.append('r')
        elif k == 'R':
            w = rng.choice([1, 2, 4, 8])
            c = rng.choice([0, 1, 1, 2, max(rem // w, 0), rem // w + 1])
            out.append('R%dx%d' % (w, c))
        elif k == 'S':
            out.append('S%d' % rng.choice([0, 1, 2, rem, rem + 1] + BIG))
        else:
            out.append('P')
    return out


def first_fail(res):
    """per-call outcomes up to and including the first failing call"""
    outs = res.split(',') if res != '-' else []
    cut = []
    for o in outs:
        cut.append(o)
        if not (o == '0' or o.startswith('0:')):
            break
    return cut


def check_C16(ctx):
    proofs_or_violation(ctx, ['Properties_C16.v'])
    pool = get_pool()
    rng = ctx.rng
    lines = []
    data = '0102030405060708090a0b0c'
    N = 12
    limits = [0, 1, 3, 8, 12, 13, 2 ** 64 - 1]
    # exhaustive sequences of length <= 3 over a boundary alphabet (reader), random longer ones
    import itertools
    for lim in limits:
        rem = min(lim, N)
        alpha = ['E0', 'E%d' % (rem + 1), 'E%d' % BIG[0], 'r', 'R1x0', 'R2x1', 'R1x%d' % rem, 'R1x%d' % (rem + 1),
                 'S1', 'S%d' % rem, 'S%d' % (rem + 1), 'S%d' % BIG[0], 'S%d' % BIG[1], 'P']
        for L in (1, 2, 3) if ctx.quick else (1, 2, 3, 4):
            seqs = list(itertools.product(alpha, repeat=L))
            if len(seqs) > 3000:
                seqs = rng.sample(seqs, 3000)
            for s in seqs:
                lines.append(('r', lim, N, 'rseq binst %d - 0 %s %s' % (lim, data, ','.join(s))))
        for _ in range(300 if ctx.quick else 20000):
            fk = rng.choice(['-', '-', '0', '1', '2', '3'])
            calls = gen_rcalls(rng, rem, rng.randint(3, 9), True)
            lines.append(('r', lim, N, 'rseq binst %d %s 16 %s %s' % (lim, fk, data, ','.join(calls))))
            lines.append(('r', lim, N, 'rseq bped %d - 0 %s %s' % (lim, data, ','.join(calls))))
    # writers
    for lim in [0, 1, 4, 9, 2 ** 64 - 1]:
        rem = min(lim, 64)
        walpha = ['P0', 'P%d' % rem, 'P%d' % (rem + 1), 'P%d' % BIG[0], 'w7', 'W1x', 'W2x0102', 'W4x01020304', 'W1x' + 'ab' * min(rem, 20),
                  'W1x' + 'cd' * (min(rem, 20) + 1), 'K0:1', 'K1:255', 'K%d:9' % rem if rem <= 64 else 'K3:9']
        if lim < 2 ** 32:
            # sizes near 2^64 must be refused by the limit; with an unlimited frame they would be genuine writes
            walpha += ['K%d:0' % BIG[0], 'D', 'D170']
        for L in (1, 2, 3) if ctx.quick else (1, 2, 3, 4):
            seqs = list(itertools.product(walpha, repeat=L))
            if len(seqs) > 3000:
                seqs = rng.sample(seqs, 3000)
            for s in seqs:
                lines.append(('w', lim, None, 'wseq binst 0 %d - 0 %s' % (lim, ','.join(s))))
        for _ in range(300 if ctx.quick else 20000):
            fk = rng.choice(['-', '-', '0', '1', '2'])
            s = [rng.choice(walpha) for _ in range(rng.randint(3, 8))]
            lines.append(('w', lim, None, 'wseq binst 0 %d %s 14 %s' % (lim, fk, ','.join(s))))
    ho = run_prim(pool, [l[3] for l in lines])
    mo = run_driver(pool, [l[3] for l in lines])
    broken = []
    for (kind, lim, n, line), o, m in zip(lines, ho, mo):
        ctx.count('bounded-%s' % kind, line)
        if o.startswith(('CRASH', 'HARNESS', 'EXCEPTION', 'OOM')):
            ctx.violate('memory-error', 'bounded %s crashed or tripped a sanitizer: %s -> %s' % ('reader' if kind == 'r' else 'writer', line[:200], o[:300]), {'case': line, 'output': o})
            continue
        o, obs = split_obs(o)
        f = sx.fields(o)
        ov = obs_violation(kind, f, obs, lim=lim)
        if ov:
            ctx.violate('observers', '%s: %s' % (ov, line[:200]), {'case': line, 'output': o, 'observers': obs})
        used = int(f.get('used', '0'))
        # calls are counted only when they succeed: recompute the count from the per-call outcomes
        exp_used = 0
        calls_ = line.split(' ')[-1].split(',')
        outs_ = f['res'].split(',') if f['res'] != '-' else []
        for c_, o_ in zip(calls_, outs_):
            if not (o_ == '0' or o_.startswith('0:')):
                continue
            if c_ in ('r',) or c_[0] == 'w':
                exp_used += 1
            elif c_[0] == 'R':
                w_, n_ = c_[1:].split('x'); exp_used += int(w_) * int(n_)
            elif c_[0] == 'W':
                exp_used += len(c_.split('x', 1)[1]) // 2
            elif c_[0] == 'S':
                exp_used += int(c_[1:])
            elif c_[0] == 'K':
                exp_used += int(c_[1:].split(':')[0])
            elif c_[0] in 'PD' and (kind == 'r' and c_ == 'P' or kind == 'w' and c_[0] == 'D'):
                exp_used = lim
        # a call that asks for more than the limit leaves must be refused (12 / 13) and must not reach the wrapped object
        left_ = lim
        may_reach_ = 0
        for c_, o_ in zip(calls_, outs_):
            ok_ = (o_ == '0' or o_.startswith('0:'))
            need_ = None
            if c_ == 'r' or c_[0] == 'w':
                need_ = 1
            elif c_[0] == 'R':
                w_, n_ = c_[1:].split('x'); need_ = int(w_) * int(n_)
            elif c_[0] == 'W':
                need_ = len(c_.split('x', 1)[1]) // 2
            elif c_[0] == 'S' or (c_[0] == 'E' and kind == 'r'):
                need_ = int(c_[1:])
            elif c_[0] == 'K':
                need_ = int(c_[1:].split(':')[0])
            elif c_[0] == 'P' and kind == 'w':
                need_ = int(c_[1:])
            over_ = need_ is not None and need_ > left_
            if over_ and not ok_ and o_ != ('12' if kind == 'r' else '13'):
                ctx.violate('refusal-status', 'call %s is refused by the limit (%d bytes with %d left) with status %s; a bounded %s refuses with %s: %s' %
                            (c_, need_, left_, o_, 'reader' if kind == 'r' else 'writer', 'ReadLimitReached (12)' if kind == 'r' else 'WriteLimitReached (13)', line[:200]),
                            {'case': line, 'output': o})
                break
            if over_ and ok_:
                ctx.violate('limit-exceeded', 'call %s asks for %d bytes with %d left under the limit %d but was not refused: %s -> %s' % (c_, need_, left_, lim, line[:200], f['res'][:120]),
                            {'case': line, 'output': o})
                break
            if not over_:
                may_reach_ += 1               # forwarded (and possibly failed there)
            if not ok_:
                continue
            if c_[0] in 'EP' and not (kind == 'r' and c_ == 'P'):
                continue                      # Ensure / Prepare consume nothing
            if kind == 'r' and c_ == 'P' or kind == 'w' and c_[0] == 'D':
                left_ = 0
            elif need_ is not None:
                left_ -= need_
        else:
            inner_ = [x for x in f.get('inner', '-').split(',') if x and x != '-']
            if 'inner' in f and len(inner_) < may_reach_:
                ctx.violate('not-forwarded', 'a call that fits under the limit was not passed to the wrapped object: %d calls fit under the limit %d but the wrapped object saw only %s: %s -> %s' %
                            (may_reach_, lim, f.get('inner', '-')[:160], line[:200], f['res'][:120]), {'case': line, 'output': o})
            if len(inner_) > may_reach_:
                ctx.violate('limit-exceeded', 'a call refused by the limit still reached the wrapped object: %d calls fit under the limit %d but the wrapped object saw %s: %s -> %s' %
                            (may_reach_, lim, f.get('inner', '-')[:160], line[:200], f['res'][:120]), {'case': line, 'output': o})
        if used != exp_used:
            ctx.violate('miscounted', 'the bounded %s reports %d bytes used, the successful calls add up to %d: %s -> %s' % ('reader' if kind == 'r' else 'writer', used, exp_used, line[:200], o[:160]),
                        {'case': line, 'output': o, 'expected_used': exp_used})
        if used > lim:
            ctx.violate('limit-exceeded', 'the bounded %s counted %d bytes with a limit of %d: %s' % ('reader' if kind == 'r' else 'writer', used, lim, line[:200]), {'case': line, 'output': o})
        if kind == 'r' and 'pos' in f and int(f['pos']) > lim:
            ctx.violate('limit-exceeded', '%s bytes were consumed from the wrapped reader with a limit of %d: %s' % (f['pos'], lim, line[:200]), {'case': line, 'output': o})
        if kind == 'w' and hexlen(f.get('bytes', '-')) > lim:
            ctx.violate('limit-exceeded', '%d bytes reached the wrapped writer with a limit of %d: %s' % (hexlen(f['bytes']), lim, line[:200]), {'case': line, 'output': o})
        if not m.startswith('DRIVER') and sx.fields(m) != f:
            broken.append({'case': line, 'hraw': o, 'mraw': m})
    report_broken(ctx, broken, 'bounded-calls', 'BoundedReader/BoundedWriter per-call outcomes, counts and wrapped-object call log = model bounded_rops/bounded_wops')
    return finish_with_proofs(ctx)


def refusing_sinks(ctx, pool, rng, wl):
    """StreamWriter over a stream that takes CAP bytes and refuses the rest, plain and under BoundedWriter, and FdWriter over a pipe
    with little room: the call that does not fit must report the failure, as must every later call that carries bytes, and what
    arrived is a prefix of what was sent (C17: same outcome as the checked buffer writers; C10: a sink's failure is not swallowed)"""
    ll = []
    for cap, calls, used in wl:
        sent = ''
        need = []
        for c in calls:
            if c[0] == 'w':
                b = '%02x' % int(c[1:])
            elif c[0] == 'W':
                b = c.split('x', 1)[1]
            elif c[0] == 'K':
                n_, v_ = c[1:].split(':'); b = ('%02x' % int(v_)) * int(n_)
            else:
                b = None
            need.append(b)
        for k in ('lstream', 'blstream'):
            ll.append((k, cap, calls, need, 'wseq %s %d %d - 0 %s' % (k, cap, 2 ** 40, ','.join(calls) or '-')))
    # a descriptor that takes only part of a long block (a pipe with little room): FdWriter must not report success
    for cap in (0, 10, 100, 3000):
        for blk in (4097, 5000, 9000):
            calls = ['w7', 'W1x' + ''.join('%02x' % rng.randrange(256) for _ in range(blk)), 'w9']
            need = ['07', calls[1].split('x', 1)[1], '09']
            ll.append(('lfd', cap, calls, need, 'wseq lfd %d 0 - 0 %s' % (cap, ','.join(calls))))
    lo = run_prim(pool, [x[4] for x in ll])
    for (k, cap, calls, need, line), o in zip(ll, lo):
        if o == 'unsupported':
            continue
        ctx.count('writer:' + k, line)
        if o.startswith(('CRASH', 'HARNESS', 'EXCEPTION', 'OOM')):
            ctx.violate('memory-error:' + k, 'writer %s crashed or tripped a sanitizer: %s -> %s' % (k, line[:200], o[:300]), {'case': line, 'output': o})
            continue
        f = sx.fields(o)
        res = f['res'].split(',') if f['res'] != '-' else []
        got = '' if f['bytes'] == '-' else f['bytes']
        cum, failed, bad = 0, False, None
        sent = ''
        for c, b, r in zip(calls, need, res):
            if b is None or b == '':
                continue                      # Prepare and zero-length calls: not judged
            nb = len(b) // 2
            fits = not failed and cum + nb <= cap
            if fits and r != '0':
                bad = 'call %s fits (%d + %d <= %d) but returned %s' % (c[:20], cum, nb, cap, r)
            elif not fits and r == '0':
                bad = 'call %s does not fit (%d + %d > %d, or the stream had already failed) but reported success' % (c[:20], cum, nb, cap)
            if bad:
                break
            sent += b
            if fits:
                cum += nb
            else:
                failed = True
        if not bad and not (sent.startswith(got) and len(got) // 2 >= min(cum, cap) and len(got) // 2 <= cap):
            bad = 'the stream holds %s, not a prefix (of at least %d bytes) of what was sent %s' % (got[:60], cum, sent[:60])
        if bad:
            ctx.violate('writer-contract:' + k, 'StreamWriter over a stream that takes %d bytes: %s: %s -> %s' % (cap, bad, line[:200], o[:160]), {'case': line, 'output': o})


def check_C17(ctx):
    proofs_or_violation(ctx, ['Properties_C17.v'])
    pool = get_pool()
    rng = ctx.rng
    cases = []
    rkinds = ['inst', 'buf', 'ped', 'vbuf', 'vped', 'stream', 'fd', 'bbuf', 'bped', 'binst']
    for _ in range(600 if ctx.quick else 60000):
        n = rng.choice([0, 1, 2, 7, 8, 9, 16, 31])
        # 0xff / 0x80 / 0x00 / 0x1a matter to stream readers (EOF as a char, sign, NUL, text-mode end of file)
        data = ''.join('%02x' % rng.choice([0xff, 0xff, 0x80, 0x00, 0x1a, 0x0a, 0x0d, rng.randrange(256), rng.randrange(256)]) for _ in range(n)) or '-'
        calls = [c for c in gen_rcalls(rng, n, rng.randint(1, 8), False)]
        cases.append((n, data, calls))
    lines = []
    for n, data, calls in cases:
        for k in rkinds:
            cs = calls
            if k == 'fd':
                cs = [c for c in calls if c[0] not in 'SE']     # FdReader has no Skip; its Ensure is a no-op
            if k == 'stream':
                cs = [c for c in calls if c[0] != 'E']          # StreamReader::Ensure is a no-op
            lines.append((k, n, data, cs, 'rseq %s %d - 0 %s %s' % (k, n + 5, data, ','.join(cs) or '-')))
    ho = run_prim(pool, [l[4] for l in lines])
    # the (const void*, size) constructors behave like the (const uint8_t*, size) ones: same model
    mo = run_driver(pool, [l[4].replace('rseq vbuf', 'rseq buf').replace('rseq vped', 'rseq ped') for l in lines])
    broken = []
    ref = {}
    for (k, n, data, cs, line), o, m in zip(lines, ho, mo):
        ctx.count('reader:' + k, line)
        if o.startswith(('CRASH', 'HARNESS', 'EXCEPTION', 'OOM')):
            ctx.violate('memory-error:' + k, 'reader %s crashed or tripped a sanitizer: %s -> %s' % (k, line[:200], o[:300]), {'case': line, 'output': o})
            continue
        o, obs = split_obs(o)
        f = sx.fields(o)
        ov = obs_violation(k, f, obs, n=n, lim=n + 5)
        if ov:
            ctx.violate('observers:' + k, 'reader %s: %s: %s' % (k, ov, line[:200]), {'case': line, 'output': o, 'observers': obs})
        got = first_fail(f['res'])
        # reference: the list model on the same calls
        want = first_fail(sx.fields(m)['res']) if not m.startswith('DRIVER') else None
        if want is not None:
            # same bytes in the same order, first failure at the same call; the failing status may be
            # ReadLimitReached, StreamError or IOError depending on the reader
            ok = len(got) == len(want) and all((a == b) or (not a.startswith('0') and not b.startswith('0') and a in ('12', '14', '16'))
                                               for a, b in zip(got, want))
            if not ok:
                ctx.violate('reader-contract:' + k, 'reader %s deviates from the byte-source contract: %s -> %s (expected %s)' % (k, line[:200], ','.join(got)[:160], ','.join(want)[:160]),
                            {'case': line, 'output': o, 'model': m})
            elif k in ('inst', 'buf', 'ped', 'vbuf', 'vped', 'bbuf', 'bped', 'binst') and sx.fields(m) != f:
                broken.append({'case': line, 'hraw': o, 'mraw': m})
    # copies of reader objects: a copy continues where the original stands, an assigned-over reader is the one it was assigned from
    rc = []
    for _ in range(60 if ctx.quick else 3000):
        n1, n2 = rng.choice([1, 2, 5, 12]), rng.choice([0, 1, 3, 12])
        d1 = ''.join('%02x' % rng.randrange(256) for _ in range(n1))
        d2 = ''.join('%02x' % rng.randrange(256) for _ in range(n2)) or '-'
        k = rng.randint(0, n1)
        for kind in ('buf', 'ped'):
            rc.append((kind, d1, k, d2, 'rcopy %s %s %d %s' % (kind, d1, k, d2)))
    ro = run_prim(pool, [x[4] for x in rc])
    for (kind, d1, k, d2, line), o in zip(rc, ro):
        ctx.count('reader-copies:' + kind, line)
        if o.startswith(('CRASH', 'HARNESS', 'EXCEPTION', 'OOM')):
            ctx.violate('memory-error:' + kind, 'copying a reader crashed or tripped a sanitizer: %s -> %s' % (line[:200], o[:300]), {'case': line, 'output': o})
            continue
        f = sx.fields(o)
        nz = lambda x: '' if x == '-' else x
        n1, n2 = len(d1) // 2, len(nz(d2)) // 2
        if nz(f['first']) + nz(f['rest']) != d1 or f['obs'] != '0/%d' % n1:
            ctx.violate('reader-copy:' + kind, 'a copy of a %s reader that had consumed %d of %d bytes does not continue there: %s -> %s' % (kind, k, n1, line[:200], o[:200]), {'case': line, 'output': o})
        elif nz(f['again']) != nz(d2) or f['rearmed'] != '%d/%d' % (n2, n2):
            ctx.violate('reader-assign:' + kind, 'a used %s reader assigned a fresh reader over %d bytes does not read those bytes from their start: %s -> %s' % (kind, n2, line[:200], o[:200]), {'case': line, 'output': o})
    # writers
    wkinds = ['inst', 'buf', 'ped', 'vbuf', 'vped', 'cx', 'stream', 'fd', 'bbuf', 'bped', 'binst']
    wl = []
    for _ in range(500 if ctx.quick else 50000):
        cap = rng.choice([0, 1, 4, 16, 64])
        calls, used, fits = [], 0, True
        for _ in range(rng.randint(1, 8)):
            k = rng.choice('PwWWK')
            if k == 'P':
                calls.append('P%d' % rng.choice([0, 1, max(cap - used, 0), max(cap - used, 0) + 1, 2 ** 64 - 1]))
            elif k == 'w':
                calls.append('w%d' % rng.randrange(256)); used += 1
            elif k == 'W':
                w = rng.choice([1, 2, 4, 8]); c = rng.choice([0, 1, 2])
                calls.append('W%dx%s' % (w, ''.join('%02x' % rng.randrange(256) for _ in range(w * c)))); used += w * c
            else:
                c = rng.choice([0, 1, 3]); calls.append('K%d:%d' % (c, rng.randrange(256))); used += c
        wl.append((cap, calls, used))
    wlines = []
    for cap, calls, used in wl:
        for k in wkinds:
            cs = calls
            if k == 'fd':
                cs = [c for c in calls if c[0] != 'K']
            if k in ('buf', 'vbuf', 'bbuf') and used > cap:
                continue        # an unchecked writer must not be driven past its capacity (caller's contract)
            wlines.append((k, cap, cs, used, 'wseq %s %d %d - 0 %s' % (k, cap, cap, ','.join(cs) or '-')))
    ho = run_prim(pool, [l[4] for l in wlines])
    mo = run_driver(pool, [l[4].replace('wseq vbuf', 'wseq buf').replace('wseq vped', 'wseq ped') for l in wlines])
    for (k, cap, cs, used, line), o, m in zip(wlines, ho, mo):
        ctx.count('writer:' + k, line)
        if o.startswith(('CRASH', 'HARNESS', 'EXCEPTION', 'OOM')):
            ctx.violate('memory-error:' + k, 'writer %s crashed or tripped a sanitizer: %s -> %s' % (k, line[:200], o[:300]), {'case': line, 'output': o})
            continue
        o, obs = split_obs(o)
        f = sx.fields(o)
        ov = obs_violation(k, f, obs, cap=(cap if k != 'binst' else None), lim=cap)
        if ov:
            ctx.violate('observers:' + k, 'writer %s: %s: %s' % (k, ov, line[:200]), {'case': line, 'output': o, 'observers': obs})
        if m.startswith('DRIVER'):
            continue
        g = sx.fields(m)
        if f.get('res') != g.get('res') or f.get('bytes') != g.get('bytes'):
            if k in ('stream', 'fd', 'inst'):
                ctx.violate('writer-contract:' + k, 'writer %s does not produce the byte stream of the calls: %s -> %s (expected %s)' % (k, line[:200], o[:160], m[:160]), {'case': line, 'output': o, 'model': m})
            else:
                # checked writers must refuse exactly the over-capacity calls: decided against the model
                ctx.violate('writer-contract:' + k, 'writer %s deviates from the byte-sink contract (refusals / bytes): %s -> %s (expected %s)' % (k, line[:200], o[:160], m[:160]), {'case': line, 'output': o, 'model': m})
    refusing_sinks(ctx, pool, rng, wl)
    # compile time = run time = documented format
    cxerr = os.path.join(pool.dir, 'cx.err')
    if os.path.exists(cxerr):
        ctx.violate('constexpr-build', 'the values of harness/cx.cpp (a structure, a nested structure with an array, a named table, an array of '
                    'structures holding -64, -129, -32769, 2^31, 2^32-class integers) can no longer be serialized by a constant expression '
                    'into Encoding<T>::Size bytes through ConstexprBufferWriter', {'program': 'harness/cx.cpp', 'compiler_output': open(cxerr).read()[-3000:]})
        cx = ''
    else:
        cx = run_parallel([os.path.join(pool.dir, 'cx')], ['cxcases'], env=ASAN_ENV, what='cx')[0]
    f = sx.fields(cx)
    fam = dict((name, (t, val)) for t, (name, val) in nopgen.cx_family())
    descs = [nopgen.desc(t) for t in pool.types]
    for name, (t, val) in fam.items():
        ctx.count('constexpr', name)
        if name not in f:
            continue
        tid = descs.index(nopgen.desc(t))
        ct, rt, rt2 = f[name].split('/')
        mm = sx.fields(run_driver(pool, ['enc T%d %s' % (tid, val)])[0])
        if not (ct == rt == rt2 == mm.get('spec')):
            ctx.violate('constexpr-differs', 'compile-time serialization of %s differs: compile time %s, run time %s / %s, documented format %s' % (name, ct, rt, rt2, mm.get('spec')),
                        {'case': name, 'compile_time': ct, 'run_time': rt, 'instrumented': rt2, 'model': mm})
    report_broken(ctx, broken, 'reader-calls', 'reader per-call outcomes and position = model')
    return finish_with_proofs(ctx)


# ------------------------------------------------------------------ C18 -----
def check_C18(ctx):
    proofs_or_violation(ctx, ['Properties_C18.v'])
    pool = get_pool()
    rng = ctx.rng
    cases = []
    keys = [(0, 0), (nopgen.TABLE_K0, nopgen.TABLE_K1), (0xdeadcafebaadf00d, 0x0123456789abcdef), (2 ** 64 - 1, 2 ** 64 - 1),
            (0x0706050403020100, 0x0f0e0d0c0b0a0908)] + [(rng.getrandbits(64), rng.getrandbits(64)) for _ in range(3 if ctx.quick else 30)]
    for n in list(range(0, 301)):
        reps = 1 if ctx.quick else 4
        for _ in range(reps):
            data = bytes(rng.choice([rng.randrange(256), rng.randrange(128, 256), 0, 0xff]) for _ in range(n))
            for k0, k1 in (keys if n <= 40 or not ctx.quick else keys[:3]):
                cases.append((data, k0, k1))
    lines = ['sip %s %d %d' % (d.hex() or '-', k0, k1) for d, k0, k1 in cases]
    ho = run_prim(pool, lines)
    mo = run_driver(pool, lines)
    for (d, k0, k1), line, o, m in zip(cases, lines, ho, mo):
        ctx.count('runtime', line[:120])
        if o.startswith(('CRASH', 'HARNESS', 'EXCEPTION', 'OOM')):
            ctx.violate('memory-error', 'SipHash crashed: %s -> %s' % (line[:100], o[:200]), {'case': line, 'output': o})
            continue
        f, g = sx.fields(o), sx.fields(m)
        ref = nopgen.siphash24(d, k0, k1)
        if int(f['h']) != ref or f['hchar'] != f['h']:
            ctx.violate('not-siphash', 'SipHash::Compute differs from SipHash-2-4 for a %d-byte input (key %x,%x): got %s (char elements %s), standard %d'
                        % (len(d), k0, k1, f['h'], f['hchar'], ref), {'case': line, 'output': o, 'standard': ref})
        elif g.get('h') != f['h'] or g.get('spec') != f['h']:
            ctx.violate('corr:siphash', 'model SipHash disagrees: %s vs %s' % (m, o), {'no_failing_input': True, 'case': line, 'model': m, 'output': o})
    # long inputs: 1 MiB + 13 bytes against the Python reference (which also validates the harness's own C reference),
    # and in the thorough tier 4 GiB and 4 GiB + 13 bytes against that C reference (lengths that do not fit 32 bits)
    big = [(20, 13)] + ([] if ctx.quick else [(32, 0), (32, 13)])
    bo = run_parallel([os.path.join(pool.dir, 'prim')], ['sipbig %d %d %d %d' % (lg, ex, nopgen.TABLE_K0, nopgen.TABLE_K1) for lg, ex in big], env=ASAN_ENV, what='prim', chunk_timeout=3000)
    for (lg, ex), o in zip(big, bo):
        line = 'sipbig %d %d' % (lg, ex)
        ctx.count('long-input', line)
        f = sx.fields(o) if o.startswith('h=') else {}
        if not f:
            if o != 'unsupported':
                ctx.violate('harness-crash', 'sipbig failed: %s -> %s' % (line, o[:300]), {'case': line, 'output': o})
            continue
        if lg == 20:
            data = bytes((1 << 20)) + bytes(range(1, ex + 1))
            py = nopgen.siphash24(data, nopgen.TABLE_K0, nopgen.TABLE_K1)
            if f['ref'] != str(py):
                ctx.violate('harness-error', 'the harness reference SipHash disagrees with the Python reference on %d bytes' % len(data), {'case': line, 'output': o, 'python': py})
                continue
        if f['h'] != f['ref']:
            ctx.violate('siphash-long', 'SipHash::Compute over %s bytes (zeros, then 1..%d) gives %s; SipHash-2-4 gives %s' % (f['n'], ex, f['h'], f['ref']), {'case': line, 'output': o})
    # the array overload at run time (the one the macros evaluate at compile time): arrays of 1..40 elements, zero bytes inside
    al = []
    for n in range(1, 41):
        for _ in range(2 if ctx.quick else 20):
            bs = bytes(ctx.rng.choice([0, 0, ctx.rng.randrange(256), ctx.rng.randrange(128, 256)]) for _ in range(n))
            k0, k1 = ctx.rng.choice(keys)
            al.append((bs, k0, k1))
    ao = run_prim(pool, ['siparr %s %d %d' % (b.hex(), k0, k1) for b, k0, k1 in al])
    for (b, k0, k1), o in zip(al, ao):
        line = 'siparr %s %d %d' % (b.hex(), k0, k1)
        ctx.count('array-overload', line)
        f = sx.fields(o) if not o.startswith(('CRASH', 'HARNESS', 'OOM', 'EXCEPTION', 'unsupported')) else {}
        want = nopgen.siphash24(b, k0, k1)
        wsel = nopgen.siphash24(b, k0, 0x0123456789abcdef)
        if f.get('harr') != str(want) or f.get('harru') != str(want) or f.get('sel64') != str(wsel) or f.get('sel32') != str(wsel & 0xffffffff):
            ctx.violate('siphash-array', 'SipHash::Compute(array) / ComputeMethodSelector over the %d elements %s gives %s; SipHash-2-4 of all the elements is %d (selector %d)' %
                        (len(b), b.hex(), o[:160], want, wsel), {'case': line, 'output': o, 'standard': want, 'selector': wsel})
    # compile-time values of generated names: table hash, interface hash, 64- and 32-bit selectors
    names = run_prim(pool, ['sipnames'])[0]
    if not names.startswith('names='):
        ctx.violate('harness-crash', 'sipnames failed: ' + names[:200], {'output': names})
    else:
        ents = names[6:].split(',')
        mo = run_driver(pool, ['sipname %s' % e.split(':')[0] for e in ents])
        for e, m in zip(ents, mo):
            ctx.count('compile-time', e)
            hx, tab, iface, s64, s32 = e.split(':')
            nm = (bytes.fromhex(hx) if hx != '-' else b'') + b'\0'
            want = [nopgen.siphash24(nm, nopgen.TABLE_K0, nopgen.TABLE_K1), nopgen.siphash24(nm, 0xdeadcafebaadf00d, 0x0123456789abcdef),
                    nopgen.siphash24(nm, 0x1234567890abcdef, 0x0123456789abcdef)]
            want.append(want[2] & 0xffffffff)
            got = [int(tab), int(iface), int(s64), int(s32)]
            if got != want:
                ctx.violate('compile-time-hash', 'compile-time hash/selector of name %s is %s, SipHash-2-4 of the name gives %s' % (hx, got, want), {'name_hex': hx, 'got': got, 'want': want})
            elif m != e:
                ctx.violate('corr:sipname', 'model hash of name %s disagrees: %s vs %s' % (hx, m, e), {'no_failing_input': True, 'model': m, 'impl': e})
    # tables declared with NOP_TABLE_NS: the hash that actually travels on the wire
    named = [(i, t) for i, t in enumerate(pool.types) if t[0] == 'tab' and len(t) > 3 and t[3]]
    nl = ['enc T%d (tab%s)' % (i, ' none' * len(t[2])) for i, t in named]
    no = run_harness(pool, nl)
    for (i, t), line, o in zip(named, nl, no):
        ctx.count('wire-table-hash', line)
        f = sx.fields(o) if not o.startswith(('CRASH', 'HARNESS', 'OOM', 'EXCEPTION')) else {}
        want = nopgen.siphash24(t[3].encode() + b'\0', nopgen.TABLE_K0, nopgen.TABLE_K1)
        bs = list(bytes.fromhex(f.get('bytes', 'b500')))
        got = read_uint(bs, 1)[0] if bs and bs[0] == 0xb5 else None
        if f.get('st') != '0' or got != want:
            ctx.violate('wire-table-hash', 'the table named %r carries hash %s on the wire; SipHash-2-4 of the name under the table keys is %d: %s -> %s' %
                        (t[3], got, want, line, o[:120]), {'case': line, 'output': o, 'expected_hash': want})
    # interfaces declared with NOP_INTERFACE / NOP_INTERFACE32 and methods with NOP_METHOD: what the macros computed
    import rpcgen
    ifaces, _sets = rpcgen.interfaces(pool.types)
    hl = ['rpc %d 0 -1 | H' % k for k in range(len(ifaces))]
    ho_ = run_parallel([os.path.join(pool.dir, 'rpc')], hl, env=ASAN_ENV, what='rpc')
    for k, (f, line, o) in enumerate(zip(ifaces, hl, ho_)):
        ctx.count('interface-macros', line)
        g = sx.fields(o) if o.startswith('ihash=') else {}
        ih = nopgen.siphash24(f['name'].encode() + b'\0', 0xdeadcafebaadf00d, 0x0123456789abcdef)
        want = []
        for nm, sel, rt, ats, alt in f['methods']:
            v = sel if sel is not None else nopgen.siphash24(nm.encode() + b'\0', ih, 0x0123456789abcdef)
            want.append(str(v & 0xffffffff if (f['sel32'] and sel is None) else v))
        if g.get('ihash') != str(ih) or g.get('sels') != ','.join(want):
            ctx.violate('compile-time-hash', 'interface %r: NOP_INTERFACE / NOP_METHOD computed hash %s and selectors %s; SipHash-2-4 of the names under the interface keys gives %d and %s' %
                        (f['name'], g.get('ihash'), g.get('sels'), ih, ','.join(want)), {'case': line, 'output': o})
    return finish_with_proofs(ctx)


# ------------------------------------------------------------------ C20 -----
def check_C20(ctx):
    proofs_or_violation(ctx, ['Properties_C20.v'], bridge=False)
    pool = get_pool()
    rng = ctx.rng
    W = {'u8': 1, 'i8': 1, 'u16': 2, 'i16': 2, 'u32': 4, 'i32': 4, 'f32': 4, 'u64': 8, 'i64': 8, 'f64': 8}
    lines = []
    for k, w in W.items():
        vals = set()
        b = 8 * w
        vals |= {0, 1, (1 << b) - 1, 1 << (b - 1), (1 << (b - 1)) - 1, 0x0102030405060708 & ((1 << b) - 1), 0xff, 0xff00 & ((1 << b) - 1)}
        if k == 'f32':
            vals |= {0x3f800000, 0x7fc00001, 0xffc12345, 0x7f800000, 0x80000000, 0x00000001}
        if k == 'f64':
            vals |= {0x3ff0000000000000, 0x7ff8000000000001, 0xfff8123456789abc, 0x7ff0000000000000, 1}
        for i in range(w):
            vals.add(0xa5 << (8 * i))
        for _ in range(40 if ctx.quick else 4000):
            vals.add(rng.getrandbits(b))
        if w == 1:
            vals |= set(range(256))
        for v in sorted(vals):
            lines.append((k, w, v, 'endian %s %d' % (k, v)))
    ho = run_prim(pool, [l[3] for l in lines])
    mo = run_driver(pool, [l[3] for l in lines])
    for (k, w, v, line), o, m in zip(lines, ho, mo):
        ctx.count('values:' + k, line)
        if o.startswith(('CRASH', 'HARNESS', 'EXCEPTION', 'OOM')):
            ctx.violate('memory-error', 'HostEndian crashed or tripped a sanitizer: %s -> %s' % (line, o[:300]), {'case': line, 'output': o})
            continue
        f = sx.fields(o)
        rev = int.from_bytes(v.to_bytes(w, 'little'), 'big')
        want = {'fl': v, 'tl': v, 'fb': rev, 'tb': rev, 'rtb': v, 'rtl': v}
        got = {x: int(f[x]) for x in want}
        if got != want:
            ctx.violate('wrong-byte-order', 'HostEndian<%s> on bit pattern %#x: got %s, a little-endian host requires %s' % (k, v, got, want), {'case': line, 'output': o, 'expected': want})
        elif not m.startswith('DRIVER') and sx.fields(m) != f:
            ctx.violate('corr:endian', 'model disagrees: %s vs %s' % (m, o), {'no_failing_input': True, 'case': line, 'model': m, 'output': o})
    # exhaustive sweeps in C++ against an independent byte reversal: 8/16 bit always, 32 bit in the thorough tier
    sweeps = [('u8', 0, 256), ('i8', 0, 256), ('u16', 0, 65536), ('i16', 0, 65536)]
    if ctx.quick:
        for k in ('u32', 'i32', 'f32'):
            for _ in range(4):
                lo = rng.randrange(0, (1 << 32) - (1 << 20))
                sweeps.append((k, lo, lo + (1 << 20)))
            sweeps.append((k, (1 << 32) - (1 << 20), 1 << 32))
            sweeps.append((k, 0x7f800000, 0x7f800000 + (1 << 20)))
    else:
        for k in ('u32', 'i32', 'f32'):
            for c in range(64):
                sweeps.append((k, c << 26, (c + 1) << 26))
    so = run_prim(pool, ['endiansweep %s %d %d' % s for s in sweeps])
    exhaustive = 0
    for s, o in zip(sweeps, so):
        ctx.count('sweep:' + s[0], 'endiansweep %s %d %d' % s)
        f = sx.fields(o) if o.startswith('n=') else {}
        if f.get('bad') != '0':
            ctx.violate('wrong-byte-order', 'exhaustive sweep of HostEndian<%s> over [%d,%d): %s' % (s[0], s[1], s[2], o[:200]), {'sweep': s, 'output': o})
        else:
            exhaustive += int(f['n'])
    return finish_with_proofs(ctx, {'values_swept_in_cxx': exhaustive})


from props_objs import check_C12, check_C13, check_C14, check_C15, check_C19
CHECKS = {'C19': check_C19, 'C12': check_C12, 'C14': check_C14, 'C13': check_C13, 'C15': check_C15, 'C01': check_C01, 'C02': check_C02, 'C07': check_C07, 'C09': check_C09, 'C16': check_C16, 'C17': check_C17, 'C18': check_C18, 'C20': check_C20, 'C08': check_C08, 'C10': check_C10, 'C11': check_C11, 'C03': check_C03, 'C04': check_C04, 'C05': check_C05, 'C06': check_C06}


def run(pid, tier, seed, replay=None):
    if pid not in CHECKS:
        print('property %s is not claimed (see MANIFEST.json not_applicable)' % pid)
        return 2
    build_driver()
    ctx = Ctx(pid, tier, seed)
    try:
        return CHECKS[pid](ctx)
    except Exception as e:
        # the check's own analysis tripped over what the implementation produced (an output shape it never has on the
        # unchanged tree): the property is not shown to hold on this tree
        import traceback
        ctx.violate('checker-error', 'the analysis of the implementation\'s output failed (%s: %s); on the unchanged tree it does not' % (type(e).__name__, str(e)[:120]),
                    {'no_failing_input': True, 'correspondence': 'analysis of harness output', 'traceback': traceback.format_exc()[-2500:]})
        if not hasattr(ctx, 'proof'):
            ctx.proof = {'obligations': 0, 'discharged': 0, 'detail': [], 'ok': True}
        return finish_with_proofs(ctx)
    except HarnessBuildError as e:
        # the implementation side of the correspondence cannot be built against the current tree: nothing ties the model to
        # the code any more, so the property is not shown to hold (and no input can be exhibited)
        ctx.violations[:] = [v for v in ctx.violations if not v[2].get('no_failing_input')]
        ctx.violate('harness-build', 'the correspondence harness (code generated from the type pool, using the library through its public '
                    'interface) no longer compiles against /repo; the tie between model and code cannot be established',
                    {'no_failing_input': True, 'correspondence': 'C++ harness build (tools/build_harness.py)', 'compiler_output': e.log[-4000:]})
        return finish(ctx)
