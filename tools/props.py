"""props.py — one function per property; dispatch."""
import json, os, sys
from framework import *
from props_codec import *


def proofs_or_violation(ctx, files):
    """builds the property's theorem files; a failed obligation is recorded and
    reported after the search for a failing input (done by the caller's streams)"""
    ob, di, detail, ok, lg = check_proofs(ctx, files)
    ctx.proof = {'obligations': ob, 'discharged': di, 'detail': detail, 'ok': ok}
    if not ok:
        ctx.proof['failure'] = getattr(ctx, 'proof_failure', None)
    return ok


def finish_with_proofs(ctx, extra=None):
    p = ctx.proof
    if not p['ok'] and not any(not v[2].get('no_failing_input') for v in ctx.violations):
        ctx.violate('proof', 'proof obligations of %s no longer check: %s' % (ctx.pid, json.dumps(p.get('failure'))[:300]),
                    {'no_failing_input': True, 'theorem_files': [d['file'] for d in p['detail'] if d['status'] != 'proved'],
                     'errors': p.get('failure')})
    ex = {'proof_detail': p['detail']}
    if extra:
        ex.update(extra)
    return finish(ctx, 'proof', p['obligations'], p['discharged'],
                  'make -C /verif/coq ' + ' '.join(d['file'][:-2] + '.vo' for d in p['detail']), ex)


# ------------------------------------------------------------------ C03 -----
def check_C03(ctx):
    proofs_or_violation(ctx, ['Properties_C03.v'])
    S = CodecStreams(ctx)

    def oracle(r):
        h, m = r['h'], r['m']
        if m.get('typed') != 'true':
            return None
        if h['st'] != '0':
            return ('enc-fails', 'Write of an encodable value failed with status %s: %s' % (h['st'], r['case'][:200]))
        if h['bytes'] != m['spec']:
            return ('bytes-differ-from-format', 'bytes written differ from docs/format.md encoding: %s wrote %s, format says %s'
                    % (r['case'][:160], h['bytes'][:120], m['spec'][:120]))
        return None
    broken = corr_enc(ctx, S, oracle)
    # determinism: write a sample twice
    rows = [r for r in S.run_enc() if r['h'] is not None][:400]
    again = run_harness(S.pool, [r['case'] for r in rows])
    for r, o in zip(rows, again):
        ctx.count('enc-twice', r['case'])
        f = sx.fields(o)
        if f.get('bytes') != r['h'].get('bytes'):
            ctx.violate('nondeterministic', 'writing the same object twice gave different bytes: ' + r['case'][:200],
                        {'case': r['case'], 'first': r['hraw'], 'second': o})
    report_broken(ctx, broken, 'enc', 'Serializer::Write/GetSize = model enc/tsize')
    return finish_with_proofs(ctx)


# ------------------------------------------------------------------ C06 -----
def check_C06(ctx):
    proofs_or_violation(ctx, ['Properties_C06.v'])
    S = CodecStreams(ctx)
    pool = S.pool

    def oracle(r):
        h, m = r['h'], r['m']
        if m.get('typed') != 'true' or h['st'] != '0':
            return None
        n = hexlen(h['bytes'])
        if int(h['size']) < n:
            return ('size-underestimates', 'GetSize=%s but Write emitted %d bytes: %s' % (h['size'], n, r['case'][:200]))
        if m.get('nohandles') == 'true' and int(h['size']) != n:
            return ('size-inexact', 'GetSize=%s differs from the %d bytes written for a handle-free type: %s' % (h['size'], n, r['case'][:200]))
        return None
    broken = corr_enc(ctx, S, oracle)
    report_broken(ctx, [b for b in broken if not same(b['h'], b['m'], ('size',))], 'size', 'GetSize = model tsize')
    # capacity sweep over the library's buffer writers
    rows = [r for r in S.run_enc() if r['h'] and r['h']['st'] == '0' and 'handle' not in pool.caps[r['tid']]]
    ctx.rng.shuffle(rows)
    rows = rows[: (150 if ctx.quick else 1500)]
    cases = []
    for r in rows:
        size = int(r['h']['size'])
        caps = list(range(0, size + 2)) if size <= (40 if ctx.quick else 200) else sorted({0, 1, size // 2, size - 1, size, size + 1, size + 7})
        for kind in ('buf', 'ped', 'cx'):
            for cap in caps:
                cases.append((r, kind, cap, 0, 'encw T%d %s %d 0 %s' % (r['tid'], kind, cap, r['input'])))
        for kind in ('bbuf', 'bped'):
            for lim in caps:
                cases.append((r, kind, size + 8, lim, 'encw T%d %s %d %d %s' % (r['tid'], kind, size + 8, lim, r['input'])))
    outs = run_harness(pool, [c[4] for c in cases])
    mouts = run_driver(pool, ['encw T%d %d %d %s' % (c[0]['tid'], 0 if c[1] in ('buf', 'bbuf') else 1, min(c[2], c[3]) if c[1].startswith('b') and c[1] != 'buf' else c[2], c[0]['h']['dump'])
                              for c in cases])
    cbroken = []
    for (r, kind, cap, lim, line), o, mo in zip(cases, outs, mouts):
        if o == 'unsupported':
            continue
        ctx.count('capacity:' + kind, line)
        if o.startswith(('CRASH', 'HARNESS')):
            ctx.violate('crash:encw:' + kind, 'writer %s crashed or stored out of bounds: %s -> %s' % (kind, line[:160], o[:200]),
                        {'case': line, 'output': o})
            continue
        f = sx.fields(o)
        size = int(r['h']['size'])
        room = lim if kind in ('bbuf', 'bped') else cap
        if room >= size:
            if f['st'] != '0' or f['bytes'] != r['h']['bytes']:
                ctx.violate('fit-fails:' + kind, 'capacity %d >= GetSize %d but %s returned st=%s / wrong bytes: %s' % (room, size, kind, f['st'], line[:160]),
                            {'case': line, 'output': o, 'expected_bytes': r['h']['bytes']})
        else:
            if f['st'] != '13' or f['n'] != '0':
                ctx.violate('small-buffer:' + kind, 'capacity %d < GetSize %d but %s returned st=%s after writing %s bytes: %s' % (room, size, kind, f['st'], f['n'], line[:160]),
                            {'case': line, 'output': o})
        if kind in ('buf', 'ped', 'cx') and not mo.startswith('DRIVER'):
            mf = sx.fields(mo)
            if mf.get('st') != f['st'] or (f['st'] == '0' and mf.get('bytes') != f['bytes']):
                cbroken.append({'case': line, 'hraw': o, 'mraw': mo})
    report_broken(ctx, cbroken, 'capacity', 'buffer writers = model bufw_ops')
    return finish_with_proofs(ctx)


# ------------------------------------------------------------------ C01 -----
def is_k1(pool, tid):
    """Optional<X>/Result<E,X> whose X can start with NIL/ERR: finding K1"""
    def amb(t):
        for x in nopgen.walk(t):
            if x[0] == 'opt' and x[1][0] == 'opt':
                return True
            if x[0] == 'res' and x[3][0] == 'res':
                return True
        return False
    return amb(pool.types[tid])


def dec_items_from_enc(S, suffix=''):
    items = []
    for r in S.run_enc():
        if r['h'] and r['h']['st'] == '0':
            hx = r['h']['bytes']
            if suffix:
                hx = (hx if hx != '-' else '') + suffix
            items.append((r['tid'], hx, '-', r, None))
    return items


def check_C01(ctx):
    proofs_or_violation(ctx, ['Properties_C01.v'])
    S = CodecStreams(ctx)
    pool = S.pool
    broken = corr_enc(ctx, S, lambda r: None)
    # decode what was written, with and without a continuation
    dbroken = []
    for suffix in ('', 'ff01'):
        rows = S.run_dec(dec_items_from_enc(S, suffix))
        for d in rows:
            e = d['tag']
            ctx.count('roundtrip' + ('+cont' if suffix else ''), d['case'], nontrivial=d['h'] is not None)
            if d['h'] is None:
                ctx.violate('harness-crash:dec', 'reader crashed: %s -> %s' % (d['case'][:160], d['hraw'][:300]), {'case': d['case'], 'output': d['hraw']})
                continue
            want = hexlen(e['h']['bytes'])
            ok = d['h'].get('st') == '0' and val_eq(d['h'].get('val'), e['h']['dump']) and d['h'].get('consumed') == str(want)
            if not ok:
                sig = 'k1:nested-optional' if is_k1(pool, d['tid']) else 'roundtrip'
                ctx.violate(sig, 'Read(Write(v)) != v or wrong byte count: wrote %s as %s, read back %s' % (e['h']['dump'][:120], e['h']['bytes'][:80], d['hraw'][:160]),
                            {'type': type_desc(pool, d['tid']), 'value': e['h']['dump'], 'bytes': e['h']['bytes'], 'read': d['hraw'], 'case': d['case']})
            elif not same(d['h'], d['m'], ('st', 'val', 'consumed')) and not (d['m'] and val_eq(d['h'].get('val'), d['m'].get('val')) and same(d['h'], d['m'], ('st', 'consumed'))):
                dbroken.append(d)
    # sequences of 2..4 values back to back on one stream
    enc_ok = [r for r in S.run_enc() if r['h'] and r['h']['st'] == '0' and not is_k1(pool, r['tid'])]
    seqs = []
    for _ in range(300 if ctx.quick else 5000):
        k = ctx.rng.randint(2, 4)
        seqs.append([ctx.rng.choice(enc_ok) for _ in range(k)])
    lines = ['seq ' + ' '.join('(T%d %s)' % (r['tid'], r['input']) for r in s) for s in seqs]
    outs = run_harness(pool, lines)
    for s, line, o in zip(seqs, lines, outs):
        ctx.count('sequence', line)
        if o.startswith(('CRASH', 'HARNESS')):
            ctx.violate('harness-crash:seq', 'sequence crashed: ' + o[:300], {'case': line, 'output': o})
            continue
        parts = o.split(' | ')
        reads = [sx.fields(x) for x in parts[1][3:].strip().strip('[]').split('] [')]
        total = int(parts[2].split('=')[1])
        pos, good = 0, len(reads) == len(s)
        for r, f in zip(s, reads):
            pos += hexlen(r['h']['bytes'])
            good = good and f.get('st') == '0' and val_eq(f.get('val'), r['h']['dump']) and f.get('end') == str(pos)
        if not good or pos != total:
            ctx.violate('sequence', 'values written back to back did not read back in frame: ' + line[:200], {'case': line, 'output': o})
    # every writer x reader pairing the type supports
    sample = [r for r in enc_ok if 'handle' not in pool.caps[r['tid']]]
    ctx.rng.shuffle(sample)
    sample = sample[: (120 if ctx.quick else 2500)]
    wkinds = ['buf', 'ped', 'cx', 'stream', 'fd', 'bbuf', 'bped']
    rkinds = ['buf', 'ped', 'stream', 'fd', 'bbuf', 'bped', 'bstream', 'bfd']
    wl = []
    for r in sample:
        size = int(r['h']['size'])
        for k in wkinds:
            wl.append((r, k, 'encw T%d %s %d %d %s' % (r['tid'], k, size + 3, size, r['input'])))
    wo = run_harness(pool, [x[2] for x in wl])
    rl = []
    for (r, k, line), o in zip(wl, wo):
        if o == 'unsupported':
            continue
        ctx.count('pairing-write:' + k, line)
        f = sx.fields(o) if not o.startswith(('CRASH', 'HARNESS')) else {}
        if f.get('st') != '0' or f.get('bytes') != r['h']['bytes']:
            ctx.violate('writer:' + k, 'writer %s produced st=%s bytes=%s, expected %s: %s' % (k, f.get('st'), str(f.get('bytes'))[:80], r['h']['bytes'][:80], line[:160]),
                        {'case': line, 'output': o, 'expected': r['h']['bytes']})
            continue
        if k == 'buf':   # the bytes are the same for every writer: read them with every reader
            n = hexlen(f['bytes'])
            cont = (f['bytes'] if f['bytes'] != '-' else '') + '7f'
            for rk in rkinds:
                rl.append((r, rk, n, 'decr T%d %s %d %s' % (r['tid'], rk, n, cont)))
    ro = run_harness(pool, [x[3] for x in rl])
    for (r, rk, n, line), o in zip(rl, ro):
        if o == 'unsupported':
            continue
        ctx.count('pairing-read:' + rk, line)
        f = sx.fields(o) if not o.startswith(('CRASH', 'HARNESS')) else {}
        if f.get('st') != '0' or not val_eq(f.get('val'), r['h']['dump']) or f.get('consumed') != str(n):
            ctx.violate('reader:' + rk, 'reader %s did not return the written value / byte count: %s -> %s' % (rk, line[:160], o[:200]),
                        {'case': line, 'output': o, 'expected_value': r['h']['dump'], 'expected_consumed': n})
    report_broken(ctx, broken, 'enc', 'Serializer::Write/GetSize = model enc/tsize')
    report_broken(ctx, dbroken, 'dec', 'Deserializer::Read = model dec')
    return finish_with_proofs(ctx)


CHECKS = {'C01': check_C01, 'C03': check_C03, 'C06': check_C06}


def run(pid, tier, seed, replay=None):
    if pid not in CHECKS:
        print('property %s is not claimed (see MANIFEST.json not_applicable)' % pid)
        return 2
    build_driver()
    ctx = Ctx(pid, tier, seed)
    return CHECKS[pid](ctx)
