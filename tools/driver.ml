(* driver.ml — runs the extracted Coq model on the case files of the
   correspondence check.  One case per input line, one result per output line.
   Part of the trusted base (parsing, printing, number conversion only). *)
module M = Nopmodel

(* ---------- numbers ---------- *)
let rec pos_of_int (i : int) : M.positive =
  if i = 1 then M.XH
  else if i land 1 = 0 then M.XO (pos_of_int (i lsr 1))
  else M.XI (pos_of_int (i lsr 1))
let n_of_int (i : int) : M.n = if i = 0 then M.N0 else M.Npos (pos_of_int i)
let z_of_int (i : int) : M.z =
  if i = 0 then M.Z0 else if i > 0 then M.Zpos (pos_of_int i) else M.Zneg (pos_of_int (-i))
let rec int_of_pos = function
  | M.XH -> 1 | M.XO p -> 2 * int_of_pos p | M.XI p -> 2 * int_of_pos p + 1
let int_of_n = function M.N0 -> 0 | M.Npos p -> int_of_pos p
let rec nat_of_int i = if i = 0 then M.O else M.S (nat_of_int (i - 1))
let rec int_of_nat = function M.O -> 0 | M.S n -> 1 + int_of_nat n

let n10 = n_of_int 10
(* decimal string -> N (arbitrary size) *)
let n_of_string (s : string) : M.n =
  let r = ref M.N0 in
  String.iter (fun c ->
      if c < '0' || c > '9' then failwith ("bad number " ^ s);
      r := M.N.add (M.N.mul !r n10) (n_of_int (Char.code c - 48))) s;
  !r
let z_of_string (s : string) : M.z =
  if String.length s > 0 && s.[0] = '-' then
    M.Z.opp (M.Z.of_N (n_of_string (String.sub s 1 (String.length s - 1))))
  else M.Z.of_N (n_of_string s)
let string_of_n (n : M.n) : string =
  if n = M.N0 then "0" else begin
    let b = Buffer.create 20 in
    let r = ref n in
    let digs = ref [] in
    while !r <> M.N0 do
      digs := int_of_n (M.N.modulo !r n10) :: !digs;
      r := M.N.div !r n10
    done;
    List.iter (fun d -> Buffer.add_char b (Char.chr (48 + d))) !digs;
    Buffer.contents b
  end
let string_of_z (z : M.z) : string =
  match z with
  | M.Z0 -> "0"
  | M.Zpos p -> string_of_n (M.Npos p)
  | M.Zneg p -> "-" ^ string_of_n (M.Npos p)

(* ---------- s-expressions ---------- *)
type sx = A of string | L of sx list

let parse_sx (s : string) : sx list =
  let n = String.length s in
  let pos = ref 0 in
  let rec skip () = if !pos < n && (s.[!pos] = ' ' || s.[!pos] = '\t') then (incr pos; skip ()) in
  let rec item () : sx =
    skip ();
    if !pos >= n then failwith "eof"
    else if s.[!pos] = '(' then begin
      incr pos;
      let acc = ref [] in
      let rec loop () =
        skip ();
        if !pos >= n then failwith "unclosed"
        else if s.[!pos] = ')' then incr pos
        else (acc := item () :: !acc; loop ()) in
      loop (); L (List.rev !acc)
    end else begin
      let st = !pos in
      while !pos < n && s.[!pos] <> ' ' && s.[!pos] <> '(' && s.[!pos] <> ')' && s.[!pos] <> '\t' do incr pos done;
      A (String.sub s st (!pos - st))
    end in
  let acc = ref [] in
  let rec top () = skip (); if !pos < n then (acc := item () :: !acc; top ()) in
  top (); List.rev !acc

let atom = function A s -> s | L _ -> failwith "atom expected"

(* ---------- descriptors ---------- *)
let ikind_of = function
  | "u8" -> M.U8 | "u16" -> M.U16 | "u32" -> M.U32 | "u64" -> M.U64
  | "i8" -> M.I8 | "i16" -> M.I16 | "i32" -> M.I32 | "i64" -> M.I64
  | s -> failwith ("ikind " ^ s)
let scalar_of = function
  | "bool" -> M.SBool | "f32" -> M.SF32 | "f64" -> M.SF64
  | s -> M.SInt (ikind_of s)
let bool_of s = (s = "1")

let rec ty_of (x : sx) : M.ty =
  match x with
  | L [A "s"; A c; A k] -> M.TScalar (n_of_string c, scalar_of k)
  | L [A "str"; A cw] -> M.TStr (n_of_string cw)
  | L [A "seq"; c; t] -> M.TSeq (seqc_of c, ty_of t)
  | L (A "tup" :: A k :: ts) ->
      let k = (match k with "pair" -> M.KPair | "tuple" -> M.KTuple | "struct" -> M.KStruct
                          | _ -> failwith "tupk") in
      M.TTuple (k, List.map ty_of ts)
  | L [A "wrap"; A id; t] -> M.TWrap (n_of_string id, ty_of t)
  | L [A "map"; A u; k; v] -> M.TMap (bool_of u, ty_of k, ty_of v)
  | L [A "opt"; t] -> M.TOpt (ty_of t)
  | L [A "res"; A eid; A ek; t] -> M.TRes (n_of_string eid, ikind_of ek, ty_of t)
  | L (A "var" :: ts) -> M.TVar (List.map ty_of ts)
  | L [A "hnd"; A pid; A tk; A tag] -> M.THnd (n_of_string pid, ikind_of tk, z_of_string tag)
  | L (A "tab" :: A hash :: es) ->
      M.TTab (n_of_string hash,
              List.map (function
                  | L [A id; A act; t] -> ((n_of_string id, bool_of act), ty_of t)
                  | _ -> failwith "entry") es)
  | _ -> failwith "ty"
and seqc_of = function
  | A "vec" -> M.CVec
  | L [A "arr"; A ca; A n] -> M.CArr (bool_of ca, n_of_string n)
  | L [A "lbuf"; A ca; A cap; A sk; A unb] ->
      M.CLBuf (bool_of ca, n_of_string cap, ikind_of sk, bool_of unb)
  | _ -> failwith "seqc"

(* ---------- values ---------- *)
let rec val_of (x : sx) : M.val0 =
  match x with
  | A "none" -> M.VNone
  | A "empty" -> M.VEmpty
  | A s -> M.VInt (z_of_string s)
  | L (A "seq" :: vs) -> M.VSeq (List.map val_of vs)
  | L (A "map" :: kvs) ->
      M.VMap (List.map (function L [k; v] -> (val_of k, val_of v) | _ -> failwith "kv") kvs)
  | L [A "some"; v] -> M.VSome (val_of v)
  | L [A "err"; A e] -> M.VErr (z_of_string e)
  | L [A "ok"; v] -> M.VOk (val_of v)
  | L [A "alt"; A i; v] -> M.VAlt (z_of_string i, val_of v)
  | L [A "hnd"; A h] -> M.VHnd (z_of_string h)
  | L (A "tab" :: vs) -> M.VTab (List.map val_of vs)
  | _ -> failwith "val"

let rec pr_val (b : Buffer.t) (v : M.val0) : unit =
  let seq tag vs =
    Buffer.add_string b ("(" ^ tag);
    List.iter (fun v -> Buffer.add_char b ' '; pr_val b v) vs;
    Buffer.add_char b ')' in
  match v with
  | M.VInt z -> Buffer.add_string b (string_of_z z)
  | M.VSeq vs -> seq "seq" vs
  | M.VMap kvs ->
      (* canonical form: entries sorted by their printed text *)
      let items = List.map (fun (k, v) ->
          let bb = Buffer.create 32 in
          Buffer.add_char bb '('; pr_val bb k; Buffer.add_char bb ' '; pr_val bb v;
          Buffer.add_char bb ')'; Buffer.contents bb) kvs in
      let items = List.sort compare items in
      Buffer.add_string b "(map";
      List.iter (fun s -> Buffer.add_char b ' '; Buffer.add_string b s) items;
      Buffer.add_char b ')'
  | M.VNone -> Buffer.add_string b "none"
  | M.VSome v -> seq "some" [v]
  | M.VErr e -> Buffer.add_string b ("(err " ^ string_of_z e ^ ")")
  | M.VOk v -> seq "ok" [v]
  | M.VAlt (i, v) -> Buffer.add_string b ("(alt " ^ string_of_z i ^ " "); pr_val b v; Buffer.add_char b ')'
  | M.VEmpty -> Buffer.add_string b "empty"
  | M.VHnd h -> Buffer.add_string b ("(hnd " ^ string_of_z h ^ ")")
  | M.VTab vs -> seq "tab" vs
let string_of_val v = let b = Buffer.create 64 in pr_val b v; Buffer.contents b

(* ---------- bytes ---------- *)
let hexd = "0123456789abcdef"
let hex_of_bytes (bs : M.n list) : string =
  let b = Buffer.create 64 in
  List.iter (fun x -> let i = int_of_n x in
              Buffer.add_char b hexd.[(i lsr 4) land 15]; Buffer.add_char b hexd.[i land 15]) bs;
  if Buffer.length b = 0 then "-" else Buffer.contents b
let bytes_of_hex (s : string) : M.n list =
  if s = "-" then [] else begin
    let v c = match c with
      | '0'..'9' -> Char.code c - 48 | 'a'..'f' -> Char.code c - 87
      | 'A'..'F' -> Char.code c - 55 | _ -> failwith "hex" in
    let n = String.length s / 2 in
    List.init n (fun i -> n_of_int (16 * v s.[2*i] + v s.[2*i+1]))
  end
let zlist_of (s : string) : M.z list =
  if s = "-" then [] else List.map z_of_string (String.split_on_char ',' s)
let string_of_zlist (l : M.z list) : string =
  if l = [] then "-" else String.concat "," (List.map string_of_z l)

let pr_call (c : M.call) : string =
  match c with
  | M.CEnsure n -> "E" ^ string_of_n n
  | M.CRead1 -> "r"
  | M.CReadN n -> "R" ^ string_of_n n
  | M.CSkip n -> "S" ^ string_of_n n
  | M.CGetHandle r -> "G" ^ string_of_z r
  | M.CPrepare n -> "P" ^ string_of_n n
  | M.CWrite1 b -> "w" ^ string_of_n b
  | M.CWriteN bs -> "W" ^ hex_of_bytes bs
  | M.CWSkip (n, v) -> "K" ^ string_of_n n ^ ":" ^ string_of_n v
  | M.CPushHandle h -> "H" ^ string_of_z h
let pr_log (l : M.call list) : string =
  if l = [] then "-" else String.concat "," (List.rev_map pr_call l)

(* ---------- pool ---------- *)
let pool : (string, M.ty) Hashtbl.t = Hashtbl.create 256
let pool_order : string list ref = ref []
let load_pool (path : string) : unit =
  let ic = open_in path in
  (try while true do
       let line = input_line ic in
       if String.length line > 0 && line.[0] <> '#' then
         match parse_sx line with
         | A id :: d :: _ -> Hashtbl.replace pool id (ty_of d); pool_order := !pool_order @ [id]
         | _ -> ()
     done with End_of_file -> ());
  close_in ic
let ty_named id = try Hashtbl.find pool id with Not_found -> failwith ("unknown type " ^ id)

(* ---------- RPC interface descriptions (rpc.txt, written by tools/rpcgen.py) ---------- *)
type rmethod = { mname : M.n list; msel : string; mret : M.ty; margs : M.ty list; malt : M.ty list option }
type rset = { siface : int; spass : string; sbinds : (int * M.ty list) list }
let rpc_ifaces : (int, M.n list * bool) Hashtbl.t = Hashtbl.create 8
let rpc_methods : (int * int, rmethod) Hashtbl.t = Hashtbl.create 32
let rpc_sets : (int, rset) Hashtbl.t = Hashtbl.create 16
let tys_of (s : string) : M.ty list =
  if s = "-" then [] else List.map (fun i -> Hashtbl.find pool ("T" ^ i)) (String.split_on_char ',' s)
let hexbytes (s : string) : M.n list =
  let n = String.length s / 2 in
  List.init n (fun i -> n_of_int (int_of_string ("0x" ^ String.sub s (2 * i) 2)))
let load_rpc (path : string) : unit =
  if Sys.file_exists path then begin
    let ic = open_in path in
    (try while true do
         let w = String.split_on_char ' ' (input_line ic) in
         match w with
         | ["iface"; k; name; s32] -> Hashtbl.replace rpc_ifaces (int_of_string k) (hexbytes name, s32 = "1")
         | ["method"; k; m; name; sel; rt; ats; alt] ->
             Hashtbl.replace rpc_methods (int_of_string k, int_of_string m)
               { mname = hexbytes name; msel = sel; mret = Hashtbl.find pool ("T" ^ rt); margs = tys_of ats;
                 malt = (if alt = "-" then None else Some (tys_of alt)) }
         | "set" :: s :: k :: pk :: binds ->
             let b = List.map (fun x -> match String.split_on_char ':' x with
                                        | [m; _; ats] -> (int_of_string m, tys_of ats)
                                        | _ -> failwith "binding") binds in
             Hashtbl.replace rpc_sets (int_of_string s) { siface = int_of_string k; spass = pk; sbinds = b }
         | _ -> ()
       done with End_of_file -> ());
    close_in ic
  end
let rpc_selector (k : int) (m : rmethod) : M.n =
  let (iname, s32) = Hashtbl.find rpc_ifaces k in
  if m.msel = "-" then M.method_selector s32 (M.interface_hash iname) m.mname else n_of_string m.msel

let fault_of k code : (M.n * M.n) option =
  if k = "-" then None else Some (n_of_string k, n_of_string code)

(* ---------- operations ---------- *)
let run_case (toks : sx list) : string =
  match toks with
  (* enc T VAL: size, status, bytes (ListWriter, identity handle references),
     and the bytes of the documented format (spec_enc) *)
  | [A "enc"; A tid; v] ->
      let t = ty_named tid and v = val_of v in
      let ok = M.has_type t v in
      let sz = M.tsize t v in
      let spec = if ok then hex_of_bytes (M.spec_enc t v) else "?" in
      (match M.serialize t v M.lw_ops [] with
       | M.Ok ((), bs) ->
           Printf.sprintf "typed=%b size=%s st=0 bytes=%s spec=%s nohandles=%b" ok (string_of_n sz)
             (hex_of_bytes bs) spec (M.no_handles t)
       | M.Err (e, bs) ->
           Printf.sprintf "typed=%b size=%s st=%s bytes=%s spec=%s nohandles=%b" ok (string_of_n sz)
             (string_of_n e) (hex_of_bytes bs) spec (M.no_handles t))
  (* dec T HEX: status, value, bytes consumed (ListReader) *)
  | A "dec" :: A tid :: A hex :: _ ->
      let t = ty_named tid in
      let bs = bytes_of_hex hex in
      (match M.dec t M.lr_ops bs with
       | M.Ok (v, rest) ->
           Printf.sprintf "st=0 val=%s consumed=%d" (string_of_val v)
             (List.length bs - List.length rest)
       | M.Err (e, _) -> Printf.sprintf "st=%s" (string_of_n e))
  (* tenc / tdec: table-based out-of-band handle channel *)
  | [A "tenc"; A tid; v] ->
      let t = ty_named tid and v = val_of v in
      (match M.serialize t v M.tlw_ops ([], []) with
       | M.Ok ((), (bs, hs)) -> Printf.sprintf "st=0 bytes=%s handles=%s" (hex_of_bytes bs) (string_of_zlist hs)
       | M.Err (e, (bs, hs)) -> Printf.sprintf "st=%s bytes=%s handles=%s" (string_of_n e) (hex_of_bytes bs) (string_of_zlist hs))
  | [A "tdec"; A tid; A hex; A hs] ->
      let t = ty_named tid in
      let bs = bytes_of_hex hex in
      (match M.dec t M.tlr_ops (bs, zlist_of hs) with
       | M.Ok (v, (rest, _)) ->
           Printf.sprintf "st=0 val=%s consumed=%d" (string_of_val v) (List.length bs - List.length rest)
       | M.Err (e, _) -> Printf.sprintf "st=%s" (string_of_n e))
  (* fenc T K CODE VAL: serialize over the instrumented writer with a fault *)
  | [A "fenc"; A tid; A k; A code; v] ->
      let t = ty_named tid and v = val_of v in
      let st0 = M.inst_make [] (fault_of k code) in
      (match M.serialize t v (M.inst_wops M.lw_ops) st0 with
       | M.Ok ((), st) -> Printf.sprintf "st=0 calls=%d log=%s" (List.length st.M.i_log) (pr_log st.M.i_log)
       | M.Err (e, st) -> Printf.sprintf "st=%s calls=%d log=%s" (string_of_n e) (List.length st.M.i_log) (pr_log st.M.i_log))
  (* fdec T K CODE HEX HANDLES *)
  | A "fdec" :: A tid :: A k :: A code :: A hex :: _ ->
      let t = ty_named tid in
      let st0 = M.inst_make (bytes_of_hex hex) (fault_of k code) in
      (match M.dec t (M.inst_rops M.lr_ops) st0 with
       | M.Ok (v, st) -> Printf.sprintf "st=0 val=%s calls=%d log=%s" (string_of_val v) (List.length st.M.i_log) (pr_log st.M.i_log)
       | M.Err (e, st) -> Printf.sprintf "st=%s calls=%d log=%s" (string_of_n e) (List.length st.M.i_log) (pr_log st.M.i_log))
  (* encw T CHECKED CAP VAL: buffer writer models *)
  | [A "encw"; A tid; A checked; A cap; v] ->
      let t = ty_named tid and v = val_of v in
      let w0 = { M.bw_out = []; M.bw_cap = n_of_string cap; M.bw_oob = false } in
      (match M.serialize t v (M.bufw_ops (bool_of checked)) w0 with
       | M.Ok ((), w) -> Printf.sprintf "st=0 bytes=%s oob=%b" (hex_of_bytes w.M.bw_out) w.M.bw_oob
       | M.Err (e, w) -> Printf.sprintf "st=%s bytes=%s oob=%b" (string_of_n e) (hex_of_bytes w.M.bw_out) w.M.bw_oob)
  (* decr T HEX HANDLES: buffer reader model *)
  | A "decr" :: A tid :: A hex :: _ ->
      let t = ty_named tid in
      let r0 = { M.br_buf = bytes_of_hex hex; M.br_idx = M.N0 } in
      (match M.dec t M.bufr_ops r0 with
       | M.Ok (v, r) -> Printf.sprintf "st=0 val=%s consumed=%s" (string_of_val v) (string_of_n r.M.br_idx)
       | M.Err (e, _) -> Printf.sprintf "st=%s" (string_of_n e))
  (* rseq KIND LIMIT FK FC HEX CALLS : primitive read calls on a reader model *)
  | [A "rseq"; A kind; A limit; A fk; A fc; A hex; A calls] ->
      let calls = if calls = "-" then [] else String.split_on_char ',' calls in
      let bytes = bytes_of_hex hex in
      let show ((code, bs) : M.n * M.n list) = if code = M.N0 then (if bs = [] then "0" else "0:" ^ hex_of_bytes bs) else string_of_n code in
      let parse_call c : M.rcall option =
        match c.[0] with
        | 'E' -> Some (M.RcEnsure (n_of_string (String.sub c 1 (String.length c - 1))))
        | 'r' -> Some M.RcRead1
        | 'S' -> Some (M.RcSkip (n_of_string (String.sub c 1 (String.length c - 1))))
        | 'R' -> let x = String.index c 'x' in
                 let w = n_of_string (String.sub c 1 (x - 1)) and n = n_of_string (String.sub c (x + 1) (String.length c - x - 1)) in
                 Some (M.RcReadN (M.N.mul w n))
        | _ -> None in
      let run (type r) (o : r M.rops) (pad : (r -> (unit, r) M.res) option) (st : r) : string list * r =
        List.fold_left (fun (acc, st) c ->
            match parse_call c with
            | Some rc -> let (x, st') = M.run_rcall o rc st in
                         (* a zero-byte typed read still reports its (empty) payload *)
                         let s = (match rc, x with M.RcReadN _, (code, []) when code = M.N0 -> "0:-" | M.RcRead1, _ | M.RcReadN _, _ -> show x | _, (code, _) -> string_of_n code) in
                         (acc @ [s], st')
            | None -> (match pad with
                       | Some p when c = "P" -> (match p st with M.Ok ((), st') -> (acc @ ["0"], st') | M.Err (e, st') -> (acc @ [string_of_n e], st'))
                       | _ -> (acc @ ["?"], st))) ([], st) calls in
      let res l = if l = [] then "-" else String.concat "," l in
      let lim = n_of_string limit in
      (match kind with
       | "inst" ->
           let (l, st) = run (M.inst_rops M.lr_ops) None (M.inst_make bytes (fault_of fk fc)) in
           Printf.sprintf "res=%s pos=%d inner=%s" (res l) (List.length bytes - List.length st.M.i_inner) (pr_log st.M.i_log)
       | "binst" ->
           let o = M.inst_rops M.lr_ops in
           let (l, st) = run (M.bounded_rops o) (Some (M.bounded_read_padding o)) (M.b_make (M.inst_make bytes (fault_of fk fc)) lim) in
           let inner = M.b_inner st in
           Printf.sprintf "res=%s used=%s pos=%d inner=%s" (res l) (string_of_n (M.b_index st)) (List.length bytes - List.length inner.M.i_inner) (pr_log inner.M.i_log)
       | "buf" | "ped" ->
           let (l, st) = run M.bufr_ops None { M.br_buf = bytes; M.br_idx = M.N0 } in
           Printf.sprintf "res=%s pos=%s" (res l) (string_of_n st.M.br_idx)
       | "bbuf" | "bped" ->
           let (l, st) = run (M.bounded_rops M.bufr_ops) (Some (M.bounded_read_padding M.bufr_ops)) (M.b_make { M.br_buf = bytes; M.br_idx = M.N0 } lim) in
           Printf.sprintf "res=%s used=%s pos=%s" (res l) (string_of_n (M.b_index st)) (string_of_n (M.b_inner st).M.br_idx)
       | _ ->
           let (l, _) = run M.lr_ops None bytes in
           Printf.sprintf "res=%s" (res l))
  (* wseq KIND CAP LIMIT FK FC CALLS : primitive write calls on a writer model *)
  | [A "wseq"; A kind; A cap; A limit; A fk; A fc; A calls] ->
      let calls = if calls = "-" then [] else String.split_on_char ',' calls in
      let parse_call c : M.wcall option =
        match c.[0] with
        | 'P' -> Some (M.WcPrepare (n_of_string (String.sub c 1 (String.length c - 1))))
        | 'w' -> Some (M.WcWrite1 (n_of_string (String.sub c 1 (String.length c - 1))))
        | 'K' -> let x = String.index c ':' in
                 Some (M.WcSkip (n_of_string (String.sub c 1 (x - 1)), n_of_string (String.sub c (x + 1) (String.length c - x - 1))))
        | 'W' -> let x = String.index c 'x' in
                 let h = String.sub c (x + 1) (String.length c - x - 1) in
                 Some (M.WcWriteN (bytes_of_hex (if h = "" then "-" else h)))
        | _ -> None in
      let run (type w) (o : w M.wops) (pad : (M.n -> w -> (unit, w) M.res) option) (st : w) : string list * w =
        List.fold_left (fun (acc, st) c ->
            match parse_call c with
            | Some wc -> let (code, st') = M.run_wcall o wc st in (acc @ [string_of_n code], st')
            | None -> (match pad with
                       | Some p when c.[0] = 'D' ->
                           let v = if String.length c > 1 then n_of_string (String.sub c 1 (String.length c - 1)) else M.N0 in
                           (match p v st with M.Ok ((), st') -> (acc @ ["0"], st') | M.Err (e, st') -> (acc @ [string_of_n e], st'))
                       | _ -> (acc @ ["?"], st))) ([], st) calls in
      let res l = if l = [] then "-" else String.concat "," l in
      let lim = n_of_string limit in
      let bw0 = { M.bw_out = []; M.bw_cap = n_of_string cap; M.bw_oob = false } in
      (match kind with
       | "inst" ->
           let (l, st) = run (M.inst_wops M.lw_ops) None (M.inst_make [] (fault_of fk fc)) in
           Printf.sprintf "res=%s bytes=%s inner=%s" (res l) (hex_of_bytes st.M.i_inner) (pr_log st.M.i_log)
       | "binst" ->
           let o = M.inst_wops M.lw_ops in
           let (l, st) = run (M.bounded_wops o) (Some (M.bounded_write_padding o)) (M.b_make (M.inst_make [] (fault_of fk fc)) lim) in
           let inner = M.b_inner st in
           Printf.sprintf "res=%s used=%s bytes=%s inner=%s" (res l) (string_of_n (M.b_index st)) (hex_of_bytes inner.M.i_inner) (pr_log inner.M.i_log)
       | "buf" | "ped" | "cx" ->
           let (l, st) = run (M.bufw_ops (kind <> "buf")) None bw0 in
           Printf.sprintf "res=%s bytes=%s oob=%b" (res l) (hex_of_bytes st.M.bw_out) st.M.bw_oob
       | "bbuf" | "bped" ->
           let o = M.bufw_ops (kind <> "bbuf") in
           let (l, st) = run (M.bounded_wops o) (Some (M.bounded_write_padding o)) (M.b_make bw0 lim) in
           Printf.sprintf "res=%s used=%s bytes=%s oob=%b" (res l) (string_of_n (M.b_index st)) (hex_of_bytes (M.b_inner st).M.bw_out) (M.b_inner st).M.bw_oob
       | _ ->
           let (l, st) = run M.lw_ops None [] in
           Printf.sprintf "res=%s bytes=%s" (res l) (hex_of_bytes st))
  (* sip HEX K0 K1 : the header's SipHash and the specification's *)
  | [A "sip"; A hex; A k0; A k1] ->
      let m = bytes_of_hex hex in
      Printf.sprintf "h=%s spec=%s" (string_of_n (M.nop_siphash (n_of_string k0) (n_of_string k1) m))
        (string_of_n (M.siphash_spec (n_of_string k0) (n_of_string k1) m))
  | [A "sipname"; A hex] ->
      let m = bytes_of_hex hex in
      let ih = n_of_string "1311768467294899695" in
      Printf.sprintf "%s:%s:%s:%s:%s" hex (string_of_n (M.table_hash m)) (string_of_n (M.interface_hash m))
        (string_of_n (M.method_selector false ih m)) (string_of_n (M.method_selector true ih m))
  (* endian W BITS : the four conversions of a w-byte object *)
  | [A "endian"; A kind; A bits] ->
      let w = (match kind with "u8" | "i8" -> 1 | "u16" | "i16" -> 2 | "u32" | "i32" | "f32" -> 4 | _ -> 8) in
      let v = n_of_string bits in
      let wn = nat_of_int w in
      let fl = M.host_from_little wn v and tl = M.host_to_little wn v and fb = M.host_from_big wn v and tb = M.host_to_big wn v in
      Printf.sprintf "fl=%s tl=%s fb=%s tb=%s rtb=%s rtl=%s" (string_of_n fl) (string_of_n tl) (string_of_n fb) (string_of_n tb)
        (string_of_n (M.host_to_big wn fb)) (string_of_n (M.host_from_little wn tl))
  (* object state machines: opt / ent / res / sta / var / uh OPS *)
  | [A ("opt" | "ent"); A ops] ->
      let ops = String.split_on_char ',' ops in
      let arg s = List.map int_of_string (String.split_on_char ':' (String.sub s 1 (String.length s - 1))) in
      let parse s : M.oop option =
        let a = arg s in let i = nat_of_int (List.nth a 0) in
        let x () = z_of_int (List.nth a 1) and j () = nat_of_int (List.nth a 1) in
        match s.[0] with
        | 'N' -> Some (M.ONew i) | 'V' -> Some (M.OVal (i, x ())) | 'M' -> Some (M.OMoveVal (i, x ()))
        | 'I' -> Some (M.OInPlace (i, x ())) | 'C' -> Some (M.OCopy (i, j ())) | 'X' -> Some (M.OMove (i, j ()))
        | 'D' -> Some (M.ODestroy i) | 'a' -> Some (M.OAssign (i, j ())) | 'm' -> Some (M.OMoveAssign (i, j ()))
        | 'v' -> Some (M.OSetVal (i, x ())) | 'w' -> Some (M.OSetMoveVal (i, x ())) | 'u' -> Some (M.OSetConv (i, x ()))
        | 'e' -> Some (M.OSetConvEmpty i) | 'c' -> Some (M.OClear i) | 't' -> Some (M.OTake i) | _ -> None in
      let head (st : M.stats) = Printf.sprintf "%d:%d:%d" (int_of_nat st.M.ctor) (int_of_nat st.M.dtor) (int_of_nat st.M.bad) in
      let dump (w : M.oworld) = String.concat ";" (List.map (function
          | None -> "X"
          | Some o -> if o.M.o_empty then "E" else (match o.M.o_slot with M.Alive v -> "S" ^ string_of_z v | M.Dead -> "DEAD")) w.M.o_objs) in
      let w = ref (M.o_init (nat_of_int 3)) in
      let outs = List.map (fun s ->
          match parse s with
          | None -> "skip " ^ head !w.M.o_st ^ "|" ^ dump !w
          | Some op -> let ok = M.o_pre !w op in w := M.o_step !w op;
              (if ok then "" else "skip ") ^ head !w.M.o_st ^ "|" ^ dump !w) ops in
      List.iter (fun i -> w := M.o_step !w (M.ODestroy (nat_of_int i))) [0; 1; 2];
      String.concat " " outs ^ " end=" ^ head !w.M.o_st
  | [A (("res" | "sta") as kind); A ops] ->
      let ops = String.split_on_char ',' ops in
      let arg s = List.map int_of_string (String.split_on_char ':' (String.sub s 1 (String.length s - 1))) in
      (* Status<T> declares no assignment from a value or an error: `status = x` builds a temporary
         Status from x, move-assigns from it and destroys it.  The temporary is object 3 of the model. *)
      let sta = (kind = "sta") in
      let tmp = nat_of_int 3 in
      let parse s : M.rop list option =
        let a = arg s in let i = nat_of_int (List.nth a 0) in
        let x () = z_of_int (List.nth a 1) and j () = nat_of_int (List.nth a 1) in
        match s.[0] with
        | 'N' -> Some [M.RNew i] | 'V' -> Some [M.RVal (i, x ())] | 'M' -> Some [M.RMoveVal (i, x ())] | 'E' -> Some [M.RErr (i, x ())]
        | 'C' -> Some [M.RCopy (i, j ())] | 'X' -> Some [M.RMove (i, j ())] | 'D' -> Some [M.RDestroy i]
        | 'a' -> Some [M.RAssign (i, j ())] | 'm' -> Some [M.RMoveAssign (i, j ())]
        | 'v' -> Some (if sta then [M.RVal (tmp, x ()); M.RMoveAssign (i, tmp); M.RDestroy tmp] else [M.RSetVal (i, x ())])
        | 'w' -> Some (if sta then [M.RMoveVal (tmp, x ()); M.RMoveAssign (i, tmp); M.RDestroy tmp] else [M.RSetMoveVal (i, x ())])
        | 'r' -> Some (if sta then [M.RErr (tmp, x ()); M.RMoveAssign (i, tmp); M.RDestroy tmp] else [M.RSetErr (i, x ())])
        | 'c' -> Some [M.RClear i] | 't' -> Some [M.RTake i] | _ -> None in
      let head (st : M.stats) = Printf.sprintf "%d:%d:%d" (int_of_nat st.M.ctor) (int_of_nat st.M.dtor) (int_of_nat st.M.bad) in
      let first3 l = match l with a :: b :: c :: _ -> [a; b; c] | _ -> l in
      let dump (w : M.rworld) = String.concat ";" (List.map (function
          | None -> "X"
          | Some r -> (match r.M.r_tag with
                       | M.RtEmpty -> "E" | M.RtError e -> "R" ^ string_of_z e
                       | M.RtValue -> (match r.M.r_slot with M.Alive v -> "V" ^ string_of_z v | M.Dead -> "DEAD"))) (first3 w.M.r_objs)) in
      let w = ref (M.r_init (nat_of_int 4)) in
      let live i = (match M.r_get !w i with Some _ -> true | None -> false) in
      let outs = List.map (fun s ->
          match parse s with
          | None -> "skip " ^ head !w.M.r_stt ^ "|" ^ dump !w
          | Some [op] -> let ok = M.r_pre !w op in w := M.r_step !w op;
              (if ok then "" else "skip ") ^ head !w.M.r_stt ^ "|" ^ dump !w
          | Some comp ->
              (* composite: applies when the target object is alive *)
              let ok = (match comp with _ :: M.RMoveAssign (i, _) :: _ -> live i | _ -> false) in
              if ok then List.iter (fun op -> w := M.r_step !w op) comp;
              (if ok then "" else "skip ") ^ head !w.M.r_stt ^ "|" ^ dump !w) ops in
      List.iter (fun i -> w := M.r_step !w (M.RDestroy (nat_of_int i))) [0; 1; 2];
      String.concat " " outs ^ " end=" ^ head !w.M.r_stt
  | [A (("var" | "varm" | "varc") as vkind); A ops] ->
      let ops = String.split_on_char ',' ops in
      let arg s = List.map int_of_string (String.split_on_char ':' (String.sub s 1 (String.length s - 1))) in
      let parse s : M.vop option =
        let a = arg s in let i = nat_of_int (List.nth a 0) in
        let k () = z_of_int (List.nth a 1) and j () = nat_of_int (List.nth a 1) in
        let x () = z_of_int (List.nth a 2) and t () = (List.nth a 3 = 1) in
        match s.[0] with
        | 'N' -> Some (M.VNew i) | 'V' -> Some (M.VVal (i, k (), x (), t ())) | 'C' -> Some (M.VCopy (i, j ()))
        | 'X' -> Some (M.VMove (i, j ())) | 'D' -> Some (M.VDestroy i) | 's' -> Some (M.VSet (i, k (), x (), t ()))
        | 'e' -> Some (M.VSetEmpty i) | 'a' -> Some (M.VAssign (i, j ())) | 'm' -> Some (M.VMoveAssign (i, j ()))
        | 'B' -> Some (M.VBecome (i, k ()))
        (* converting operations (kind varc): translated by the model's own vc_to_vop with the harness's placement *)
        | ('K' | 'k' | 'O' | 'P' | 'o' | 'q') when vkind = "varc" ->
            let c = (match s.[0] with
              | 'K' -> M.VCConvConstruct (i, k (), x ()) | 'k' -> M.VCConvAssign (i, k (), x ())
              | 'O' | 'P' -> M.VCFromOther (i, k (), x ()) | _ -> M.VCAssignOther (i, k (), x ())) in
            Some (M.vc_to_vop M.harness_ctor_target M.harness_assign_target c)
        | _ -> None in
      let head (st : M.stats) = Printf.sprintf "%d:%d:%d" (int_of_nat st.M.ctor) (int_of_nat st.M.dtor) (int_of_nat st.M.bad) in
      let dump (w : M.vworld) = String.concat ";" (List.map (function
          | None -> "X"
          | Some v -> if v.M.v_index = z_of_int (-1) then "E"
                      else (match v.M.v_slot with M.Alive x -> "A" ^ string_of_z v.M.v_index ^ ":" ^ string_of_z x | M.Dead -> "DEAD")) w.M.v_objs) in
      let w = ref (M.v_init (nat_of_int 3) (z_of_int (if vkind = "var" then 3 else 4))) in
      let outs = List.map (fun s ->
          match parse s with
          | None -> "skip " ^ head !w.M.v_stt ^ "|" ^ dump !w
          | Some op -> let ok = M.v_pre !w op in w := M.v_step !w op;
              (if ok then "" else "skip ") ^ head !w.M.v_stt ^ "|" ^ dump !w) ops in
      List.iter (fun i -> w := M.v_step !w (M.VDestroy (nat_of_int i))) [0; 1; 2];
      String.concat " " outs ^ " end=" ^ head !w.M.v_stt
  | [A "uh"; A ops] ->
      let ops = String.split_on_char ',' ops in
      let arg s = List.map int_of_string (String.split_on_char ':' (String.sub s 1 (String.length s - 1))) in
      let parse s : M.hop option =
        let a = arg s in let i = nat_of_int (List.nth a 0) in
        let x () = z_of_int (List.nth a 1) and j () = nat_of_int (List.nth a 1) in
        match s.[0] with
        | 'N' -> Some (M.HNew i) | 'V' -> Some (M.HVal (i, x ())) | 'X' -> Some (M.HMove (i, j ())) | 'D' -> Some (M.HDestroy i)
        | 'm' -> Some (M.HMoveAssign (i, j ())) | 'c' -> Some (M.HClose i) | 'r' -> Some (M.HRelease i) | _ -> None in
      let lst l = if l = [] then "-" else String.concat "," (List.rev_map string_of_z l) in
      let dump (w : M.hworld) = String.concat ";" (List.map (function None -> "X" | Some v -> string_of_z v) w.M.h_objs)
                                ^ "|" ^ lst w.M.h_closed ^ "|" ^ lst w.M.h_released in
      let w = ref (M.h_init (nat_of_int 3)) in
      let outs = List.map (fun s ->
          match parse s with
          | None -> "skip " ^ dump !w
          | Some op -> let ok = M.h_pre !w op in w := M.h_step !w op; (if ok then "" else "skip ") ^ dump !w) ops in
      List.iter (fun i -> w := M.h_step !w (M.HDestroy (nat_of_int i))) [0; 1; 2];
      String.concat " " outs ^ " end=" ^ lst !w.M.h_closed ^ "|" ^ lst !w.M.h_released
  | [A "cmp"] ->
      let st = [-1; 0; 1; 2] in
      let opt i = if i < 0 then None else Some (z_of_int i) in
      let b x = if x then "1" else "0" in
      let eqb = M.Z.eqb and ltb = M.Z.ltb in
      "cmp=" ^ String.concat "," (List.concat_map (fun a -> List.map (fun bb ->
          let oa = opt a and ob = opt bb in
          let oo = b (M.oo_eq eqb oa ob) ^ b (M.oo_ne eqb oa ob) ^ b (M.oo_lt ltb oa ob) ^ b (M.oo_gt ltb oa ob) ^ b (M.oo_le ltb oa ob) ^ b (M.oo_ge ltb oa ob) in
          let ov = if bb < 0 then "------" else let v = z_of_int bb in
              b (M.ov_eq eqb oa v) ^ b (M.ov_ne eqb oa v) ^ b (M.ov_lt ltb oa v) ^ b (M.ov_gt ltb oa v) ^ b (M.ov_le ltb oa v) ^ b (M.ov_ge ltb oa v) in
          let vo = if a < 0 then "------" else let v = z_of_int a in
              b (M.vo_eq eqb v ob) ^ b (M.vo_ne eqb v ob) ^ b (M.vo_lt ltb v ob) ^ b (M.vo_gt ltb v ob) ^ b (M.vo_le ltb v ob) ^ b (M.vo_ge ltb v ob) in
          Printf.sprintf "%d/%d=%s%s%s" a bb oo ov vo) st) st)
  (* fungrow T: model IsFungible<T, Tj> for every pool type Tj in pool order *)
  | [A "fungrow"; A tid] ->
      let t = ty_named tid in
      "row=" ^ String.concat "" (List.map (fun id -> if M.fungible t (ty_named id) then "1" else "0") !pool_order)
  (* thr SEED SCRIPTS: ThreadLocal observations per thread, on a round-robin interleaving *)
  | [A "thr"; A _; A scripts] ->
      let threads = List.map (fun s -> String.split_on_char ',' s) (String.split_on_char ';' scripts) in
      let parse (s : string) : M.top option =
        if s = "" then None else
        let a = String.split_on_char ':' (String.sub s 1 (String.length s - 1)) in
        let slot () = nat_of_int (int_of_string (List.nth a 0)) and x () = z_of_int (int_of_string (List.nth a 1)) in
        match s.[0] with
        | 'N' -> Some (M.TNew (slot (), x ())) | 'I' | 'J' -> Some (M.TInit (slot (), x ())) | 'G' -> Some (M.TGet (slot ()))
        | 'S' -> Some (M.TSet (slot (), x ())) | 'C' -> Some (M.TClear (slot ())) | _ -> None in
      let tl = List.mapi (fun i ops -> List.filter_map (fun o -> match parse o with Some op -> Some (nat_of_int i, op) | None -> None) ops) threads in
      (* round robin *)
      let rec rr (qs : (M.nat * M.top) list list) acc =
        if List.for_all (fun q -> q = []) qs then List.rev acc
        else
          let heads = List.filter_map (function [] -> None | h :: _ -> Some h) qs in
          rr (List.map (function [] -> [] | _ :: t -> t) qs) (List.rev_append heads acc) in
      let trace = rr tl [] in
      let (_, obs) = M.trun M.empty_store trace in
      (* only Get() produces an observation: keep those *)
      let gets = List.filter (fun ((_, op), _) -> match op with M.TGet _ -> true | _ -> false) (List.combine trace obs) in
      let per i = List.filter_map (fun ((t, _), (_, o)) -> if t = nat_of_int i then
                     Some (match o with Some v -> "G:" ^ string_of_z v | None -> "G:none") else None) gets in
      "tl=" ^ String.concat ";" (List.mapi (fun i _ -> let l = per i in if l = [] then "-" else String.concat "," l) threads)
  (* rpc IFACE SET TAG | action | ... : a caller and a dispatcher joined by two byte streams *)
  | A "rpc" :: A k :: A s :: A tag :: rest ->
      let k = int_of_string k in
      let set = (try Hashtbl.find rpc_sets (int_of_string s) with Not_found -> failwith "unknown set") in
      let (_, b32) = Hashtbl.find rpc_ifaces k in
      let next_ret = ref M.VNone in
      let bs = List.map (fun (m, hats) ->
          let md = Hashtbl.find rpc_methods (k, m) in
          { M.b_sel = rpc_selector k md; M.b_args = hats; M.b_ret = md.mret; M.b_fn = (fun _ _ -> !next_ret) }) set.sbinds in
      let passr = (match set.spass with "none" -> "-" | "inst" -> "k" | "tag" -> "t" ^ tag | _ -> "kt" ^ tag) in
      let rec split acc cur = function
        | [] -> List.rev (List.rev cur :: acc)
        | A "|" :: r -> split (List.rev cur :: acc) [] r
        | x :: r -> split acc (x :: cur) r in
      let actions = List.filter (fun a -> a <> []) (split [] [] rest) in
      let inp = ref [] and reply = ref [] in
      let serve () =
        match M.dispatch b32 bs [] ((!inp, []), []) with
        | M.Ok ((), ((i2, out), log)) -> inp := i2; ("0", out, log)
        | M.Err (e, ((i2, out), log)) -> inp := i2; (string_of_n e, out, log) in
      let show_log log = if log = [] then "-" else String.concat "+" (List.map (fun (c : M.rpc_call) ->
          Printf.sprintf "%d:%s:%s" (int_of_nat c.M.k_idx) passr
            (if c.M.k_args = [] then "-" else String.concat ";" (List.map string_of_val c.M.k_args))) log) in
      let outs = List.map (fun act ->
          match act with
          | A (("I" | "J") as op) :: A m :: ret :: args ->
              let md = Hashtbl.find rpc_methods (k, int_of_string m) in
              next_ret := val_of ret;
              let ats = (if op = "J" then (match md.malt with Some a -> a | None -> failwith "no alt") else md.margs) in
              let (sent, req) = (match M.send_request b32 (rpc_selector k md) ats (List.map val_of args) [] with
                                 | M.Ok ((), w) -> (None, w) | M.Err (e, w) -> (Some e, w)) in
              inp := !inp @ req;
              let (disp, rep, log) = serve () in
              reply := !reply @ rep;
              let inv = (match sent with
                         | Some e -> string_of_n e ^ ":-"
                         | None -> (match M.get_return md.mret !reply with
                                    | M.Ok (v, r) -> reply := r; "0:" ^ string_of_val v
                                    | M.Err (e, _) -> string_of_n e ^ ":-")) in
              Printf.sprintf "inv=%s req=%s disp=%s log=%s rep=%s left=%d unread=%d" inv (hex_of_bytes req) disp (show_log log)
                (hex_of_bytes rep) (List.length !inp) (List.length !reply)
          | [A "R"; ret; A hex] ->
              next_ret := val_of ret;
              let req = bytes_of_hex hex in
              inp := !inp @ req;
              let (disp, rep, log) = serve () in
              reply := !reply @ rep;
              Printf.sprintf "inv=- req=%s disp=%s log=%s rep=%s left=%d unread=%d" (hex_of_bytes req) disp (show_log log)
                (hex_of_bytes rep) (List.length !inp) (List.length !reply)
          | _ -> failwith "rpc action") actions in
      String.concat " | " outs
  | A op :: _ -> failwith ("unknown op " ^ op)
  | _ -> failwith "bad case"

let () =
  if Array.length Sys.argv < 2 then (prerr_endline "usage: driver POOL < cases"; exit 2);
  load_pool Sys.argv.(1);
  load_rpc (Filename.concat (Filename.dirname Sys.argv.(1)) "rpc.txt");
  (try while true do
       let line = input_line stdin in
       if String.length line = 0 || line.[0] = '#' then print_endline line
       else begin
         let out = (try run_case (parse_sx line) with
                    | Failure m -> "DRIVER-ERROR " ^ m
                    | Stack_overflow -> "DRIVER-ERROR stack") in
         print_endline out
       end
     done with End_of_file -> ())
