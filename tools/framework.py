"""framework.py — shared machinery of the property checks: setup (Coq build,
extraction, driver), harness/driver execution, violation reporting, evidence."""
import json, os, random, re, shutil, subprocess, sys, time
sys.path.insert(0, os.path.dirname(os.path.abspath(__file__)))
from common import *
import nopgen, sx, build_harness

COQ = os.path.join(VERIF, 'coq')
ML = os.path.join(BUILD, 'ml')

TRUSTED_BASE = [
    'Coq 8.16.1 kernel (vm_compute used; native_compute not used)',
    'axioms: none — on every run coqc is re-run on the property statement files and every Print Assumptions must answer "Closed under the global context" (recorded per file in the evidence)',
    'OCaml extraction with ExtrOcamlBasic only (Extract Inductive for bool, option, unit, list, prod, sumbool; no Extract Constant); N/Z/positive/nat stay Coq datatypes',
    'tools/driver.ml (s-expression parsing, number conversion, printing) and ocamlopt 4.13.1',
    'tools/nop2coq.py translator over clang 14 JSON AST: the enumerators of EncodingByte / ErrorStatus, the SipHash keys, BaseEncodingSize and Encoding<T>::Prefix / Match of the scalar types are regenerated from /repo as coq/Gen.v on every run; coq/Bridge.v proves the hand-written leaves equal to them',
    'generated C++ harness (harness/glue.h, tools/nopgen.py): Build/Dump glue, instrumented reader/writer; clang++ 14, ASan+UBSan',
    'value/type generators (they bound the correspondence check)',
    'Spec.v is my reading of docs/format.md',
    'platform: LP64 little-endian x86-64, -std=c++14; other platforms are not modelled',
    'hand-modelled and tied by correspondence only: every template Encoding<T> (containers, structures, tables, variants, handles), is_fungible.h, the object types, the RPC layer',
]


EXIT_PROBLEMS = []


class Violation(Exception):
    pass


class Ctx:
    def __init__(self, pid, tier, seed):
        self.pid, self.tier, self.seed = pid, tier, seed
        self.rng = random.Random(seed * 1000003 + sum(ord(c) for c in pid))
        self.t0 = time.time()
        self.violations = []          # (signature, message, replay dict)
        self.known = load_known()
        self.cov = {'evaluations': 0, 'distinct_nontrivial': 0, 'samples': [], 'streams': {}}
        self._distinct = set()
        self.notes = []

    @property
    def quick(self):
        return self.tier == 'quick'

    def count(self, stream, case, nontrivial=True):
        self.cov['evaluations'] += 1
        st = self.cov['streams'].setdefault(stream, {'cases': 0})
        st['cases'] += 1
        if nontrivial:
            h = hash(case)
            if h not in self._distinct:
                self._distinct.add(h)
        if len(self.cov['samples']) < 12 and st['cases'] <= 2:
            self.cov['samples'].append({'stream': stream, 'case': case[:400]})

    def violate(self, signature, message, replay):
        self.violations.append((signature, message, replay))


def load_known():
    known = {}
    p = os.path.join(VERIF, 'known_findings.txt')
    if os.path.exists(p):
        for line in open(p):
            m = re.match(r'known: property=(\S+) key=(\S+) (.*)', line.strip())
            if m:
                known[(m.group(1), m.group(2))] = m.group(3)
    return known


# ------------------------------------------------------------------ setup ----
def coq_sources():
    return sorted(os.path.join(COQ, f) for f in os.listdir(COQ) if f.endswith('.v'))


def coq_make(targets=None, timeout=1500):
    """full .vo build (no -vos); returns (ok, log)"""
    os.makedirs(os.path.join(COQ, 'extract'), exist_ok=True)     # Extract.v writes there; the directory is not tracked by git
    if not os.path.exists(os.path.join(COQ, 'Makefile')) or \
            os.path.getmtime(os.path.join(COQ, 'Makefile')) < os.path.getmtime(os.path.join(COQ, '_CoqProject')):
        r = run(['coq_makefile', '-f', '_CoqProject', '-o', 'Makefile'], cwd=COQ)
        if r.returncode:
            return False, r.stderr
    cmd = ['timeout', str(timeout), 'make', '-k', '-j%d' % NCPU] + (targets or [])
    r = run(cmd, cwd=COQ, timeout=timeout + 30)
    return r.returncode == 0, r.stdout + r.stderr


def build_driver():
    """extract the model and compile the OCaml driver; cached on the sources"""
    srcs = [os.path.join(COQ, f) for f in ('Base.v', 'Wire.v', 'Schema.v', 'IO.v', 'Codec.v', 'Spec.v', 'Fungible.v', 'Calls.v', 'SipHash.v', 'Endian.v', 'Objects.v', 'Extract.v')
            if os.path.exists(os.path.join(COQ, f))]
    srcs += [os.path.join(COQ, f) for f in os.listdir(COQ) if f.endswith('Model.v') or f.endswith('Defs.v')]
    srcs.append(os.path.join(VERIF, 'tools', 'driver.ml'))
    key = sha_files(srcs)
    stamp = os.path.join(ML, 'stamp')
    exe = os.path.join(ML, 'driver')
    if os.path.exists(exe) and os.path.exists(stamp) and open(stamp).read() == key:
        return exe
    os.makedirs(ML, exist_ok=True)
    os.makedirs(os.path.join(COQ, 'extract'), exist_ok=True)
    ok, lg = coq_make(['Extract.vo'])
    if not ok:
        raise SystemExit('model build failed:\n' + lg[-4000:])
    for f in ('nopmodel.ml', 'nopmodel.mli'):
        shutil.copy(os.path.join(COQ, 'extract', f), ML)
    shutil.copy(os.path.join(VERIF, 'tools', 'driver.ml'), ML)
    r = run(['ocamlfind', 'ocamlopt', '-w', '-a', 'nopmodel.mli', 'nopmodel.ml', 'driver.ml', '-o', 'driver'], cwd=ML, timeout=600)
    if r.returncode:
        raise SystemExit('driver build failed:\n' + r.stderr[-4000:])
    open(stamp, 'w').write(key)
    return exe


class Pool:
    def __init__(self, types, hdir):
        self.types = types
        self.dir = hdir
        self.names = ['T%d' % i for i in range(len(types))]
        self.caps = [nopgen.caps(t) for t in types]


_pool_cache = {}


def get_pool(tag='core'):
    if tag not in _pool_cache:
        types = nopgen.core_pool()
        hdir = build_harness.build(types, tag=tag)
        _pool_cache[tag] = Pool(types, hdir)
    return _pool_cache[tag]


def chunked(lines, n):
    k = max(1, (len(lines) + n - 1) // n)
    return [lines[i:i + k] for i in range(0, len(lines), k)]


def run_parallel(cmd, lines, env=None, what='tool', chunk_timeout=600):
    """feeds the case lines to NCPU copies of cmd; returns output lines, in order.
    A crashed worker (sanitizer report, abort) yields 'CRASH <stderr tail>' for the
    case it died on and the run continues after it."""
    import concurrent.futures as cf
    if not lines:
        return []
    parts = chunked(lines, NCPU)

    def work(part):
        out = []
        i = 0
        while i < len(part):
            try:
                r = run(cmd, input='\n'.join(part[i:]) + '\n', env=env, timeout=chunk_timeout)
                got = r.stdout.splitlines()
            except subprocess.TimeoutExpired as te:
                so = te.stdout or b''
                got = (so.decode() if isinstance(so, bytes) else so).splitlines()
                class R: pass
                r = R(); r.returncode = -9; r.stderr = 'TIMEOUT after %ds' % chunk_timeout
            if len(got) == len(part) - i and r.returncode != 0:
                # every case answered but the process ended badly (leak report, error at exit)
                EXIT_PROBLEMS.append(' | '.join(l.strip() for l in r.stderr.splitlines()
                                                 if 'ERROR' in l or 'SUMMARY' in l or 'leak' in l)[:800] or ('rc=%d' % r.returncode))
                out += got
                break
            if r.returncode == 0 and len(got) == len(part) - i:
                out += got
                break
            # crashed at case i+len(got)
            got = got[:len(part) - i]
            out += got
            i += len(got)
            if i < len(part):
                tail = ' | '.join(l.strip() for l in r.stderr.splitlines() if 'ERROR' in l or 'runtime error' in l or 'SUMMARY' in l)[:600]
                out.append('CRASH rc=%d %s' % (r.returncode, tail or r.stderr[-300:].replace('\n', ' | ')))
                i += 1
        return out
    with cf.ThreadPoolExecutor(NCPU) as ex:
        res = list(ex.map(work, parts))
    return [l for part in res for l in part]


def run_harness(pool, lines):
    return run_parallel([os.path.join(pool.dir, 'harness')], lines, env=ASAN_ENV, what='harness')


def run_driver(pool, lines):
    # the extracted model recurses over its input list: run it with a large stack (hundreds of kilobytes of input)
    return run_parallel(['/bin/sh', '-c', 'ulimit -s 4000000 2>/dev/null || ulimit -s unlimited 2>/dev/null; exec "$0" "$@"',
                         os.path.join(ML, 'driver'), os.path.join(pool.dir, 'pool.txt')], lines, what='driver')


# ------------------------------------------------------------------ proofs ---
def theorem_names(vfile):
    txt = open(vfile).read()
    return re.findall(r'^(?:Theorem|Corollary)\s+(\w+)\s*:', txt, re.M)


def regenerate_leaves():
    """runs the translator: coq/Gen.v is rewritten from /repo's current headers"""
    import nop2coq
    os.makedirs(BUILD, exist_ok=True)
    return nop2coq.write(os.path.join(COQ, 'Gen.v'), BUILD)


def regenerate_bounded():
    """the second translator: the method bodies of BoundedReader / BoundedWriter as terms of Imp.bstmt (coq/GenBounded.v);
    returns the list of methods that were outside the translated subset (degraded)"""
    import nop2coq_bounded
    return nop2coq_bounded.write(os.path.join(COQ, 'GenBounded.v'))


# checks whose theorems are about bounded_rops / bounded_wops and the entry frames built from them
BOUNDED_BRIDGE = ('C02', 'C05', 'C06', 'C07', 'C08', 'C16', 'C17')


def check_proofs(ctx, files, bridge=True):
    """regenerates the translated leaf definitions, then (re)builds Bridge.v (model = translated code) and the given
    Properties files; returns (obligations, discharged, detail)"""
    obligations, discharged, detail = 0, 0, []
    tr_ok, tr_why = regenerate_leaves()
    if bridge:
        files = ['Bridge.v'] + list(files)
    else:
        tr_ok, tr_why = True, ''       # the property does not depend on the translated leaves
    deg = regenerate_bounded()         # GenBounded.v is part of the build in any case (setup builds everything)
    if ctx.pid in BOUNDED_BRIDGE:
        files = ['BridgeBounded.v'] + list(files)
        if deg:
            ctx.notes.append('translator (bounded): outside the translated C++ subset, tied by correspondence only on this run: ' + '; '.join(deg))
    targets = [f[:-2] + '.vo' for f in files]
    ok, lg = coq_make(targets)
    if not tr_ok:
        ok = False
        lg = 'tools/nop2coq.py could not translate the current headers: %s\n' % tr_why + lg
    elif tr_why:
        ctx.notes.append('translator: outside the translated C++ subset, tied by correspondence only on this run: ' + tr_why)
    for f in files:
        names = theorem_names(os.path.join(COQ, f)) if f not in ('Bridge.v', 'BridgeBounded.v') else re.findall(r'^  ?Lemma\s+(\w+)|^Lemma\s+(\w+)', open(os.path.join(COQ, f)).read(), re.M)
        names = [n if isinstance(n, str) else (n[0] or n[1]) for n in names]
        obligations += len(names)
        vo = os.path.join(COQ, f[:-2] + '.vo')
        built = os.path.exists(vo) and os.path.getmtime(vo) >= os.path.getmtime(os.path.join(COQ, f))
        if built and ok:
            discharged += len(names)
            detail.append({'file': f, 'theorems': names, 'status': 'proved'})
        else:
            detail.append({'file': f, 'theorems': names, 'status': 'FAILED'})
    # Print Assumptions of every property theorem: re-run coqc on the (small) statement files and read its output
    if ok:
        import tempfile
        for d in detail:
            if d['file'] in ('Bridge.v', 'BridgeBounded.v') or d['status'] != 'proved':
                continue
            with tempfile.TemporaryDirectory(dir=BUILD) as td:
                r = run(['timeout', '900', 'coqc', '-Q', '.', 'Nop', d['file'], '-o', os.path.join(td, d['file'][:-2] + '.vo')], cwd=COQ, timeout=1000)
            closed = r.stdout.count('Closed under the global context')
            axioms = re.findall(r'Axioms:\n((?:[^\n]+\n)+)', r.stdout)
            d['assumptions'] = {'closed_under_global_context': closed, 'axioms': axioms}
            if r.returncode != 0 or closed != len(d['theorems']) or axioms:
                ok = False
                d['status'] = 'FAILED'
                discharged -= len(d['theorems'])
                lg += '\nFile "./%s", line 0\nError: Print Assumptions: %d of %d theorems are closed under the global context; axioms: %s\n\n' % (d['file'], closed, len(d['theorems']), axioms)
    if not ok:
        m = re.findall(r'File "\./([^"]+)", line (\d+).*?\n(Error:.*?)(?:\n\n|\Z)', lg, re.S)
        ctx.proof_failure = [{'file': a, 'line': int(b), 'error': c[:500]} for a, b, c in m[:5]] or [{'log': lg[-1500:]}]
    # axioms: the Print Assumptions output is in the build log only when the file
    # was recompiled; keep the last output in a side file
    return obligations, discharged, detail, ok, lg


def assumptions_report(files):
    """re-runs coqc on the (small) Properties files to capture Print Assumptions"""
    rep = {}
    for f in files:
        r = run(['timeout', '600', 'coqc', '-Q', '.', 'Nop', f, '-o', '/dev/null'], cwd=COQ, timeout=700)
        txt = r.stdout
        closed = txt.count('Closed under the global context')
        axioms = re.findall(r'^Axioms:\n((?:.+\n)+)', txt, re.M)
        rep[f] = {'closed': closed, 'axioms': axioms}
    return rep


# ---------------------------------------------------------------- finishing --
def finish(ctx, level='proof', obligations=0, discharged=0, checker_cmd='', extra=None, assumptions=None):
    os.makedirs(os.path.join(VERIF, 'evidence'), exist_ok=True)
    os.makedirs(os.path.join(VERIF, 'replays'), exist_ok=True)
    new, seen_known = [], {}
    for sig, msg, rep in ctx.violations:
        if (ctx.pid, sig) in ctx.known:
            seen_known[sig] = seen_known.get(sig, 0) + 1
        else:
            new.append((sig, msg, rep))
    for sig, cnt in seen_known.items():
        print('KNOWN-FINDING: property=%s %s [%d cases in this run]' % (ctx.pid, ctx.known[(ctx.pid, sig)], cnt))
    cov = dict(ctx.cov)
    cov['distinct_nontrivial'] = len(ctx._distinct)
    cov['rule'] = (extra or {}).get('rule', 'cases generated from VERIF_SEED by tools/nopgen.py; a case is distinct by its text and non-trivial if it reaches the library (not rejected by the harness glue)')
    cov['obligations'] = obligations
    cov['discharged'] = discharged
    cov['checker_cmd'] = checker_cmd or 'make -C /verif/coq (coqc 8.16.1, full .vo build)'
    cov['trusted_base'] = TRUSTED_BASE
    if extra:
        cov.update(extra)
    ev = {'property_id': ctx.pid, 'tier': ctx.tier, 'seed': ctx.seed, 'level': level, 'coverage': cov,
          'assumptions': ['LP64 little-endian x86-64, -std=c++14, clang++ 14 for the harness',
                          'the tie between model and code is differential testing plus the translated leaf definitions'] + ctx.notes,
          'wall_s': round(time.time() - ctx.t0, 2), 'violations': len(new)}
    with open(os.path.join(VERIF, 'evidence', ctx.pid + '.json'), 'w') as f:
        json.dump(ev, f, indent=1)
    if new:
        for i, (sig, msg, rep) in enumerate(new[:5]):
            path = os.path.join(VERIF, 'replays', '%s-%s-%d.json' % (ctx.pid, re.sub(r'[^A-Za-z0-9_.-]', '_', sig)[:60], i))
            with open(path, 'w') as f:
                json.dump({'property': ctx.pid, 'signature': sig, 'message': msg, 'replay': rep, 'seed': ctx.seed, 'tier': ctx.tier}, f, indent=1)
            tail = ' no-failing-input-found' if rep.get('no_failing_input') else ''
            print('VIOLATION property=%s replay=%s %s%s' % (ctx.pid, path, msg[:300], tail))
        return 1
    print('OK property=%s tier=%s seed=%d evaluations=%d obligations=%d/%d wall=%.1fs' % (
        ctx.pid, ctx.tier, ctx.seed, cov['evaluations'], discharged, obligations, time.time() - ctx.t0))
    return 0
