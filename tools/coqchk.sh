#!/bin/sh
# Independent re-check of the compiled development (all property modules and Bridge) with coqchk; prints the
# context summary (axioms, type-in-type, unsafe fixpoints, assumed positivity).  About 90 s.
cd "$(dirname "$0")/../coq" || exit 2
python3 ../tools/nop2coq.py >/dev/null && python3 -c "import sys; sys.path.insert(0, \"../tools\"); import nop2coq_bounded; nop2coq_bounded.write(\"GenBounded.v\")" >/dev/null && make -j16 >/dev/null 2>&1 || { echo "build failed"; exit 1; }
mods=""
for f in Properties_C*.v; do mods="$mods Nop.${f%.v}"; done
exec coqchk -o -silent -Q . Nop $mods Nop.Bridge Nop.BridgeBounded
