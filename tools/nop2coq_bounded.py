"""nop2coq_bounded.py — translates the method bodies of BoundedReader / BoundedWriter in /repo's current headers
into terms of the statement language of coq/Imp.v (coq/GenBounded.v, rewritten on every run).

What is read off the clang JSON AST (never guessed): the guard conditions and their operand order, which error
enumerator a guard returns, whether and where the call is forwarded to the wrapped object, what is added to index_
and when.  Conventions (part of the trusted base, see DESIGN.md): the std::size_t parameters of a method are numbered
in order (EParam i); for the typed block methods `end - begin` is EParam 0 and `sizeof(T)` is EParam 1, and the pointer
pair handed to the wrapped object stands for EMul (EParam 0) (EParam 1) bytes; the N argument of a forwarded call is
its first std::size_t argument (EConst 0 when it has none).

A method whose body is outside the subset is *degraded*: GenBounded.v defines it by the term the unchanged source
translates to (kept below), and the caller is told, so that the evidence names it as tied by correspondence only."""
import json, os, subprocess, sys

REPO = os.environ.get('VERIF_REPO', '/repo')

# what the pinned source translates to (used only when a body is outside the subset)
FALLBACK = {
    'BoundedReader_Ensure': 'SIf (CLt (ESub ESize EIndex) (EParam 0)) (SRetErr gen_ErrorStatus_ReadLimitReached) (SRetCall (EParam 0))',
    'BoundedReader_Read1': 'SIf (CLt EIndex ESize) (SCallChk (EConst 0) (SAddIndex (EConst 1) SRetOk)) (SRetErr gen_ErrorStatus_ReadLimitReached)',
    'BoundedReader_ReadN': 'SLet (EParam 1) (SLet (EParam 0) (SLet (EMul (ELocal 1) (ELocal 0)) (SIf (CGt (ELocal 2) (ESub ESize EIndex)) (SRetErr gen_ErrorStatus_ReadLimitReached) (SCallChk (EMul (EParam 0) (EParam 1)) (SAddIndex (ELocal 2) SRetOk)))))',
    'BoundedReader_Skip': 'SIf (CGt (EParam 0) (ESub ESize EIndex)) (SRetErr gen_ErrorStatus_ReadLimitReached) (SCallChk (EParam 0) (SAddIndex (EParam 0) SRetOk))',
    'BoundedReader_ReadPadding': 'SLet (ESub ESize EIndex) (SCallChk (ELocal 0) (SAddIndex (ELocal 0) SRetOk))',
    'BoundedReader_GetHandle': 'SRetCall (EConst 0)',
    'BoundedWriter_Prepare': 'SIf (CGt (EParam 0) (ESub ESize EIndex)) (SRetErr gen_ErrorStatus_WriteLimitReached) (SRetCall (EParam 0))',
    'BoundedWriter_Write1': 'SIf (CLt EIndex ESize) (SCallChk (EConst 0) (SAddIndex (EConst 1) SRetOk)) (SRetErr gen_ErrorStatus_WriteLimitReached)',
    'BoundedWriter_WriteN': 'SLet (EParam 1) (SLet (EParam 0) (SLet (EMul (ELocal 1) (ELocal 0)) (SIf (CGt (ELocal 2) (ESub ESize EIndex)) (SRetErr gen_ErrorStatus_WriteLimitReached) (SCallChk (EMul (EParam 0) (EParam 1)) (SAddIndex (ELocal 2) SRetOk)))))',
    'BoundedWriter_Skip': 'SIf (CGt (EParam 0) (ESub ESize EIndex)) (SRetErr gen_ErrorStatus_WriteLimitReached) (SCallChk (EParam 0) (SAddIndex (EParam 0) SRetOk))',
    'BoundedWriter_WritePadding': 'SLet (ESub ESize EIndex) (SCallChk (ELocal 0) (SAddIndex (ELocal 0) SRetOk))',
    'BoundedWriter_PushHandle': 'SRetCall (EConst 0)',
}
# BufferReader / PedanticBufferReader: no wrapped object; Read(begin, end) copies out of buffer_ at index_
BUF_READN = ('SLet (EParam 1) (SLet (EParam 0) (SLet (EMul (ELocal 1) (ELocal 0)) (SIf (CGt (ELocal 2) (ESub ESize EIndex)) (SRetErr gen_ErrorStatus_ReadLimitReached) '
             '(SWhenCopy (CGt (ELocal 2) (EConst 0)) EIndex (ELocal 2) (SAddIndex (ELocal 2) SRetOk)))))')
FALLBACK_BUF = {}
for _c in ('BufferReader', 'PedanticBufferReader'):
    FALLBACK_BUF[_c + '_Ensure'] = 'SIf (CLt (ESub ESize EIndex) (EParam 0)) (SRetErr gen_ErrorStatus_ReadLimitReached) SRetOk'
    FALLBACK_BUF[_c + '_ReadN'] = BUF_READN
    FALLBACK_BUF[_c + '_Skip'] = 'SIf (CGt (EParam 0) (ESub ESize EIndex)) (SRetErr gen_ErrorStatus_ReadLimitReached) (SAddIndex (EParam 0) SRetOk)'
# BufferWriter / PedanticBufferWriter / ConstexprBufferWriter: the capacity check every Write is predicated on
WRITER_CLASSES = (('BufferWriter', 'buffer_writer.h'), ('PedanticBufferWriter', 'pedantic_buffer_writer.h'),
                  ('ConstexprBufferWriter', 'constexpr_buffer_writer.h'))
FALLBACK_WR = {}
for _c, _h in WRITER_CLASSES:
    FALLBACK_WR[_c + '_Prepare'] = 'SIf (CGt (EParam 0) (ESub ESize EIndex)) (SRetErr gen_ErrorStatus_WriteLimitReached) SRetOk'


class Unsupported(Exception):
    pass


def load(cls, header):
    src = '#include <nop/utility/%s>\n' % header
    r = subprocess.run(['clang++', '-std=c++14', '-I' + os.path.join(REPO, 'include'), '-fsyntax-only', '-x', 'c++', '-',
                        '-Xclang', '-ast-dump=json', '-Xclang', '-ast-dump-filter=' + cls],
                       input=src, capture_output=True, text=True, timeout=300)
    txt = r.stdout
    dec = json.JSONDecoder()
    i, objs = 0, []
    while i < len(txt):
        while i < len(txt) and txt[i] in ' \n\r\t':
            i += 1
        if i >= len(txt):
            break
        o, i = dec.raw_decode(txt, i)
        objs.append(o)
    for o in objs:
        if o.get('kind') in ('ClassTemplateDecl', 'CXXRecordDecl') and o.get('name') == cls and o.get('inner'):
            return o
    raise Unsupported('class template %s not found (%s)' % (cls, r.stderr[-300:]))


def methods(node, out=None):
    out = [] if out is None else out
    if isinstance(node, dict):
        if node.get('kind') == 'CXXMethodDecl' and any(c.get('kind') == 'CompoundStmt' for c in node.get('inner', [])):
            out.append(node)
        elif node.get('kind') in ('ClassTemplateSpecializationDecl',):
            return out                      # instantiations repeat the pattern: only the template itself is read
        else:
            for c in node.get('inner', []):
                methods(c, out)
    return out


def strip(e):
    while e.get('kind') in ('ImplicitCastExpr', 'ParenExpr', 'ExprWithCleanups', 'MaterializeTemporaryExpr', 'CXXBindTemporaryExpr', 'CXXFunctionalCastExpr', 'CXXStaticCastExpr') and e.get('inner'):
        e = e['inner'][0]
    return e


class Tr:
    def __init__(self, m, inner_member):
        self.inner_member = inner_member            # reader_ / writer_
        self.params = {}                            # name -> EParam index (std::size_t parameters)
        self.ptr_params = []
        self.locals = []                            # names in declaration order
        k = 0
        for c in m.get('inner', []):
            if c.get('kind') == 'ParmVarDecl':
                qt = c.get('type', {}).get('qualType', '')
                if qt in ('std::size_t', 'size_t', 'unsigned long'):
                    self.params[c['name']] = k
                    k += 1
                elif qt.endswith('*') and c.get('name') in ('begin', 'end'):
                    self.ptr_params.append(c['name'])
        self.typed = len(self.ptr_params) == 2

    accessors = {}      # name -> translated body of the accessor in the class being read (filled by translate())

    def accessor_ok(self, name):
        want = {'remaining': 'ESub (ESize) (EIndex)', 'capacity': 'ESize'}[name]
        return Tr.accessors.get(name) == want

    # ---- expressions
    def expr(self, e):
        e = strip(e)
        k = e.get('kind')
        if k == 'DeclRefExpr':
            n = e['referencedDecl']['name']
            if n in self.locals:
                return 'ELocal %d' % self.locals.index(n)
            if n in self.params:
                return 'EParam %d' % self.params[n]
            raise Unsupported('reference to ' + n)
        if k == 'MemberExpr' and strip(e['inner'][0]).get('kind') == 'CXXThisExpr':
            if e['name'] == 'size_':
                return 'ESize'
            if e['name'] == 'index_':
                return 'EIndex'
            raise Unsupported('member ' + e['name'])
        if k == 'CXXMemberCallExpr' and len(e.get('inner', [])) == 1:
            # the class's own accessors, by what they are defined to return
            callee = strip(e['inner'][0])
            if callee.get('kind') == 'MemberExpr' and strip(callee['inner'][0]).get('kind') == 'CXXThisExpr':
                acc = {'remaining': 'ESub ESize EIndex', 'capacity': 'ESize'}.get(callee.get('name'))
                if acc and self.accessor_ok(callee.get('name')):
                    return acc
            raise Unsupported('call of ' + str(callee.get('name')))
        if k == 'IntegerLiteral':
            return 'EConst %s' % e['value']
        if k == 'UnaryExprOrTypeTraitExpr' and e.get('name') == 'sizeof' and self.typed:
            return 'EParam 1'
        if k == 'BinaryOperator':
            a, b = e['inner']
            op = e['opcode']
            if op == '-' and self.typed:
                sa, sb = strip(a), strip(b)
                if sa.get('kind') == 'DeclRefExpr' and sb.get('kind') == 'DeclRefExpr' and \
                        sa['referencedDecl']['name'] == 'end' and sb['referencedDecl']['name'] == 'begin':
                    return 'EParam 0'
            con = {'-': 'ESub', '+': 'EAdd', '*': 'EMul'}.get(op)
            if con:
                return '%s (%s) (%s)' % (con, self.expr(a), self.expr(b))
        raise Unsupported('expression ' + str(k))

    def cond(self, e):
        e = strip(e)
        if e.get('kind') == 'BinaryOperator':
            con = {'<': 'CLt', '>': 'CGt', '<=': 'CLe', '>=': 'CGe', '==': 'CEq'}.get(e['opcode'])
            if con:
                return '%s (%s) (%s)' % (con, self.expr(e['inner'][0]), self.expr(e['inner'][1]))
            if e['opcode'] == '!=':
                return 'CNot (CEq (%s) (%s))' % (self.expr(e['inner'][0]), self.expr(e['inner'][1]))
        if e.get('kind') == 'UnaryOperator' and e.get('opcode') == '!':
            return 'CNot (%s)' % self.cond(e['inner'][0])
        raise Unsupported('condition ' + str(e.get('kind')))

    # ---- forwarded calls
    def forwarded(self, e):
        """the N argument of a call on the wrapped object, or None when e is not such a call"""
        e = strip(e)
        if e.get('kind') != 'CallExpr':
            return None
        callee = strip(e['inner'][0])
        if callee.get('kind') != 'CXXDependentScopeMemberExpr':
            return None
        base = strip(callee['inner'][0])
        if not (base.get('kind') == 'MemberExpr' and base.get('name') == self.inner_member):
            return None
        args = e['inner'][1:]
        names = [strip(a)['referencedDecl']['name'] for a in args if strip(a).get('kind') == 'DeclRefExpr']
        if self.typed and names[:2] == ['begin', 'end']:
            return 'EMul (EParam 0) (EParam 1)'
        for a in args:
            qt = strip(a).get('type', {}).get('qualType', '')
            if qt in ('std::size_t', 'size_t', 'unsigned long', 'const std::size_t'):
                return self.expr(a)
        return 'EConst 0'

    def copy_out(self, s):
        """(offset, length) when s is `std::memcpy(begin, &buffer_[offset], length)`, else None"""
        while s.get('kind') == 'CompoundStmt' and len(s.get('inner', [])) == 1:
            s = s['inner'][0]
        e = strip(s)
        if e.get('kind') != 'CallExpr':
            return None
        callee = strip(e['inner'][0])
        if not (callee.get('kind') == 'DeclRefExpr' and callee['referencedDecl']['name'] == 'memcpy') or len(e['inner']) != 4:
            return None
        dst, src, ln = (strip(x) for x in e['inner'][1:])
        if not (dst.get('kind') == 'DeclRefExpr' and dst['referencedDecl']['name'] == 'begin'):
            raise Unsupported('memcpy whose destination is not the caller\'s range')
        if not (src.get('kind') == 'UnaryOperator' and src.get('opcode') == '&'):
            raise Unsupported('memcpy source')
        sub = strip(src['inner'][0])
        base = strip(sub['inner'][0]) if sub.get('kind') == 'ArraySubscriptExpr' else {}
        if not (base.get('kind') == 'MemberExpr' and base.get('name') == 'buffer_'):
            raise Unsupported('memcpy source is not buffer_[...]')
        return self.expr(sub['inner'][1]), self.expr(e['inner'][3])

    def enum_of(self, e):
        """the ErrorStatus enumerator a return statement constructs its status from"""
        found = []

        def walk(n):
            if isinstance(n, dict):
                if n.get('kind') == 'DeclRefExpr' and n.get('referencedDecl', {}).get('kind') == 'EnumConstantDecl':
                    found.append(n['referencedDecl']['name'])
                for c in n.get('inner', []):
                    walk(c)
        walk(e)
        return found[0] if len(found) == 1 else None

    # ---- statements
    def stmts(self, ss):
        if not ss:
            raise Unsupported('control reaches the end of the method')
        s, rest = ss[0], ss[1:]
        k = s.get('kind')
        if k == 'CompoundStmt':
            return self.stmts(list(s.get('inner', [])) + rest)
        if k == 'ReturnStmt':
            inner = s.get('inner', [])
            if not inner:
                raise Unsupported('bare return')
            fw = self.forwarded(inner[0])
            if fw is not None:
                return 'SRetCall (%s)' % fw
            en = self.enum_of(inner[0])
            if en:
                return 'SRetErr gen_ErrorStatus_' + en
            e = strip(inner[0])
            if e.get('kind') in ('CXXConstructExpr', 'InitListExpr') and not e.get('inner'):
                return 'SRetOk'
            raise Unsupported('return of ' + str(e.get('kind')))
        if k == 'IfStmt' and len(s['inner']) == 2 and self.copy_out(s['inner'][1]) is not None:
            # if (c) std::memcpy(begin, &buffer_[off], len);   -- the bytes handed to the caller
            off, ln = self.copy_out(s['inner'][1])
            return 'SWhenCopy (%s) (%s) (%s) (%s)' % (self.cond(s['inner'][0]), off, ln, self.stmts(rest))
        if self.copy_out(s) is not None:
            off, ln = self.copy_out(s)
            return 'SWhenCopy CTrue (%s) (%s) (%s)' % (off, ln, self.stmts(rest))
        if k == 'IfStmt':
            parts = s['inner']
            c = self.cond(parts[0])
            yes = self.stmts([parts[1]])
            no = self.stmts(([parts[2]] if len(parts) > 2 else []) + rest) if (len(parts) > 2 or rest) else None
            if no is None:
                raise Unsupported('if without continuation')
            return 'SIf (%s) (%s) (%s)' % (c, yes, no)
        if k == 'DeclStmt':
            v = s['inner'][0]
            if v.get('kind') != 'VarDecl' or not v.get('inner'):
                raise Unsupported('declaration')
            fw = self.forwarded(v['inner'][0])
            if fw is not None:
                # auto status = inner->Call(...); if (!status) return status;
                if not rest or rest[0].get('kind') != 'IfStmt':
                    raise Unsupported('forwarded call whose status is not checked next')
                chk = rest[0]['inner']
                c = strip(chk[0])
                ok = (c.get('kind') == 'UnaryOperator' and c.get('opcode') == '!' and strip(c['inner'][0]).get('kind') == 'DeclRefExpr'
                      and strip(c['inner'][0])['referencedDecl']['name'] == v['name'] and len(chk) == 2)
                ret = chk[1]
                while ret.get('kind') == 'CompoundStmt' and len(ret.get('inner', [])) == 1:
                    ret = ret['inner'][0]
                ok = ok and ret.get('kind') == 'ReturnStmt' and strip(ret['inner'][0]).get('kind') == 'DeclRefExpr' and \
                    strip(ret['inner'][0])['referencedDecl']['name'] == v['name']
                if not ok:
                    raise Unsupported('status of the forwarded call is not returned unchanged on failure')
                return 'SCallChk (%s) (%s)' % (fw, self.stmts(rest[1:]))
            e = self.expr(v['inner'][0])
            self.locals.append(v['name'])
            return 'SLet (%s) (%s)' % (e, self.stmts(rest))
        if k == 'CompoundAssignOperator' and s.get('opcode') == '+=':
            lhs = strip(s['inner'][0])
            if lhs.get('kind') == 'MemberExpr' and lhs.get('name') == 'index_':
                return 'SAddIndex (%s) (%s)' % (self.expr(s['inner'][1]), self.stmts(rest))
        raise Unsupported('statement ' + str(k))


def classify(cls, m):
    n = m['name']
    ptrs = [c for c in m.get('inner', []) if c.get('kind') == 'ParmVarDecl' and c.get('type', {}).get('qualType', '').endswith('*')]
    if cls == 'BoundedReader':
        return {'Ensure': 'Ensure', 'Skip': 'Skip', 'ReadPadding': 'ReadPadding', 'GetHandle': 'GetHandle'}.get(n) or \
            ({1: 'Read1', 2: 'ReadN'}.get(len(ptrs)) if n == 'Read' else None)
    return {'Prepare': 'Prepare', 'Skip': 'Skip', 'WritePadding': 'WritePadding', 'PushHandle': 'PushHandle'}.get(n) or \
        (('WriteN' if len(ptrs) == 2 else 'Write1') if n == 'Write' else None)


def delegates_to_block_read(body):
    """`return Read(byte, byte + 1);` — the one-byte read is the block read of one one-byte element"""
    ss = body.get('inner', [])
    if len(ss) != 1 or ss[0].get('kind') != 'ReturnStmt':
        return False
    found = []

    def walk(n):
        if isinstance(n, dict):
            if n.get('kind') == 'CXXMemberCallExpr':
                found.append(n)
            for c in n.get('inner', []):
                walk(c)
    walk(ss[0])
    if len(found) != 1:
        return False
    c = found[0]
    callee = strip(c['inner'][0])
    args = [strip(a) for a in c['inner'][1:]]
    return (callee.get('kind') == 'MemberExpr' and callee.get('name') == 'Read' and len(args) == 2 and
            args[0].get('kind') == 'DeclRefExpr' and args[0]['referencedDecl']['name'] == 'byte' and
            args[1].get('kind') == 'BinaryOperator' and args[1].get('opcode') == '+' and
            strip(args[1]['inner'][0]).get('kind') == 'DeclRefExpr' and strip(args[1]['inner'][0])['referencedDecl']['name'] == 'byte' and
            strip(args[1]['inner'][1]).get('kind') == 'IntegerLiteral' and strip(args[1]['inner'][1]).get('value') == '1')


def translate():
    defs, degraded = {}, []
    for cls, header, member in (('BoundedReader', 'bounded_reader.h', 'reader_'), ('BoundedWriter', 'bounded_writer.h', 'writer_')):
        try:
            ms = methods(load(cls, header))
        except Exception as e:           # the header itself cannot be read
            ms = []
            degraded.append('%s: %s' % (cls, e))
        seen = set()
        for m in ms:
            role = classify(cls, m)
            if not role or role in seen:
                continue
            seen.add(role)
            key = '%s_%s' % (cls, role)
            try:
                t = Tr(m, member)
                body = [c for c in m['inner'] if c.get('kind') == 'CompoundStmt'][0]
                defs[key] = t.stmts([body])
            except (Unsupported, KeyError, IndexError, TypeError) as e:
                degraded.append('%s: %s' % (key, e))
    for cls, header in (('BufferReader', 'buffer_reader.h'), ('PedanticBufferReader', 'pedantic_buffer_reader.h')):
        try:
            ms = methods(load(cls, header))
        except Exception as e:
            ms = []
            degraded.append('%s: %s' % (cls, e))
        seen = set()
        deleg = False
        Tr.accessors = {}
        for m in ms:        # accessors first: `T f() const { return <expr>; }`
            if m['name'] in ('remaining', 'capacity'):
                try:
                    body = [c for c in m['inner'] if c.get('kind') == 'CompoundStmt'][0]
                    ret = body['inner'][0]
                    if len(body['inner']) == 1 and ret.get('kind') == 'ReturnStmt':
                        Tr.accessors[m['name']] = Tr(m, '-').expr(ret['inner'][0])
                except (Unsupported, KeyError, IndexError, TypeError):
                    pass
        for m in ms:
            ptrs = [c for c in m.get('inner', []) if c.get('kind') == 'ParmVarDecl' and c.get('type', {}).get('qualType', '').endswith('*')]
            role = {'Ensure': 'Ensure', 'Skip': 'Skip'}.get(m['name']) or ({1: 'Read1', 2: 'ReadN'}.get(len(ptrs)) if m['name'] == 'Read' else None)
            if not role or role in seen:
                continue
            seen.add(role)
            key = '%s_%s' % (cls, role)
            body = [c for c in m['inner'] if c.get('kind') == 'CompoundStmt'][0]
            if role == 'Read1':
                deleg = delegates_to_block_read(body)
                continue
            try:
                defs[key] = Tr(m, '-').stmts([body])
            except (Unsupported, KeyError, IndexError, TypeError) as e:
                degraded.append('%s: %s' % (key, e))
        defs[cls + '_Read1_delegates'] = 'true' if deleg else 'false'
    for cls, header in WRITER_CLASSES:
        try:
            ms = methods(load(cls, header))
        except Exception as e:
            ms = []
            degraded.append('%s: %s' % (cls, e))
        Tr.accessors = {}
        for m in ms:
            key = '%s_Prepare' % cls
            if m['name'] != 'Prepare' or key in defs:
                continue
            try:
                body = [c for c in m['inner'] if c.get('kind') == 'CompoundStmt'][0]
                defs[key] = Tr(m, '-').stmts([body])
            except (Unsupported, KeyError, IndexError, TypeError) as e:
                degraded.append('%s: %s' % (key, e))
    for key in list(FALLBACK_BUF) + list(FALLBACK_WR):
        if key not in defs:
            if not any(d.startswith(key) for d in degraded):
                degraded.append('%s: method not found' % key)
            defs[key] = {**FALLBACK_BUF, **FALLBACK_WR}[key]
    for key in FALLBACK:
        if key not in defs:
            if not any(d.startswith(key) for d in degraded):
                degraded.append('%s: method not found' % key)
            defs[key] = FALLBACK[key]
    return defs, degraded


def write(path):
    defs, degraded = translate()
    out = ['(* GenBounded.v — GENERATED by tools/nop2coq_bounded.py from /repo/include/nop/utility/bounded_reader.h and',
           '   bounded_writer.h on every run; do not edit.  One term of Imp.bstmt per method. *)',
           'From Nop Require Import Gen Imp.', 'Local Open Scope N_scope.', '']
    for key in FALLBACK_BUF:
        mark = '   (* degraded: outside the translated subset, defined by the pinned source\'s term *)' if any(d.startswith(key) for d in degraded) else ''
        out.append('Definition gen_%s : bstmt :=%s\n  %s.' % (key, mark, defs[key]))
    for cls in ('BufferReader', 'PedanticBufferReader'):
        out.append('Definition gen_%s_Read1_delegates : bool := %s.   (* Read(uint8_t* byte) { return Read(byte, byte + 1); } *)' % (cls, defs[cls + '_Read1_delegates']))
    for key in list(FALLBACK) + list(FALLBACK_WR):
        mark = '   (* degraded: outside the translated subset, defined by the pinned source\'s term *)' if any(d.startswith(key) for d in degraded) else ''
        out.append('Definition gen_%s : bstmt :=%s\n  %s.' % (key, mark, defs[key]))
    txt = '\n'.join(out) + '\n'
    old = open(path).read() if os.path.exists(path) else None
    if old != txt:
        with open(path, 'w') as f:
            f.write(txt)
    return degraded


if __name__ == '__main__':
    d, g = translate()
    for k in list(FALLBACK) + list(FALLBACK_BUF) + list(FALLBACK_WR) + ['BufferReader_Read1_delegates', 'PedanticBufferReader_Read1_delegates']:
        print(k, '=', d[k])
    print('degraded:', g or 'none')
