"""props_objs.py — C12 (Variant), C13 (Optional/Entry/Result/Status, comparisons,
messages), C15 (handle channel, UniqueHandle): operation histories on the real
objects (harness/objs.cpp) against the extracted state machines of Objects.v, plus
oracles that do not depend on the model."""
import itertools, os, re
from framework import *
from props_codec import *
import sx


def run_objs(pool, lines):
    return run_parallel([os.path.join(pool.dir, 'objs')], lines, env=ASAN_ENV, what='objs')


BADOUT = ('CRASH', 'HARNESS', 'EXCEPTION', 'OOM')


def histories(ctx, alphabet, setups, rnd_alphabet, kinds, exh_len, n_random, max_len):
    """exhaustive sequences of length <= exh_len after every setup, then random ones"""
    rng = ctx.rng
    seqs = []
    for L in range(1, exh_len + 1):
        for su in setups:
            for s in itertools.product(alphabet, repeat=L):
                seqs.append(list(su) + list(s))
    for _ in range(n_random):
        n = rng.randint(4, max_len)
        seqs.append([rng.choice(rnd_alphabet) for _ in range(n)])
    return [(k, s) for k in kinds for s in seqs]


def lifetime_oracle(out, alive_marks):
    """independent of the model: no protocol violation, never more destructions than
    constructions, the number of alive elements visible in the objects equals
    constructions - destructions, everything destroyed at the end"""
    toks = out.split(' ')
    i = 0
    step = 0
    while i < len(toks):
        t = toks[i]
        if t == 'skip':
            i += 1
            continue
        if t.startswith('end='):
            c, d, b = (int(x) for x in t[4:].split(':'))
            if b != 0:
                return 'protocol violation by the end (an element constructed over a live one, or destroyed / assigned while dead): end=%s' % t[4:]
            if c != d:
                return '%d elements constructed but %d destroyed once every object is gone' % (c, d)
            return None
        head, dump = t.split('|', 1)
        c, d, b = (int(x) for x in head.split(':'))
        if 'INCONSISTENT' in dump:
            return 'step %d: the observers disagree with each other (%s)' % (step, dump)
        if b != 0:
            return 'step %d: an element was constructed over a live one, or destroyed / assigned while dead (%s)' % (step, t)
        alive = sum(1 for o in dump.split(';') if (alive_marks(o) if callable(alive_marks) else o[:1] in alive_marks))
        if c - d != alive:
            return 'step %d: %d constructed - %d destroyed but %d alive elements are visible (%s)' % (step, c, d, alive, t)
        step += 1
        i += 1
    return 'no end marker'


def move_assign_oracle(line, out):
    """moving from an object by assignment leaves it empty"""
    ops = line.split(' ')[1].split(',')
    raw = out.split(' ')
    i = 0
    for op in ops:
        skipped = raw[i] == 'skip'
        tok = raw[i + 1] if skipped else raw[i]
        i += 2 if skipped else 1
        if op[0] == 'm' and not skipped:
            a, b = (int(x) for x in op[1:].split(':'))
            if a != b:
                src = tok.split('|', 1)[1].split(';')[b]
                if src != 'E':
                    return 'after the move assignment %s the source object is %s, not empty' % (op, src)
    return None


def post_state_oracle(kind):
    """what an assignment must leave in its target, read off the operation itself"""
    val = 'S' if kind in ('opt', 'ent') else 'V'

    def oracle(line, out):
        v = move_assign_oracle(line, out)
        if v:
            return v
        ops = line.split(' ')[1].split(',')
        raw = out.split(' ')
        i = 0
        prev = ['X', 'X', 'X']
        for op in ops:
            skipped = raw[i] == 'skip'
            tok = raw[i + 1] if skipped else raw[i]
            i += 2 if skipped else 1
            st = tok.split('|', 1)[1].split(';')
            if not skipped:
                a = op[1:].split(':')
                t = int(a[0])
                want = None
                if op[0] in 'vwuVMI':
                    want = val + a[1]
                elif op[0] in 'ecN':
                    want = 'E'
                elif op[0] in 'rE':
                    want = 'E' if int(a[1]) == 0 else 'R' + a[1]
                elif op[0] in 'aC' and int(a[1]) != t:
                    want = prev[int(a[1])]
                elif op[0] == 'a' and int(a[1]) == t:
                    want = prev[t]            # self copy-assignment leaves the object as it was
                elif op[0] in 'mX' and int(a[1]) != t:
                    want = prev[int(a[1])]
                if want is not None and st[t] != want:
                    return 'after %s object %d is %s; the operation must leave %s' % (op, t, st[t], want)
            prev = st
        return None
    return oracle


def run_histories(ctx, pool, cases, alive_marks, stream, what, extra_oracle=None, project=None):
    lines = ['%s %s' % (k, ','.join(s)) for k, s in cases]
    ho = run_objs(pool, lines)
    mo = run_driver(pool, lines)
    broken = []
    for line, o, m in zip(lines, ho, mo):
        ctx.count('%s:%s' % (stream, line.split(' ')[0]), line)
        if o.startswith(BADOUT):
            ctx.violate('memory-error', '%s: crashed or tripped a sanitizer: %s -> %s' % (stream, line[:200], o[:300]), {'case': line, 'output': o})
            continue
        v = lifetime_oracle(o, alive_marks) if alive_marks else None
        if not v and extra_oracle:
            v = extra_oracle(line, o)
        if v:
            ctx.violate('lifetime:' + line.split(' ')[0], '%s: %s; history: %s' % (stream, v, line[:300]), {'case': line, 'output': o, 'model': m})
        elif not m.startswith('DRIVER') and (o != m if project is None else project(o) != project(m)):
            broken.append({'case': line, 'hraw': o, 'mraw': m})
    report_broken(ctx, broken, stream, what)
    return len(lines)


# ------------------------------------------------------------------ C13 -----
def opt_alphabet(objs, vals, rich):
    ops = []
    for i in objs:
        ops += ['N%d' % i, 'D%d' % i, 'c%d' % i, 't%d' % i]
        if rich:
            ops.append('e%d' % i)
        for x in vals:
            ops += ['V%d:%d' % (i, x), 'v%d:%d' % (i, x)]
            if rich:
                ops += ['M%d:%d' % (i, x), 'I%d:%d' % (i, x), 'w%d:%d' % (i, x), 'u%d:%d' % (i, x)]
        for j in objs:
            ops += ['C%d:%d' % (i, j), 'X%d:%d' % (i, j), 'a%d:%d' % (i, j), 'm%d:%d' % (i, j)]
    return ops


def res_alphabet(objs, vals, errs, rich):
    ops = []
    for i in objs:
        ops += ['N%d' % i, 'D%d' % i, 'c%d' % i, 't%d' % i]
        for x in vals:
            ops += ['V%d:%d' % (i, x), 'v%d:%d' % (i, x)]
            if rich:
                ops += ['M%d:%d' % (i, x), 'w%d:%d' % (i, x)]
        for e in errs:
            ops += ['E%d:%d' % (i, e), 'r%d:%d' % (i, e)]
        for j in objs:
            ops += ['C%d:%d' % (i, j), 'X%d:%d' % (i, j), 'a%d:%d' % (i, j), 'm%d:%d' % (i, j)]
    return ops


def error_enumerators():
    """ErrorStatus enumerators from the header, in order (value = position)"""
    src = open(os.path.join(REPO, 'include/nop/status.h')).read()
    m = re.search(r'enum class ErrorStatus\s*\{(.*?)\};', src, re.S)
    body = re.sub(r'//[^\n]*', '', m.group(1))
    names = [x.strip().split('=')[0].strip() for x in body.split(',') if x.strip()]
    return names


def check_C13(ctx):
    proofs_or_violation(ctx, ['Properties_C13.v'], bridge=False)
    pool = get_pool()
    rng = ctx.rng
    # Optional / Entry
    setups = [[], ['N0'], ['V0:5'], ['V0:5', 'N1'], ['V0:5', 'V1:6'], ['N0', 'N1'], ['V0:5', 'V1:6', 'N2'], ['N0', 'V1:6', 'X2:1']]
    alpha = opt_alphabet([0, 1], [7], False) + ['a0:2', 'm0:2', 'm2:0', 'u0:9', 'e0', 'e1', 'w1:8', 'I2:4', 'M2:4']
    rnd = opt_alphabet([0, 1, 2], [1, 2, 3], True)
    cases = histories(ctx, alpha, setups, rnd, ['opt', 'ent'], 2 if ctx.quick else 3, 1500 if ctx.quick else 40000, 16 if ctx.quick else 40)
    n1 = run_histories(ctx, pool, cases, 'S', 'optional-histories',
                       'Optional<T>/Entry<T,Id> state and element lifetime after every step = model o_step', extra_oracle=post_state_oracle('opt'))
    # outside the model's alphabet, judged by the oracles only: assignment of a value whose copy constructor throws (T; an
    # empty target must stay empty, nothing is destroyed that was not constructed) and move-assignment from a plain
    # Optional<T> (O; the source must be left empty also when the target is an Entry)
    xl = []
    for kind in ('opt', 'ent'):
        for su in setups:
            for ops_ in (['T0:4'], ['T1:4'], ['O0:9'], ['O1:9'], ['T0:4', 'O0:9', 'T0:3'], ['O1:8', 'c1', 'T1:2', 'm0:1'], ['T2:1', 'O2:6', 'D2']):
                xl.append('%s %s' % (kind, ','.join(su + ops_)))
        for _ in range(150 if ctx.quick else 4000):
            xl.append('%s %s' % (kind, ','.join(rng.choice(rnd + ['T0:4', 'T1:5', 'T2:6', 'O0:7', 'O1:8', 'O2:9']) for _ in range(rng.randint(3, 14)))))
    xo = run_objs(pool, xl)
    for line, o in zip(xl, xo):
        ctx.count('optional-throwing-and-mixed', line)
        if o.startswith(BADOUT):
            ctx.violate('memory-error', 'optional histories with a throwing copy / a plain Optional source crashed: %s -> %s' % (line[:200], o[:300]), {'case': line, 'output': o})
            continue
        v = 'the plain Optional a value was move-assigned from still holds it' if 'SRC-NOT-EMPTIED' in o else lifetime_oracle(o.replace('SRC-NOT-EMPTIED', ''), 'S')
        if not v:
            ops_, raw, i_, prev = line.split(' ')[1].split(','), o.split(' '), 0, ['X', 'X', 'X']
            for op in ops_:
                skipped = raw[i_] == 'skip'
                tok = raw[i_ + 1] if skipped else raw[i_]
                i_ += 2 if skipped else 1
                st = tok.split('|', 1)[1].split(';')
                if not skipped and op[0] in 'TO':
                    t_, x_ = op[1:].split(':')
                    t_ = int(t_)
                    want = ('E' if prev[t_] == 'E' else 'S' + x_) if op[0] == 'T' else 'S' + x_
                    if st[t_] != want:
                        v = 'after %s object %d is %s; it must be %s' % (op, t_, st[t_], want)
                        break
                prev = st
        if v:
            ctx.violate('lifetime:opt-extra', 'optional histories (throwing copy, plain Optional source): %s; history: %s' % (v, line[:300]), {'case': line, 'output': o})
    # Result / Status
    rsetups = [[], ['N0'], ['V0:5'], ['E0:2'], ['V0:5', 'E1:1'], ['V0:5', 'V1:6'], ['E0:1', 'N1'], ['V0:5', 'E1:3', 'N2']]
    ralpha = res_alphabet([0, 1], [7], [0, 2], False) + ['a0:2', 'm0:2', 'm2:0', 'w1:8', 'M2:4', 'r2:1']
    rrnd = res_alphabet([0, 1, 2], [1, 2, 3], [0, 1, 2, 3], True)
    cases = histories(ctx, ralpha, rsetups, rrnd, ['res', 'sta'], 2 if ctx.quick else 3, 1500 if ctx.quick else 40000, 16 if ctx.quick else 40)
    n2 = run_histories(ctx, pool, cases, 'V', 'result-histories',
                       'Result<E,T>/Status<T> state and element lifetime after every step = model r_step', extra_oracle=post_state_oracle('res'))
    # the 18 comparison operators over all pairs of operand states, against the order itself
    ho = run_objs(pool, ['cmp'])[0]
    mo = run_driver(pool, ['cmp'])[0]
    ctx.count('comparisons', 'cmp')
    if ho.startswith(BADOUT) or not ho.startswith('cmp='):
        ctx.violate('memory-error', 'comparison operators crashed: %s' % ho[:300], {'case': 'cmp', 'output': ho})
    else:
        bit = lambda x: '1' if x else '0'
        key = lambda s: (0, 0) if s < 0 else (1, s)      # empty below every value
        for item in ho[4:].split(','):
            ab, bits = item.split('=')
            a, b = (int(x) for x in ab.split('/'))
            six = lambda x, y: bit(x == y) + bit(x != y) + bit(x < y) + bit(x > y) + bit(x <= y) + bit(x >= y)
            want = six(key(a), key(b)) + (six(key(a), key(b)) if b >= 0 else '------') + (six(key(a), key(b)) if a >= 0 else '------')
            if bits != want:
                names = ['==', '!=', '<', '>', '<=', '>=']
                k = next(i for i in range(18) if bits[i] != want[i])
                form = ['Optional %s Optional', 'Optional %s value', 'value %s Optional'][k // 6] % names[k % 6]
                st = lambda s: 'empty' if s < 0 else str(s)
                ctx.violate('comparison', '%s with left=%s right=%s gives %s; the order (empty < every value, else the values decide) requires %s' %
                            (form, st(a), st(b), bits[k], want[k]), {'case': 'cmp', 'pair': ab, 'bits': bits, 'expected': want})
        if mo != ho and not any(v[0] == 'comparison' for v in ctx.violations):
            report_broken(ctx, [{'case': 'cmp', 'hraw': ho, 'mraw': mo}], 'comparisons', 'the 18 operators = model oo_*/ov_*/vo_*')
    # the same order when an operand is a table Entry (derived from Optional)
    he = run_objs(pool, ['cmpe'])[0]
    ctx.count('comparisons', 'cmpe')
    if he.startswith(BADOUT) or not he.startswith('cmpe='):
        ctx.violate('memory-error', 'comparison operators with Entry operands crashed: %s' % he[:300], {'case': 'cmpe', 'output': he})
    else:
        bit = lambda x: '1' if x else '0'
        key = lambda s: (0, 0) if s < 0 else (1, s)
        for item in he[5:].split(','):
            ab, bits = item.split('=')
            a, b = (int(x) for x in ab.split('/'))
            six = bit(key(a) == key(b)) + bit(key(a) != key(b)) + bit(key(a) < key(b)) + bit(key(a) > key(b)) + bit(key(a) <= key(b)) + bit(key(a) >= key(b))
            want = six * 3 + (six if b >= 0 else '------') + (six if a >= 0 else '------')
            if bits != want:
                names = ['==', '!=', '<', '>', '<=', '>=']
                k = next(i for i in range(30) if bits[i] != want[i])
                form = ['Optional %s Entry', 'Entry %s Optional', 'Entry %s Entry', 'Entry %s value', 'value %s Entry'][k // 6] % names[k % 6]
                st = lambda s: 'empty' if s < 0 else str(s)
                ctx.violate('comparison', '%s with left=%s right=%s gives %s; the order (empty < every value, else the values decide) requires %s' %
                            (form, st(a), st(b), bits[k], want[k]), {'case': 'cmpe', 'pair': ab, 'bits': bits, 'expected': want})
    # error messages: defined for every enumerator, "Unknown Error" beyond
    names = error_enumerators()
    mo_ = run_objs(pool, ['msgs'])[0]
    ctx.count('messages', 'msgs')
    if not mo_.startswith('msgs='):
        ctx.violate('memory-error', 'GetErrorMessage crashed: %s' % mo_[:300], {'case': 'msgs', 'output': mo_})
    else:
        msgs = dict((int(x.split(':', 1)[0]), x.split(':', 1)[1]) for x in mo_[5:].split('|'))
        seen = {}
        for e, nm in enumerate(names):
            if e not in msgs:
                ctx.notes.append('the harness prints messages for codes 0..20 only; enumerator %s = %d not covered' % (nm, e))
                continue
            if msgs[e] in ('', 'Unknown Error'):
                ctx.violate('message', 'Status::GetErrorMessage() is %r for ErrorStatus::%s (%d)' % (msgs[e], nm, e), {'case': 'msgs', 'output': mo_})
            elif msgs[e] in seen:
                ctx.violate('message', 'ErrorStatus::%s and ErrorStatus::%s share the message %r' % (nm, seen[msgs[e]], msgs[e]), {'case': 'msgs', 'output': mo_})
            seen[msgs[e]] = nm
        for e in range(len(names), 21):
            if msgs.get(e) != 'Unknown Error':
                ctx.violate('message', 'code %d is not an ErrorStatus but its message is %r' % (e, msgs.get(e)), {'case': 'msgs', 'output': mo_})
    return finish_with_proofs(ctx, {'optional_entry_histories': n1, 'result_status_histories': n2, 'comparison_pairs': 16, 'error_enumerators': len(names)})


# ------------------------------------------------------------------ C12 -----
def var_alphabet(objs, alts, vals, becomes, throws):
    ops = []
    for i in objs:
        ops += ['N%d' % i, 'D%d' % i, 'e%d' % i]
        for k in alts:
            for x in vals:
                for th in throws:
                    ops += ['V%d:%d:%d:%d' % (i, k, x, th), 's%d:%d:%d:%d' % (i, k, x, th)]
        for k in becomes:
            ops.append('B%d:%d' % (i, k))
        for j in objs:
            ops += ['C%d:%d' % (i, j), 'X%d:%d' % (i, j), 'a%d:%d' % (i, j), 'm%d:%d' % (i, j)]
    return ops


def variant_post_state(line, out):
    """what an operation must leave in its target, read off the operation itself (non-throwing constructions)"""
    ops = line.split(' ')[1].split(',')
    nalt = 4 if line.startswith('varm') else 3
    raw = out.split(' ')
    i = 0
    prev = ['X', 'X', 'X']
    for op in ops:
        skipped = raw[i] == 'skip'
        tok = raw[i + 1] if skipped else raw[i]
        i += 2 if skipped else 1
        st = tok.split('|', 1)[1].split(';')
        if not skipped:
            a = op[1:].split(':')
            t = int(a[0])
            want = None
            threw = len(a) > 3 and a[3] == '1' and not (line.startswith('varm') and a[1] in ('0', '2'))
            if op[0] == 'V' and not threw:
                want = 'A%s:%s' % (a[1], a[2])
            elif op[0] == 's' and not threw:
                want = 'A%s:%s' % (a[1], a[2])
            elif op[0] in 'eN':
                want = 'E'
            elif op[0] in 'CXam' and int(a[1]) != t:
                want = prev[int(a[1])]
            elif op[0] == 'a' and int(a[1]) == t:
                want = prev[t]                # self copy-assignment leaves the object as it was
            elif op[0] == 'B':
                k = int(a[1])
                cur = prev[t]
                if cur != 'E' and cur.startswith('A') and int(cur[1:].split(':')[0]) == k:
                    want = cur
                elif cur == 'E' and k == -1:
                    want = 'E'
                elif 0 <= k < nalt:
                    want = 'A%d:0' % k
                else:
                    want = 'E'
            if want is not None and st[t] != want:
                return 'after %s object %d is %s; the operation must leave %s' % (op, t, st[t], want)
        prev = st
    return None


def check_C12(ctx):
    proofs_or_violation(ctx, ['Properties_C12.v'], bridge=False)
    pool = get_pool()
    rng = ctx.rng
    setups = [[], ['N0'], ['V0:0:5:0'], ['V0:1:5:0', 'N1'], ['V0:0:5:0', 'V1:2:6:0'], ['V0:2:5:0', 'V1:2:6:0'], ['N0', 'N1'],
              ['V0:1:5:0', 'V1:0:6:0', 'N2']]
    alpha = var_alphabet([0, 1], [0, 2], [7], [-1, 1, 3], [0]) + ['s0:1:8:1', 's1:2:8:1', 'V1:0:8:1', 'a0:2', 'm0:2', 'm2:0', 'B0:-2', 'B1:100']
    rnd = var_alphabet([0, 1, 2], [0, 1, 2], [1, 2, 3], [-2, -1, 0, 1, 2, 3, 4], [0, 0, 1])
    cases = histories(ctx, alpha, setups, rnd, ['var'], 2 if ctx.quick else 3, 3000 if ctx.quick else 80000, 16 if ctx.quick else 40)
    n = run_histories(ctx, pool, cases, 'A', 'variant-histories',
                      'Variant<Tr<0>,Tr<1>,Tr<2>> index, active element, Visit/get/is observers and element lifetime after every step = model v_step', extra_oracle=variant_post_state)
    # element move constructors that throw while a Variant is move-constructed (Y) or move-assigned (y): the exception
    # propagates (a std::terminate shows as a crash), the target of a failed construction does not exist, the target of
    # a failed assignment from another alternative is empty, the source keeps its element, lifetimes balance.
    # These operations are outside the model's alphabet: judged by the oracles only.
    tcases = []
    for su in (['V0:0:5:0'], ['V0:1:5:0', 'V1:2:6:0'], ['V0:1:5:0', 'V1:1:6:0'], ['N0', 'V1:0:3:0'], ['V0:2:4:0', 'N1']):
        for ops_ in (['Y2:0'], ['y1:0'], ['y0:1'], ['Y2:1', 'D1'], ['y1:0', 'y0:1', 'X2:0'], ['Y2:0', 'X2:0', 'y0:2'], ['y1:0', 'a1:0', 'm0:1']):
            tcases.append(su + ops_)
    for _ in range(200 if ctx.quick else 5000):
        tcases.append([rng.choice(rnd + ['Y0:1', 'Y1:0', 'Y2:0', 'Y2:1', 'y0:1', 'y1:0', 'y2:0', 'y0:2', 'y1:1']) for _ in range(rng.randint(3, 14))])
    tl_ = ['var ' + ','.join(sq) for sq in tcases]
    to_ = run_objs(pool, tl_)
    for line, o in zip(tl_, to_):
        ctx.count('variant-throwing-moves', line)
        if o.startswith(BADOUT):
            ctx.violate('memory-error', 'variant-throwing-moves: crashed, called std::terminate or tripped a sanitizer: %s -> %s' % (line[:200], o[:300]), {'case': line, 'output': o})
            continue
        v = lifetime_oracle(o, 'A')
        if not v:
            # post-states of the throwing operations
            ops_, raw, i_, prev = line.split(' ')[1].split(','), o.split(' '), 0, ['X', 'X', 'X']
            for op in ops_:
                skipped = raw[i_] == 'skip'
                tok = raw[i_ + 1] if skipped else raw[i_]
                i_ += 2 if skipped else 1
                st = tok.split('|', 1)[1].split(';')
                if not skipped and op[0] in 'Yy':
                    t_, k_ = (int(x) for x in op[1:].split(':'))
                    src = prev[k_]
                    if src != 'E' and st[k_] != src and t_ != k_ and not (op[0] == 'y' and prev[t_] != 'E' and prev[t_].split(':')[0] == src.split(':')[0]):
                        v = 'after %s the source object %d changed from %s to %s although the move threw' % (op, k_, src, st[k_])
                    elif op[0] == 'Y' and src != 'E' and st[t_] != 'X':
                        v = 'after %s (the element move constructor threw) object %d exists: %s' % (op, t_, st[t_])
                    elif op[0] == 'y' and src != 'E' and t_ != k_ and prev[t_].split(':')[0] != src.split(':')[0] and st[t_] != 'E':
                        v = 'after %s (assignment from another alternative, the element move constructor threw) object %d is %s, not empty' % (op, t_, st[t_])
                    if v:
                        break
                prev = st
        if v:
            ctx.violate('lifetime:var-throw', 'variant-throwing-moves: %s; history: %s' % (v, line[:300]), {'case': line, 'output': o})
    vb = run_objs(pool, ['varbool -'])[0]
    ctx.count('variant-bool-and-pointers', 'varbool')
    if vb != 'varbool=ok':
        ctx.violate('lifetime:varbool', 'a pointer / string literal given to a Variant with a bool alternative selects the wrong alternative '
                    '(get<T>() is non-null exactly when T is active): ' + vb[:300], {'case': 'varbool', 'output': vb})
    # a Variant whose alternatives 0 and 2 are trivially destructible (float, int) and 1 and 3 track their lifetime:
    # only the tracked ones are counted; the model is compared on which alternative is active
    malpha = var_alphabet([0, 1], [0, 1, 2, 3], [7], [-1, 1, 4], [0]) + ['s0:1:8:1', 's1:3:8:1', 'V1:3:8:1', 'a0:2', 'm0:2', 'm2:0']
    mrnd = var_alphabet([0, 1, 2], [0, 1, 2, 3], [1, 2, 3], [-2, -1, 0, 1, 2, 3, 4, 5], [0, 0, 1])
    msetups = [[], ['N0'], ['V0:1:5:0'], ['V0:3:5:0', 'N1'], ['V0:1:5:0', 'V1:2:6:0'], ['V0:0:5:0', 'V1:3:6:0'], ['V0:1:5:0', 'V1:3:6:0', 'V2:2:4:0']]
    def nothrow_trivial(seq):
        out = []
        for op in seq:
            a = op[1:].split(':')
            if op[0] in 'Vs' and len(a) > 3 and a[1] in ('0', '2'):
                a[3] = '0'
                op = op[0] + ':'.join(a)
            out.append(op)
        return out
    mcases = [(k, nothrow_trivial(sq)) for k, sq in histories(ctx, malpha, msetups, mrnd, ['varm'], 2 if ctx.quick else 3, 3000 if ctx.quick else 60000, 16 if ctx.quick else 40)]
    def active_only(out):
        toks = []
        for t in out.split(' '):
            if '|' in t:
                toks.append(';'.join(o.split(':')[0] for o in t.split('|', 1)[1].split(';')))
            elif t == 'skip':
                toks.append(t)
        return toks
    n2 = run_histories(ctx, pool, mcases, lambda o: o.startswith(('A1:', 'A3:')), 'variant-mixed-histories',
                       'Variant<float,Tr<1>,int,Tr<3>>: active alternative after every step = model v_step', project=active_only, extra_oracle=variant_post_state)
    # a Variant over CONVERTIBLE element types (Variant<float, TcA, int, TcB>; SrcA converts to TcA only, SrcB to TcB only):
    # converting construction (K) and assignment (k) from a non-alternative type, construction (O copy, P move) and
    # assignment (o copy, q move) from another Variant type Variant<SrcA, SrcB, float, int>, mixed with the ordinary
    # operations; get<I>, std::get and IfAnyOf are checked in every state.  Each operation is translated to the
    # model's operation with the same effect (which alternative, which value) and the two are compared as above.
    def conv_ops(objs, vals):
        ops = []
        for i in objs:
            for x in vals:
                for k in (1, 3):
                    ops += ['K%d:%d:%d' % (i, k, x), 'k%d:%d:%d' % (i, k, x)]
                for j in (-1, 0, 1, 2, 3):
                    ops += ['O%d:%d:%d' % (i, j, x), 'P%d:%d:%d' % (i, j, x), 'o%d:%d:%d' % (i, j, x), 'q%d:%d:%d' % (i, j, x)]
        return ops

    def to_model(op):
        c, a = op[0], op[1:].split(':')
        if c in 'Kk':
            return ('V' if c == 'K' else 's') + '%s:%s:%s:0' % (a[0], a[1], a[2])
        if c in 'OP':      # construction picks the FIRST alternative constructible from the source: an int lands in the float
            j = int(a[1])
            return 'N' + a[0] if j == -1 else 'V%s:%d:%s:0' % (a[0], {0: 1, 1: 3, 2: 0, 3: 0}[j], a[2])
        if c in 'oq':      # assignment of an alternative type assigns that alternative: an int lands in the int
            j = int(a[1])
            return 'e' + a[0] if j == -1 else 's%s:%d:%s:0' % (a[0], {0: 1, 1: 3, 2: 0, 3: 2}[j], a[2])
        return op
    calpha = conv_ops([0, 1], [7]) + var_alphabet([0, 1], [1, 2], [5], [-1, 3], [0])
    crnd = conv_ops([0, 1, 2], [1, 2, 3]) + var_alphabet([0, 1, 2], [0, 1, 2, 3], [1, 2], [-2, -1, 0, 1, 2, 3, 4], [0, 0, 1])
    csetups = [[], ['N0'], ['K0:1:5'], ['K0:3:5', 'N1'], ['V0:1:5:0', 'K1:3:6'], ['O0:2:5', 'V1:3:6:0'], ['K0:1:5', 'P1:1:6', 'V2:2:4:0']]
    ccases = [nothrow_trivial(sq) for k, sq in histories(ctx, calpha, csetups, crnd, ['varc'], 2 if ctx.quick else 3, 3000 if ctx.quick else 60000, 16 if ctx.quick else 40)]
    hl = ['varc ' + ','.join(sq) for sq in ccases]
    ml = ['varm ' + ','.join(to_model(op) for op in sq) for sq in ccases]
    # the model translates the converting operations itself (Objects.vc_to_vop with the harness's placement, extracted);
    # the Python translation above only feeds the post-state oracle, which is independent of the model
    ho, mo = run_objs(pool, hl), run_driver(pool, hl)
    cbroken = []
    for line, mline, o, m in zip(hl, ml, ho, mo):
        ctx.count('variant-convertible-histories', line)
        if o.startswith(BADOUT):
            ctx.violate('memory-error', 'variant-convertible-histories: crashed or tripped a sanitizer: %s -> %s' % (line[:200], o[:300]), {'case': line, 'output': o})
            continue
        v = lifetime_oracle(o, lambda t: t.startswith(('A1:', 'A3:'))) or variant_post_state(mline, o)
        if v:
            ctx.violate('lifetime:varc', 'variant-convertible-histories: %s; history: %s (as model operations: %s)' % (v, line[:300], mline[:300]), {'case': line, 'as_model_ops': mline, 'output': o, 'model': m})
        elif not m.startswith('DRIVER') and active_only(o) != active_only(m):
            cbroken.append({'case': line, 'hraw': o, 'mraw': m})
    report_broken(ctx, cbroken, 'variant-convertible-histories', 'Variant<float,TcA,int,TcB> with converting operations: active alternative after every step = model v_step')
    return finish_with_proofs(ctx, {'variant_histories': n, 'variant_mixed_trivial_histories': n2, 'variant_convertible_histories': len(hl)})


# ------------------------------------------------------------------ C15 -----
def uh_oracle(line, out):
    """independent of the model: every adopted resource is closed at most once, never
    after it was released, never while a living handle still owns it; at the end
    each is closed or released exactly once"""
    ops = line.split(' ')[1].split(',')
    toks = [t for t in out.split(' ') if t != 'skip']
    skips = []
    raw = out.split(' ')
    i = 0
    while i < len(raw):
        if raw[i] == 'skip':
            skips.append(True); i += 2
        else:
            skips.append(False); i += 1
    adopted = []
    lst = lambda s: [] if s == '-' else [int(x) for x in s.split(',')]
    prev = ['X', 'X', 'X']
    for op, sk, t in zip(ops, skips, toks):
        # the resource object i owned must have been closed by destruction, close() and
        # move-assignment over i, and handed out (not closed) by release()
        if not sk and op[0] in 'Dcmr':
            i = int(op[1:].split(':')[0])
            self_move = op[0] == 'm' and int(op[1:].split(':')[1]) == i
            if prev[i] != 'X' and int(prev[i]) >= 0 and not self_move:
                x = int(prev[i])
                cl, rl = lst(t.split('|')[1]), lst(t.split('|')[2])
                if op[0] == 'r' and (rl.count(x) != 1 or cl.count(x) != 0):
                    return 'after release() on the owner of %d: closed %d times, released %d times' % (x, cl.count(x), rl.count(x))
                if op[0] != 'r' and cl.count(x) != 1:
                    return 'after %s the resource %d that object %d owned has been closed %d times' % (op, x, i, cl.count(x))
                if op[0] in 'cr' and t.split('|')[0].split(';')[i] != '-1':
                    return 'after %s object %d still holds %s' % (op, i, t.split('|')[0].split(';')[i])
        prev = t.split('|')[0].split(';')
        if op[0] == 'V' and not sk:
            x = int(op[1:].split(':')[1])
            if x >= 0:
                adopted.append(x)
        objs, closed, rel = t.split('|')
        if 'INCONSISTENT' in objs:
            return 'operator bool disagrees with get() (%s)' % t
        closed, rel = lst(closed), lst(rel)
        owned = [int(o) for o in objs.split(';') if o != 'X' and int(o) >= 0]
        for x in set(adopted):
            n = owned.count(x) + closed.count(x) + rel.count(x)
            if n != adopted.count(x):
                where = 'owned by %d handles, closed %d times, released %d times' % (owned.count(x), closed.count(x), rel.count(x))
                return 'after %s: resource %d, adopted %d time(s), is %s' % (op, x, adopted.count(x), where)
        for x in closed + rel:
            if x not in adopted:
                return 'after %s: %d was closed or released but never adopted' % (op, x)
    end = toks[-1]
    if not end.startswith('end='):
        return 'no end marker'
    closed, rel = (lst(s) for s in end[4:].split('|'))
    for x in set(adopted):
        if closed.count(x) + rel.count(x) != adopted.count(x):
            return 'once every handle is gone resource %d (adopted %d time(s)) was closed %d and released %d times' % (x, adopted.count(x), closed.count(x), rel.count(x))
    return None


def canon_fields(f):
    f = dict(f)
    if 'val' in f:
        f['val'] = sx.canon_text(f['val'])
    return f


def handles_in(text):
    return [int(x) for x in re.findall(r'\(hnd (-?\d+)\)', text)]


def check_C15(ctx):
    proofs_or_violation(ctx, ['Properties_C15.v'])
    pool = get_pool()
    rng = ctx.rng
    # ---- UniqueHandle ownership histories (fresh resource numbers per adoption)
    def uh_alpha(objs):
        ops = []
        for i in objs:
            ops += ['N%d' % i, 'D%d' % i, 'c%d' % i, 'r%d' % i, 'V%d:@' % i]
            for j in objs:
                ops += ['X%d:%d' % (i, j), 'm%d:%d' % (i, j)]
        return ops
    def fresh(seq):
        out, nxt = [], 10
        for op in seq:
            if op.endswith('@'):
                out.append(op[:-1] + str(nxt)); nxt += 1
            else:
                out.append(op)
        return out
    setups = [[], ['N0'], ['V0:@'], ['V0:@', 'N1'], ['V0:@', 'V1:@'], ['V0:@', 'V1:@', 'N2'], ['V0:@', 'X1:0'], ['V0:-1', 'V1:@']]
    alpha = uh_alpha([0, 1]) + ['m0:2', 'm2:0', 'X2:0', 'V2:-1', 'V1:-5']
    rnd = uh_alpha([0, 1, 2]) + ['V0:-1', 'V1:-1', 'V2:-7']
    cases = [(k, fresh(s)) for k, s in histories(ctx, alpha, setups, rnd, ['uh'], 3 if ctx.quick else 4, 3000 if ctx.quick else 80000, 16 if ctx.quick else 40)]
    n_uh = run_histories(ctx, pool, cases, '', 'uniquehandle-histories',
                         'UniqueHandle<CountPolicy> values, Close and release() logs after every step = model h_step', extra_oracle=uh_oracle)
    # ---- the same histories over UniqueFileHandle and real descriptors (descriptor 0 first, then 10, 11, ...): every
    # ::close() the library issues is logged by the harness, descriptors left open are listed at the end
    def fresh_fd(seq):
        out, nxt = [], [0] + list(range(10, 60))
        for op in seq:
            if op.endswith('@'):
                out.append(op[:-1] + str(nxt.pop(0)))
            else:
                out.append(op)
        return out
    fseqs = [fresh_fd(s) for k, s in histories(ctx, alpha, setups, rnd, ['uh'], 2 if ctx.quick else 3, 1500 if ctx.quick else 20000, 16 if ctx.quick else 40)]
    fl = [','.join(s) for s in fseqs]
    fo = run_objs(pool, ['ufh ' + l for l in fl])
    fm = run_driver(pool, ['uh ' + l for l in fl])
    fbroken = []
    for l, o, m in zip(fl, fo, fm):
        line = 'ufh ' + l
        ctx.count('uniquefilehandle-histories', line)
        if o.startswith(BADOUT):
            ctx.violate('memory-error', 'UniqueFileHandle history crashed or tripped a sanitizer: %s -> %s' % (line[:200], o[:300]), {'case': line, 'output': o})
            continue
        body, _, leaked = o.rpartition(' leaked=')
        v = uh_oracle(line, body)
        if not v and leaked != '-':
            v = 'descriptor(s) %s were owned by a UniqueFileHandle that was destroyed, closed or assigned over, and are still open' % leaked
        if v:
            ctx.violate('lifetime:ufh', 'UniqueFileHandle histories: %s; history: %s' % (v, line[:300]), {'case': line, 'output': o, 'model': m})
        elif not m.startswith('DRIVER') and body != m:
            fbroken.append({'case': line, 'hraw': o, 'mraw': m})
    report_broken(ctx, fbroken, 'uniquefilehandle-histories', 'UniqueFileHandle values, ::close calls and release() results after every step = model h_step')
    no = run_objs(pool, ['ufhnamed -'])[0]
    ctx.count('uniquefilehandle-named-constructors', 'ufhnamed')
    if no != 'named=ok':
        ctx.violate('lifetime:ufh-named', 'UniqueFileHandle::Open / OpenAt / AsDuplicate: the returned owner does not own exactly one new descriptor and close exactly that: ' + no[:300],
                    {'case': 'ufhnamed', 'output': no})
    # ---- and over the library's own DefaultHandlePolicy (empty value -1; Close only resets): values and release() results
    dseqs = [s for s in fseqs if not any(op[0] == 'V' and int(op.split(':')[1]) < -1 for op in s)]
    dl = [','.join(s) for s in dseqs]
    do = run_objs(pool, ['udh ' + l for l in dl])
    dm = run_driver(pool, ['uh ' + l for l in dl])
    dbroken = []
    noclose = lambda out: ' '.join((t if t == 'skip' else ('end=-|' + t.split('|')[1] if t.startswith('end=') else '|'.join([t.split('|')[0], '-', t.split('|')[2]]))) for t in out.split(' '))
    for l, o, m in zip(dl, do, dm):
        line = 'udh ' + l
        ctx.count('defaultpolicy-histories', line)
        if o.startswith(BADOUT):
            ctx.violate('memory-error', 'UniqueHandle<DefaultHandlePolicy> history crashed: %s -> %s' % (line[:200], o[:300]), {'case': line, 'output': o})
        elif 'INCONSISTENT' in o:
            ctx.violate('lifetime:udh', 'UniqueHandle<DefaultHandlePolicy>: operator bool disagrees with get(); history: %s -> %s' % (line[:300], o[:200]), {'case': line, 'output': o})
        elif not m.startswith('DRIVER') and o != noclose(m):
            # moved-from / closed / released handles must be empty and release() must hand out exactly what was owned
            ctx.violate('lifetime:udh', 'UniqueHandle<DefaultHandlePolicy>: the handles or the values handed out by release() differ from the ownership history: %s -> %s, expected %s' %
                        (line[:300], o[:300], noclose(m)[:300]), {'case': line, 'output': o, 'model': m})
    # ---- the out-of-band channel: every handle-bearing type of the pool
    tids = [i for i in range(len(pool.types)) if 'handle' in pool.caps[i]]
    nvals = 40 if ctx.quick else 600
    cases = []
    for i in tids:
        seen = set()
        for _ in range(nvals):
            v = nopgen.gen_value(pool.types[i], rng)
            # distinct resource numbers so that order and multiplicity are visible
            nxt = [100]
            def renum(m):
                if rng.random() < 0.2:
                    return '(hnd -1)'
                nxt[0] += rng.choice([1, 1, 200, 70000])
                return '(hnd %d)' % nxt[0]
            v = re.sub(r'\(hnd -?\d+\)', renum, v)
            if v not in seen:
                seen.add(v); cases.append((i, v))
    enc_lines = ['enc T%d %s' % c for c in cases]
    eo = run_harness(pool, enc_lines)          # canonical dump (container iteration order) + identity channel
    work = []
    for (i, v), line, o in zip(cases, enc_lines, eo):
        ctx.count('handle-values', line)
        if o.startswith(BADOUT):
            ctx.violate('memory-error', 'encoding a value with handles crashed: %s -> %s' % (line[:200], o[:300]), {'case': line, 'output': o})
            continue
        f = sx.fields(o)
        work.append((i, f['dump'], f))
    # (0) references are whatever the writer returns — also negative ones other than the empty reference -1: with a writer
    # that returns the handle's own value as reference and a reader that resolves a reference to itself, every value comes
    # back with the same handles, inside table entries as anywhere else
    ncases = []
    for i in tids:
        for _ in range(12 if ctx.quick else 200):
            v = nopgen.gen_value(pool.types[i], rng)
            v = re.sub(r'\(hnd -?\d+\)', lambda m_: '(hnd %d)' % rng.choice([-2, -5, -128, -129, -(1 << 31) - 1, -(1 << 40), -(1 << 63), 0, 9, 127, 128, 32768, (1 << 31) - 1, 1 << 31, (1 << 31) + 5, (1 << 32) - 1, 1 << 32, 1 << 33, (1 << 63) - 1]), v)
            ncases.append((i, v))
    no_ = run_harness(pool, ['enc T%d %s' % c for c in ncases])
    back = []
    for (i, v), o in zip(ncases, no_):
        if o.startswith(BADOUT):
            continue
        f = sx.fields(o)
        if f.get('st') == '0':
            back.append((i, f['dump'], f['bytes']))
    bo_ = run_harness(pool, ['dec T%d %s -' % (i, b) for i, d, b in back])
    for (i, d, b), o in zip(back, bo_):
        line = 'dec T%d %s -' % (i, b)
        ctx.count('identity-channel-any-reference', line)
        f = sx.fields(o) if not o.startswith(BADOUT) else {}
        if f.get('st') != '0' or not val_eq(f.get('val'), d):
            ctx.violate('reference-not-resolved', 'a value whose handles travel under arbitrary references does not come back through a reader that resolves them: '
                        'wrote %s as %s, read %s' % (d[:160], b[:80], o[:160]), {'type': type_desc(pool, i), 'value': d, 'bytes': b, 'output': o})
    # (a) table channel + call log on the implementation and on the model
    tl = ['tenc T%d %s' % (i, d) for i, d, _ in work]
    fl = ['fenc T%d - 0 %s' % (i, d) for i, d, _ in work]
    th, tm = run_harness(pool, tl), run_driver(pool, tl)
    fh, fm = run_harness(pool, fl), run_driver(pool, fl)
    broken = []
    dec_items = []
    for (i, d, f), line, o, m, fline, fo, fmo in zip(work, tl, th, tm, fl, fh, fm):
        ctx.count('table-channel-write', line)
        if o.startswith(BADOUT) or fo.startswith(BADOUT):
            ctx.violate('memory-error', 'writing handles crashed: %s -> %s' % (line[:200], (o + ' ' + fo)[:300]), {'case': line, 'output': o})
            continue
        g, fg = sx.fields(o), sx.fields(fo)
        hs = handles_in(d)
        if g['st'] != '0' or fg['st'] != '0':
            ctx.violate('handle-write-failed', 'writing %s failed with status %s' % (d[:200], g['st']), {'case': line, 'output': o})
            continue
        pushed = [int(c[1:]) for c in (fg['log'].split(',') if fg['log'] != '-' else []) if c.startswith('H')]
        if pushed != hs:
            ctx.violate('push-order', 'the value holds the handles %s (encounter order) but PushHandle was called with %s: %s' % (hs, pushed, line[:200]),
                        {'case': fline, 'output': fo, 'expected_pushes': hs})
            continue
        table = [] if g['handles'] == '-' else [int(x) for x in g['handles'].split(',')]
        if table != [h for h in hs if h >= 0]:
            ctx.violate('push-order', 'the out-of-band table received %s, the valid handles of the value in encounter order are %s: %s' % (table, [h for h in hs if h >= 0], line[:200]),
                        {'case': line, 'output': o})
            continue
        if not m.startswith('DRIVER') and sx.fields(m) != g:
            broken.append({'case': line, 'hraw': o, 'mraw': m})
        if not fmo.startswith('DRIVER') and sx.fields(fmo) != fg:
            broken.append({'case': fline, 'hraw': fo, 'mraw': fmo})
        dec_items.append((i, d, g['bytes'], g['handles'], table))
    report_broken(ctx, broken, 'table-channel-write', 'Serializer::Write over the table channel (bytes, table, call log) = model enc over tlw_ops / inst_wops')
    # (b) read back through the table channel; then corrupt the table, the references and the type tags
    dl, meta = [], []
    for i, d, hx, hstr, table in dec_items:
        dl.append('tdec T%d %s %s' % (i, hx, hstr)); meta.append(('roundtrip', i, d, table))
        if table:
            # a table that is one entry short: the last reference cannot be resolved
            short = ','.join(str(x) for x in table[:-1]) or '-'
            dl.append('tdec T%d %s %s' % (i, hx, short)); meta.append(('short-table', i, d, table))
            # other resources behind the same references
            other = ','.join(str(x + 1000000) for x in table)
            dl.append('tdec T%d %s %s' % (i, hx, other)); meta.append(('other-table', i, d, table))
        for _, mh in mutations(hx, rng, 6 if ctx.quick else 40):
            dl.append('tdec T%d %s %s' % (i, mh, hstr)); meta.append(('mutated', i, d, table))
    dh, dm = run_harness(pool, dl), run_driver(pool, dl)
    broken = []
    for line, (kind, i, d, table), o, m in zip(dl, meta, dh, dm):
        ctx.count('table-channel-read:' + kind, line)
        if o.startswith(BADOUT):
            ctx.violate('memory-error', 'reading handles crashed: %s -> %s' % (line[:200], o[:300]), {'case': line, 'output': o})
            continue
        g = sx.fields(o)
        norm = lambda s: re.sub(r'\(hnd -\d+\)', '(hnd -1)', sx.canon_text(s))
        if kind == 'roundtrip':
            if g['st'] != '0' or norm(g['val']) != norm(d):
                ctx.violate('handle-roundtrip', 'a value with handles did not come back through the out-of-band table: wrote %s, read %s' % (d[:200], (g.get('val') or 'status ' + g['st'])[:200]),
                            {'case': line, 'output': o, 'written': d})
                continue
        elif kind == 'short-table':
            if g['st'] == '0':
                ctx.violate('handle-resolution', 'the reference to table slot %d cannot be resolved (the table has %d entries) but the read succeeded: %s' % (len(table) - 1, len(table) - 1, line[:200]),
                            {'case': line, 'output': o})
                continue
            if g['st'] != '8':
                ctx.violate('handle-resolution', 'the reader answered InvalidHandleReference (8) for an unresolvable reference, the read returned status %s: %s' % (g['st'], line[:200]),
                            {'case': line, 'output': o})
                continue
        elif kind == 'other-table':
            want = re.sub(r'\(hnd (\d+)\)', lambda mm: '(hnd %d)' % (int(mm.group(1)) + 1000000), norm(d))
            if g['st'] != '0' or norm(g['val']) != want:
                ctx.violate('handle-resolution', 'the handles read are not what the reader resolved the references to: expected %s, read %s' % (want[:200], (g.get('val') or 'status ' + g['st'])[:200]),
                            {'case': line, 'output': o})
                continue
        if not m.startswith('DRIVER') and canon_fields(sx.fields(m)) != canon_fields(g):
            broken.append({'case': line, 'hraw': o, 'mraw': m})
    report_broken(ctx, broken, 'table-channel-read', 'Deserializer::Read over the table channel (status, value, bytes consumed) = model dec over tlr_ops')
    # (b') the reader fails to resolve a reference: whatever error it reports comes back unchanged
    gl, gmeta = [], []
    for i, d, hx, hstr, table in dec_items[: (150 if ctx.quick else 4000)]:
        gl.append('fdec T%d - 0 %s %s' % (i, hx, hstr)); gmeta.append((i, hx, hstr, None))
    go = run_harness(pool, gl)
    gl2, gmeta2 = [], []
    for line, (i, hx, hstr, _), o in zip(gl, gmeta, go):
        if o.startswith(BADOUT):
            continue
        log = sx.fields(o).get('log', '-')
        calls = log.split(',') if log != '-' else []
        for kk, c in enumerate(calls):
            if c.startswith('G'):
                code = rng.choice([2, 8, 9, 12, 14, 15, 16, 17, 18])
                gl2.append('fdec T%d %d %d %s %s' % (i, kk, code, hx, hstr)); gmeta2.append((kk, code))
    go2 = run_harness(pool, gl2)
    for line, (kk, code), o in zip(gl2, gmeta2, go2):
        ctx.count('gethandle-fault', line)
        g = sx.fields(o) if not o.startswith(BADOUT) else {'st': 'crash'}
        if g.get('st') != str(code):
            ctx.violate('handle-resolution', 'GetHandle (reader call %d) failed with %d but the read returned status %s: %s' % (kk, code, g.get('st'), line[:200]), {'case': line, 'output': o})
    # (c) a wrong type tag on a single handle is UnexpectedHandleType, before the reference is resolved
    tag_lines = []
    for i in tids:
        t = pool.types[i]
        if t[0] == 'hnd':
            signed = t[2].startswith('i')
            for wrong in (t[3] + 1, 0 if t[3] else 5, 200, 100):
                if wrong == t[3]:
                    continue
                # a tag of the policy's own integer type: unsigned classes for unsigned types, a signed class otherwise
                if signed:
                    tagb = [wrong] if 0 <= wrong < 128 else [0x86] + list((wrong & 0xffffffff).to_bytes(4, 'little')) if t[2] in ('i32', 'i64') else [0x85] + list((wrong & 0xffff).to_bytes(2, 'little'))
                else:
                    tagb = enc_uint(wrong)
                tag_lines.append((i, 'fdec T%d - 0 b7%s00 -' % (i, ''.join('%02x' % b for b in tagb))))
    if tag_lines:
        to = run_harness(pool, [l for _, l in tag_lines])
        tmo = run_driver(pool, [l for _, l in tag_lines])
        for (i, line), o, m in zip(tag_lines, to, tmo):
            ctx.count('wrong-tag', line)
            g = sx.fields(o) if not o.startswith(BADOUT) else {'st': 'crash', 'log': ''}
            if g['st'] != '2' or any(c.startswith('G') for c in g.get('log', '').split(',')):
                ctx.violate('handle-tag', 'a handle with a foreign type tag must be UnexpectedHandleType (2) without resolving any reference: %s -> %s' % (line, o[:200]), {'case': line, 'output': o})
            elif not m.startswith('DRIVER') and sx.fields(m) != g:
                report_broken(ctx, [{'case': line, 'hraw': o, 'mraw': m}], 'wrong-tag', 'tag check = model decp THnd')
    return finish_with_proofs(ctx, {'uniquehandle_histories': n_uh, 'handle_types': len(tids), 'values_with_handles': len(work)})


def enc_uint(n):
    if n < 128: return [n]
    if n < 256: return [0x80, n]
    if n < 65536: return [0x81] + list(n.to_bytes(2, 'little'))
    if n < 2 ** 32: return [0x82] + list(n.to_bytes(4, 'little'))
    return [0x83] + list(n.to_bytes(8, 'little'))


# ------------------------------------------------------------------ C14 -----
def sel_enc(n, b32):
    return ''.join('%02x' % b for b in enc_uint(n))


def parse_actions(out):
    return [sx.fields(a) for a in out.split(' | ')]


def std_map_order(text):
    """a value as the caller's std::map will iterate it: entries sorted by key"""
    def fix(x):
        if isinstance(x, str):
            return x
        y = [fix(e) for e in x]
        if y and y[0] == 'map':
            key = lambda kv: (0, int(kv[0])) if isinstance(kv[0], str) and kv[0].lstrip('-').isdigit() else (1, sx.show(kv[0]))
            return ['map'] + sorted(y[1:], key=key)
        return y
    p = sx.parse(text)
    return sx.show(fix(p[0])) if p else text


def canon_log(log):
    if log == '-':
        return log
    out = []
    for e in log.split('+'):
        i, ps, args = e.split(':', 2)
        out.append('%s:%s:%s' % (i, ps, args if args == '-' else ';'.join(sx.canon_text(x) for x in args.split(';'))))
    return '+'.join(out)


def canon_action(a):
    a = dict(a)
    a.pop('wcalls', None); a.pop('waited', None); a.pop('rcalls', None)      # harness-only observations (C10, C14)
    a['log'] = canon_log(a.get('log', '-'))
    if a.get('inv', '-').startswith('0:'):
        a['inv'] = '0:' + sx.canon_text(a['inv'][2:])
    return a


def check_C14(ctx):
    import rpcgen
    proofs_or_violation(ctx, ['Properties_C14.v'])
    pool = get_pool()
    rng = ctx.rng
    ifaces, sets = rpcgen.interfaces(pool.types)
    perr = os.path.join(pool.dir, 'rpcp.err')
    if os.path.exists(perr):
        ctx.violate('passthrough-build', 'handlers taking passthrough arguments before the protocol arguments do not compile against /repo (see the replay for the compiler output)',
                    {'program': os.path.join(pool.dir, 'rpcp.cpp'), 'compiler_output': open(perr).read()[-3000:]})
    gv = lambda t: std_map_order(nopgen.gen_value(pool.types[t], rng))
    canon = sx.canon_text

    def binary(pk):
        return 'rpc' if pk in ('none', 'inst') else 'rpcp'
    cases = []      # (set index, line, [action meta])
    ncalls = 4 if ctx.quick else 10
    nseq = 60 if ctx.quick else 1500
    for s, (k, pk, bs) in enumerate(sets):
        if binary(pk) == 'rpcp' and os.path.exists(perr):
            continue
        f = ifaces[k]
        bound = {m: (bi, hats) for bi, (m, kind, hats) in enumerate(bs)}
        for _ in range(nseq):
            tag = rng.choice([0, 1, 7, 12345]) if pk in ('tag', 'insttag') else -1
            acts, meta = [], []
            n = rng.randint(1, ncalls)
            for c in range(n):
                m = rng.randrange(len(f['methods']))
                nm, sel, rt, ats, alt = f['methods'][m]
                use_alt = alt is not None and rng.random() < 0.5
                # values are drawn under the handler's own argument types when they differ from the protocol's
                # (an array<int,3> handler accepts only three elements), which are valid for the caller's types too
                tys = alt if use_alt else (bound[m][1] if m in bound else ats)
                args = [gv(t) for t in tys]
                ret = gv(rt)
                acts.append('%s %d %s%s' % ('J' if use_alt else 'I', m, ret, ''.join(' ' + a for a in args)))
                meta.append({'m': m, 'args': args, 'ret': ret, 'bound': m in bound, 'idx': bound.get(m, (None,))[0]})
                if m not in bound:
                    break                      # an unbound call leaves its arguments unread: the connection is out of frame
            cases.append((s, 'rpc %d %d %d | %s' % (k, s, tag, ' | '.join(acts)), meta, tag))
    by_bin = {'rpc': [], 'rpcp': []}
    for c in cases:
        by_bin[binary(sets[c[0]][1])].append(c)
    results = []
    for b, cs in by_bin.items():
        if not cs:
            continue
        ho = run_parallel([os.path.join(pool.dir, b)], [c[1] for c in cs], env=ASAN_ENV, what=b)
        mo = run_driver(pool, [c[1] for c in cs])
        results += list(zip(cs, ho, mo))
    broken = []
    valid_requests = []
    for (s, line, meta, tag), o, m in results:
        k, pk, bs = sets[s]
        ctx.count('call-sequences:set%d' % s, line)
        if o.startswith(BADOUT) or o.startswith('UNAVAILABLE'):
            ctx.violate('memory-error', 'RPC harness crashed or tripped a sanitizer: %s -> %s' % (line[:200], o[:300]), {'case': line, 'output': o})
            continue
        acts = parse_actions(o)
        passr = {'none': '-', 'inst': 'k', 'tag': 't%d' % tag, 'insttag': 'kt%d' % tag}[pk]
        bad = None
        for j, (a, mt) in enumerate(zip(acts, meta)):
            nm = ifaces[k]['methods'][mt['m']][0]
            if mt['bound']:
                want_log = '%d:%s:%s' % (mt['idx'], passr, ';'.join(canon(x) for x in mt['args']) or '-')
                got_log = '+'.join(':'.join(e.split(':', 2)[:2]) + ':' + (';'.join(canon(x) for x in split_top(e.split(':', 2)[2])) if e.split(':', 2)[2] != '-' else '-')
                                   for e in a['log'].split('+')) if a['log'] != '-' else '-'
                if a['disp'] != '0':
                    bad = 'call %d (%s): the dispatcher returned status %s for a bound method and a well-formed request' % (j, nm, a['disp'])
                elif got_log != want_log:
                    bad = 'call %d (%s): handlers invoked: %s; expected exactly %s' % (j, nm, a['log'][:200], want_log[:200])
                elif a['inv'] != '0:' + canon(mt['ret']) and canon(a['inv'][2:]) != canon(mt['ret']):
                    bad = 'call %d (%s): the handler returned %s but Invoke returned %s' % (j, nm, mt['ret'][:120], a['inv'][:120])
                elif a['left'] != '0' or a['unread'] != '0' or a['rep'] == '-':
                    bad = 'call %d (%s): out of frame after a successful call: %s request bytes unconsumed, %s reply bytes unread, reply %s' % (j, nm, a['left'], a['unread'], a['rep'][:40])
                else:
                    valid_requests.append((s, tag, mt, a['req']))
            else:
                if a['disp'] != '10' or a['log'] != '-' or a['rep'] != '-' or a['inv'].startswith('0:'):
                    bad = 'call %d (%s, not bound in this dispatch table): status %s (InvalidInterfaceMethod is 10), handlers run: %s, reply bytes: %s, Invoke: %s' % (j, nm, a['disp'], a['log'][:80], a['rep'][:40], a['inv'][:40])
            if bad:
                break
        if bad:
            ctx.violate('dispatch', '%s; %s' % (bad, line[:300]), {'case': line, 'output': o, 'model': m})
        elif not m.startswith('DRIVER') and [canon_action(x) for x in parse_actions(m)] != [canon_action(x) for x in acts]:
            broken.append({'case': line, 'hraw': o, 'mraw': m})
    report_broken(ctx, broken, 'call-sequences', 'Invoke / dispatch over a byte pipe (status, handler log, request and reply bytes, framing) = model send_request / dispatch / get_return')
    # ---- many selector values, truncations and corruptions of valid requests
    rng.shuffle(valid_requests)
    lines2 = []
    for s, tag, mt, hx in valid_requests[:150 if ctx.quick else 3000]:
        k, pk, bs = sets[s]
        f = ifaces[k]
        ret = mt['ret']
        pre = 'rpc %d %d %d | ' % (k, s, tag)
        for kind, mh in mutations(hx, rng, 10 if ctx.quick else 60):
            lines2.append((s, pre + 'R %s %s' % (ret, mh), kind))
        # the same arguments under other selectors: neighbours, 32/64-bit boundaries, random
        selbytes = None
        for cand in (1, 2, 3, 5, 9):
            if hx[:2] in ('80', '81', '82', '83') and False:
                pass
        body = hx[{'83': 18, '82': 10, '81': 6, '80': 4}.get(hx[:2], 2):]
        for v in [0, 1, 6, 7, 8, 127, 128, 255, 65535, 2 ** 32 - 16, 2 ** 32 - 1, 2 ** 32, 2 ** 64 - 16, 2 ** 64 - 1, rng.getrandbits(64), rng.getrandbits(32)]:
            lines2.append((s, pre + 'R %s %s%s' % (ret, sel_enc(v, f['sel32']), body), 'selector'))
        if f['sel32'] and hx[:2] in ('82', '81', '80') or (f['sel32'] and int(hx[:2], 16) < 0x80):
            # a 32-bit interface: the bound selector itself, written in the U64 class with and without high bits set
            own = int.from_bytes(bytes.fromhex(hx[2:{'82': 10, '81': 6, '80': 4}.get(hx[:2], 2)]), 'little') if hx[:2] in ('82', '81', '80') else int(hx[:2], 16)
            for hi in (0, 1, 0x7fffffff, 0xffffffff):
                wide = '83' + (own | (hi << 32)).to_bytes(8, 'little').hex()
                lines2.append((s, pre + 'R %s %s%s' % (ret, wide, body), 'selector-too-wide'))
    res2 = []
    for b in ('rpc', 'rpcp'):
        cs = [c for c in lines2 if binary(sets[c[0]][1]) == b]
        if cs:
            ho = run_parallel([os.path.join(pool.dir, b)], [c[1] for c in cs], env=ASAN_ENV, what=b)
            mo = run_driver(pool, [c[1] for c in cs])
            res2 += list(zip(cs, ho, mo))
    broken = []
    for (s, line, kind), o, m in res2:
        ctx.count('raw-requests:set%d' % s, line)
        if o.startswith(BADOUT):
            ctx.violate('memory-error', 'RPC harness crashed or tripped a sanitizer: %s -> %s' % (line[:200], o[:300]), {'case': line, 'output': o})
            continue
        a = parse_actions(o)[-1]
        nlog = 0 if a['log'] == '-' else len(a['log'].split('+'))
        if kind == 'selector-too-wide' and (a['disp'] == '0' or a['log'] != '-' or a['rep'] != '-'):
            ctx.violate('dispatch', 'a selector encoded in a class wider than the interface\'s 32-bit selector type must be rejected without running a handler: status %s, log=%s, rep=%s; %s' %
                        (a['disp'], a['log'][:100], a['rep'][:40], line[:300]), {'case': line, 'output': o, 'model': m})
        elif kind == 'trunc' and (a['disp'] == '0' or a['log'] != '-' or a['rep'] != '-'):
            ctx.violate('dispatch', 'a truncated request must be rejected with the decode error, run no handler and send nothing back: status %s, log=%s, rep=%s; %s' % (a['disp'], a['log'][:100], a['rep'][:40], line[:300]),
                        {'case': line, 'output': o, 'model': m})
        elif a['disp'] != '0' and (a['log'] != '-' or a['rep'] != '-'):
            ctx.violate('dispatch', 'a rejected request (status %s) ran a handler or produced reply bytes: log=%s rep=%s; %s' % (a['disp'], a['log'][:100], a['rep'][:40], line[:300]), {'case': line, 'output': o, 'model': m})
        elif a['disp'] == '0' and (nlog != 1 or a['rep'] == '-'):
            ctx.violate('dispatch', 'an accepted request ran %d handlers and replied %s; %s' % (nlog, a['rep'][:40], line[:300]), {'case': line, 'output': o, 'model': m})
        elif not m.startswith('DRIVER'):
            fm = canon_action(parse_actions(m)[-1])
            a = canon_action(a)
            keys = ['disp', 'log', 'rep'] + (['left'] if a['disp'] == '0' else [])
            if any(fm.get(x) != a.get(x) for x in keys):
                broken.append({'case': line, 'hraw': o, 'mraw': m})
    report_broken(ctx, broken, 'raw-requests', 'dispatch of arbitrary request bytes (status, handler log, reply bytes) = model dispatch')
    # ---- the reply cannot be sent: the dispatcher must report exactly the writer's error (and the caller gets no value)
    rf = []
    for s, tag, mt, hx in valid_requests[:60 if ctx.quick else 1500]:
        k, pk, bs = sets[s]
        base = 'rpc %d %d %d | ' % (k, s, tag)
        call = '%d %s%s' % (mt['m'], mt['ret'], ''.join(' ' + a for a in mt['args']))
        rf.append((s, base + 'I ' + call, None, None, mt))
    res3 = []
    for b in ('rpc', 'rpcp'):
        cs = [c for c in rf if binary(sets[c[0]][1]) == b]
        if cs:
            ho = run_parallel([os.path.join(pool.dir, b)], [c[1] for c in cs], env=ASAN_ENV, what=b)
            res3 += list(zip(cs, ho))
    rf2 = []
    for (s, line, _, _, mt), o in res3:
        if o.startswith(BADOUT):
            continue
        n = int(parse_actions(o)[0].get('rcalls', '0'))
        k, pk, bs = sets[s]
        tagv = line.split(' ')[3]
        for kk in range(n):
            code = rng.choice([13, 14, 15, 16, 17, 18])
            rf2.append((s, 'rpc %d %d %s | Y %d %d %d %s%s' % (k, s, tagv, kk, code, mt['m'], mt['ret'], ''.join(' ' + a for a in mt['args'])), kk, code))
    for b in ('rpc', 'rpcp'):
        cs = [c for c in rf2 if binary(sets[c[0]][1]) == b]
        if not cs:
            continue
        ho = run_parallel([os.path.join(pool.dir, b)], [c[1] for c in cs], env=ASAN_ENV, what=b)
        for (s, line, kk, code), o in zip(cs, ho):
            ctx.count('reply-writer-fault:set%d' % s, line)
            if o.startswith(BADOUT):
                ctx.violate('memory-error', 'RPC harness crashed under a reply-writer fault: %s -> %s' % (line[:200], o[:300]), {'case': line, 'output': o})
                continue
            a = parse_actions(o)[0]
            if a['disp'] != str(code):
                ctx.violate('dispatch', 'the reply writer failed with %d at its call %d but the dispatcher returned status %s: %s' % (code, kk, a['disp'], line[:300]), {'case': line, 'output': o})
    # InterfaceBindings::Match answers "is a handler bound to this selector" for every selector of the interface and two
    # foreign ones; GetInterfaceName returns the declared name
    for s, (k, pk, bs) in enumerate(sets):
        b = binary(pk)
        if b == 'rpcp' and os.path.exists(perr):
            continue
        line = 'rpc %d %d %d | M' % (k, s, 0 if pk in ('tag', 'insttag') else -1)
        o = run_parallel([os.path.join(pool.dir, b)], [line], env=ASAN_ENV, what=b)[0]
        ctx.count('match-and-name:set%d' % s, line)
        bound = {m for m, kind, hats in bs}
        want = ''.join('1' if m in bound else '0' for m in range(len(ifaces[k]['methods']))) + '00'
        f = sx.fields(o) if not o.startswith(BADOUT) else {}
        if f.get('match') != want or f.get('iname') != ifaces[k]['name'].encode().hex():
            ctx.violate('match', 'dispatch table %d of interface %r: Match over its selectors and two foreign ones gives %s (bound methods: %s), GetInterfaceName gives %s: %s' %
                        (s, ifaces[k]['name'], f.get('match'), want, f.get('iname'), o[:200]), {'case': line, 'output': o, 'expected_match': want})
    return finish_with_proofs(ctx, {'interfaces': len(ifaces), 'dispatch_tables': len(sets), 'call_sequences': len(cases), 'raw_requests': len(lines2), 'reply_writer_faults': len(rf2)})


def split_top(s):
    """splits 'a;b;c' at top level (no nesting-aware need: values never contain ';')"""
    return s.split(';')


# ------------------------------------------------------------------ C19 -----
def library_static_storage(binary):
    """writable objects with static or thread storage duration that belong to the library, as linked into a binary:
    data symbols (local, global, weak / COMDAT — a static local of an inline or template function is a weak object, and
    GNU unique) whose section is writable"""
    r = run(['nm', '-C', '-f', 'sysv', binary], timeout=300)
    out = []
    for l in r.stdout.splitlines():
        p = l.split('|')
        if len(p) < 7:
            continue
        name, cls, sect = p[0].strip(), p[2].strip(), p[6].strip()
        if cls not in ('b', 'B', 'd', 'D', 'V', 'v', 'u') or not sect.startswith(('.bss', '.data', '.tbss', '.tdata')) or sect.startswith('.data.rel.ro'):
            continue
        if name.startswith(('typeinfo', 'vtable', 'VTT', 'construction vtable')):
            continue
        base = name[len('guard variable for '):] if name.startswith('guard variable for ') else name
        if base.startswith('nop::'):
            out.append(name)
    return out


def check_C19(ctx):
    proofs_or_violation(ctx, ['Properties_C19.v'], bridge=False)
    pool = get_pool()
    rng = ctx.rng
    # ---- no static state in the library other than ThreadLocal's cell
    allowed = re.compile(r'^(guard variable for )?nop::ThreadLocal<.*>::GetValue\(\)::value(\[abi:cxx11\])?$')
    nstat = 0
    for b in ('thr', 'harness', 'rpc', 'rpcp', 'objs', 'prim'):
        path = os.path.join(pool.dir, b)
        if not os.path.exists(path):
            continue
        for name in library_static_storage(path):
            nstat += 1
            ctx.count('static-storage', name)
            if not allowed.match(name):
                ctx.violate('static-state', 'the library keeps an object with static storage duration that is shared by every thread: %s (in %s)' % (name[:300], b),
                            {'binary': path, 'symbol': name})
    # ---- N threads under ThreadSanitizer, compared with a sequential run and with the model
    def script(n):
        ops = []
        for _ in range(n):
            k = rng.random()
            s = rng.randrange(8)
            if k < 0.12: ops.append('N%d:%d' % (s, rng.randrange(1, 1000)))
            elif k < 0.20: ops.append('I%d:%d' % (s, rng.randrange(1, 1000)))
            elif k < 0.26: ops.append('J%d:%d' % (s, rng.randrange(1, 1000)))
            elif k < 0.50: ops.append('G%d' % s)
            elif k < 0.60: ops.append('S%d:%d' % (s, rng.randrange(1, 1000)))
            elif k < 0.68: ops.append('C%d' % s)
            elif k < 0.76: ops.append('E%d' % rng.randrange(0, 64))
            elif k < 0.82: ops.append('F%d' % rng.randrange(0, 64))
            elif k < 0.90: ops.append('T%d' % rng.randrange(0, 64))
            else: ops.append('R%d' % rng.randrange(0, 64))
        return ','.join(ops)
    lines = []
    for _ in range(40 if ctx.quick else 4000):
        nt = rng.choice([2, 3, 4, 8])
        sc = ';'.join(script(rng.randint(4, 30 if ctx.quick else 80)) for _ in range(nt))
        for seed in range(3 if ctx.quick else 6):
            lines.append('thr %d %s' % (rng.randrange(1, 1 << 30), sc))
    env = dict(os.environ)
    env['TSAN_OPTIONS'] = 'halt_on_error=1 exitcode=66 second_deadlock_stack=1'
    ho = run_parallel([os.path.join(pool.dir, 'thr')], lines, env=env, what='thr')
    mo = run_driver(pool, lines)
    broken = []
    for line, o, m in zip(lines, ho, mo):
        ctx.count('threaded-scripts', line)
        if o.startswith(BADOUT) or not o.startswith('conc='):
            ctx.violate('data-race', 'ThreadSanitizer report or crash while %d threads ran their own objects: %s -> %s' % (line.split(' ')[2].count(';') + 1, line[:200], o[:600]),
                        {'case': line, 'output': o})
            continue
        f = sx.fields(o)
        if f['conc'] != f['seq']:
            ct, st = f['conc'].split(';'), f['seq'].split(';')
            i = next(k for k in range(len(ct)) if ct[k] != st[k])
            ctx.violate('schedule-dependent', 'thread %d observed %s when run concurrently but %s when the threads run one after the other; %s' % (i, ct[i][:200], st[i][:200], line[:200]),
                        {'case': line, 'output': o})
            continue
        def good(op, x):
            if not x[2:].startswith('ok:'):
                return False
            if x[0] in 'ETF':
                return x.endswith(':same')
            n = int(op[1:])
            return x == ('R:ok:%d' % (2 * n + 1) if n % 2 else 'R:ok:a%db' % n)
        notok = []
        for sc_, t in zip(line.split(' ')[2].split(';'), f['conc'].split(';')):
            ops_ = [o_ for o_ in sc_.split(',') if o_ and (o_[0] in 'ETRFG')]
            for o_, x in zip(ops_, t.split(',') if t != '-' else []):
                if o_[0] in 'ETRF' and not good(o_, x):
                    notok.append(x)
        if notok:
            ctx.violate('thread-result', 'a thread working on its own objects got %s (the same operation succeeds when nothing else runs); %s' % (notok[0][:160], line[:200]), {'case': line, 'output': o})
            continue
        tl = ';'.join(','.join(x for x in t.split(',') if x.startswith('G:')) or '-' for t in f['conc'].split(';'))
        # what the property itself says each thread must see: its own cells only, first initialisation wins until Clear
        want = []
        for sc in line.split(' ')[2].split(';'):
            cells, obs = {}, []
            for op in sc.split(','):
                if not op or op[0] not in 'NIJGSC':
                    continue
                a = op[1:].split(':')
                sl = int(a[0])
                if op[0] in 'NIJ':
                    cells.setdefault(sl, int(a[1]))
                elif op[0] == 'S':
                    if sl in cells:
                        cells[sl] = int(a[1])
                elif op[0] == 'C':
                    cells.pop(sl, None)
                else:
                    obs.append('G:%s' % (cells[sl] if sl in cells else 'none'))
            want.append(','.join(obs) or '-')
        if tl != ';'.join(want):
            i = next(k for k in range(len(want)) if tl.split(';')[k] != want[k])
            ctx.violate('threadlocal', 'thread %d read %s from its ThreadLocal cells; with per-thread, per-(T,Slot) cells and first-initialisation-wins it must read %s; %s' %
                        (i, tl.split(';')[i][:200], want[i][:200], line[:200]), {'case': line, 'output': o, 'expected': ';'.join(want)})
            continue
        if not m.startswith('DRIVER') and m != 'tl=' + tl:
            broken.append({'case': line, 'hraw': 'tl=' + tl, 'mraw': m})
    report_broken(ctx, broken, 'threadlocal', 'ThreadLocal<T,Slot>::Get() observations of every thread = model trun / view')
    return finish_with_proofs(ctx, {'threaded_runs': len(lines), 'library_static_objects_seen': nstat})


# ------------------------------------------------ C10: the RPC sender under writer faults -----
def rpc_sender_faults(ctx):
    """SimpleMethodSender::SendMethod over a writer that fails at its k-th call: Invoke returns exactly that error,
    the writer sees no further call and the reply is never waited for"""
    import rpcgen
    pool = get_pool()
    rng = ctx.rng
    ifaces, sets = rpcgen.interfaces(pool.types)
    gv = lambda t: std_map_order(nopgen.gen_value(pool.types[t], rng))
    probes = []
    for s, (k, pk, bs) in enumerate(sets):
        if pk not in ('none', 'inst'):
            continue
        for m, kind, hats in bs:
            nm, sel, rt, ats, alt = ifaces[k]['methods'][m]
            for _ in range(2 if ctx.quick else 12):
                probes.append((k, s, m, gv(rt), [gv(t) for t in hats]))
    exe = os.path.join(pool.dir, 'rpc')
    base = ['rpc %d %d -1 | I %d %s%s' % (k, s, m, ret, ''.join(' ' + a for a in args)) for k, s, m, ret, args in probes]
    bo = run_parallel([exe], base, env=ASAN_ENV, what='rpc')
    lines, meta = [], []
    for (k, s, m, ret, args), o in zip(probes, bo):
        if o.startswith(BADOUT):
            continue
        n = int(parse_actions(o)[0].get('wcalls', '0'))
        for kk in range(n):
            code = rng.choice([12, 13, 14, 15, 16, 17, 18])
            lines.append('rpc %d %d -1 | X %d %d %d %s%s' % (k, s, kk, code, m, ret, ''.join(' ' + a for a in args)))
            meta.append((kk, code, n))
    ho = run_parallel([exe], lines, env=ASAN_ENV, what='rpc')
    for line, (kk, code, n), o in zip(lines, meta, ho):
        ctx.count('rpc-sender-fault', line)
        if o.startswith(BADOUT):
            ctx.violate('memory-error', 'RPC sender crashed under a writer fault: %s -> %s' % (line[:200], o[:300]), {'case': line, 'output': o})
            continue
        a = parse_actions(o)[0]
        if a['inv'] != '%d:-' % code:
            ctx.violate('rpc-sender', 'the writer failed with %d at call %d of %d but Invoke returned %s: %s' % (code, kk, n, a['inv'][:60], line[:240]), {'case': line, 'output': o})
        elif int(a['wcalls']) != kk + 1:
            ctx.violate('rpc-sender', 'the writer failed at call %d but saw %s calls in all: %s' % (kk, a['wcalls'], line[:240]), {'case': line, 'output': o})
        elif a['waited'] != '0':
            ctx.violate('rpc-sender', 'after a failed write the sender still waited for (read) a reply: %s' % line[:240], {'case': line, 'output': o})
    return len(lines)
