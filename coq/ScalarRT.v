(* ScalarRT.v — arithmetic encodings: reading back what was written, and
   iteration lemmas.  (Proofs only.) *)
From Nop Require Import Spec Sim EncSpec.
Local Open Scope N_scope.

Lemma pow256_S n : 256 ^ N.of_nat (S n) = 256 * 256 ^ N.of_nat n.
Proof. rewrite Nat2N.inj_succ, N.pow_succ_r'. reflexivity. Qed.

Lemma le_val_le_bytes n v : le_val (le_bytes n v) = v mod 256 ^ N.of_nat n.
Proof.
  revert v; induction n as [|n IH]; intros v.
  - cbn. rewrite N.mod_1_r. reflexivity.
  - cbn [le_bytes le_val]. rewrite IH, pow256_S.
    rewrite N.mod_mul_r by (try apply N.pow_nonzero; lia). reflexivity.
Qed.

Lemma le_bytes_all_bytes n v : all_bytes (le_bytes n v) = true.
Proof.
  revert v; induction n as [|n IH]; intros v; cbn; [reflexivity|].
  rewrite IH, andb_true_r. unfold is_byte. apply N.ltb_lt. apply N.mod_lt. lia.
Qed.

(* ---- reading a block back from the list source ---------------------------- *)
Lemma take_n_app (a rest : bytes) : take_n (nlen a) (a ++ rest) = Some (a, rest).
Proof.
  unfold take_n, nlen. rewrite app_length, Nat2N.inj_add.
  rewrite (proj2 (N.leb_le _ _)) by lia. rewrite Nat2N.id.
  rewrite firstn_app, Nat.sub_diag, firstn_all, firstn_O, app_nil_r.
  rewrite skipn_app, Nat.sub_diag, skipn_all. reflexivity.
Qed.

Lemma lr_readn_app (a rest : bytes) : r_readn lr_ops (nlen a) (a ++ rest) = Ok a rest.
Proof. cbn. rewrite take_n_app. reflexivity. Qed.

Lemma lr_skip_app (a rest : bytes) : r_skip lr_ops (nlen a) (a ++ rest) = Ok tt rest.
Proof. cbn. rewrite take_n_app. reflexivity. Qed.

(* ---- two's complement ------------------------------------------------------ *)
Lemma pow2_8 (w : nat) : (2 ^ (8 * Z.of_nat w) = Z.of_N (256 ^ N.of_nat w))%Z.
Proof.
  rewrite N2Z.inj_pow. change (Z.of_N 256) with (2 ^ 8)%Z. rewrite <- Z.pow_mul_r by lia.
  rewrite nat_N_Z. reflexivity.
Qed.

Lemma unsigned_rt (w : nat) (z : Z) : (0 <= z < 2 ^ (8 * Z.of_nat w))%Z ->
  Z.of_N (le_val (le_bytes w (to_unsigned w z))) = z.
Proof.
  intros H. rewrite le_val_le_bytes. unfold to_unsigned.
  rewrite Z.mod_small by lia.
  rewrite N.mod_small; [apply Z2N.id; lia|].
  apply N2Z.inj_lt. rewrite Z2N.id by lia. rewrite <- pow2_8. lia.
Qed.

Lemma signed_rt (w : nat) (z : Z) : (0 < w)%nat ->
  (- 2 ^ (8 * Z.of_nat w - 1) <= z < 2 ^ (8 * Z.of_nat w - 1))%Z ->
  sext w (le_val (le_bytes w (to_unsigned w z))) = z.
Proof.
  intros Hw H. rewrite le_val_le_bytes. unfold to_unsigned, sext.
  set (m := (2 ^ (8 * Z.of_nat w))%Z).
  assert (Hm : (m = 2 * 2 ^ (8 * Z.of_nat w - 1))%Z).
  { unfold m. rewrite <- Z.pow_succ_r by lia. f_equal. lia. }
  assert (Hp : (0 < 2 ^ (8 * Z.of_nat w - 1))%Z) by (apply Z.pow_pos_nonneg; lia).
  assert (Hmod : (0 <= z mod m < m)%Z) by (apply Z.mod_pos_bound; lia).
  rewrite N.mod_small.
  2:{ apply N2Z.inj_lt. rewrite Z2N.id by lia. rewrite <- pow2_8. fold m. lia. }
  rewrite Z2N.id by lia. rewrite Z.mod_mod by lia.
  replace (m / 2)%Z with (2 ^ (8 * Z.of_nat w - 1))%Z
    by (rewrite Hm; rewrite (Z.mul_comm 2); rewrite Z.div_mul by lia; reflexivity).
  destruct (Z_lt_le_dec z 0) as [Hn|Hn].
  - replace (z mod m)%Z with (z + m)%Z by (apply Z.mod_unique with (-1)%Z; lia).
    rewrite (proj2 (Z.ltb_ge _ _)) by lia. lia.
  - rewrite Z.mod_small by lia. rewrite (proj2 (Z.ltb_lt _ _)) by lia. reflexivity.
Qed.

(* ---- iteration ------------------------------------------------------------- *)
Section IterNat.
  Context {X E : Type} (f : X -> X + E).

  Lemma iter_nat_add a b x :
    iter_nat f (a + b) x =
    match iter_nat f a x with inl x' => iter_nat f b x' | inr e => inr e end.
  Proof.
    revert x; induction a as [|a IH]; intros x; cbn [iter_nat Nat.add]; [reflexivity|].
    destruct (f x); [apply IH|reflexivity].
  Qed.

  Lemma iter_pos_nat p x : iter_pos f p x = iter_nat f (Pos.to_nat p) x.
  Proof.
    revert x; induction p as [p IH|p IH|]; intros x; cbn [iter_pos].
    - rewrite Pos2Nat.inj_xI. cbn [iter_nat]. destruct (f x) as [x1|e]; [|reflexivity].
      replace (2 * Pos.to_nat p)%nat with (Pos.to_nat p + Pos.to_nat p)%nat by lia.
      rewrite iter_nat_add, IH. destruct (iter_nat f (Pos.to_nat p) x1); [apply IH|reflexivity].
    - rewrite Pos2Nat.inj_xO.
      replace (2 * Pos.to_nat p)%nat with (Pos.to_nat p + Pos.to_nat p)%nat by lia.
      rewrite iter_nat_add, IH. destruct (iter_nat f (Pos.to_nat p) x); [apply IH|reflexivity].
    - change (Pos.to_nat 1) with 1%nat. cbn [iter_nat]. destruct (f x); reflexivity.
  Qed.

  Lemma iter_N_nat n x : iter_N f n x = iter_nat f (N.to_nat n) x.
  Proof. destruct n; cbn [iter_N N.to_nat]; [reflexivity|apply iter_pos_nat]. Qed.
End IterNat.

(* loop_res in terms of a plain structural loop *)
Fixpoint loop_nat {X R} (n : nat) (f : X -> R -> res X R) (x : X) (r : R) : res X R :=
  match n with
  | O => Ok x r
  | S n' => match f x r with Ok x' r' => loop_nat n' f x' r' | Err e r' => Err e r' end
  end.

Lemma loop_res_nat {X R} n (f : X -> R -> res X R) x r :
  loop_res n f x r = loop_nat (N.to_nat n) f x r.
Proof.
  unfold loop_res. rewrite iter_N_nat. generalize (N.to_nat n) as k. clear n.
  intros k; revert x r; induction k as [|k IH]; intros x r; cbn [iter_nat loop_nat fst snd]; [reflexivity|].
  destruct (f x r) as [x' r'|e r']; [apply IH|reflexivity].
Qed.

(* ---- arithmetic round trip --------------------------------------------------- *)
Lemma lr_readn_len (a rest : bytes) n : nlen a = n -> r_readn lr_ops n (a ++ rest) = Ok a rest.
Proof. intros <-. apply lr_readn_app. Qed.

Lemma nlen_le_bytes c v : nlen (le_bytes c v) = N.of_nat c.
Proof. unfold nlen. rewrite le_bytes_length. reflexivity. Qed.

Ltac class_u P c :=
  split; [reflexivity|];
  unfold read_scalar_payload; change (class_len P) with c; cbn [Nat.eqb];
  rewrite (lr_readn_len _ _ _ (nlen_le_bytes c _)); cbn [bind];
  unfold scalar_value; change (class_len P) with c; cbn [Nat.eqb signed];
  f_equal; apply unsigned_rt; cbn; lia.

Ltac class_s P c :=
  split; [reflexivity|];
  unfold read_scalar_payload; change (class_len P) with c; cbn [Nat.eqb];
  rewrite (lr_readn_len _ _ _ (nlen_le_bytes c _)); cbn [bind];
  unfold scalar_value; change (class_len P) with c; cbn [Nat.eqb signed];
  f_equal; apply signed_rt; [lia|cbn; lia].

Lemma posfix_rt (s : scalar) (z : Z) rest K :
  s = SInt K -> (0 <= z < 128)%Z -> signed K = false ->
  scalar_match s (Z.to_N z) = true /\
  read_scalar_payload lr_ops s (Z.to_N z) (le_bytes (class_len (Z.to_N z)) (to_unsigned (class_len (Z.to_N z)) z) ++ rest) = Ok z rest.
Proof.
  intros -> Hz Hs.
  assert (Hp : Z.to_N z < 128) by lia.
  destruct (fix_byte _ (or_introl Hp)) as [_ Hc].
  split.
  - cbn [scalar_match]. rewrite Hs. unfold umatch, is_posfix. rewrite (proj2 (N.ltb_lt _ _) Hp). reflexivity.
  - unfold read_scalar_payload. rewrite Hc. cbn [Nat.eqb le_bytes app].
    unfold scalar_value. rewrite Hc, Hs. cbn [Nat.eqb]. f_equal. lia.
Qed.

Lemma sfix_rt (z : Z) rest K :
  (-64 <= z <= 127)%Z -> signed K = true ->
  let p := Z.to_N (z mod 256) in
  scalar_match (SInt K) p = true /\
  read_scalar_payload lr_ops (SInt K) p (le_bytes (class_len p) (to_unsigned (class_len p) z) ++ rest) = Ok z rest.
Proof.
  intros Hz Hs p.
  assert (Hp : (p < 128 /\ Z.of_N p = z /\ (0 <= z)%Z) \/ (192 <= p /\ p < 256 /\ Z.of_N p = (z + 256)%Z /\ (z < 0)%Z)).
  { unfold p. destruct (Z_lt_le_dec z 0).
    - right. replace (z mod 256)%Z with (z + 256)%Z by (apply Z.mod_unique with (-1)%Z; lia). lia.
    - left. rewrite Z.mod_small by lia. lia. }
  assert (Hc : class_len p = 0%nat) by (apply fix_byte; lia).
  split.
  - cbn [scalar_match]. rewrite Hs. unfold smatch, is_posfix, is_negfix.
    destruct Hp as [(H1 & _)|(H1 & H2 & _)].
    + rewrite (proj2 (N.ltb_lt _ _) H1). reflexivity.
    + rewrite (proj2 (N.leb_le _ _) H1), (proj2 (N.ltb_lt _ _) H2). cbn. rewrite orb_true_r. reflexivity.
  - unfold read_scalar_payload. rewrite Hc. cbn [Nat.eqb le_bytes app].
    unfold scalar_value. rewrite Hc, Hs. cbn [Nat.eqb]. f_equal. unfold sext.
    change (2 ^ (8 * Z.of_nat 1))%Z with 256%Z. change (256 / 2)%Z with 128%Z.
    destruct Hp as [(H1 & H2 & H3)|(H1 & H2 & H3 & H4)].
    + rewrite Z.mod_small by lia. rewrite (proj2 (Z.ltb_lt _ _)) by lia. exact H2.
    + rewrite Z.mod_small by lia. rewrite (proj2 (Z.ltb_ge _ _)) by lia. lia.
Qed.

Lemma scalar_payload_rt s z rest : scalar_ok s z = true ->
  scalar_match s (scalar_prefix s z) = true /\
  read_scalar_payload lr_ops s (scalar_prefix s z) (scalar_payload s z ++ rest) = Ok z rest.
Proof.
  intros H. destruct s as [|k| |]; cbn [scalar_ok] in H.
  - (* bool *)
    apply orb_prop in H. destruct H as [H|H]; apply Z.eqb_eq in H; subst z; cbn; auto.
  - (* integers *)
    unfold scalar_payload. cbn [scalar_prefix].
    unfold in_range in H. destruct (signed k) eqn:Hs.
    + (* signed *)
      apply andb_prop in H. destruct H as [Hlo Hhi]. apply Z.leb_le in Hlo. apply Z.ltb_lt in Hhi.
      unfold sprefix.
      destruct ((-64 <=? z) && (z <=? 127))%Z eqn:E1.
      { apply andb_prop in E1. destruct E1 as [A B]. apply Z.leb_le in A, B.
        apply (sfix_rt z rest k); [lia|exact Hs]. }
      apply andb_false_iff in E1.
      destruct ((-128 <=? z) && (z <=? 127))%Z eqn:E2.
      { apply andb_prop in E2. destruct E2 as [A B]. apply Z.leb_le in A, B.
        destruct k; try discriminate; class_s P_I8 1%nat. }
      apply andb_false_iff in E2.
      destruct ((-32768 <=? z) && (z <=? 32767))%Z eqn:E3.
      { apply andb_prop in E3. destruct E3 as [A B]. apply Z.leb_le in A, B.
        destruct k; try discriminate; cbn in Hlo, Hhi;
          try (exfalso; destruct E2 as [E2|E2]; [apply Z.leb_gt in E2|apply Z.leb_gt in E2]; lia);
          class_s P_I16 2%nat. }
      apply andb_false_iff in E3.
      destruct ((-2147483648 <=? z) && (z <=? 2147483647))%Z eqn:E4.
      { apply andb_prop in E4. destruct E4 as [A B]. apply Z.leb_le in A, B.
        destruct k; try discriminate; cbn in Hlo, Hhi;
          try (exfalso; destruct E3 as [E3|E3]; [apply Z.leb_gt in E3|apply Z.leb_gt in E3]; lia);
          class_s P_I32 4%nat. }
      apply andb_false_iff in E4.
      destruct k; try discriminate; cbn in Hlo, Hhi;
        try (exfalso; destruct E4 as [E4|E4]; [apply Z.leb_gt in E4|apply Z.leb_gt in E4]; lia);
        class_s P_I64 8%nat.
    + (* unsigned *)
      apply andb_prop in H. destruct H as [Hlo Hhi]. apply Z.leb_le in Hlo. apply Z.ltb_lt in Hhi.
      unfold uprefix.
      destruct (Z.ltb_spec z 128) as [L1|L1].
      { apply (posfix_rt (SInt k) z rest k); [reflexivity|lia|exact Hs]. }
      destruct (Z.ltb_spec z 256) as [L2|L2].
      { destruct k; try discriminate; class_u P_U8 1%nat. }
      destruct (Z.ltb_spec z 65536) as [L3|L3].
      { destruct k; try discriminate; cbn in Hhi; try lia; class_u P_U16 2%nat. }
      destruct (Z.ltb_spec z 4294967296) as [L4|L4].
      { destruct k; try discriminate; cbn in Hhi; try lia; class_u P_U32 4%nat. }
      destruct k; try discriminate; cbn in Hhi; try lia; class_u P_U64 8%nat.
  - (* f32 *)
    apply andb_prop in H. destruct H as [Hlo Hhi]. apply Z.leb_le in Hlo. apply Z.ltb_lt in Hhi.
    unfold scalar_payload. cbn [scalar_prefix]. class_u P_F32 4%nat.
  - (* f64 *)
    apply andb_prop in H. destruct H as [Hlo Hhi]. apply Z.leb_le in Hlo. apply Z.ltb_lt in Hhi.
    unfold scalar_payload. cbn [scalar_prefix]. class_u P_F64 8%nat.
Qed.

Lemma scalar_rt s z rest : scalar_ok s z = true ->
  read_scalar lr_ops s (scalar_enc s z ++ rest) = Ok z rest.
Proof.
  intros H. destruct (scalar_payload_rt s z rest H) as [Hm Hp].
  unfold read_scalar, scalar_enc. cbn [app lr_ops r_read1 bind]. rewrite Hm. exact Hp.
Qed.

Lemma read_u64_rt n rest : n < two64 -> read_u64 lr_ops (uint_enc n ++ rest) = Ok n rest.
Proof.
  intros H. unfold read_u64, uint_enc. rewrite scalar_rt.
  - cbn [rmap]. rewrite N2Z.id. reflexivity.
  - cbn. unfold two64 in H. apply andb_true_intro. split; [apply Z.leb_le|apply Z.ltb_lt]; lia.
Qed.
