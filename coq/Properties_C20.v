(* Properties_C20.v — C20: HostEndian conversions are correct byte-order maps.
   Statements only; proofs in Endian.v.  The model is the header's algorithm
   (out |= T(byte[i]) << 8*pos(i), in the value type) on a little-endian host,
   on bit patterns of every width w (1, 2, 4, 8 bytes; float and double forward
   to the same-width unsigned integer, which preserves the bit pattern incl.
   NaN payloads). *)
From Nop Require Import Base Spec Sim EncSpec ScalarRT Endian.
Local Open Scope N_scope.

Theorem C20_little_is_identity : forall w v, v < 256 ^ N.of_nat w ->
  host_from_little w v = v /\ host_to_little w v = v.
Proof. exact host_little_identity. Qed.
Print Assumptions C20_little_is_identity.

Theorem C20_big_reverses_bytes : forall w v,
  host_from_big w v = le_val (rev (le_bytes w v)) /\ host_to_big w v = le_val (rev (le_bytes w v)).
Proof. exact host_big_reverses. Qed.
Print Assumptions C20_big_reverses_bytes.

Theorem C20_to_from_inverse : forall w v, v < 256 ^ N.of_nat w ->
  host_to_big w (host_from_big w v) = v /\ host_from_big w (host_to_big w v) = v.
Proof. exact host_big_involutive. Qed.
Print Assumptions C20_to_from_inverse.

Example C20_nonvacuous :
  host_from_big 4 1065353216 = 32831 /\ host_from_little 4 1065353216 = 1065353216 /\
  host_from_big 8 9221120237041090561 = 72057594037991551.
Proof. vm_compute. repeat split; reflexivity. Qed.
