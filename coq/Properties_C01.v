(* Properties_C01.v — C01: Read(Write(v)) = v, consuming exactly the bytes
   written.  Statements only; proofs in DecSpec.v / Readers.v / EncSpec.v. *)
From Nop Require Import Spec Sim EncSpec ScalarRT DecSpec Readers.
Local Open Scope N_scope.

(* For every well-formed schema and every value of it, reading the bytes the
   encoder wrote (followed by anything) gives the value back and leaves
   exactly the continuation. *)
Theorem C01_roundtrip : forall t v rest,
  wf t = true -> has_type t v = true ->
  lenc t v = Ok tt (spec_enc t v) /\
  ldec t (spec_enc t v ++ rest) = Ok v rest.
Proof.
  intros t v rest Hw Hv. split; [apply lenc_spec, Hv|].
  apply dec_from_payload; [exact Hv|apply decp_payload; assumption].
Qed.
Print Assumptions C01_roundtrip.

(* several values written back to back on one stream *)
Theorem C01_sequence : forall tvs rest,
  Forall (fun tv => wf (fst tv) = true /\ has_type (fst tv) (snd tv) = true) tvs ->
  dec_all (map fst tvs) (enc_all tvs ++ rest) = Ok (map snd tvs) rest.
Proof. exact dec_all_enc_all. Qed.
Print Assumptions C01_sequence.

(* every pairing: any sink honouring the appender contract, any source that
   simulates ListReader *)
Theorem C01_pairings : forall t v,
  wf t = true -> has_type t v = true ->
  forall W (ow : wops W) view can, appender ow view can ->
  forall R (rho : R -> LR -> Prop) (orr : rops R), rops_rel true rho orr lr_ops ->
  forall w k, can w (nlen (spec_enc t v) + k) ->
  exists w', enc t v ow w = Ok tt w' /\ view w' = view w ++ spec_enc t v /\
  forall r rest, rho r (spec_enc t v ++ rest) ->
  exists r', dec t orr r = Ok v r' /\ rho r' rest.
Proof.
  intros t v Hw Hv W ow view can A R rho orr Hops w k Hc.
  destruct (enc_writes t v Hv W ow view can A w k Hc) as (w' & E & V & _).
  exists w'. split; [exact E|]. split; [exact V|].
  intros r rest Hr. exact (dec_any_source t v rho orr r rest Hw Hv Hops Hr).
Qed.
Print Assumptions C01_pairings.

(* instances of the source contract: the buffer reader model, and a
   BoundedReader around any source *)
Theorem C01_buffer_reader_is_source : rops_rel true bufr_rel bufr_ops lr_ops.
Proof. exact bufr_refines. Qed.
Print Assumptions C01_buffer_reader_is_source.

Theorem C01_bounded_reader_is_source : forall R (rho : R -> LR -> Prop) (o : rops R) r0 sz,
  rops_rel true rho o lr_ops -> sz < two64 ->
  rops_rel true (fun b l => exists bl, brel rho b bl /\ frame_rel r0 sz bl l) (bounded_rops o) lr_ops.
Proof.
  intros R rho o r0 sz Hops Hs.
  exact (rops_rel_trans _ _ _ _ _ (bounded_rops_rel1 true rho o lr_ops Hops) (lr_bounded_rel r0 sz Hs)).
Qed.
Print Assumptions C01_bounded_reader_is_source.

(* readers that cannot look ahead (Ensure always succeeds: the shape of StreamReader and
   FdReader): the round trip holds over them as well *)
Theorem C01_roundtrip_lazy_ensure : forall t v rest,
  wf t = true -> has_type t v = true -> dec t lazy_ops (spec_enc t v ++ rest) = Ok v rest.
Proof.
  intros t v rest Hw Hv. apply dec_lazy_reader.
  apply dec_from_payload; [exact Hv|apply decp_payload; assumption].
Qed.
Print Assumptions C01_roundtrip_lazy_ensure.

(* Finding K1: without prefix-disjointness (wf) the round trip is false:
   Optional<Optional<uint8_t>> holding an empty inner value reads back as an
   empty outer value. *)
Theorem C01_refuted_nested_optional :
  exists t v, has_type t v = true /\ wf t = false /\
              ldec t (spec_enc t v) = Ok VNone [] /\ v <> VNone.
Proof.
  exists (TOpt (TOpt (TScalar 0 (SInt U8)))), (VSome VNone).
  repeat split; try reflexivity. discriminate.
Qed.
Print Assumptions C01_refuted_nested_optional.

Example C01_nonvacuous :
  let t := TTuple KStruct [TTab 7 [(1, true, TSeq CVec (TStr 1)); (9, true, TVar [TScalar 0 (SInt I32); TScalar 0 SF64])];
                           TMap false (TScalar 0 (SInt U8)) (TOpt (TScalar 0 (SInt I64)))] in
  let v := VSeq [VTab [VSome (VSeq [VSeq [VInt 104]]); VSome (VAlt 0 (VInt (-129)))];
                 VMap [(VInt 1, VNone); (VInt 200, VSome (VInt (-1)))]] in
  wf t = true /\ has_type t v = true /\ ldec t (spec_enc t v ++ [1; 2; 3]) = Ok v [1; 2; 3].
Proof. vm_compute. repeat split; reflexivity. Qed.
