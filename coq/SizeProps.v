(* SizeProps.v — proofs behind Properties_C06.v *)
From Nop Require Import Spec Sim EncSpec.
Local Open Scope N_scope.

(* GetSize(value) >= bytes Write(value) emits, with equality for every type
   that contains no handle. *)
Lemma c06_upper : forall t v, has_type t v = true ->
  lenc t v = Ok tt (spec_enc t v) /\ nlen (spec_enc t v) <= tsize t v.
Proof. intros t v Hv. split; [apply lenc_spec, Hv|apply spec_enc_size, Hv]. Qed.

Lemma c06_exact : forall t v, has_type t v = true -> no_handles t = true ->
  nlen (spec_enc t v) = tsize t v.
Proof. intros t v Hv Hn. apply spec_enc_size; assumption. Qed.

(* Write into a buffer writer (BufferWriter: checked = false; Pedantic /
   Constexpr: checked = true) with at least GetSize(value) bytes of remaining
   capacity never fails and never stores past the end. *)
Lemma c06_buffer_fit : forall t v checked w, has_type t v = true ->
  bw_idx w + tsize t v <= bw_cap w -> bw_cap w < two64 -> bw_oob w = false ->
  exists w', serialize t v (bufw_ops checked) w = Ok tt w' /\
             bw_out w' = bw_out w ++ spec_enc t v /\
             bw_oob w' = false /\ bw_idx w' <= bw_cap w'.
Proof.
  intros t v checked w Hv H1 H2 H3.
  destruct (serialize_fits t v Hv bufw (bufw_ops checked) bw_out bw_can (bufw_appender checked) w 0)
    as (w' & E & V & (C1 & C2 & C3)).
  - unfold bw_can. repeat split; try assumption. lia.
  - exists w'. repeat split; try assumption. lia.
Qed.

(* the same through a BoundedWriter wrapped around the buffer writer *)
Lemma c06_bounded_fit : forall t v checked w limit, has_type t v = true ->
  tsize t v <= limit -> limit < two64 ->
  bw_idx w + limit <= bw_cap w -> bw_cap w < two64 -> bw_oob w = false ->
  exists b', serialize t v (bounded_wops (bufw_ops checked)) (b_make w limit) = Ok tt b' /\
             bw_out (b_inner b') = bw_out w ++ spec_enc t v /\
             bw_oob (b_inner b') = false /\ b_index b' <= b_size b'.
Proof.
  intros t v checked w limit Hv H0 Hl H1 H2 H3.
  pose proof (bounded_appender (bufw_ops checked) bw_out bw_can 0 (nlen (bw_out w)) limit
                               (bufw_appender checked)) as BA.
  destruct (serialize_fits t v Hv _ _ _ _ BA (b_make w limit) (limit - tsize t v))
    as (b' & E & V & (C1 & C2 & C3 & C4 & C5)).
  - unfold bcan, bw_can, b_make, b_index, b_size, b_inner; cbn.
    repeat split; try assumption; try reflexivity; lia.
  - exists b'. destruct C3 as (_ & _ & C3). split; [exact E|]. split; [exact V|]. split; [exact C3|lia].
Qed.

(* a smaller buffer: WriteLimitReached, and not a single byte is written *)
Lemma c06_buffer_small : forall t v checked w,
  bw_idx w <= bw_cap w -> bw_cap w < two64 -> bw_cap w - bw_idx w < tsize t v ->
  serialize t v (bufw_ops checked) w = Err EWriteLimit w.
Proof.
  intros t v checked w H1 H2 H3. unfold serialize. cbn [bufw_ops w_prepare].
  rewrite sub64_small by lia. rewrite (proj2 (N.ltb_lt _ _)) by lia. reflexivity.
Qed.

(* inside a table the declared size of an entry equals the bytes that follow
   it (value plus padding) *)
Lemma c06_entry_frame : forall t y, has_type t y = true ->
  nlen (spec_enc t y ++ repeat 0 (N.to_nat (tsize t y - nlen (spec_enc t y)))) = tsize t y.
Proof.
  intros t y Hy. destruct (spec_enc_size t y Hy) as [H _].
  rewrite nlen_app, nlen_repeat, N2Nat.id. lia.
Qed.

