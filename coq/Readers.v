(* Readers.v — byte sources: every reader that simulates ListReader through a
   relation decodes like ListReader.  Instances: the buffer reader model,
   BoundedReader over any source. (Proofs.) *)
From Nop Require Import Spec Sim EncSpec ScalarRT DecSpec.
Local Open Scope N_scope.

(* decoding over any reader related to ListReader *)
Lemma dec_sim bd t {R1 R2} (rho : R1 -> R2 -> Prop) o1 o2 r1 r2 :
  rops_rel bd rho o1 o2 -> rho r1 r2 -> rel_res bd rho (dec t o1 r1) (dec t o2 r2).
Proof.
  intros Hops Hr. unfold dec. apply dec_with_sim1; [exact Hops| |exact Hr].
  intros p s1 s2 Hs. apply decp_sim1; assumption.
Qed.

Theorem dec_any_source t v {R} (rho : R -> LR -> Prop) (o : rops R) r rest :
  wf t = true -> has_type t v = true ->
  rops_rel true rho o lr_ops -> rho r (spec_enc t v ++ rest) ->
  exists r', dec t o r = Ok v r' /\ rho r' rest.
Proof.
  intros Hwf Hv Hops Hr.
  pose proof (dec_sim true t rho o lr_ops r _ Hops Hr) as H.
  rewrite (dec_from_payload t v rest Hv (decp_payload t v Hwf Hv rest)) in H.
  unfold rel_res, rel_resg in H. destruct (dec t o r) as [v' r'|e r']; [|contradiction].
  destruct H as [-> H]. exists r'. auto.
Qed.

(* composition of reader relations *)
Lemma rops_rel_trans {R1 R2 R3} (rho12 : R1 -> R2 -> Prop) (rho23 : R2 -> R3 -> Prop) o1 o2 o3 :
  rops_rel true rho12 o1 o2 -> rops_rel true rho23 o2 o3 ->
  rops_rel true (fun a c => exists b, rho12 a b /\ rho23 b c) o1 o3.
Proof.
  intros H12 H23.
  assert (T : forall A (m1 : res A R1) (m2 : res A R2) (m3 : res A R3),
             rel_res true rho12 m1 m2 -> rel_res true rho23 m2 m3 ->
             rel_res true (fun a c => exists b, rho12 a b /\ rho23 b c) m1 m3).
  { intros A m1 m2 m3 Ha Hb. destruct m1, m2, m3; cbn in *; try contradiction;
      destruct Ha as [-> Ha], Hb as [-> Hb]; split; eauto. }
  apply mk_rops_rel.
  - intros n r1 r3 (r2 & Ha & Hb). eapply T; [apply (rr_ensure _ _ _ _ _ H12)|apply (rr_ensure _ _ _ _ _ H23)]; eassumption.
  - intros r1 r3 (r2 & Ha & Hb). eapply T; [apply (rr_read1 _ _ _ _ _ H12)|apply (rr_read1 _ _ _ _ _ H23)]; eassumption.
  - intros n r1 r3 (r2 & Ha & Hb). eapply T; [apply (rr_readn _ _ _ _ _ H12)|apply (rr_readn _ _ _ _ _ H23)]; eassumption.
  - intros n r1 r3 (r2 & Ha & Hb). eapply T; [apply (rr_skip _ _ _ _ _ H12)|apply (rr_skip _ _ _ _ _ H23)]; eassumption.
  - intros h r1 r3 (r2 & Ha & Hb). eapply T; [apply (rr_gethandle _ _ _ _ _ H12)|apply (rr_gethandle _ _ _ _ _ H23)]; eassumption.
Qed.

(* the buffer reader model (BufferReader after its repair, PedanticBufferReader)
   refines ListReader: view = the bytes from index_ on *)
Definition bufr_rel (r : bufr) (l : LR) : Prop :=
  br_idx r <= br_size r /\ br_size r < two64 /\ l = skipn (tn (br_idx r)) (br_buf r).

Lemma bufr_refines : rops_rel true bufr_rel bufr_ops lr_ops.
Proof.
  assert (Adv : forall r n, br_idx r <= br_size r -> br_size r < two64 -> n <= br_size r - br_idx r ->
            bufr_rel (br_adv r n) (skipn (tn n) (skipn (tn (br_idx r)) (br_buf r)))).
  { intros r n H1 H2 H3. unfold bufr_rel, br_adv, br_size in *; cbn.
    rewrite add64_small by lia. repeat split; try lia. rewrite skipn_skipn'. f_equal. lia. }
  assert (Len : forall r, br_idx r <= br_size r -> nlen (skipn (tn (br_idx r)) (br_buf r)) = br_size r - br_idx r).
  { intros r H. rewrite nlen_skipn. reflexivity. }
  apply mk_rops_rel; cbn [bufr_ops lr_ops r_ensure r_read1 r_readn r_skip r_gethandle].
  - intros n r l (H1 & H2 & ->). rewrite sub64_small by lia. fold (nlen (skipn (tn (br_idx r)) (br_buf r))).
    rewrite Len by lia. destruct (N.ltb_spec (br_size r - br_idx r) n).
    + rewrite (proj2 (N.leb_gt _ _)) by lia. cbn. unfold bufr_rel; auto.
    + rewrite (proj2 (N.leb_le _ _)) by lia. cbn. unfold bufr_rel; auto.
  - intros r l (H1 & H2 & ->). rewrite sub64_small by lia.
    destruct (N.ltb_spec (br_size r - br_idx r) 1) as [L|L].
    + assert (E : skipn (tn (br_idx r)) (br_buf r) = []).
      { apply skipn_all2. unfold br_size in *. lia. }
      rewrite E. cbn. unfold bufr_rel. rewrite E. auto.
    + pose proof (Len r H1) as Hl.
      destruct (skipn (tn (br_idx r)) (br_buf r)) as [|x rest] eqn:E.
      { unfold nlen in Hl; cbn in Hl; lia. }
      cbn. split.
      * assert (N : nth (tn (br_idx r)) (br_buf r) 0 = nth 0 (skipn (tn (br_idx r)) (br_buf r)) 0).
        { rewrite <- (firstn_skipn (tn (br_idx r)) (br_buf r)) at 1.
          rewrite app_nth2; rewrite firstn_length_le; unfold br_size in *; try lia.
          rewrite Nat.sub_diag. reflexivity. }
        rewrite N, E. reflexivity.
      * pose proof (Adv r 1 H1 H2 L) as A. rewrite E in A. exact A.
  - intros n r l (H1 & H2 & ->). rewrite sub64_small by lia.
    destruct (N.ltb_spec (br_size r - br_idx r) n) as [L|L].
    + rewrite take_n_none by (rewrite Len; lia). cbn. unfold bufr_rel; auto.
    + rewrite take_n_some by (rewrite Len; lia). cbn. split; [reflexivity|]. apply Adv; lia.
  - intros n r l (H1 & H2 & ->). rewrite sub64_small by lia.
    destruct (N.ltb_spec (br_size r - br_idx r) n) as [L|L].
    + rewrite take_n_none by (rewrite Len; lia). cbn. unfold bufr_rel; auto.
    + rewrite take_n_some by (rewrite Len; lia). cbn. split; [reflexivity|]. apply Adv; lia.
  - intros h r l H. cbn. auto.
Qed.

(* reading several values written back to back *)
Fixpoint enc_all (tvs : list (ty * val)) : bytes :=
  match tvs with [] => [] | (t, v) :: r => spec_enc t v ++ enc_all r end.

Fixpoint dec_all (ts : list ty) (r : LR) : res (list val) LR :=
  match ts with
  | [] => Ok [] r
  | t :: ts' => do v, r <- dec t lr_ops r; do vs, r <- dec_all ts' r; Ok (v :: vs) r
  end.

Theorem dec_all_enc_all tvs rest :
  Forall (fun tv => wf (fst tv) = true /\ has_type (fst tv) (snd tv) = true) tvs ->
  dec_all (map fst tvs) (enc_all tvs ++ rest) = Ok (map snd tvs) rest.
Proof.
  induction 1 as [|[t v] tvs [Hw Hv] _ IH]; cbn [map dec_all enc_all fst snd] in *; [reflexivity|].
  rewrite <- app_assoc, (dec_from_payload t v _ Hv (decp_payload t v Hw Hv _)). cbn [bind].
  rewrite IH. reflexivity.
Qed.

(* ---- a successful read does not depend on what follows ----------------------- *)
Definition ext_rel (x : bytes) (l1 l2 : LR) : Prop := l2 = l1 ++ x.

Lemma take_n_ext n (l x a r : bytes) : take_n n l = Some (a, r) -> take_n n (l ++ x) = Some (a, r ++ x).
Proof.
  unfold take_n. destruct (N.leb_spec n (N.of_nat (length l))) as [L|L]; [|discriminate].
  intros E. injection E as <- <-. rewrite app_length, Nat2N.inj_add.
  rewrite (proj2 (N.leb_le _ _)) by lia.
  rewrite firstn_app, skipn_app.
  replace (tn n - length l)%nat with 0%nat by lia. cbn [firstn skipn]. rewrite app_nil_r. reflexivity.
Qed.

Lemma lr_ext_rel x : rops_rel false (ext_rel x) lr_ops lr_ops.
Proof.
  apply mk_rops_rel; cbn [lr_ops r_ensure r_read1 r_readn r_skip r_gethandle]; unfold ext_rel.
  - intros n l1 l2 ->. destruct (N.leb_spec n (N.of_nat (length l1))) as [L|L]; [|exact I].
    rewrite app_length, Nat2N.inj_add. rewrite (proj2 (N.leb_le _ _)) by lia. cbn. auto.
  - intros l1 l2 ->. destruct l1 as [|b r]; [exact I|]. cbn. auto.
  - intros n l1 l2 ->. destruct (take_n n l1) as [[a r]|] eqn:E; [|exact I].
    rewrite (take_n_ext _ _ x _ _ E). cbn. auto.
  - intros n l1 l2 ->. destruct (take_n n l1) as [[a r]|] eqn:E; [|exact I].
    rewrite (take_n_ext _ _ x _ _ E). cbn. auto.
  - intros h l1 l2 ->. cbn. auto.
Qed.

Theorem dec_extend t bs v rest x :
  dec t lr_ops bs = Ok v rest -> dec t lr_ops (bs ++ x) = Ok v (rest ++ x).
Proof.
  intros H. pose proof (dec_sim false t (ext_rel x) lr_ops lr_ops bs (bs ++ x) (lr_ext_rel x) eq_refl) as S.
  rewrite H in S. unfold rel_res, rel_resg in S.
  destruct (dec t lr_ops (bs ++ x)) as [v' r'|e r']; [|contradiction].
  destruct S as [-> ->]. reflexivity.
Qed.

(* a strict prefix of a complete encoding is never accepted *)
Theorem truncation_rejected t e v k :
  dec t lr_ops e = Ok v [] -> (k < length e)%nat ->
  forall v' r, dec t lr_ops (firstn k e) <> Ok v' r.
Proof.
  intros He Hk v' r H.
  pose proof (dec_extend t _ _ _ (skipn k e) H) as H2. rewrite firstn_skipn, He in H2.
  injection H2 as _ E. symmetry in E. apply app_eq_nil in E. destruct E as [_ E].
  apply (f_equal (@length N)) in E. rewrite skipn_length in E. cbn in E. lia.
Qed.

(* ... on every reader that simulates ListReader *)
Theorem truncation_rejected_any_source t e v k {R} (rho : R -> LR -> Prop) (o : rops R) r :
  rops_rel true rho o lr_ops -> rho r (firstn k e) ->
  dec t lr_ops e = Ok v [] -> (k < length e)%nat ->
  exists err r', dec t o r = Err err r'.
Proof.
  intros Hops Hr He Hk. pose proof (dec_sim true t rho o lr_ops r _ Hops Hr) as S.
  unfold rel_res, rel_resg in S. destruct (dec t o r) as [v' r'|err r']; [|eauto].
  destruct (dec t lr_ops (firstn k e)) as [v2 r2|e2 r2] eqn:E; [|contradiction].
  exfalso. exact (truncation_rejected t e v k He Hk v2 r2 E).
Qed.

(* the buffer reader model on a whole buffer vs ListReader on the same bytes *)
Lemma bufr_dec_refines t (buf : bytes) : nlen buf < two64 ->
  rel_res true bufr_rel (dec t bufr_ops {| br_buf := buf; br_idx := 0 |}) (dec t lr_ops buf).
Proof.
  intros Hn. apply (dec_sim true t bufr_rel bufr_ops lr_ops _ buf bufr_refines).
  unfold bufr_rel, br_size; cbn. split; [lia|]. split; [exact Hn|reflexivity].
Qed.

(* ---- readers whose Ensure cannot look ahead (StreamReader, FdReader) ------------------------- *)
(* The list reader with Ensure always succeeding: the shape of a reader over a stream or a file
   descriptor, which learns that input is missing only when it reads. *)
Definition lazy_ops : rops LR := {|
  r_ensure := fun _ r => Ok tt r;
  r_read1 := r_read1 lr_ops;
  r_readn := r_readn lr_ops;
  r_skip := r_skip lr_ops;
  r_gethandle := r_gethandle lr_ops
|}.

Lemma lazy_follows_list : rops_rel false eq lr_ops lazy_ops.
Proof.
  apply mk_rops_rel; intros; subst; cbn [lr_ops lazy_ops r_ensure r_read1 r_readn r_skip r_gethandle]; rewrite rel_res_unfold.
  - destruct (_ <=? _); auto.
  - destruct r2; auto.
  - destruct (take_n n r2) as [[a b]|]; auto.
  - destruct (take_n n r2) as [[a b]|]; auto.
  - auto.
Qed.

(* every read that succeeds over the list reader succeeds, with the same value and the same
   continuation, over the reader that cannot look ahead — hence the round trip holds for it too *)
Theorem dec_lazy_reader t (bs : bytes) v rest : dec t lr_ops bs = Ok v rest -> dec t lazy_ops bs = Ok v rest.
Proof.
  intros H. pose proof (dec_sim false t eq lr_ops lazy_ops bs bs lazy_follows_list eq_refl) as S.
  rewrite rel_res_unfold, H in S. destruct (dec t lazy_ops bs) as [v' r'|e r']; [|contradiction].
  destruct S as [-> ->]. reflexivity.
Qed.

Lemma lazy_ext_rel x : rops_rel false (ext_rel x) lazy_ops lazy_ops.
Proof.
  apply mk_rops_rel; cbn [lazy_ops lr_ops r_ensure r_read1 r_readn r_skip r_gethandle]; unfold ext_rel.
  - intros n l1 l2 ->. cbn. auto.
  - intros l1 l2 ->. destruct l1 as [|b r]; [exact I|]. cbn. auto.
  - intros n l1 l2 ->. destruct (take_n n l1) as [[a r]|] eqn:E; [|exact I].
    rewrite (take_n_ext _ _ x _ _ E). cbn. auto.
  - intros n l1 l2 ->. destruct (take_n n l1) as [[a r]|] eqn:E; [|exact I].
    rewrite (take_n_ext _ _ x _ _ E). cbn. auto.
  - intros h l1 l2 ->. cbn. auto.
Qed.

Theorem dec_extend_lazy t bs v rest x :
  dec t lazy_ops bs = Ok v rest -> dec t lazy_ops (bs ++ x) = Ok v (rest ++ x).
Proof.
  intros H. pose proof (dec_sim false t (ext_rel x) lazy_ops lazy_ops bs (bs ++ x) (lazy_ext_rel x) eq_refl) as S.
  rewrite H in S. unfold rel_res, rel_resg in S.
  destruct (dec t lazy_ops (bs ++ x)) as [v' r'|e r']; [|contradiction].
  destruct S as [-> ->]. reflexivity.
Qed.

(* a strict prefix of a complete encoding is rejected by a reader that cannot look ahead, too:
   the missing bytes are noticed when they are read *)
Theorem truncation_rejected_lazy t e v k :
  dec t lr_ops e = Ok v [] -> (k < length e)%nat ->
  forall v' r, dec t lazy_ops (firstn k e) <> Ok v' r.
Proof.
  intros He Hk v' r H.
  pose proof (dec_extend_lazy t _ _ _ (skipn k e) H) as H2. rewrite firstn_skipn in H2.
  rewrite (dec_lazy_reader t e v [] He) in H2.
  injection H2 as _ E. symmetry in E. apply app_eq_nil in E. destruct E as [_ E].
  apply (f_equal (@length N)) in E. rewrite skipn_length in E. cbn in E. lia.
Qed.
