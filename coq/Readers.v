(* Readers.v — byte sources: every reader that simulates ListReader through a
   relation decodes like ListReader.  Instances: the buffer reader model,
   BoundedReader over any source. (Proofs.) *)
From Nop Require Import Spec Sim EncSpec ScalarRT DecSpec.
Local Open Scope N_scope.

(* decoding over any reader related to ListReader *)
Lemma dec_sim t {R1 R2} (rho : R1 -> R2 -> Prop) o1 o2 r1 r2 :
  rops_rel rho o1 o2 -> rho r1 r2 -> rel_res rho (dec t o1 r1) (dec t o2 r2).
Proof.
  intros Hops Hr. unfold dec. apply dec_with_sim; [exact Hops| |exact Hr].
  intros p s1 s2 Hs. apply decp_sim; assumption.
Qed.

Theorem dec_any_source t v {R} (rho : R -> LR -> Prop) (o : rops R) r rest :
  wf t = true -> has_type t v = true ->
  rops_rel rho o lr_ops -> rho r (spec_enc t v ++ rest) ->
  exists r', dec t o r = Ok v r' /\ rho r' rest.
Proof.
  intros Hwf Hv Hops Hr.
  pose proof (dec_sim t rho o lr_ops r _ Hops Hr) as H.
  rewrite (dec_from_payload t v rest Hv (decp_payload t v Hwf Hv rest)) in H.
  unfold rel_res in H. destruct (dec t o r) as [v' r'|e r']; [|contradiction].
  destruct H as [-> H]. exists r'. auto.
Qed.

(* composition of reader relations *)
Lemma rops_rel_trans {R1 R2 R3} (rho12 : R1 -> R2 -> Prop) (rho23 : R2 -> R3 -> Prop) o1 o2 o3 :
  rops_rel rho12 o1 o2 -> rops_rel rho23 o2 o3 ->
  rops_rel (fun a c => exists b, rho12 a b /\ rho23 b c) o1 o3.
Proof.
  intros H12 H23.
  assert (T : forall A (m1 : res A R1) (m2 : res A R2) (m3 : res A R3),
             rel_res rho12 m1 m2 -> rel_res rho23 m2 m3 ->
             rel_res (fun a c => exists b, rho12 a b /\ rho23 b c) m1 m3).
  { intros A m1 m2 m3 Ha Hb. destruct m1, m2, m3; cbn in *; try contradiction;
      destruct Ha as [-> Ha], Hb as [-> Hb]; split; eauto. }
  split.
  - intros n r1 r3 (r2 & Ha & Hb). eapply T; [apply (rr_ensure _ _ _ H12)|apply (rr_ensure _ _ _ H23)]; eassumption.
  - intros r1 r3 (r2 & Ha & Hb). eapply T; [apply (rr_read1 _ _ _ H12)|apply (rr_read1 _ _ _ H23)]; eassumption.
  - intros n r1 r3 (r2 & Ha & Hb). eapply T; [apply (rr_readn _ _ _ H12)|apply (rr_readn _ _ _ H23)]; eassumption.
  - intros n r1 r3 (r2 & Ha & Hb). eapply T; [apply (rr_skip _ _ _ H12)|apply (rr_skip _ _ _ H23)]; eassumption.
  - intros h r1 r3 (r2 & Ha & Hb). eapply T; [apply (rr_gethandle _ _ _ H12)|apply (rr_gethandle _ _ _ H23)]; eassumption.
Qed.

(* the buffer reader model (BufferReader after its repair, PedanticBufferReader)
   refines ListReader: view = the bytes from index_ on *)
Definition bufr_rel (r : bufr) (l : LR) : Prop :=
  br_idx r <= br_size r /\ br_size r < two64 /\ l = skipn (tn (br_idx r)) (br_buf r).

Lemma bufr_refines : rops_rel bufr_rel bufr_ops lr_ops.
Proof.
  assert (Adv : forall r n, br_idx r <= br_size r -> br_size r < two64 -> n <= br_size r - br_idx r ->
            bufr_rel (br_adv r n) (skipn (tn n) (skipn (tn (br_idx r)) (br_buf r)))).
  { intros r n H1 H2 H3. unfold bufr_rel, br_adv, br_size in *; cbn.
    rewrite add64_small by lia. repeat split; try lia. rewrite skipn_skipn'. f_equal. lia. }
  assert (Len : forall r, br_idx r <= br_size r -> nlen (skipn (tn (br_idx r)) (br_buf r)) = br_size r - br_idx r).
  { intros r H. rewrite nlen_skipn. reflexivity. }
  split; cbn [bufr_ops lr_ops r_ensure r_read1 r_readn r_skip r_gethandle].
  - intros n r l (H1 & H2 & ->). rewrite sub64_small by lia. fold (nlen (skipn (tn (br_idx r)) (br_buf r))).
    rewrite Len by lia. destruct (N.ltb_spec (br_size r - br_idx r) n).
    + rewrite (proj2 (N.leb_gt _ _)) by lia. cbn. unfold bufr_rel; auto.
    + rewrite (proj2 (N.leb_le _ _)) by lia. cbn. unfold bufr_rel; auto.
  - intros r l (H1 & H2 & ->). rewrite sub64_small by lia.
    destruct (N.ltb_spec (br_size r - br_idx r) 1) as [L|L].
    + assert (E : skipn (tn (br_idx r)) (br_buf r) = []).
      { apply skipn_all2. unfold br_size in *. lia. }
      rewrite E. cbn. unfold bufr_rel. rewrite E. auto.
    + pose proof (Len r H1) as Hl.
      destruct (skipn (tn (br_idx r)) (br_buf r)) as [|x rest] eqn:E.
      { unfold nlen in Hl; cbn in Hl; lia. }
      cbn. split.
      * assert (N : nth (tn (br_idx r)) (br_buf r) 0 = nth 0 (skipn (tn (br_idx r)) (br_buf r)) 0).
        { rewrite <- (firstn_skipn (tn (br_idx r)) (br_buf r)) at 1.
          rewrite app_nth2; rewrite firstn_length_le; unfold br_size in *; try lia.
          rewrite Nat.sub_diag. reflexivity. }
        rewrite N, E. reflexivity.
      * pose proof (Adv r 1 H1 H2 L) as A. rewrite E in A. exact A.
  - intros n r l (H1 & H2 & ->). rewrite sub64_small by lia.
    destruct (N.ltb_spec (br_size r - br_idx r) n) as [L|L].
    + rewrite take_n_none by (rewrite Len; lia). cbn. unfold bufr_rel; auto.
    + rewrite take_n_some by (rewrite Len; lia). cbn. split; [reflexivity|]. apply Adv; lia.
  - intros n r l (H1 & H2 & ->). rewrite sub64_small by lia.
    destruct (N.ltb_spec (br_size r - br_idx r) n) as [L|L].
    + rewrite take_n_none by (rewrite Len; lia). cbn. unfold bufr_rel; auto.
    + rewrite take_n_some by (rewrite Len; lia). cbn. split; [reflexivity|]. apply Adv; lia.
  - intros h r l H. cbn. auto.
Qed.

(* reading several values written back to back *)
Fixpoint enc_all (tvs : list (ty * val)) : bytes :=
  match tvs with [] => [] | (t, v) :: r => spec_enc t v ++ enc_all r end.

Fixpoint dec_all (ts : list ty) (r : LR) : res (list val) LR :=
  match ts with
  | [] => Ok [] r
  | t :: ts' => do v, r <- dec t lr_ops r; do vs, r <- dec_all ts' r; Ok (v :: vs) r
  end.

Theorem dec_all_enc_all tvs rest :
  Forall (fun tv => wf (fst tv) = true /\ has_type (fst tv) (snd tv) = true) tvs ->
  dec_all (map fst tvs) (enc_all tvs ++ rest) = Ok (map snd tvs) rest.
Proof.
  induction 1 as [|[t v] tvs [Hw Hv] _ IH]; cbn [map dec_all enc_all fst snd] in *; [reflexivity|].
  rewrite <- app_assoc, (dec_from_payload t v _ Hv (decp_payload t v Hw Hv _)). cbn [bind].
  rewrite IH. reflexivity.
Qed.
