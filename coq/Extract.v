(* Extract.v — extraction of the executable model for the correspondence
   driver.  ExtrOcamlBasic only: bool, option, unit, list, prod, sumbool map
   to their OCaml counterparts; N, Z, positive, nat stay Coq datatypes. *)
From Nop Require Import Codec Spec Fungible Calls SipHash Endian Objects Rpc Threads.
Require Extraction.
Require ExtrOcamlBasic.
Extraction Blacklist List String Int.
Cd "extract".
Extraction "nopmodel.ml"
  dec enc serialize tsize tprefix tmatch has_type val_eqb spec_enc wf no_handles fungible run_rcall run_wcall nop_siphash siphash_spec table_hash interface_hash method_selector host_from_little host_from_big host_to_little host_to_big
  o_step o_pre o_init r_step r_pre r_init v_step v_pre v_init vc_to_vop harness_ctor_target harness_assign_target h_step h_pre h_init
  oo_eq oo_ne oo_lt oo_gt oo_le oo_ge ov_eq ov_ne ov_lt ov_gt ov_le ov_ge vo_eq vo_ne vo_lt vo_gt vo_le vo_ge
  lr_ops lw_ops tlr_ops tlw_ops bufr_ops bufw_ops bounded_rops bounded_wops
  bounded_read_padding bounded_write_padding b_make b_inner b_index b_size
  inst_rops inst_wops inst_make
  dispatch send_request get_return lookup
  trun view empty_store
  N.of_nat N.to_nat Z.of_N Z.to_N Z.of_nat Z.to_nat N.add N.mul N.div N.modulo N.eqb N.ltb
  Z.add Z.mul Z.opp Z.div Z.modulo Z.eqb Z.ltb Z.sub N.sub Pos.of_nat.
Cd "..".
