(* Properties_C15.v — C15: handles travel out of band intact; UniqueHandle closes exactly
   once.  Statements only; proofs in Handles.v, DecSpec.v and ObjectsProps.v. *)
From Nop Require Import Spec Sim EncSpec ScalarRT DecSpec Handles Objects ObjectsProps.
Local Open Scope N_scope.

(* over ANY writer whose out-of-band channel can be observed (byte operations leave it
   alone, PushHandle h appends f h) — through any nesting of BoundedWriter, i.e. also
   inside table entries — a successful write has handed over exactly the handles of
   the value, each once, in encounter order *)
Theorem C15_push_order : forall (t : ty) (v : val) (W : Type) (o : wops W) (hv : W -> list Z) (f : Z -> list Z),
  hlogger o hv f ->
  forall w w', enc t v o w = Ok tt w' -> hv w' = hv w ++ flat_map f (handles_of t v).
Proof. intros t v W o hv f L w w' E. exact (enc_pushes t v o hv f L w tt w' E). Qed.
Print Assumptions C15_push_order.

Theorem C15_bounded_writer_forwards : forall W (o : wops W) hv f,
  hlogger o hv f -> hlogger (bounded_wops o) (fun b => hv (b_inner b)) f.
Proof. exact @bounded_hlogger. Qed.
Print Assumptions C15_bounded_writer_forwards.

(* the harness's table channel: the table ends up holding the valid handles in order *)
Theorem C15_table_channel : forall t v bs tbl bs' tbl',
  enc t v tlw_ops (bs, tbl) = Ok tt (bs', tbl') -> tbl' = tbl ++ flat_map valid_h (handles_of t v).
Proof. exact table_channel_order. Qed.
Print Assumptions C15_table_channel.

(* one handle on the wire: type tag, PushHandle, then exactly the returned reference *)
Theorem C15_reference_is_what_the_writer_returned : forall pid tk tag h W (o : wops W) w,
  encp (THnd pid tk tag) (VHnd h) W o w =
  (do _, w <- write_scalar o (SInt tk) tag w;
   do ref, w <- w_pushhandle o h w;
   write_scalar o sI64 ref w).
Proof. exact handle_write_shape. Qed.
Print Assumptions C15_reference_is_what_the_writer_returned.

(* reading: the tag is validated first, the reference is resolved through the reader,
   and a resolution error comes back unchanged *)
Theorem C15_wrong_tag_rejected : forall R (o : rops R) pid tk tag p r tg r1,
  read_scalar o (SInt tk) r = Ok tg r1 -> tg <> tag ->
  decp (THnd pid tk tag) p R o r = Err EHandleType r1.
Proof. exact @handle_read_wrong_tag. Qed.
Print Assumptions C15_wrong_tag_rejected.

Theorem C15_reference_resolved_by_reader : forall R (o : rops R) pid tk tag p r r1 ref r2 h r3,
  read_scalar o (SInt tk) r = Ok tag r1 -> read_scalar o sI64 r1 = Ok ref r2 ->
  r_gethandle o ref r2 = Ok h r3 ->
  decp (THnd pid tk tag) p R o r = Ok (VHnd h) r3.
Proof. exact @handle_read_resolves. Qed.
Print Assumptions C15_reference_resolved_by_reader.

Theorem C15_resolution_error_unchanged : forall R (o : rops R) pid tk tag p r r1 ref r2 e r3,
  read_scalar o (SInt tk) r = Ok tag r1 -> read_scalar o sI64 r1 = Ok ref r2 ->
  r_gethandle o ref r2 = Err e r3 ->
  decp (THnd pid tk tag) p R o r = Err e r3.
Proof. exact @handle_read_resolution_error. Qed.
Print Assumptions C15_resolution_error_unchanged.

(* a value with handles (also inside table entries) round-trips when references are
   the identity: this is the general round-trip theorem of C01, whose types include
   THnd at every nesting position *)
Theorem C15_round_trip_identity_channel : forall t v, wf t = true -> has_type t v = true ->
  forall rest, lenc t v = Ok tt (spec_enc t v) /\ ldec t (spec_enc t v ++ rest) = Ok v rest.
Proof.
  intros t v Hw Hv rest. split; [apply lenc_spec, Hv|].
  apply dec_from_payload; [exact Hv|apply decp_payload; assumption].
Qed.
Print Assumptions C15_round_trip_identity_channel.

(* UniqueHandle: every step conserves every resource — it sits in exactly the handle
   objects that hold it, or was closed, or was released; only adoption adds one *)
Theorem C15_conservation_step : forall (w : hworld) (op : hop) (x : Z), (0 <= x)%Z ->
  h_tot x (h_step w op) = (h_tot x w + h_adopts x w op)%nat.
Proof. exact h_step_conserves. Qed.
Print Assumptions C15_conservation_step.

(* so over every history a resource adopted once is, at every moment, in exactly one
   place: owned by one handle, or closed once, or released — never closed twice, never
   closed after release or while a handle it was moved to still owns it *)
Theorem C15_closed_exactly_once : forall (n : nat) (ops : list hop) (x : Z), (0 <= x)%Z ->
  h_adopted x (h_init n) ops = 1%nat ->
  let w := fold_left h_step ops (h_init n) in
  (h_owned x w + cz x (h_closed w) + cz x (h_released w))%nat = 1%nat.
Proof. exact h_exactly_once. Qed.
Print Assumptions C15_closed_exactly_once.

Example C15_nonvacuous :
  let ops := [HVal 0 7; HVal 1 8; HMoveAssign 0 1; HMove 2 0; HRelease 2; HDestroy 0; HDestroy 1; HDestroy 2]%Z in
  let w := fold_left h_step ops (h_init 3) in
  h_adopted 7 (h_init 3) ops = 1%nat /\ h_adopted 8 (h_init 3) ops = 1%nat /\
  h_closed w = [7%Z] /\ h_released w = [8%Z] /\ h_objs w = [None; None; None].
Proof. vm_compute. repeat split; reflexivity. Qed.
