(* Threads.v — C19: ThreadLocal<T, Slot> is per thread and per (T, Slot) pair.
   Model of types/thread_local.h: one cell (an Optional<T>) per (thread, slot), where
   "slot" enumerates the (T, Slot) instantiations (each instantiation of
   GetValue() has its own function-local 'static thread_local Optional<T>').  A
   ThreadLocal object caches the address of the cell of the thread that constructed
   it; the operations below are those of a thread on objects it constructed itself,
   which is how the class is meant to be used (see shared_object_is_not_private for
   what happens otherwise).  The serializer side of C19 has no state to model: in the
   Gallina model every encoder and decoder is a function of its arguments, which is
   what "no hidden shared state" means; the check ties that to the code by listing the
   objects with static storage duration in the headers and by running the library
   under ThreadSanitizer. *)
From Coq Require Import List Arith ZArith Lia Bool.
Import ListNotations.

Definition store := nat -> nat -> option Z.          (* thread -> slot -> cell *)
Definition empty_store : store := fun _ _ => None.
Definition upd (st : store) (t s : nat) (c : option Z) : store :=
  fun t' s' => if Nat.eqb t t' && Nat.eqb s s' then c else st t' s'.

Inductive top :=
| TNew (s : nat) (x : Z)      (* ThreadLocal<T,Slot> v{x}: Setup: initialise if empty   *)
| TInit (s : nat) (x : Z)     (* v.Initialize(x): Setup again                            *)
| TGet (s : nat)              (* v.Get()                                                 *)
| TSet (s : nat) (x : Z)      (* v.Get() = x                                             *)
| TClear (s : nat).           (* v.Clear()                                               *)

Definition setup (st : store) (t s : nat) (x : Z) : store :=
  match st t s with None => upd st t s (Some x) | Some _ => st end.

(* one operation by thread t; the observation is what Get() returns (None: Get() on an
   empty cell, which the class does not define) *)
Definition tstep (st : store) (e : nat * top) : store * option Z :=
  let '(t, op) := e in
  match op with
  | TNew s x | TInit s x => (setup st t s x, None)
  | TGet s => (st, st t s)
  | TSet s x => (match st t s with Some _ => upd st t s (Some x) | None => st end, None)
  | TClear s => (upd st t s None, None)
  end.

Fixpoint trun (st : store) (tr : list (nat * top)) : store * list (nat * option Z) :=
  match tr with
  | [] => (st, [])
  | e :: r => let '(st1, o) := tstep st e in
              let '(st2, os) := trun st1 r in (st2, (fst e, o) :: os)
  end.

(* what thread t sees *)
Definition view (t : nat) (os : list (nat * option Z)) : list (option Z) :=
  map snd (filter (fun o => Nat.eqb (fst o) t) os).
Definition mine (t : nat) (tr : list (nat * top)) : list (nat * top) :=
  filter (fun e => Nat.eqb (fst e) t) tr.

Definition agree_on (t : nat) (a b : store) : Prop := forall s, a t s = b t s.

Lemma upd_same st t s c : upd st t s c t s = c.
Proof. unfold upd. rewrite !Nat.eqb_refl. reflexivity. Qed.
Lemma upd_other_thread st t s c t' s' : t <> t' -> upd st t s c t' s' = st t' s'.
Proof. intros H. unfold upd. rewrite (proj2 (Nat.eqb_neq t t') H). reflexivity. Qed.
Lemma upd_other_slot st t s c s' : s <> s' -> upd st t s c t s' = st t s'.
Proof. intros H. unfold upd. rewrite (proj2 (Nat.eqb_neq s s') H), andb_false_r. reflexivity. Qed.

(* a step of another thread changes nothing thread t can see *)
Lemma step_other_thread st t u op : u <> t -> agree_on t (fst (tstep st (u, op))) st.
Proof.
  intros H s. destruct op; cbn; unfold setup;
    try destruct (st u s0); try reflexivity; apply upd_other_thread; exact H.
Qed.

(* a step of thread t depends only on thread t's cells, and keeps agreement *)
Lemma step_same_thread a b t op : agree_on t a b ->
  snd (tstep a (t, op)) = snd (tstep b (t, op)) /\ agree_on t (fst (tstep a (t, op))) (fst (tstep b (t, op))).
Proof.
  intros H. assert (U : forall s c, agree_on t (upd a t s c) (upd b t s c)).
  { intros s c s'. unfold upd. destruct (Nat.eqb t t && Nat.eqb s s'); [reflexivity|apply H]. }
  destruct op; cbn; unfold setup; rewrite ?(H s); try destruct (b t s); auto.
Qed.

(* the main theorem: in EVERY interleaving, what thread t observes is what it would
   observe running its own operations alone, from the same initial cells *)
Theorem thread_isolation (t : nat) (tr : list (nat * top)) (a b : store) : agree_on t a b ->
  view t (snd (trun a tr)) = view t (snd (trun b (mine t tr))) /\
  agree_on t (fst (trun a tr)) (fst (trun b (mine t tr))).
Proof.
  revert a b. induction tr as [|[u op] tr IH]; intros a b H; cbn [trun mine filter fst]; [split; [reflexivity|exact H]|].
  destruct (Nat.eqb_spec u t) as [->|Hn].
  - cbn [trun]. destruct (step_same_thread a b t op H) as [Ho Ha].
    destruct (tstep a (t, op)) as [a1 o1]. destruct (tstep b (t, op)) as [b1 o2]. cbn [fst snd] in Ho, Ha. subst o2.
    specialize (IH a1 b1 Ha). destruct (trun a1 tr) as [a2 os1]. fold (mine t tr) in *. destruct (trun b1 (mine t tr)) as [b2 os2].
    cbn [fst snd] in *. unfold view in *. cbn [filter fst]. rewrite Nat.eqb_refl. cbn [map snd]. destruct IH as [IH1 IH2].
    split; [f_equal; exact IH1|exact IH2].
  - pose proof (step_other_thread a t u op Hn) as Ha.
    destruct (tstep a (u, op)) as [a1 o1]. cbn [fst] in Ha.
    assert (H1 : agree_on t a1 b) by (intros s; rewrite Ha; apply H).
    specialize (IH a1 b H1). destruct (trun a1 tr) as [a2 os1]. fold (mine t tr) in *. destruct (trun b (mine t tr)) as [b2 os2].
    cbn [fst snd] in *. unfold view in *. cbn [filter fst]. rewrite (proj2 (Nat.eqb_neq u t) Hn). exact IH.
Qed.

Corollary interleavings_agree (t : nat) (tr1 tr2 : list (nat * top)) (st : store) :
  mine t tr1 = mine t tr2 -> view t (snd (trun st tr1)) = view t (snd (trun st tr2)).
Proof.
  intros E. destruct (thread_isolation t tr1 st st (fun _ => eq_refl)) as [H1 _].
  destruct (thread_isolation t tr2 st st (fun _ => eq_refl)) as [H2 _]. rewrite H1, H2, E. reflexivity.
Qed.

(* slots are independent within a thread: an operation on slot s leaves every other
   (T, Slot) cell of the thread alone *)
Definition slot_of (op : top) : nat :=
  match op with TNew s _ | TInit s _ | TGet s | TSet s _ | TClear s => s end.
Theorem slot_isolation st t op s' : slot_of op <> s' -> fst (tstep st (t, op)) t s' = st t s'.
Proof.
  intros H. destruct op; cbn in *; unfold setup; try destruct (st t s); try reflexivity; apply upd_other_slot; exact H.
Qed.

(* the first initialisation in a thread wins until Clear *)
Theorem first_initialisation_wins st t s x y : st t s = Some x ->
  fst (tstep st (t, TInit s y)) t s = Some x /\ fst (tstep st (t, TNew s y)) t s = Some x.
Proof. intros H. cbn. unfold setup. rewrite H. auto. Qed.
Theorem initialisation_after_clear st t s y :
  fst (tstep (fst (tstep st (t, TClear s))) (t, TInit s y)) t s = Some y.
Proof. cbn. unfold setup. rewrite upd_same. apply upd_same. Qed.

(* outside the modelled discipline: a ThreadLocal object caches the cell of the thread that
   constructed it, so Get() through an object handed to another thread reads the
   constructing thread's cell.  [shared_get st owner s] is that read. *)
Definition shared_get (st : store) (owner s : nat) : option Z := st owner s.
Example shared_object_is_not_private :
  let st := fst (tstep empty_store (0, TNew 0 7%Z)) in
  shared_get st 0 0 = Some 7%Z /\ snd (tstep st (1, TGet 0)) = None.
Proof. split; reflexivity. Qed.
