(* Wire.v — prefix bytes and the arithmetic encodings of base/encoding.h.
   Model definitions only. *)
From Nop Require Export Base.
Local Open Scope Z_scope.

(* EncodingByte (base/encoding_byte.h); bridged to Gen/GenEncodingByte.v. *)
Definition P_U8 : N := 128.  Definition P_U16 : N := 129.
Definition P_U32 : N := 130. Definition P_U64 : N := 131.
Definition P_I8 : N := 132.  Definition P_I16 : N := 133.
Definition P_I32 : N := 134. Definition P_I64 : N := 135.
Definition P_F32 : N := 136. Definition P_F64 : N := 137.
Definition P_TAB : N := 181. Definition P_ERR : N := 182.
Definition P_HND : N := 183. Definition P_VAR : N := 184.
Definition P_STU : N := 185. Definition P_ARY : N := 186.
Definition P_MAP : N := 187. Definition P_BIN : N := 188.
Definition P_STR : N := 189. Definition P_NIL : N := 190.
Definition P_EXT : N := 191. Definition P_NEGMIN : N := 192.

Inductive ikind := U8 | U16 | U32 | U64 | I8 | I16 | I32 | I64.

(* bool; integers; float (F32/F64 carried as their bit pattern). *)
Inductive scalar := SBool | SInt (k : ikind) | SF32 | SF64.

Definition ikind_eqb (a b : ikind) : bool :=
  match a, b with
  | U8, U8 | U16, U16 | U32, U32 | U64, U64
  | I8, I8 | I16, I16 | I32, I32 | I64, I64 => true
  | _, _ => false
  end.

Definition scalar_eqb (a b : scalar) : bool :=
  match a, b with
  | SBool, SBool | SF32, SF32 | SF64, SF64 => true
  | SInt x, SInt y => ikind_eqb x y
  | _, _ => false
  end.

Definition signed (k : ikind) : bool :=
  match k with I8 | I16 | I32 | I64 => true | _ => false end.

(* width in bytes *)
Definition width (k : ikind) : nat :=
  match k with
  | U8 | I8 => 1 | U16 | I16 => 2 | U32 | I32 => 4 | U64 | I64 => 8
  end%nat.

Definition bits (k : ikind) : Z := 8 * Z.of_nat (width k).

Definition in_range (k : ikind) (z : Z) : bool :=
  if signed k then (- 2 ^ (bits k - 1) <=? z) && (z <? 2 ^ (bits k - 1))
  else (0 <=? z) && (z <? 2 ^ bits k).

Definition scalar_ok (s : scalar) (z : Z) : bool :=
  match s with
  | SBool => (z =? 0) || (z =? 1)
  | SInt k => in_range k z
  | SF32 => (0 <=? z) && (z <? 2 ^ 32)
  | SF64 => (0 <=? z) && (z <? 2 ^ 64)
  end.

(* two's complement helpers on a w-byte object *)
Definition to_unsigned (w : nat) (z : Z) : N := Z.to_N (z mod 2 ^ (8 * Z.of_nat w)).
Definition sext (w : nat) (n : N) : Z :=
  let m := 2 ^ (8 * Z.of_nat w) in
  let z := Z.of_N n mod m in
  if z <? m / 2 then z else z - m.

(* ---- Encoding<K>::Prefix --------------------------------------------- *)
Definition uprefix (z : Z) : N :=
  if z <? 128 then Z.to_N z
  else if z <? 256 then P_U8
  else if z <? 65536 then P_U16
  else if z <? 4294967296 then P_U32
  else P_U64.

Definition sprefix (z : Z) : N :=
  if (-64 <=? z) && (z <=? 127) then Z.to_N (z mod 256)
  else if (-128 <=? z) && (z <=? 127) then P_I8
  else if (-32768 <=? z) && (z <=? 32767) then P_I16
  else if (-2147483648 <=? z) && (z <=? 2147483647) then P_I32
  else P_I64.

Definition scalar_prefix (s : scalar) (z : Z) : N :=
  match s with
  | SBool => if z =? 0 then 0%N else 1%N
  | SInt k => if signed k then sprefix z else uprefix z
  | SF32 => P_F32
  | SF64 => P_F64
  end.

(* ---- BaseEncodingSize -------------------------------------------------- *)
Definition base_size (p : N) : N :=
  (if (p <? 128) || (192 <=? p) then 1
   else if (p =? P_U8) || (p =? P_I8) then 2
   else if (p =? P_U16) || (p =? P_I16) then 3
   else if (p =? P_U32) || (p =? P_I32) || (p =? P_F32) then 5
   else if (p =? P_U64) || (p =? P_I64) || (p =? P_F64) then 9
   else if (181 <=? p) && (p <=? 191) then 1
   else 0)%N.

(* number of payload bytes that follow an arithmetic prefix *)
Definition class_len (p : N) : nat :=
  if ((p =? P_U8) || (p =? P_I8))%N then 1%nat
  else if ((p =? P_U16) || (p =? P_I16))%N then 2%nat
  else if ((p =? P_U32) || (p =? P_I32) || (p =? P_F32))%N then 4%nat
  else if ((p =? P_U64) || (p =? P_I64) || (p =? P_F64))%N then 8%nat
  else 0%nat.

(* ---- Encoding<K>::Match ------------------------------------------------ *)
Definition is_posfix (p : N) : bool := (p <? 128)%N.
Definition is_negfix (p : N) : bool := (192 <=? p)%N && (p <? 256)%N.

Definition umatch (w : nat) (p : N) : bool :=
  is_posfix p || (p =? P_U8)%N
  || ((2 <=? w)%nat && (p =? P_U16)%N)
  || ((4 <=? w)%nat && (p =? P_U32)%N)
  || ((8 <=? w)%nat && (p =? P_U64)%N).

Definition smatch (w : nat) (p : N) : bool :=
  is_posfix p || is_negfix p || (p =? P_I8)%N
  || ((2 <=? w)%nat && (p =? P_I16)%N)
  || ((4 <=? w)%nat && (p =? P_I32)%N)
  || ((8 <=? w)%nat && (p =? P_I64)%N).

Definition scalar_match (s : scalar) (p : N) : bool :=
  match s with
  | SBool => (p =? 0)%N || (p =? 1)%N
  | SInt k => if signed k then smatch (width k) p else umatch (width k) p
  | SF32 => (p =? P_F32)%N
  | SF64 => (p =? P_F64)%N
  end.

(* ---- payload bytes written after the prefix (WritePayload/WriteAs) ---- *)
Definition scalar_payload (s : scalar) (z : Z) : bytes :=
  let p := scalar_prefix s z in
  match s with
  | SBool => []
  | _ => le_bytes (class_len p) (to_unsigned (class_len p) z)
  end.

(* ---- value denoted by prefix + payload (ReadPayload/ReadAs) ----------- *)
Definition scalar_value (s : scalar) (p : N) (payload : bytes) : Z :=
  match s with
  | SBool => Z.of_N p
  | SInt k =>
      if (class_len p =? 0)%nat then
        (if signed k then sext 1 p else Z.of_N p)
      else if signed k then sext (class_len p) (le_val payload)
      else Z.of_N (le_val payload)
  | SF32 | SF64 => Z.of_N (le_val payload)
  end.

(* raw (BIN / STR) element packing: direct little-endian object bytes *)
Definition raw_enc (w : nat) (z : Z) : bytes := le_bytes w (to_unsigned w z).
Definition raw_dec (w : nat) (sg : bool) (bs : bytes) : Z :=
  if sg then sext w (le_val bs) else Z.of_N (le_val bs).
