(* Properties_C13.v — C13: Optional, Entry and Result keep a consistent state and
   element lifetime.  Statements only; proofs in ObjectsProps.v.  Models: o_step
   (types/optional.h; Entry<T,Id> has the same members and is run through the same
   model), r_step (types/result.h; Status<T> is Result<ErrorStatus,T>) and the 18
   comparison operators transcribed from optional.h:372-514. *)
From Nop Require Import Objects ObjectsProps.

(* Optional / Entry: flag and element agree, no double construction / destruction,
   constructions = destructions + values alive, after every history *)
Theorem C13_optional_invariant : forall (n : nat) (ops : list oop), o_inv (fold_left o_step ops (o_init n)).
Proof. exact o_reachable_inv. Qed.
Print Assumptions C13_optional_invariant.

Theorem C13_optional_matched_pairs : forall (w : oworld), o_inv w -> Forall (fun x => x = None) (o_objs w) ->
  ctor (o_st w) = dtor (o_st w) /\ bad (o_st w) = 0.
Proof. exact o_all_destroyed. Qed.
Print Assumptions C13_optional_matched_pairs.

Theorem C13_optional_move_assign_empties : forall (w : oworld) i j a b, i <> j ->
  o_get w i = Some a -> o_get w j = Some b ->
  exists b', o_get (o_step w (OMoveAssign i j)) j = Some b' /\ (o_empty b = false -> o_empty b' = true).
Proof. exact o_move_assign_empties. Qed.
Print Assumptions C13_optional_move_assign_empties.

(* Result / Status: exactly one of nothing, an error other than None, one alive value *)
Theorem C13_result_invariant : forall (n : nat) (ops : list rop), r_inv (fold_left r_step ops (r_init n)).
Proof. exact r_reachable_inv. Qed.
Print Assumptions C13_result_invariant.

Theorem C13_result_matched_pairs : forall (n : nat) (ops : list rop),
  let w := fold_left r_step ops (r_init n) in
  (forall x, In x (r_objs w) -> x = None) -> ctor (r_stt w) = dtor (r_stt w) /\ bad (r_stt w) = 0.
Proof. exact r_all_destroyed. Qed.
Print Assumptions C13_result_matched_pairs.

Theorem C13_result_move_assign_empties : forall (w : rworld) i j a b, i <> j ->
  r_get w i = Some a -> r_get w j = Some b ->
  exists b', r_get (r_step w (RMoveAssign i j)) j = Some b' /\ r_tag b' = RtEmpty.
Proof. exact r_move_assign_empties. Qed.
Print Assumptions C13_result_move_assign_empties.

(* the comparison operators: for any element type whose == and < are a decidable
   equality and a strict total order, the six Optional-Optional operators are the
   order "empty below every value, otherwise the values decide" ... *)
Theorem C13_comparisons_are_the_order : forall (A : Type) (eqb ltb : A -> A -> bool),
  (forall x y, eqb x y = true <-> x = y) -> (forall x, ltb x x = false) ->
  (forall x y z, ltb x y = true -> ltb y z = true -> ltb x z = true) ->
  (forall x y, x <> y -> ltb x y = true \/ ltb y x = true) ->
  forall a b : option A,
    oo_lt A ltb a b = olt A ltb a b /\ oo_gt A ltb a b = olt A ltb b a /\
    oo_le A ltb a b = olt A ltb a b || oo_eq A eqb a b /\
    oo_ge A ltb a b = olt A ltb b a || oo_eq A eqb a b /\
    oo_ne A eqb a b = negb (oo_eq A eqb a b).
Proof. exact oo_ops_order. Qed.
Print Assumptions C13_comparisons_are_the_order.

Theorem C13_equality_is_equality : forall (A : Type) (eqb : A -> A -> bool),
  (forall x y, eqb x y = true <-> x = y) -> forall a b : option A, oo_eq A eqb a b = true <-> a = b.
Proof. exact oo_eq_spec. Qed.
Print Assumptions C13_equality_is_equality.

(* ... which is a strict total order with the empty Optional as least element ... *)
Theorem C13_order_is_total : forall (A : Type) (ltb : A -> A -> bool),
  (forall x, ltb x x = false) ->
  (forall x y z, ltb x y = true -> ltb y z = true -> ltb x z = true) ->
  (forall x y, x <> y -> ltb x y = true \/ ltb y x = true) ->
  (forall a, olt A ltb a a = false) /\
  (forall a b c, olt A ltb a b = true -> olt A ltb b c = true -> olt A ltb a c = true) /\
  (forall a b, a <> b -> olt A ltb a b = true \/ olt A ltb b a = true) /\
  (forall y, olt A ltb None (Some y) = true) /\ (forall a, olt A ltb a None = false).
Proof. exact olt_strict_total. Qed.
Print Assumptions C13_order_is_total.

(* ... and the Optional-value and value-Optional operators agree with them *)
Theorem C13_mixed_operands_agree_ov : forall (A : Type) (eqb ltb : A -> A -> bool) (a : option A) (b : A),
  ov_eq A eqb a b = oo_eq A eqb a (Some b) /\ ov_ne A eqb a b = oo_ne A eqb a (Some b) /\
  ov_lt A ltb a b = oo_lt A ltb a (Some b) /\ ov_gt A ltb a b = oo_gt A ltb a (Some b) /\
  ov_le A ltb a b = oo_le A ltb a (Some b) /\ ov_ge A ltb a b = oo_ge A ltb a (Some b).
Proof. exact ov_ops_agree. Qed.
Print Assumptions C13_mixed_operands_agree_ov.

Theorem C13_mixed_operands_agree_vo : forall (A : Type) (eqb ltb : A -> A -> bool) (a : A) (b : option A),
  vo_eq A eqb a b = oo_eq A eqb (Some a) b /\ vo_ne A eqb a b = oo_ne A eqb (Some a) b /\
  vo_lt A ltb a b = oo_lt A ltb (Some a) b /\ vo_gt A ltb a b = oo_gt A ltb (Some a) b /\
  vo_le A ltb a b = oo_le A ltb (Some a) b /\ vo_ge A ltb a b = oo_ge A ltb (Some a) b.
Proof. exact vo_ops_agree. Qed.
Print Assumptions C13_mixed_operands_agree_vo.

(* non-vacuity *)
Example C13_nonvacuous :
  let w := fold_left r_step [RVal 0 5; RErr 1 2; RMoveAssign 1 0; RSetErr 0 0; RCopy 2 1; RTake 2; RDestroy 1]%Z (r_init 3) in
  r_objs w = [Some {| r_tag := RtEmpty; r_slot := Dead |}; None; Some {| r_tag := RtValue; r_slot := Alive moved |}]
  /\ bad (r_stt w) = 0.
Proof. vm_compute. split; reflexivity. Qed.
