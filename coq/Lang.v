(* Lang.v — the decoder against the documented language (proofs for C04):
   prefix classes as docs/format.md tabulates them, acceptance of every
   integer class no wider than the destination, the consumed bytes are a
   prefix of the input, and the error category of each single top-level
   defect. *)
From Nop Require Import Spec Sim EncSpec ScalarRT DecSpec Readers.
Local Open Scope N_scope.

(* ---- the prefix table of docs/format.md, written out ------------------------ *)
Definition POS : list N := map N.of_nat (seq 0 128).          (* 0x00 - 0x7f *)
Definition NEG : list N := map N.of_nat (seq 192 64).         (* 0xc0 - 0xff *)

(* UINT8 = POS, U8; UINT16 = POS, U8, U16; ... INT8 = POS, NEG, I8; ... *)
Definition doc_classes (s : scalar) : list N :=
  match s with
  | SBool => [0; 1]
  | SInt U8 => POS ++ [128]
  | SInt U16 => POS ++ [128; 129]
  | SInt U32 => POS ++ [128; 129; 130]
  | SInt U64 => POS ++ [128; 129; 130; 131]
  | SInt I8 => POS ++ NEG ++ [132]
  | SInt I16 => POS ++ NEG ++ [132; 133]
  | SInt I32 => POS ++ NEG ++ [132; 133; 134]
  | SInt I64 => POS ++ NEG ++ [132; 133; 134; 135]
  | SF32 => [136]
  | SF64 => [137]
  end.

Definition all_scalars : list scalar :=
  [SBool; SInt U8; SInt U16; SInt U32; SInt U64; SInt I8; SInt I16; SInt I32; SInt I64; SF32; SF64].

Definition all_prefix_bytes : list N := map N.of_nat (seq 0 256).

Definition sweep_ok : bool :=
  forallb (fun s => forallb (fun p => Bool.eqb (scalar_match s p) (existsb (N.eqb p) (doc_classes s)))
                            all_prefix_bytes) all_scalars.

Lemma sweep_ok_true : sweep_ok = true.
Proof. vm_compute. reflexivity. Qed.

Lemma prefix_sweep s p : In s all_scalars -> p < 256 ->
  scalar_match s p = existsb (N.eqb p) (doc_classes s).
Proof.
  intros Hs Hp. pose proof sweep_ok_true as H. unfold sweep_ok in H.
  rewrite forallb_forall in H. specialize (H s Hs). rewrite forallb_forall in H.
  assert (Hin : In p all_prefix_bytes).
  { unfold all_prefix_bytes. apply in_map_iff. exists (N.to_nat p). split; [apply N2Nat.id|].
    apply in_seq. lia. }
  specialize (H p Hin). apply eqb_prop in H. exact H.
Qed.

(* payload length of every arithmetic class, as the diagrams give it *)
Definition doc_payload_len (p : N) : nat :=
  if (p =? 128) || (p =? 132) then 1
  else if (p =? 129) || (p =? 133) then 2
  else if (p =? 130) || (p =? 134) || (p =? 136) then 4
  else if (p =? 131) || (p =? 135) || (p =? 137) then 8
  else 0.

Lemma class_len_doc : forallb (fun p => Nat.eqb (class_len p) (doc_payload_len p)) all_prefix_bytes = true.
Proof. vm_compute. reflexivity. Qed.

(* ---- any class that Match admits is read, and denotes its payload ------------ *)
(* (completeness for non-minimal classes: a value may arrive in any class of
   its signedness that is no wider than the destination) *)
Theorem any_class_accepted s p (pl rest : bytes) :
  scalar_match s p = true -> length pl = class_len p ->
  read_scalar lr_ops s (p :: pl ++ rest) = Ok (scalar_value s p pl) rest.
Proof.
  intros Hm Hl. unfold read_scalar. cbn [lr_ops r_read1 bind]. rewrite Hm.
  unfold read_scalar_payload. destruct s.
  - (* bool: no payload *)
    cbn [scalar_match] in Hm. apply orb_prop in Hm.
    assert (class_len p = 0%nat) as Hc by (destruct Hm as [H|H]; apply N.eqb_eq in H; subst p; reflexivity).
    rewrite Hc in Hl. destruct pl; [|discriminate]. reflexivity.
  - destruct (class_len p =? 0)%nat eqn:E.
    + apply Nat.eqb_eq in E. rewrite E in Hl. destruct pl; [|discriminate]. reflexivity.
    + rewrite <- Hl. fold (nlen pl). rewrite lr_readn_app. reflexivity.
  - destruct (class_len p =? 0)%nat eqn:E.
    + apply Nat.eqb_eq in E. rewrite E in Hl. destruct pl; [|discriminate]. reflexivity.
    + rewrite <- Hl. fold (nlen pl). rewrite lr_readn_app. reflexivity.
  - destruct (class_len p =? 0)%nat eqn:E.
    + apply Nat.eqb_eq in E. rewrite E in Hl. destruct pl; [|discriminate]. reflexivity.
    + rewrite <- Hl. fold (nlen pl). rewrite lr_readn_app. reflexivity.
Qed.

(* a class Match does not admit (wider, other signedness, reserved, container
   prefixes) is rejected with UnexpectedEncodingType *)
Theorem other_class_rejected s p bs :
  scalar_match s p = false -> read_scalar lr_ops s (p :: bs) = Err EType bs.
Proof. intros Hm. unfold read_scalar. cbn [lr_ops r_read1 bind]. rewrite Hm. reflexivity. Qed.

(* ---- what a successful read consumed is a prefix of the input ---------------- *)
Definition suffix_rel (bs0 : bytes) (l1 l2 : LR) : Prop := l1 = l2 /\ exists pre, bs0 = pre ++ l1.

Lemma take_n_split n (l a r : bytes) : take_n n l = Some (a, r) -> l = a ++ r.
Proof.
  unfold take_n. destruct (n <=? N.of_nat (length l)); [|discriminate].
  intros E. injection E as <- <-. symmetry. apply firstn_skipn.
Qed.

Lemma lr_suffix_rel bs0 : rops_rel true (suffix_rel bs0) lr_ops lr_ops.
Proof.
  apply mk_rops_rel; cbn [lr_ops r_ensure r_read1 r_readn r_skip r_gethandle]; unfold suffix_rel.
  - intros n l1 l2 (-> & pre & ->). destruct (n <=? N.of_nat (length l2)); cbn; eauto.
  - intros l1 l2 (-> & pre & ->). destruct l2 as [|b r]; cbn; [eauto|].
    split; [reflexivity|]. split; [reflexivity|]. exists (pre ++ [b]). rewrite <- app_assoc. reflexivity.
  - intros n l1 l2 (-> & pre & ->). destruct (take_n n l2) as [[a r]|] eqn:E; cbn; [|eauto].
    split; [reflexivity|]. split; [reflexivity|]. exists (pre ++ a).
    rewrite <- app_assoc, (take_n_split _ _ _ _ E). reflexivity.
  - intros n l1 l2 (-> & pre & ->). destruct (take_n n l2) as [[a r]|] eqn:E; cbn; [|eauto].
    split; [reflexivity|]. split; [reflexivity|]. exists (pre ++ a).
    rewrite <- app_assoc, (take_n_split _ _ _ _ E). reflexivity.
  - intros h l1 l2 (-> & pre & ->). cbn. eauto.
Qed.

Theorem dec_consumes_prefix t bs v rest :
  dec t lr_ops bs = Ok v rest -> exists e, bs = e ++ rest.
Proof.
  intros H.
  pose proof (dec_sim true t (suffix_rel bs) lr_ops lr_ops bs bs (lr_suffix_rel bs)
                      (conj eq_refl (ex_intro _ [] eq_refl))) as S.
  rewrite H in S. cbn in S. destruct S as (_ & _ & pre & E). exists pre. exact E.
Qed.

(* ---- error category of a single top-level defect ------------------------------ *)
Theorem defect_wrong_prefix t p bs : tmatch t p = false -> dec t lr_ops (p :: bs) = Err EType bs.
Proof. intros H. unfold dec, dec_with. cbn [lr_ops r_read1 bind]. rewrite H. reflexivity. Qed.

Theorem defect_empty_input t : dec t lr_ops [] = Err EReadLimit [].
Proof. reflexivity. Qed.

Theorem defect_string_length cw n rest : n < two64 -> n mod cw <> 0 ->
  dec (TStr cw) lr_ops (P_STR :: uint_enc n ++ rest) = Err EStrLen rest.
Proof.
  intros Hn Hm. unfold dec, dec_with. cbn [lr_ops r_read1 bind tmatch]. rewrite N.eqb_refl.
  cbn [decp]. rewrite (read_u64_rt n rest Hn). cbn [bind].
  rewrite (proj2 (N.eqb_neq _ _) Hm). reflexivity.
Qed.

Theorem defect_bin_length t w sg n rest : raw_kind t = Some (w, sg) -> n < two64 ->
  n mod N.of_nat w <> 0 ->
  dec (TSeq CVec t) lr_ops (P_BIN :: uint_enc n ++ rest) = Err EContLen rest.
Proof.
  intros Hk Hn Hm. unfold dec, dec_with. cbn [lr_ops r_read1 bind tmatch]. rewrite Hk, N.eqb_refl.
  cbn [decp]. rewrite Hk, (read_u64_rt n rest Hn). cbn [bind].
  rewrite (proj2 (N.eqb_neq _ _) Hm). reflexivity.
Qed.

Theorem defect_array_length t ca m n rest : raw_kind t = None -> n < two64 -> n <> m ->
  dec (TSeq (CArr ca m) t) lr_ops (P_ARY :: uint_enc n ++ rest) = Err EContLen rest.
Proof.
  intros Hk Hn Hm. unfold dec, dec_with. cbn [lr_ops r_read1 bind tmatch]. rewrite Hk, N.eqb_refl.
  cbn [decp]. rewrite Hk, (read_u64_rt n rest Hn). cbn [bind].
  rewrite (proj2 (N.eqb_neq _ _) Hm). reflexivity.
Qed.

Theorem defect_lbuf_over_capacity t ca cap sk n rest : raw_kind t = None -> n < two64 -> cap < n ->
  dec (TSeq (CLBuf ca cap sk false) t) lr_ops (P_ARY :: uint_enc n ++ rest) = Err EContLen rest.
Proof.
  intros Hk Hn Hm. unfold dec, dec_with. cbn [lr_ops r_read1 bind tmatch]. rewrite Hk, N.eqb_refl.
  cbn [decp]. rewrite Hk, (read_u64_rt n rest Hn). cbn [bind orb].
  rewrite (proj2 (N.leb_gt _ _) Hm). reflexivity.
Qed.

Theorem defect_member_count ts n rest : n < two64 -> n <> nlen ts ->
  dec (TTuple KStruct ts) lr_ops (P_STU :: uint_enc n ++ rest) = Err EMemberCount rest /\
  dec (TTuple KTuple ts) lr_ops (P_ARY :: uint_enc n ++ rest) = Err EContLen rest.
Proof.
  intros Hn Hm. unfold dec, dec_with. cbn [lr_ops r_read1 bind tmatch]. rewrite N.eqb_refl.
  cbn [decp]. rewrite (read_u64_rt n rest Hn). cbn [bind].
  rewrite (proj2 (N.eqb_neq _ _) Hm). split; reflexivity.
Qed.

Theorem defect_variant_index ts i rest : in_range I32 i = true ->
  (i < -1 \/ Z.of_N (nlen ts) <= i)%Z ->
  dec (TVar ts) lr_ops (P_VAR :: int32_enc i ++ rest) = Err EVariant rest.
Proof.
  intros Hr Hi. unfold dec, dec_with. cbn [lr_ops r_read1 bind tmatch]. rewrite N.eqb_refl.
  cbn [decp]. unfold int32_enc. rewrite (scalar_rt sI32 i rest Hr). cbn [bind].
  assert (E : ((i <? -1)%Z || (Z.of_N (nlen ts) <=? i)%Z) = true).
  { apply orb_true_iff. destruct Hi; [left; apply Z.ltb_lt|right; apply Z.leb_le]; assumption. }
  rewrite E. reflexivity.
Qed.

Theorem defect_handle_type pid tk tag tg rest : in_range tk tg = true -> tg <> tag ->
  dec (THnd pid tk tag) lr_ops (P_HND :: scalar_enc (SInt tk) tg ++ rest) = Err EHandleType rest.
Proof.
  intros Hr Hn. unfold dec, dec_with. cbn [lr_ops r_read1 bind tmatch]. rewrite N.eqb_refl.
  cbn [decp]. rewrite (scalar_rt (SInt tk) tg rest Hr). cbn [bind].
  rewrite (proj2 (Z.eqb_neq _ _) Hn). reflexivity.
Qed.

Theorem defect_table_hash hash es hh rest : hh < two64 -> hh <> hash ->
  dec (TTab hash es) lr_ops (P_TAB :: uint_enc hh ++ rest) = Err ETableHash rest.
Proof.
  intros Hn Hm. unfold dec, dec_with. cbn [lr_ops r_read1 bind tmatch]. rewrite N.eqb_refl.
  cbn [decp]. rewrite (read_u64_rt hh rest Hn). cbn [bind].
  rewrite (proj2 (N.eqb_neq _ _) Hm). reflexivity.
Qed.
