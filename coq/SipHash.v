(* SipHash.v — SipHash-2-4 as specified (Aumasson & Bernstein) and the
   transcription of nop::SipHash::Compute (utility/sip_hash.h).
   Definitions only; proofs in SipHashProps.v. *)
From Nop Require Export Base.
Local Open Scope N_scope.

Definition mask64 (x : N) : N := x mod two64.
Definition rotl64 (x b : N) : N := mask64 (N.lor (N.shiftl x b) (N.shiftr x (64 - b))).

Record sipstate := { v0 : N; v1 : N; v2 : N; v3 : N }.

(* SipRound *)
Definition sipround (s : sipstate) : sipstate :=
  let a0 := add64 (v0 s) (v1 s) in
  let a1 := N.lxor (rotl64 (v1 s) 13) a0 in
  let a0 := rotl64 a0 32 in
  let a2 := add64 (v2 s) (v3 s) in
  let a3 := N.lxor (rotl64 (v3 s) 16) a2 in
  let a0 := add64 a0 a3 in
  let a3 := N.lxor (rotl64 a3 21) a0 in
  let a2 := add64 a2 a1 in
  let a1 := N.lxor (rotl64 a1 17) a2 in
  let a2 := rotl64 a2 32 in
  {| v0 := a0; v1 := a1; v2 := a2; v3 := a3 |}.

Definition sip_init (k0 k1 : N) : sipstate :=
  {| v0 := N.lxor 8317987319222330741 k0;     (* 0x736f6d6570736575 *)
     v1 := N.lxor 7237128888997146477 k1;     (* 0x646f72616e646f6d *)
     v2 := N.lxor 7816392313619706465 k0;     (* 0x6c7967656e657261 *)
     v3 := N.lxor 8387220255154660723 k1 |}.  (* 0x7465646279746573 *)

(* one message word: v3 ^= m; 2 rounds; v0 ^= m *)
Definition sip_compress (s : sipstate) (m : N) : sipstate :=
  let s := {| v0 := v0 s; v1 := v1 s; v2 := v2 s; v3 := N.lxor (v3 s) m |} in
  let s := sipround (sipround s) in
  {| v0 := N.lxor (v0 s) m; v1 := v1 s; v2 := v2 s; v3 := v3 s |}.

Definition sip_final (s : sipstate) : N :=
  let s := {| v0 := v0 s; v1 := v1 s; v2 := N.lxor (v2 s) 255; v3 := v3 s |} in
  let s := sipround (sipround (sipround (sipround s))) in
  N.lxor (N.lxor (v0 s) (v1 s)) (N.lxor (v2 s) (v3 s)).

(* ---- the specification ---------------------------------------------------------- *)
(* the message is padded with zeros and a final byte holding its length mod 256 to a
   multiple of 8 bytes, split into little-endian 64-bit words *)
Definition sip_padded (m : bytes) : bytes :=
  m ++ repeat 0 (7 - length m mod 8)%nat ++ [N.of_nat (length m) mod 256].

Fixpoint words_of (fuel : nat) (bs : bytes) : list N :=
  match fuel with
  | O => []
  | S f => match bs with
           | [] => []
           | _ => le_val (firstn 8 bs) :: words_of f (skipn 8 bs)
           end
  end.

Definition siphash_spec (k0 k1 : N) (m : bytes) : N :=
  let p := sip_padded m in
  sip_final (fold_left sip_compress (words_of (length p) p) (sip_init k0 k1)).

(* ---- nop::SipHash::Compute --------------------------------------------------------- *)
(* v |= elem(l) << 8l for l = n-1 down to 0 — the shape of both ReadBlock
   ((v7 << 56) | (v6 << 48) | ... | (v0 << 0), left-associated) and the
   fall-through switch over the left-over bytes *)
Fixpoint or_down (get : nat -> N) (n : nat) (acc : N) : N :=
  match n with
  | O => acc
  | S l => or_down get l (N.lor acc (N.shiftl (get l) (8 * N.of_nat l)))
  end.

Definition read_block (bs : bytes) (off : nat) : N :=
  let get i := nth (off + i) bs 0 in
  or_down get 7 (N.shiftl (get 7%nat) 56).

Definition tail_or (bs : bytes) (off : nat) (left : nat) (b : N) : N :=
  or_down (fun i => nth (off + i) bs 0) left b.

Fixpoint block_loop (bs : bytes) (nblocks : nat) (off : nat) (s : sipstate) : sipstate :=
  match nblocks with
  | O => s
  | S n => block_loop bs n (off + 8) (sip_compress s (read_block bs off))
  end.

Definition nop_siphash (k0 k1 : N) (m : bytes) : N :=
  let len := length m in
  let left := (len mod 8)%nat in
  let endoff := (len - left)%nat in
  let s := block_loop m (endoff / 8) 0 (sip_init k0 k1) in
  let b := tail_or m endoff left (mask64 (N.shiftl (N.of_nat len) 56)) in
  sip_final (sip_compress s b).

(* table hashes and RPC selectors: SipHash of the name INCLUDING its terminating NUL
   (the macros pass a string literal, and the array extent counts the NUL) *)
Definition kNopTableKey0 : N := 13451671604386709231.   (* 0xbaadf00ddeadbeef *)
Definition kNopTableKey1 : N := 81985529216486895.      (* 0x0123456789abcdef *)
Definition table_hash (name : bytes) : N := nop_siphash kNopTableKey0 kNopTableKey1 (name ++ [0]).

(* the 64 reference vectors of the SipHash paper: key 00 01 .. 0f, message 00 01 .. (i-1) *)
Definition ref_k0 : N := 506097522914230528.     (* 0x0706050403020100 *)
Definition ref_k1 : N := 1084818905618843912.    (* 0x0f0e0d0c0b0a0908 *)
Definition ref_vectors : list N := [
  8246050544436514353;
  8428550223375919101;
  967288799772626778;
  9612764727700323885;
  14927063180398135223;
  1762690195596617357;
  14684345499771659214;
  12322412585038238007;
  10661697595502699618;
  11385243752477615280;
  8817410102741809651;
  17632488944357322151;
  8439340791604635131;
  1507111754042457488;
  17808300073767596782;
  11613035633349379557;
  4551675220716592091;
  7609651759622801300;
  5458842069249151900;
  13505671986754970045;
  13751280707121114776;
  15056320461803317191;
  10615942640109305480;
  12109057401368137416;
  13307381289415454612;
  13610321033394764010;
  1718182323771086323;
  3399761846665465773;
  16018647108141566373;
  12007247957814764913;
  12504142468843433768;
  3663839902933566274;
  8153574914611379406;
  12102055411412728035;
  1360280716319199800;
  1576317954979633070;
  3552776872709694388;
  178333021418699137;
  14617792573217180749;
  11150869205492134748;
  1026444043506460624;
  12469414959406143890;
  1761759337908409769;
  15322946588829625237;
  17957335083907161586;
  12201253063246567303;
  15824186602498598160;
  15018546865153603051;
  16578493273242052945;
  14368424742064336790;
  17177928935062830706;
  11642602692479882842;
  758724319039419570;
  9346067901451639663;
  9198639672290634986;
  2618616414355072153;
  13226438439979549629;
  16869029984879647243;
  6982299211676602387;
  7351800817158466451;
  7828642298779898337;
  11484862539558692339;
  16508850846422949719;
  10775480364379293042
].
Definition ref_message (i : nat) : bytes := map N.of_nat (seq 0 i).

(* RPC: interface hash and method selectors *)
Definition kNopInterfaceKey0 : N := 16045704242793410573.   (* 0xdeadcafebaadf00d *)
Definition kNopInterfaceKey1 : N := 81985529216486895.      (* 0x0123456789abcdef *)
Definition interface_hash (name : bytes) : N :=
  nop_siphash kNopInterfaceKey0 kNopInterfaceKey1 (name ++ [0]).
Definition method_selector (bits32 : bool) (ihash : N) (name : bytes) : N :=
  let h := nop_siphash ihash kNopInterfaceKey1 (name ++ [0]) in
  if bits32 then h mod 4294967296 else h.
