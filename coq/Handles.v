(* Handles.v — the out-of-band handle channel (C15): every handle contained in a
   value is handed to the writer's PushHandle exactly once, in encounter order,
   wherever it sits (members, sequences, optionals, variants, table entries, and
   through any nesting of BoundedWriter); the reference PushHandle returns is what is
   encoded after the type tag; ReadPayload validates the tag, decodes the reference
   and resolves it through the reader, returning a resolution error unchanged. *)
From Nop Require Import Spec Sim.
Local Open Scope N_scope.

(* the handles of a value, in the order the encoding meets them *)
Fixpoint handles_of (t : ty) (v : val) {struct t} : list Z :=
  match t with
  | TScalar _ _ | TStr _ => []
  | TSeq _ t' =>
      match v with
      | VSeq vs => match raw_kind t' with Some _ => [] | None => flat_map (handles_of t') vs end
      | _ => []
      end
  | TTuple _ ts =>
      match v with
      | VSeq vs =>
          (fix go (ts : list ty) (vs : list val) {struct ts} : list Z :=
             match ts, vs with
             | t' :: ts', x :: vs' => handles_of t' x ++ go ts' vs'
             | _, _ => []
             end) ts vs
      | _ => []
      end
  | TWrap _ t' => handles_of t' v
  | TMap _ kt vt =>
      match v with
      | VMap kvs => flat_map (fun kv => handles_of kt (fst kv) ++ handles_of vt (snd kv)) kvs
      | _ => []
      end
  | TOpt t' => match v with VSome x => handles_of t' x | _ => [] end
  | TRes _ _ t' => match v with VOk x => handles_of t' x | _ => [] end
  | TVar ts =>
      match v with
      | VAlt i x =>
          (fix pick (ts : list ty) (n : nat) {struct ts} : list Z :=
             match ts with
             | [] => []
             | t' :: ts' => match n with O => handles_of t' x | S n' => pick ts' n' end
             end) ts (Z.to_nat i)
      | _ => []
      end
  | THnd _ _ _ => match v with VHnd h => [h] | _ => [] end
  | TTab _ es =>
      match v with
      | VTab xs =>
          (fix go (es : list (N * bool * ty)) (xs : list val) {struct es} : list Z :=
             match es, xs with
             | (_, _, t') :: es', x :: xs' =>
                 (match x with VSome y => handles_of t' y | _ => [] end) ++ go es' xs'
             | _, _ => []
             end) es xs
      | _ => []
      end
  end.

(* a writer whose out-of-band channel is observable through [hv]: byte operations
   leave it alone, PushHandle h appends [f h] (f drops the handles the channel does not
   record, e.g. empty ones) *)
Record hlogger {W} (o : wops W) (hv : W -> list Z) (f : Z -> list Z) : Prop := {
  hl_prepare : forall n w u w', w_prepare o n w = Ok u w' -> hv w' = hv w;
  hl_write1 : forall b w u w', w_write1 o b w = Ok u w' -> hv w' = hv w;
  hl_writen : forall bs w u w', w_writen o bs w = Ok u w' -> hv w' = hv w;
  hl_skip : forall n v w u w', w_skip o n v w = Ok u w' -> hv w' = hv w;
  hl_push : forall h w r w', w_pushhandle o h w = Ok r w' -> hv w' = hv w ++ f h
}.

(* [hlogs hv m l]: whenever m succeeds it has pushed exactly l *)
Definition hlogs {W A} (hv : W -> list Z) (m : W -> res A W) (l : list Z) : Prop :=
  forall w a w', m w = Ok a w' -> hv w' = hv w ++ l.

Lemma hlogs_bind {W A B} (hv : W -> list Z) (m : W -> res A W) (k : A -> W -> res B W) l1 l2 :
  hlogs hv m l1 -> (forall a, hlogs hv (k a) l2) -> hlogs hv (fun w => bind (m w) k) (l1 ++ l2).
Proof.
  intros H1 H2 w b w' E. destruct (m w) as [a w1|e w1] eqn:E1; cbn [bind] in E; [|discriminate].
  rewrite (H2 a w1 b w' E), (H1 w a w1 E1), app_assoc. reflexivity.
Qed.

Lemma hlogs_bind0 {W A B} (hv : W -> list Z) (m : W -> res A W) (k : A -> W -> res B W) l :
  hlogs hv m [] -> (forall a, hlogs hv (k a) l) -> hlogs hv (fun w => bind (m w) k) l.
Proof. intros H1 H2. apply (hlogs_bind hv m k [] l H1 H2). Qed.

Lemma hlogs_bindr {W A B} (hv : W -> list Z) (m : W -> res A W) (k : A -> W -> res B W) l :
  hlogs hv m l -> (forall a, hlogs hv (k a) []) -> hlogs hv (fun w => bind (m w) k) l.
Proof. intros H1 H2. rewrite <- (app_nil_r l). apply (hlogs_bind hv m k l [] H1 H2). Qed.

Lemma hlogs_ret {W A} (hv : W -> list Z) (a : A) : hlogs hv (fun w => Ok a w) [].
Proof. intros w b w' E. injection E as _ <-. rewrite app_nil_r. reflexivity. Qed.

Lemma hlogs_err {W A} (hv : W -> list Z) (e : N) l : hlogs hv (fun w => @Err A W e w) l.
Proof. intros w b w' E. discriminate. Qed.

Lemma hlogs_ext {W A} (hv : W -> list Z) (m m' : W -> res A W) l l' :
  (forall w, m w = m' w) -> l = l' -> hlogs hv m l -> hlogs hv m' l'.
Proof. intros E -> H w a w' Hm. rewrite <- E in Hm. apply (H w a w' Hm). Qed.

Section Logger.
  Context {W : Type} (o : wops W) (hv : W -> list Z) (f : Z -> list Z).
  Hypothesis L : hlogger o hv f.

  Lemma hlogs_write1 b : hlogs hv (w_write1 o b) [].
  Proof. intros w a w' E. rewrite app_nil_r. apply (hl_write1 _ _ _ L b w a w' E). Qed.
  Lemma hlogs_writen bs : hlogs hv (w_writen o bs) [].
  Proof. intros w a w' E. rewrite app_nil_r. apply (hl_writen _ _ _ L bs w a w' E). Qed.

  Lemma hlogs_scalar_payload s z : hlogs hv (write_scalar_payload o s z) [].
  Proof.
    unfold write_scalar_payload. destruct s; try apply hlogs_ret;
      (destruct (class_len _ =? 0)%nat; [apply hlogs_ret|apply hlogs_writen]).
  Qed.

  Lemma hlogs_scalar s z : hlogs hv (write_scalar o s z) [].
  Proof.
    unfold write_scalar. apply hlogs_bind0; [apply hlogs_write1|intros _; apply hlogs_scalar_payload].
  Qed.

  Lemma hlogs_u64 n : hlogs hv (write_u64 o n) [].
  Proof. apply hlogs_scalar. Qed.
End Logger.

(* BoundedWriter forwards the out-of-band channel of the writer it wraps *)
Lemma bounded_hlogger {W} (o : wops W) hv f :
  hlogger o hv f -> hlogger (bounded_wops o) (fun b => hv (b_inner b)) f.
Proof.
  intros L.
  assert (Lift : forall A (b : Bounded W) adv (m : res A W) a b',
             b_lift b adv m = Ok a b' -> exists w', m = Ok a w' /\ b_inner b' = w').
  { intros A b adv m a b' E. destruct m as [x w1|e w1]; cbn in E; [|discriminate].
    injection E as <- <-. eauto. }
  assert (Keep : forall A (b : Bounded W) (m : res A W) a b',
             b_keep b m = Ok a b' -> exists w', m = Ok a w' /\ b_inner b' = w').
  { intros A b m a b' E. destruct m as [x w1|e w1]; cbn in E; [|discriminate].
    injection E as <- <-. eauto. }
  split; cbn [bounded_wops w_prepare w_write1 w_writen w_skip w_pushhandle].
  - intros n b u b' E. destruct (_ <? n); [discriminate|].
    destruct (Keep _ _ _ _ _ E) as (w' & E' & ->). apply (hl_prepare _ _ _ L _ _ _ _ E').
  - intros x b u b' E. destruct (b_index b <? b_size b); [|discriminate].
    destruct (Lift _ _ _ _ _ _ E) as (w' & E' & ->). apply (hl_write1 _ _ _ L _ _ _ _ E').
  - intros bs b u b' E. cbv zeta in E. destruct (_ <? _); [discriminate|].
    destruct (Lift _ _ _ _ _ _ E) as (w' & E' & ->). apply (hl_writen _ _ _ L _ _ _ _ E').
  - intros n v b u b' E. destruct (_ <? n); [discriminate|].
    destruct (Lift _ _ _ _ _ _ E) as (w' & E' & ->). apply (hl_skip _ _ _ L _ _ _ _ _ E').
  - intros h b r b' E.
    destruct (Keep _ _ _ _ _ E) as (w' & E' & ->). apply (hl_push _ _ _ L _ _ _ _ E').
Qed.

Lemma padding_hlogs {W} (o : wops W) hv f v :
  hlogger o hv f -> hlogs (fun b => hv (b_inner b)) (bounded_write_padding o v) [].
Proof.
  intros L b a b' E. unfold bounded_write_padding in E. rewrite app_nil_r.
  destruct (w_skip o _ v (b_inner b)) as [x w1|e w1] eqn:E1; cbn in E; [|discriminate].
  injection E as _ <-. cbn. apply (hl_skip _ _ _ L _ _ _ _ _ E1).
Qed.

(* the main theorem: whenever Encoding<T>::WritePayload succeeds over a writer, the
   out-of-band channel has received exactly the handles of the value, each once, in
   encounter order *)
Theorem encp_pushes : forall (t : ty) (v : val) (W : Type) (o : wops W) hv f,
  hlogger o hv f -> hlogs hv (encp t v W o) (flat_map f (handles_of t v)).
Proof.
  induction t using ty_ind'; intros v W o hv f L; cbn [encp handles_of].
  - (* scalar *) destruct v; try apply hlogs_err. apply (hlogs_scalar_payload o hv f L).
  - (* string *)
    destruct v; try apply hlogs_err. cbn [flat_map].
    apply hlogs_bind0; [apply (hlogs_u64 o hv f L)|intros _; apply (hlogs_writen o hv f L)].
  - (* seq *)
    destruct v; try apply hlogs_err.
    match goal with |- hlogs _ (fun w => if ?c then _ else _) _ => destruct c end; [apply hlogs_err|].
    destruct (raw_kind t) as [[wd sg]|].
    + cbn [flat_map].
      apply hlogs_bind0; [apply (hlogs_u64 o hv f L)|intros _; apply (hlogs_writen o hv f L)].
    + apply hlogs_bind0; [apply (hlogs_u64 o hv f L)|intros _].
      induction vs as [|x vs IHvs]; [apply hlogs_ret|].
      cbn [flat_map]. rewrite flat_map_app.
      apply hlogs_bind0; [apply (hlogs_write1 o hv f L)|intros _].
      apply hlogs_bind; [apply IHt, L|intros _; exact IHvs].
  - (* tuple *)
    destruct v; try apply hlogs_err.
    apply hlogs_bind0; [apply (hlogs_u64 o hv f L)|intros _].
    revert vs. induction H as [|t' ts Ht Hts IHts]; intros vs.
    + destruct vs; [apply hlogs_ret|apply hlogs_err].
    + destruct vs as [|x vs]; [apply hlogs_err|]. rewrite flat_map_app.
      apply hlogs_bind0; [apply (hlogs_write1 o hv f L)|intros _].
      apply hlogs_bind; [apply Ht, L|intros _; apply IHts].
  - (* wrap *) apply IHt, L.
  - (* map *)
    destruct v; try apply hlogs_err.
    apply hlogs_bind0; [apply (hlogs_u64 o hv f L)|intros _].
    induction kvs as [|[k x] kvs IHkvs]; [apply hlogs_ret|].
    cbn [flat_map fst snd]. rewrite !flat_map_app, <- app_assoc.
    apply hlogs_bind0; [apply (hlogs_write1 o hv f L)|intros _].
    apply hlogs_bind; [apply IHt1, L|intros _].
    apply hlogs_bind0; [apply (hlogs_write1 o hv f L)|intros _].
    apply hlogs_bind; [apply IHt2, L|intros _; exact IHkvs].
  - (* optional *) destruct v; try apply hlogs_err; first [apply hlogs_ret|apply IHt, L].
  - (* result *) destruct v; try apply hlogs_err; first [apply IHt, L|apply (hlogs_scalar o hv f L)].
  - (* variant *)
    destruct v; try apply hlogs_err.
    + apply hlogs_bind0; [apply (hlogs_scalar o hv f L)|intros _].
      generalize (Z.to_nat i). induction H as [|t' ts Ht Hts IHts]; intros n; [apply hlogs_err|].
      destruct n as [|n]; [|apply IHts].
      apply hlogs_bind0; [apply (hlogs_write1 o hv f L)|intros _; apply Ht, L].
    + cbn [flat_map].
      apply hlogs_bind0; [apply (hlogs_scalar o hv f L)|intros _; apply (hlogs_write1 o hv f L)].
  - (* handle *)
    destruct v; try apply hlogs_err. cbn [flat_map]. rewrite app_nil_r.
    apply hlogs_bind0; [apply (hlogs_scalar o hv f L)|intros _].
    apply hlogs_bindr; [intros w r w' E; apply (hl_push _ _ _ L _ _ _ _ E)|intros r; apply (hlogs_scalar o hv f L)].
  - (* table *)
    destruct v as [| | | | | | | | | |xs]; try apply hlogs_err.
    apply hlogs_bind0; [apply (hlogs_u64 o hv f L)|intros _].
    apply hlogs_bind0; [apply (hlogs_u64 o hv f L)|intros _].
    revert xs. induction H as [|[[eid act] t'] es Ht Hes IHes]; intros xs.
    + destruct xs; [apply hlogs_ret|apply hlogs_err].
    + destruct xs as [|x xs]; [apply hlogs_err|]. cbn [snd] in Ht. rewrite flat_map_app.
      destruct x as [| | | |y| | | | | |]; try apply hlogs_err.
      * (* VNone *) apply IHes.
      * (* VSome *)
        destruct act; [|apply hlogs_err].
        apply hlogs_bind0; [apply (hlogs_u64 o hv f L)|intros _].
        apply hlogs_bind0; [apply (hlogs_u64 o hv f L)|intros _].
        intros w a w' E.
        pose proof (bounded_hlogger o hv f L) as BL.
        set (bhv := fun b : Bounded W => hv (b_inner b)) in *.
        match type of E with match ?m with _ => _ end = _ => destruct m as [u b|e b] eqn:E1 end; [|discriminate].
        destruct (bounded_write_padding o 0 b) as [u2 b2|e2 b2] eqn:E2; [|discriminate].
        assert (H1 : bhv b = bhv (b_make w (tsize t' y)) ++ flat_map f (handles_of t' y)).
        { refine (hlogs_bind0 bhv (w_write1 (bounded_wops o) (tprefix t' y))
                    (fun _ b1 => encp t' y (Bounded W) (bounded_wops o) b1) _ _ _ _ u b E1).
          - apply (hlogs_write1 _ bhv f BL).
          - intros _. apply Ht, BL. }
        pose proof (padding_hlogs o hv f 0 L b u2 b2 E2) as H2. rewrite app_nil_r in H2.
        pose proof (IHes xs (b_inner b2) a w' E) as H3.
        unfold bhv in H1. cbn [b_make b_inner fst] in H1. rewrite H3, H2, H1, app_assoc. reflexivity.
Qed.

Theorem enc_pushes (t : ty) (v : val) {W} (o : wops W) hv f :
  hlogger o hv f -> hlogs hv (enc t v o) (flat_map f (handles_of t v)).
Proof.
  intros L. unfold enc.
  apply hlogs_bind0; [apply (hlogs_write1 o hv f L)|intros _; apply encp_pushes, L].
Qed.

(* the table channel of the harness: valid handles are appended to the table in push
   order, empty ones are not recorded *)
Definition valid_h (h : Z) : list Z := if (h <? 0)%Z then [] else [h].

Lemma tlw_hlogger : hlogger tlw_ops snd valid_h.
Proof.
  split; cbn; intros; try (match goal with H : Ok _ _ = Ok _ _ |- _ => injection H as _ <- end; reflexivity).
  unfold valid_h. destruct (h <? 0)%Z; injection H as _ <-; cbn; [rewrite app_nil_r|]; reflexivity.
Qed.

Corollary table_channel_order t v bs tbl bs' tbl' :
  enc t v tlw_ops (bs, tbl) = Ok tt (bs', tbl') -> tbl' = tbl ++ flat_map valid_h (handles_of t v).
Proof. intros E. apply (enc_pushes t v tlw_ops snd valid_h tlw_hlogger _ _ _ E). Qed.

(* one handle: the type tag, then exactly the reference PushHandle returned *)
Theorem handle_write_shape pid tk tag h {W} (o : wops W) w :
  encp (THnd pid tk tag) (VHnd h) W o w =
  (do _, w <- write_scalar o (SInt tk) tag w;
   do ref, w <- w_pushhandle o h w;
   write_scalar o sI64 ref w).
Proof. reflexivity. Qed.

(* ---- reading one handle -------------------------------------------------------------- *)
Section ReadHandle.
  Context {R : Type} (o : rops R) (pid : N) (tk : ikind) (tag : Z) (p : N).

  (* a type tag other than the expected one is UnexpectedHandleType, before any
     reference is read or resolved *)
  Theorem handle_read_wrong_tag r tg r1 :
    read_scalar o (SInt tk) r = Ok tg r1 -> tg <> tag ->
    decp (THnd pid tk tag) p R o r = Err EHandleType r1.
  Proof.
    intros E Hn. cbn [decp]. rewrite E. cbn [bind].
    destruct (Z.eqb_spec tg tag); [contradiction|reflexivity].
  Qed.

  (* the decoded reference is resolved through the reader; its answer is the value *)
  Theorem handle_read_resolves r r1 ref r2 h r3 :
    read_scalar o (SInt tk) r = Ok tag r1 -> read_scalar o sI64 r1 = Ok ref r2 ->
    r_gethandle o ref r2 = Ok h r3 ->
    decp (THnd pid tk tag) p R o r = Ok (VHnd h) r3.
  Proof.
    intros E1 E2 E3. cbn [decp]. rewrite E1. cbn [bind]. rewrite Z.eqb_refl. cbn [negb].
    rewrite E2. cbn [bind]. rewrite E3. reflexivity.
  Qed.

  (* a resolution error is returned unchanged *)
  Theorem handle_read_resolution_error r r1 ref r2 e r3 :
    read_scalar o (SInt tk) r = Ok tag r1 -> read_scalar o sI64 r1 = Ok ref r2 ->
    r_gethandle o ref r2 = Err e r3 ->
    decp (THnd pid tk tag) p R o r = Err e r3.
  Proof.
    intros E1 E2 E3. cbn [decp]. rewrite E1. cbn [bind]. rewrite Z.eqb_refl. cbn [negb].
    rewrite E2. cbn [bind]. rewrite E3. reflexivity.
  Qed.
End ReadHandle.

(* non-vacuity: a structure holding two handles around an optional one, in a table entry *)
Example pushes_example :
  let t := TTab 7 [(1, true, TTuple KStruct [THnd 1 U64 1%Z; TOpt (THnd 1 U64 1%Z); THnd 1 U64 1%Z])] in
  let v := VTab [VSome (VSeq [VHnd 40; VSome (VHnd (-1)); VHnd 41])] in
  exists bs, enc t v tlw_ops ([], []) = Ok tt (bs, [40; 41]%Z) /\ handles_of t v = [40; -1; 41]%Z.
Proof. eexists. split; vm_compute; reflexivity. Qed.
