(* ObjectsProps.v — lifetime invariants of the Optional / Result / Variant /
   UniqueHandle state machines, for every operation sequence. *)
From Nop Require Import Objects.
Local Open Scope nat_scope.

(* ---- lists with one position replaced ---------------------------------------------- *)
Fixpoint sum_n {A} (n : A -> nat) (l : list A) : nat :=
  match l with [] => 0 | a :: r => n a + sum_n n r end.

Lemma upd_length {A} (l : list A) i x : length (upd l i x) = length l.
Proof. revert i; induction l as [|a l IH]; intros [|i]; cbn; auto. Qed.

Lemma nth_upd_same {A} (l : list A) i x d : i < length l -> nth i (upd l i x) d = x.
Proof. revert i; induction l as [|a l IH]; intros [|i] H; cbn in *; try lia; auto. apply IH. lia. Qed.

Lemma nth_upd_other {A} (l : list A) i j x d : i <> j -> nth j (upd l i x) d = nth j l d.
Proof.
  revert i j; induction l as [|a l IH]; intros [|i] [|j] H; cbn; try reflexivity; try lia.
  apply IH. lia.
Qed.

Lemma sum_upd {A} (n : A -> nat) (l : list A) i x d : i < length l ->
  sum_n n (upd l i x) + n (nth i l d) = sum_n n l + n x.
Proof.
  revert i; induction l as [|a l IH]; intros [|i] H; cbn in *; try lia.
  specialize (IH i ltac:(lia)). lia.
Qed.

Lemma Forall_upd {A} (P : A -> Prop) (l : list A) i x : Forall P l -> P x -> Forall P (upd l i x).
Proof.
  intros H Hx. revert i. induction H as [|a l Ha Hl IH]; intros [|i]; cbn; try constructor; auto.
Qed.

Lemma nth_some_lt {A} (l : list (option A)) i a : nth i l None = Some a -> i < length l.
Proof.
  intros H. destruct (Nat.lt_ge_cases i (length l)) as [L|L]; [exact L|].
  rewrite nth_overflow in H by exact L. discriminate.
Qed.

(* =============================== Optional ============================================= *)
Definition o_wf (o : ostate) : Prop :=
  (o_empty o = true /\ o_slot o = Dead) \/ (o_empty o = false /\ exists v, o_slot o = Alive v).
Definition o_wfo (x : option ostate) : Prop := match x with Some o => o_wf o | None => True end.
Definition o_n (x : option ostate) : nat :=
  match x with Some o => if o_empty o then 0 else 1 | None => 0 end.

(* no protocol violation so far; flag and element agree in every living object; every
   constructed element is either still alive inside a non-empty object or destroyed *)
Definition o_inv (w : oworld) : Prop :=
  bad (o_st w) = 0 /\ Forall o_wfo (o_objs w) /\
  ctor (o_st w) = dtor (o_st w) + sum_n o_n (o_objs w).

Lemma o_assign_ok v o st : o_wf o ->
  let r := o_assign v o st in
  o_wf (fst r) /\ o_empty (fst r) = false /\ bad (snd r) = bad st /\ dtor (snd r) = dtor st /\
  ctor (snd r) = ctor st + (if o_empty o then 1 else 0).
Proof.
  intros [[He Hs]|[He [x Hs]]]; unfold o_assign; rewrite He, Hs; cbn; unfold o_wf; cbn;
    repeat split; eauto; lia.
Qed.

Lemma o_destruct_ok o st : o_wf o ->
  let r := o_destruct o st in
  o_wf (fst r) /\ o_empty (fst r) = true /\ bad (snd r) = bad st /\ ctor (snd r) = ctor st /\
  dtor (snd r) = dtor st + (if o_empty o then 0 else 1).
Proof.
  intros [[He Hs]|[He [x Hs]]]; unfold o_destruct; rewrite He; [|rewrite Hs]; cbn; unfold o_wf; cbn;
    repeat split; auto; try lia.
Qed.

Lemma o_inv_put (w : oworld) i (x : option ostate) st :
  i < length (o_objs w) -> Forall o_wfo (o_objs w) -> o_wfo x -> bad st = 0 ->
  ctor st + o_n (nth i (o_objs w) None) = dtor st + sum_n o_n (o_objs w) + o_n x ->
  o_inv (o_put w i x st).
Proof.
  intros Hi Hf Hx Hb Hc. unfold o_inv, o_put; cbn [o_objs o_st]. split; [exact Hb|]. split.
  - apply Forall_upd; assumption.
  - pose proof (sum_upd o_n (o_objs w) i x None Hi). lia.
Qed.

Lemma o_get_wf (w : oworld) i o : Forall o_wfo (o_objs w) -> o_get w i = Some o -> o_wf o /\ i < length (o_objs w).
Proof.
  intros Hf Hg. unfold o_get in Hg. pose proof (nth_some_lt _ _ _ Hg) as Hl. split; [|exact Hl].
  rewrite Forall_forall in Hf. specialize (Hf (Some o)). apply Hf. rewrite <- Hg. apply nth_In, Hl.
Qed.

Lemma o_n_wf o : o_wf o -> o_n (Some o) = if o_empty o then 0 else 1.
Proof. reflexivity. Qed.

Ltac o_tidy :=
  repeat match goal with
         | H : _ /\ _ |- _ => destruct H
         end.

Theorem o_step_inv (w : oworld) (op : oop) : o_inv w -> o_inv (o_step w op).
Proof.
  intros (Hb & Hf & Hc). unfold o_step.
  destruct (o_pre w op) eqn:Hp; cbn [negb]; [|split; auto].
  assert (Dead_lt : forall i, match o_get w i with None => (i <? length (o_objs w)) | Some _ => false end = true ->
                    i < length (o_objs w) /\ nth i (o_objs w) None = None).
  { intros i H. unfold o_get in *. destruct (nth i (o_objs w) None) eqn:E; [discriminate|].
    apply Nat.ltb_lt in H. auto. }
  destruct op; cbn [o_pre] in Hp.
  - (* ONew *)
    destruct (Dead_lt _ Hp) as [Hl Hn]. apply o_inv_put; auto; [left; auto|]. rewrite Hn. cbn. lia.
  - destruct (Dead_lt _ Hp) as [Hl Hn]. cbn. apply o_inv_put; auto; [right; cbn; eauto|]. rewrite Hn. cbn. lia.
  - destruct (Dead_lt _ Hp) as [Hl Hn]. cbn. apply o_inv_put; auto; [right; cbn; eauto|]. rewrite Hn. cbn. lia.
  - destruct (Dead_lt _ Hp) as [Hl Hn]. cbn. apply o_inv_put; auto; [right; cbn; eauto|]. rewrite Hn. cbn. lia.
  - (* OCopy *)
    apply andb_prop in Hp. destruct Hp as [Hd Hj]. destruct (Dead_lt _ Hd) as [Hl Hn].
    destruct (o_get w j) as [src|] eqn:Ej; [|discriminate].
    destruct (o_empty src) eqn:Ee.
    + apply o_inv_put; auto; [left; auto|]. rewrite Hn. cbn. lia.
    + cbn. apply o_inv_put; auto; [right; cbn; eauto|]. rewrite Hn. cbn. lia.
  - (* OMove *)
    apply andb_prop in Hp. destruct Hp as [Hd Hj]. destruct (Dead_lt _ Hd) as [Hl Hn].
    destruct (o_get w j) as [src|] eqn:Ej; [|discriminate].
    destruct (o_get_wf w j src Hf Ej) as [Hw Hlj].
    destruct (o_empty src) eqn:Ee.
    + apply o_inv_put; auto; [left; auto|]. rewrite Hn. cbn. lia.
    + destruct Hw as [[He _]|[_ [v Hs]]]; [congruence|]. rewrite Hs. cbn.
      assert (Hij : i <> j) by (intros ->; unfold o_get in Ej; congruence).
      set (w1 := o_put w j (Some {| o_empty := false; o_slot := Alive moved |}) (o_st w)).
      assert (I1 : o_inv w1).
      { apply o_inv_put; auto; [right; cbn; eauto|]. unfold o_get in Ej. rewrite Ej. cbn. rewrite Ee. lia. }
      destruct I1 as (B1 & F1 & C1).
      assert (E1 : o_objs w1 = upd (o_objs w) j (Some {| o_empty := false; o_slot := Alive moved |})) by reflexivity.
      change (o_inv (o_put w1 i (Some {| o_empty := false; o_slot := Alive v |})
                           {| ctor := S (ctor (o_st w)); dtor := dtor (o_st w); bad := bad (o_st w) |})).
      apply o_inv_put; auto.
      * rewrite E1, upd_length. exact Hl.
      * right. cbn. eauto.
      * rewrite E1, nth_upd_other by (intros E; apply Hij; symmetry; exact E). rewrite Hn. cbn in *. lia.
  - (* ODestroy *)
    destruct (o_get w i) as [o|] eqn:Ei; [|discriminate].
    destruct (o_get_wf w i o Hf Ei) as [Hw Hl].
    pose proof (o_destruct_ok o (o_st w) Hw) as R. cbn zeta in R.
    destruct (o_destruct o (o_st w)) as [o' st']. cbn [fst snd] in R. o_tidy.
    apply o_inv_put; auto; [cbn; exact I|congruence|]. unfold o_get in Ei. rewrite Ei. cbn.
    destruct (o_empty o); lia.
  - (* OAssign *)
    apply andb_prop in Hp. destruct Hp as [Hi Hj].
    destruct (Nat.eqb i j) eqn:Eij; [split; auto|].
    destruct (o_get w i) as [a|] eqn:Ei; [|discriminate]. destruct (o_get w j) as [b|] eqn:Ej; [|discriminate].
    destruct (o_get_wf w i a Hf Ei) as [Hwa Hla].
    destruct (o_empty b).
    + pose proof (o_destruct_ok a (o_st w) Hwa) as R. cbn zeta in R.
      destruct (o_destruct a (o_st w)) as [a' st']. cbn [fst snd] in R. o_tidy.
      apply o_inv_put; auto; [congruence|]. unfold o_get in Ei. rewrite Ei. cbn. rewrite H0.
      destruct (o_empty a); lia.
    + pose proof (o_assign_ok (s_value (o_slot b)) a (o_st w) Hwa) as R. cbn zeta in R.
      destruct (o_assign (s_value (o_slot b)) a (o_st w)) as [a' st']. cbn [fst snd] in R. o_tidy.
      apply o_inv_put; auto; [congruence|]. unfold o_get in Ei. rewrite Ei. cbn. rewrite H0.
      destruct (o_empty a); lia.
  - (* OMoveAssign *)
    apply andb_prop in Hp. destruct Hp as [Hi Hj].
    destruct (Nat.eqb i j) eqn:Eij; [split; auto|]. apply Nat.eqb_neq in Eij.
    destruct (o_get w i) as [a|] eqn:Ei; [|discriminate]. destruct (o_get w j) as [b|] eqn:Ej; [|discriminate].
    destruct (o_get_wf w i a Hf Ei) as [Hwa Hla]. destruct (o_get_wf w j b Hf Ej) as [Hwb Hlb].
    destruct (o_empty b) eqn:Eb.
    + pose proof (o_destruct_ok a (o_st w) Hwa) as R. cbn zeta in R.
      destruct (o_destruct a (o_st w)) as [a' st']. cbn [fst snd] in R. o_tidy.
      apply o_inv_put; auto; [congruence|]. unfold o_get in Ei. rewrite Ei. cbn. rewrite H0.
      destruct (o_empty a); lia.
    + destruct Hwb as [[He _]|[_ [v Hs]]]; [congruence|]. rewrite Hs. cbn [s_move_out].
      pose proof (o_assign_ok v a (o_st w) Hwa) as R. cbn zeta in R.
      destruct (o_assign v a (o_st w)) as [a' st1]. cbn [fst snd] in R. o_tidy.
      cbn [o_destruct o_empty o_slot s_destroy].
      set (st2 := {| ctor := ctor st1; dtor := S (dtor st1); bad := bad st1 |}).
      set (w1 := o_put w i (Some a') st2).
      assert (I1 : Forall o_wfo (o_objs w1) /\ o_objs w1 = upd (o_objs w) i (Some a')).
      { split; [|reflexivity]. apply Forall_upd; auto. }
      destruct I1 as [F1 E1].
      change (o_inv (o_put w1 j (Some {| o_empty := true; o_slot := Dead |}) st2)).
      apply o_inv_put.
      * rewrite E1, upd_length. exact Hlb.
      * exact F1.
      * left. auto.
      * cbn. congruence.
      * rewrite E1, nth_upd_other by exact Eij. unfold o_get in Ej. rewrite Ej. cbn [o_n]. rewrite Eb.
        pose proof (sum_upd o_n (o_objs w) i (Some a') None Hla) as S. unfold o_get in Ei. rewrite Ei in S.
        cbn [o_n] in S. rewrite H0 in S. cbn in *. destruct (o_empty a); lia.
  - (* OSetVal *)
    destruct (o_get w i) as [a|] eqn:Ei; [|discriminate]. destruct (o_get_wf w i a Hf Ei) as [Hwa Hla].
    pose proof (o_assign_ok x a (o_st w) Hwa) as R. cbn zeta in R.
    destruct (o_assign x a (o_st w)) as [a' st']. cbn [fst snd] in R. o_tidy.
    apply o_inv_put; auto; [congruence|]. unfold o_get in Ei. rewrite Ei. cbn. rewrite H0. destruct (o_empty a); lia.
  - destruct (o_get w i) as [a|] eqn:Ei; [|discriminate]. destruct (o_get_wf w i a Hf Ei) as [Hwa Hla].
    pose proof (o_assign_ok x a (o_st w) Hwa) as R. cbn zeta in R.
    destruct (o_assign x a (o_st w)) as [a' st']. cbn [fst snd] in R. o_tidy.
    apply o_inv_put; auto; [congruence|]. unfold o_get in Ei. rewrite Ei. cbn. rewrite H0. destruct (o_empty a); lia.
  - destruct (o_get w i) as [a|] eqn:Ei; [|discriminate]. destruct (o_get_wf w i a Hf Ei) as [Hwa Hla].
    pose proof (o_assign_ok x a (o_st w) Hwa) as R. cbn zeta in R.
    destruct (o_assign x a (o_st w)) as [a' st']. cbn [fst snd] in R. o_tidy.
    apply o_inv_put; auto; [congruence|]. unfold o_get in Ei. rewrite Ei. cbn. rewrite H0. destruct (o_empty a); lia.
  - (* OSetConvEmpty *)
    destruct (o_get w i) as [a|] eqn:Ei; [|discriminate]. destruct (o_get_wf w i a Hf Ei) as [Hwa Hla].
    pose proof (o_destruct_ok a (o_st w) Hwa) as R. cbn zeta in R.
    destruct (o_destruct a (o_st w)) as [a' st']. cbn [fst snd] in R. o_tidy.
    apply o_inv_put; auto; [congruence|]. unfold o_get in Ei. rewrite Ei. cbn. rewrite H0. destruct (o_empty a); lia.
  - destruct (o_get w i) as [a|] eqn:Ei; [|discriminate]. destruct (o_get_wf w i a Hf Ei) as [Hwa Hla].
    pose proof (o_destruct_ok a (o_st w) Hwa) as R. cbn zeta in R.
    destruct (o_destruct a (o_st w)) as [a' st']. cbn [fst snd] in R. o_tidy.
    apply o_inv_put; auto; [congruence|]. unfold o_get in Ei. rewrite Ei. cbn. rewrite H0. destruct (o_empty a); lia.
  - (* OTake *)
    destruct (o_get w i) as [a|] eqn:Ei; [|discriminate]. destruct (o_get_wf w i a Hf Ei) as [Hwa Hla].
    apply negb_true_iff in Hp. destruct Hwa as [[He _]|[_ [v Hs]]]; [congruence|]. rewrite Hs. cbn.
    apply o_inv_put; auto; [right; cbn; eauto|]. unfold o_get in Ei. rewrite Ei. cbn. rewrite Hp. lia.
Qed.

(* every reachable world satisfies the invariant *)
Theorem o_reachable_inv (n : nat) (ops : list oop) : o_inv (fold_left o_step ops (o_init n)).
Proof.
  assert (I0 : o_inv (o_init n)).
  { unfold o_inv, o_init; cbn. split; [reflexivity|]. split.
    - induction n; cbn; constructor; cbn; auto.
    - induction n; cbn; auto. }
  revert I0. generalize (o_init n). induction ops as [|op ops IH]; intros w I; cbn [fold_left]; [exact I|].
  apply IH, o_step_inv, I.
Qed.

(* once every object has been destroyed, every constructed element has been destroyed,
   exactly once *)
Theorem o_all_destroyed (w : oworld) : o_inv w -> Forall (fun x => x = None) (o_objs w) ->
  ctor (o_st w) = dtor (o_st w) /\ bad (o_st w) = 0.
Proof.
  intros (Hb & _ & Hc) Hn. split; [|exact Hb].
  assert (S0 : sum_n o_n (o_objs w) = 0).
  { clear - Hn. induction Hn as [|x l Hx _ IH]; cbn; [reflexivity|]. subst x. cbn. exact IH. }
  lia.
Qed.

(* moving from an object by assignment leaves it empty *)
Theorem o_move_assign_empties (w : oworld) i j a b : i <> j ->
  o_get w i = Some a -> o_get w j = Some b ->
  exists b', o_get (o_step w (OMoveAssign i j)) j = Some b' /\ (o_empty b = false -> o_empty b' = true).
Proof.
  intros Hij Ei Ej. unfold o_step. cbn [o_pre]. rewrite Ei, Ej. cbn [andb negb].
  rewrite (proj2 (Nat.eqb_neq i j) Hij).
  pose proof (nth_some_lt _ _ _ Ej) as Hlj.
  destruct (o_empty b) eqn:Eb.
  - destruct (o_destruct a (o_st w)) as [a' st']. exists b. split; [|discriminate].
    unfold o_get, o_put; cbn [o_objs]. rewrite nth_upd_other by exact Hij. exact Ej.
  - destruct (s_move_out (o_slot b) (o_st w)) as [[v bs] st1].
    destruct (o_assign v a st1) as [a' st2].
    destruct (o_destruct {| o_empty := false; o_slot := bs |} st2) as [b' st3] eqn:Ed.
    exists b'. split.
    + unfold o_get, o_put; cbn [o_objs]. apply nth_upd_same. rewrite upd_length. exact Hlj.
    + intros _. unfold o_destruct in Ed. cbn [o_empty o_slot] in Ed. destruct (s_destroy bs st2) as [s3 st4].
      injection Ed as E1 E2. subst b'. reflexivity.
Qed.

(* =============================== Result =============================================== *)
Definition r_wf (r : rstate) : Prop :=
  match r_tag r with
  | RtValue => exists v, r_slot r = Alive v
  | RtError e => e <> 0%Z /\ r_slot r = Dead
  | RtEmpty => r_slot r = Dead
  end.
Definition r_wfo (x : option rstate) : Prop := match x with Some r => r_wf r | None => True end.
Definition r_n (x : option rstate) : nat :=
  match x with Some r => if r_has_value r then 1 else 0 | None => 0 end.

(* exactly one of: nothing, an error other than None, one alive value *)
Definition r_inv (w : rworld) : Prop :=
  bad (r_stt w) = 0 /\ Forall r_wfo (r_objs w) /\
  ctor (r_stt w) = dtor (r_stt w) + sum_n r_n (r_objs w).

Lemma r_destruct_ok r st : r_wf r ->
  let q := r_destruct r st in
  r_wf (fst q) /\ r_tag (fst q) = RtEmpty /\ bad (snd q) = bad st /\ ctor (snd q) = ctor st /\
  dtor (snd q) = dtor st + (if r_has_value r then 1 else 0).
Proof.
  unfold r_wf, r_destruct, r_has_value. destruct (r_tag r) eqn:Et.
  - intros Hs. cbn. rewrite Hs. repeat split; auto; lia.
  - intros [_ Hs]. cbn. rewrite Hs. repeat split; auto; lia.
  - intros [v Hs]. rewrite Hs. cbn. repeat split; auto; lia.
Qed.

Lemma r_assign_value_ok v r st : r_wf r ->
  let q := r_assign_value v r st in
  r_wf (fst q) /\ r_has_value (fst q) = true /\ bad (snd q) = bad st /\ dtor (snd q) = dtor st /\
  ctor (snd q) = ctor st + (if r_has_value r then 0 else 1).
Proof.
  unfold r_wf, r_assign_value, r_has_value. destruct (r_tag r) eqn:Et.
  - intros Hs. rewrite Hs. cbn. repeat split; eauto; lia.
  - intros [_ Hs]. rewrite Hs. cbn. repeat split; eauto; lia.
  - intros [x Hs]. rewrite Hs. cbn. repeat split; eauto; lia.
Qed.

Lemma r_assign_error_ok e r st : r_wf r ->
  let q := r_assign_error e r st in
  r_wf (fst q) /\ r_has_value (fst q) = false /\ bad (snd q) = bad st /\ ctor (snd q) = ctor st /\
  dtor (snd q) = dtor st + (if r_has_value r then 1 else 0).
Proof.
  intros Hw. unfold r_assign_error.
  pose proof (r_destruct_ok r st Hw) as R. cbn zeta in R. destruct (r_destruct r st) as [r' st'].
  cbn [fst snd] in R. destruct R as (W & T & B & C & D).
  destruct (Z.eqb_spec e 0); cbn [fst snd].
  - unfold r_has_value. rewrite T. auto.
  - unfold r_wf, r_has_value in *. rewrite T in W. cbn. auto.
Qed.

Lemma r_inv_put (w : rworld) i (x : option rstate) st :
  i < length (r_objs w) -> Forall r_wfo (r_objs w) -> r_wfo x -> bad st = 0 ->
  ctor st + r_n (nth i (r_objs w) None) = dtor st + sum_n r_n (r_objs w) + r_n x ->
  r_inv (r_put w i x st).
Proof.
  intros Hi Hf Hx Hb Hc. unfold r_inv, r_put; cbn [r_objs r_stt]. split; [exact Hb|]. split.
  - apply Forall_upd; assumption.
  - pose proof (sum_upd r_n (r_objs w) i x None Hi). lia.
Qed.

Lemma r_get_wf (w : rworld) i r : Forall r_wfo (r_objs w) -> r_get w i = Some r -> r_wf r /\ i < length (r_objs w).
Proof.
  intros Hf Hg. unfold r_get in Hg. pose proof (nth_some_lt _ _ _ Hg) as Hl. split; [|exact Hl].
  rewrite Forall_forall in Hf. specialize (Hf (Some r)). apply Hf. rewrite <- Hg. apply nth_In, Hl.
Qed.

Lemma r_copy_from_ok a b st : r_wf a -> r_wf b ->
  let q := r_copy_from a b st in
  r_wf (fst q) /\ r_has_value (fst q) = r_has_value b /\ bad (snd q) = bad st /\
  ctor (snd q) + (if r_has_value a then 1 else 0) + dtor st = dtor (snd q) + (if r_has_value b then 1 else 0) + ctor st /\
  dtor st <= dtor (snd q) /\ ctor st <= ctor (snd q).
Proof.
  intros Ha Hb. unfold r_copy_from. destruct (r_has_value b) eqn:Eb.
  - pose proof (r_assign_value_ok (s_value (r_slot b)) a st Ha) as R. cbn zeta in R.
    destruct (r_assign_value (s_value (r_slot b)) a st) as [a' st']. cbn [fst snd] in *.
    destruct R as (W & V & B & D & C). repeat split; auto; destruct (r_has_value a); lia.
  - set (e := match r_tag b with RtError e => e | _ => 0%Z end).
    pose proof (r_assign_error_ok e a st Ha) as R. cbn zeta in R.
    destruct (r_assign_error e a st) as [a' st']. cbn [fst snd] in *.
    destruct R as (W & V & B & C & D). repeat split; auto; destruct (r_has_value a); lia.
Qed.

Lemma r_move_from_ok a b st : r_wf a -> r_wf b ->
  let q := r_move_from a b st in
  r_wf (fst (fst q)) /\ r_wf (snd (fst q)) /\ r_has_value (fst (fst q)) = r_has_value b /\
  r_has_value (snd (fst q)) = false /\ bad (snd q) = bad st /\
  ctor (snd q) + (if r_has_value a then 1 else 0) + dtor st = dtor (snd q) + ctor st.
Proof.
  intros Ha Hb. unfold r_move_from. destruct (r_has_value b) eqn:Eb.
  - assert (Hs : exists v, r_slot b = Alive v).
    { unfold r_wf, r_has_value in Hb, Eb. destruct (r_tag b); try discriminate. exact Hb. }
    destruct Hs as [v Hs]. rewrite Hs. cbn [s_move_out].
    pose proof (r_assign_value_ok v a st Ha) as R. cbn zeta in R.
    destruct (r_assign_value v a st) as [a' st1]. cbn [fst snd] in R. destruct R as (W & V & B & D & C).
    cbn. repeat split; auto. destruct (r_has_value a); lia.
  - set (e := match r_tag b with RtError e => e | _ => 0%Z end).
    pose proof (r_assign_error_ok e a st Ha) as R. cbn zeta in R.
    destruct (r_assign_error e a st) as [a' st1]. cbn [fst snd] in R. destruct R as (W & V & B & C & D).
    pose proof (r_destruct_ok b st1 Hb) as R2. cbn zeta in R2.
    destruct (r_destruct b st1) as [b' st2]. cbn [fst snd] in *. destruct R2 as (W2 & T2 & B2 & C2 & D2).
    rewrite Eb in D2. repeat split; auto; try congruence.
    + unfold r_has_value. rewrite T2. reflexivity.
    + destruct (r_has_value a); lia.
Qed.

Lemma r_dead_lt (w : rworld) i :
  match r_get w i with None => (i <? length (r_objs w)) | Some _ => false end = true ->
  i < length (r_objs w) /\ nth i (r_objs w) None = None.
Proof.
  intros H. unfold r_get in *. destruct (nth i (r_objs w) None) eqn:E; [discriminate|].
  apply Nat.ltb_lt in H. auto.
Qed.

Theorem r_step_inv (w : rworld) (op : rop) : r_inv w -> r_inv (r_step w op).
Proof.
  intros (Hb & Hf & Hc). unfold r_step.
  destruct (r_pre w op) eqn:Hp; cbn [negb]; [|split; auto].
  destruct op; cbn [r_pre] in Hp.
  - destruct (r_dead_lt _ _ Hp) as [Hl Hn]. apply r_inv_put; auto; [cbn; reflexivity|]. rewrite Hn. cbn. lia.
  - destruct (r_dead_lt _ _ Hp) as [Hl Hn]. cbn. apply r_inv_put; auto; [cbn; eauto|]. rewrite Hn. cbn. lia.
  - destruct (r_dead_lt _ _ Hp) as [Hl Hn]. cbn. apply r_inv_put; auto; [cbn; eauto|]. rewrite Hn. cbn. lia.
  - destruct (r_dead_lt _ _ Hp) as [Hl Hn]. apply r_inv_put; auto.
    + unfold r_wfo, r_wf. cbn. destruct (Z.eqb_spec e 0); cbn; auto.
    + rewrite Hn. cbn. unfold r_has_value. cbn. destruct (Z.eqb e 0); cbn; lia.
  - (* RCopy *)
    apply andb_prop in Hp. destruct Hp as [Hd Hj]. destruct (r_dead_lt _ _ Hd) as [Hl Hn].
    destruct (r_get w j) as [b|] eqn:Ej; [|discriminate]. destruct (r_get_wf w j b Hf Ej) as [Hwb Hlb].
    assert (Hnew : r_wf r_new) by (cbn; reflexivity).
    pose proof (r_copy_from_ok r_new b (r_stt w) Hnew Hwb) as R. cbn zeta in R.
    destruct (r_copy_from r_new b (r_stt w)) as [a st']. cbn [fst snd] in R. destruct R as (W & V & B & C & D1 & D2).
    apply r_inv_put; auto; [congruence|]. rewrite Hn. cbn [r_n]. rewrite V.
    change (r_has_value r_new) with false in C. cbv iota in C. destruct (r_has_value b); lia.
  - (* RMove *)
    apply andb_prop in Hp. destruct Hp as [Hd Hj]. destruct (r_dead_lt _ _ Hd) as [Hl Hn].
    destruct (r_get w j) as [b|] eqn:Ej; [|discriminate]. destruct (r_get_wf w j b Hf Ej) as [Hwb Hlb].
    assert (Hij : j <> i) by (intros ->; unfold r_get in Ej; congruence).
    assert (Hnew : r_wf r_new) by (cbn; reflexivity).
    pose proof (r_move_from_ok r_new b (r_stt w) Hnew Hwb) as R. cbn zeta in R.
    destruct (r_move_from r_new b (r_stt w)) as [[a b'] st']. cbn [fst snd] in R.
    destruct R as (W & W2 & V & V2 & B & C).
    apply r_inv_put.
    + unfold r_put; cbn. rewrite upd_length. exact Hl.
    + unfold r_put; cbn. apply Forall_upd; auto.
    + exact W.
    + congruence.
    + unfold r_put; cbn [r_objs]. rewrite nth_upd_other by exact Hij. rewrite Hn.
      pose proof (sum_upd r_n (r_objs w) j (Some b') None Hlb) as S.
      unfold r_get in Ej. rewrite Ej in S. cbn [r_n] in S |- *. rewrite V. rewrite V2 in S.
      change (r_has_value r_new) with false in C. cbv iota in C. destruct (r_has_value b); lia.
  - (* RDestroy *)
    destruct (r_get w i) as [r|] eqn:Ei; [|discriminate]. destruct (r_get_wf w i r Hf Ei) as [Hw Hl].
    pose proof (r_destruct_ok r (r_stt w) Hw) as R. cbn zeta in R.
    destruct (r_destruct r (r_stt w)) as [r' st']. cbn [fst snd] in R. destruct R as (W & T & B & C & D).
    apply r_inv_put; auto; [cbn; exact I|congruence|]. unfold r_get in Ei. rewrite Ei. cbn.
    destruct (r_has_value r); lia.
  - (* RAssign *)
    apply andb_prop in Hp. destruct Hp as [Hi Hj]. destruct (Nat.eqb i j) eqn:Eij; [split; auto|].
    destruct (r_get w i) as [a|] eqn:Ei; [|discriminate]. destruct (r_get w j) as [b|] eqn:Ej; [|discriminate].
    destruct (r_get_wf w i a Hf Ei) as [Hwa Hla]. destruct (r_get_wf w j b Hf Ej) as [Hwb Hlb].
    pose proof (r_copy_from_ok a b (r_stt w) Hwa Hwb) as R. cbn zeta in R.
    destruct (r_copy_from a b (r_stt w)) as [a' st']. cbn [fst snd] in R. destruct R as (W & V & B & C & D1 & D2).
    apply r_inv_put; auto; [congruence|]. unfold r_get in Ei. rewrite Ei. cbn [r_n]. rewrite V.
    destruct (r_has_value a), (r_has_value b); lia.
  - (* RMoveAssign *)
    apply andb_prop in Hp. destruct Hp as [Hi Hj]. destruct (Nat.eqb i j) eqn:Eij; [split; auto|]. apply Nat.eqb_neq in Eij.
    destruct (r_get w i) as [a|] eqn:Ei; [|discriminate]. destruct (r_get w j) as [b|] eqn:Ej; [|discriminate].
    destruct (r_get_wf w i a Hf Ei) as [Hwa Hla]. destruct (r_get_wf w j b Hf Ej) as [Hwb Hlb].
    pose proof (r_move_from_ok a b (r_stt w) Hwa Hwb) as R. cbn zeta in R.
    destruct (r_move_from a b (r_stt w)) as [[a' b'] st']. cbn [fst snd] in R.
    destruct R as (W & W2 & V & V2 & B & C).
    apply r_inv_put.
    + unfold r_put; cbn. rewrite upd_length. exact Hlb.
    + unfold r_put; cbn. apply Forall_upd; auto.
    + exact W2.
    + congruence.
    + unfold r_put; cbn [r_objs]. rewrite nth_upd_other by exact Eij.
      pose proof (sum_upd r_n (r_objs w) i (Some a') None Hla) as S.
      unfold r_get in Ei, Ej. rewrite Ei in S. rewrite Ej. cbn [r_n] in S |- *. rewrite V in S. rewrite V2.
      destruct (r_has_value a), (r_has_value b); lia.
  - (* RSetVal *)
    destruct (r_get w i) as [a|] eqn:Ei; [|discriminate]. destruct (r_get_wf w i a Hf Ei) as [Hwa Hla].
    pose proof (r_assign_value_ok x a (r_stt w) Hwa) as R. cbn zeta in R.
    destruct (r_assign_value x a (r_stt w)) as [a' st']. cbn [fst snd] in R. destruct R as (W & V & B & D & C).
    apply r_inv_put; auto; [congruence|]. unfold r_get in Ei. rewrite Ei. cbn [r_n]. rewrite V. destruct (r_has_value a); lia.
  - destruct (r_get w i) as [a|] eqn:Ei; [|discriminate]. destruct (r_get_wf w i a Hf Ei) as [Hwa Hla].
    pose proof (r_assign_value_ok x a (r_stt w) Hwa) as R. cbn zeta in R.
    destruct (r_assign_value x a (r_stt w)) as [a' st']. cbn [fst snd] in R. destruct R as (W & V & B & D & C).
    apply r_inv_put; auto; [congruence|]. unfold r_get in Ei. rewrite Ei. cbn [r_n]. rewrite V. destruct (r_has_value a); lia.
  - (* RSetErr *)
    destruct (r_get w i) as [a|] eqn:Ei; [|discriminate]. destruct (r_get_wf w i a Hf Ei) as [Hwa Hla].
    pose proof (r_assign_error_ok e a (r_stt w) Hwa) as R. cbn zeta in R.
    destruct (r_assign_error e a (r_stt w)) as [a' st']. cbn [fst snd] in R. destruct R as (W & V & B & C & D).
    apply r_inv_put; auto; [congruence|]. unfold r_get in Ei. rewrite Ei. cbn [r_n]. rewrite V. destruct (r_has_value a); lia.
  - (* RClear *)
    destruct (r_get w i) as [a|] eqn:Ei; [|discriminate]. destruct (r_get_wf w i a Hf Ei) as [Hwa Hla].
    pose proof (r_destruct_ok a (r_stt w) Hwa) as R. cbn zeta in R.
    destruct (r_destruct a (r_stt w)) as [a' st']. cbn [fst snd] in R. destruct R as (W & T & B & C & D).
    apply r_inv_put; auto; [congruence|]. unfold r_get in Ei. rewrite Ei. cbn [r_n]. unfold r_has_value at 2. rewrite T.
    destruct (r_has_value a); lia.
  - (* RTake *)
    destruct (r_get w i) as [a|] eqn:Ei; [|discriminate]. destruct (r_get_wf w i a Hf Ei) as [Hwa Hla].
    assert (Hs : exists v, r_slot a = Alive v).
    { unfold r_wf, r_has_value in Hwa, Hp. destruct (r_tag a); try discriminate. exact Hwa. }
    destruct Hs as [v Hs]. rewrite Hs. cbn.
    apply r_inv_put; auto; [cbn; eauto|]. unfold r_get in Ei. rewrite Ei. cbn [r_n]. rewrite Hp. cbn. lia.
Qed.

Theorem r_reachable_inv (n : nat) (ops : list rop) : r_inv (fold_left r_step ops (r_init n)).
Proof.
  assert (H0 : r_inv (r_init n)).
  { unfold r_inv, r_init; cbn. repeat split; auto.
    - apply Forall_forall. intros x Hx. apply repeat_spec in Hx. subst. exact I.
    - induction n; cbn; auto. }
  revert H0. generalize (r_init n). induction ops as [|op ops IH]; cbn [fold_left]; intros w Hw; [exact Hw|].
  apply IH, r_step_inv, Hw.
Qed.

Lemma sum_n_zero {A} (f : A -> nat) (l : list A) : (forall x, In x l -> f x = 0) -> sum_n f l = 0.
Proof. induction l as [|a l IH]; cbn; intros H; [reflexivity|]. rewrite (H a), IH; auto. Qed.

(* when every object has been destroyed, every element ever constructed has been
   destroyed exactly once *)
Theorem r_all_destroyed (n : nat) (ops : list rop) :
  let w := fold_left r_step ops (r_init n) in
  (forall x, In x (r_objs w) -> x = None) -> ctor (r_stt w) = dtor (r_stt w) /\ bad (r_stt w) = 0.
Proof.
  intros w Hall. destruct (r_reachable_inv n ops) as (Hb & _ & Hc). fold w in Hb, Hc. split; [|exact Hb].
  rewrite Hc, sum_n_zero; [lia|]. intros x Hx. rewrite (Hall x Hx). reflexivity.
Qed.

(* =============================== Variant ============================================== *)
Local Open Scope Z_scope.
Definition v_wf (n : Z) (v : vstate) : Prop :=
  (v_index v = -1 /\ v_slot v = Dead) \/ (0 <= v_index v < n /\ exists x, v_slot v = Alive x).
Definition v_wfo n (x : option vstate) : Prop := match x with Some v => v_wf n v | None => True end.
Definition vcnt (v : vstate) : nat := if v_index v =? -1 then 0%nat else 1%nat.
Definition v_cnt (x : option vstate) : nat := match x with Some v => vcnt v | None => 0%nat end.
Local Open Scope nat_scope.

(* the index is -1 or selects one of the n alternatives; exactly the selected
   alternative is alive; every constructed element is alive in some variant or destroyed *)
Definition v_inv (w : vworld) : Prop :=
  bad (v_stt w) = 0 /\ Forall (v_wfo (v_n w)) (v_objs w) /\
  ctor (v_stt w) = dtor (v_stt w) + sum_n v_cnt (v_objs w).

Definition v_ok (n : Z) (v : vstate) (st : stats) (q : vstate * stats) : Prop :=
  v_wf n (fst q) /\ bad (snd q) = bad st /\
  ctor (snd q) + vcnt v + dtor st = dtor (snd q) + vcnt (fst q) + ctor st.

Lemma v_destruct_ok n v st : v_wf n v -> v_ok n v st (v_destruct v st) /\ v_index (fst (v_destruct v st)) = (-1)%Z.
Proof.
  unfold v_ok, v_wf, v_destruct, vcnt. intros [[Hi Hs]|[Hi [x Hs]]].
  - rewrite Hi, Hs. cbn. repeat split; auto; lia.
  - destruct (Z.eqb_spec (v_index v) (-1)); [lia|]. rewrite Hs. cbn. repeat split; auto; lia.
Qed.

Lemma v_construct_ok n k x throw v st : v_wf n v -> v_index v = (-1)%Z -> (0 <= k < n)%Z ->
  v_ok n v st (v_construct k x throw v st) /\ (throw = false -> v_index (fst (v_construct k x throw v st)) = k).
Proof.
  unfold v_ok, v_wf, v_construct, vcnt. intros [[Hi Hs]|[Hi _]] Hm Hk; [|lia].
  destruct throw; cbn.
  - rewrite Hi. cbn. split; [|discriminate]. repeat split; auto; lia.
  - rewrite Hs, Hi. cbn. destruct (Z.eqb_spec k (-1)); [lia|]. repeat split; eauto; lia.
Qed.

Lemma v_ok_trans n v st q q' : v_ok n v st q -> v_ok n (fst q) (snd q) q' -> v_ok n v st q'.
Proof. unfold v_ok. intros (W & B & C) (W' & B' & C'). repeat split; auto; lia. Qed.

Lemma v_assign_ok n k x throw v st : v_wf n v -> (0 <= k < n)%Z -> v_ok n v st (v_assign k x throw v st).
Proof.
  intros Hw Hk. unfold v_assign. destruct (Z.eqb_spec (v_index v) k) as [E|E].
  - unfold v_ok, vcnt. destruct Hw as [[Hi Hs]|[Hi [y Hs]]]; [lia|]. rewrite Hs. cbn.
    destruct (Z.eqb_spec k (-1)); [lia|]. rewrite E. destruct (Z.eqb_spec k (-1)); [lia|].
    unfold v_wf. cbn. repeat split; eauto; lia.
  - destruct (v_destruct_ok n v st Hw) as [D Di]. destruct (v_destruct v st) as [v1 st1] eqn:E1.
    cbn [fst snd] in *. eapply v_ok_trans; [exact D|]. cbn [fst snd].
    destruct D as (W1 & _). apply (v_construct_ok n k x throw v1 st1 W1 Di Hk).
Qed.

Lemma v_get_wf (w : vworld) i v : Forall (v_wfo (v_n w)) (v_objs w) -> v_get w i = Some v ->
  v_wf (v_n w) v /\ i < length (v_objs w).
Proof.
  intros Hf Hg. unfold v_get in Hg. pose proof (nth_some_lt _ _ _ Hg) as Hl. split; [|exact Hl].
  rewrite Forall_forall in Hf. specialize (Hf (Some v)). apply Hf. rewrite <- Hg. apply nth_In, Hl.
Qed.

Lemma v_inv_set (w : vworld) i v q : v_inv w -> v_get w i = Some v -> v_ok (v_n w) v (v_stt w) q ->
  v_inv (v_put w i (Some (fst q)) (snd q)).
Proof.
  intros (Hb & Hf & Hc) Hg (W & B & C). destruct (v_get_wf w i v Hf Hg) as [_ Hl].
  unfold v_inv, v_put; cbn [v_objs v_stt v_n]. split; [congruence|]. split; [apply Forall_upd; auto|].
  pose proof (sum_upd v_cnt (v_objs w) i (Some (fst q)) None Hl) as S. unfold v_get in Hg. rewrite Hg in S.
  cbn [v_cnt] in S. lia.
Qed.

Lemma v_inv_new (w : vworld) i q : v_inv w -> i < length (v_objs w) -> nth i (v_objs w) None = None ->
  v_ok (v_n w) v_new (v_stt w) q -> v_inv (v_put w i (Some (fst q)) (snd q)).
Proof.
  intros (Hb & Hf & Hc) Hl Hn (W & B & C).
  unfold v_inv, v_put; cbn [v_objs v_stt v_n]. split; [congruence|]. split; [apply Forall_upd; auto|].
  pose proof (sum_upd v_cnt (v_objs w) i (Some (fst q)) None Hl) as S. rewrite Hn in S.
  cbn [v_cnt] in S. change (vcnt v_new) with 0 in C. lia.
Qed.

Lemma v_dead_lt (w : vworld) i :
  match v_get w i with None => (i <? length (v_objs w)) | Some _ => false end = true ->
  i < length (v_objs w) /\ nth i (v_objs w) None = None.
Proof.
  intros H. unfold v_get in *. destruct (nth i (v_objs w) None) eqn:E; [discriminate|].
  apply Nat.ltb_lt in H. auto.
Qed.

Lemma v_new_wf n : v_wf n v_new.  Proof. left. auto. Qed.
Lemma v_ok_refl n v st : v_wf n v -> v_ok n v st (v, st).
Proof. intros W. unfold v_ok; cbn. repeat split; auto; lia. Qed.

Lemma alt_range n k : (0 <=? k)%Z && (k <? n)%Z = true -> (0 <= k < n)%Z.
Proof. intros H. apply andb_prop in H. destruct H as [A B]. apply Z.leb_le in A. apply Z.ltb_lt in B. lia. Qed.

Lemma v_live_range n b : v_wf n b -> v_index b <> (-1)%Z -> (0 <= v_index b < n)%Z /\ exists x, v_slot b = Alive x.
Proof. intros [[Hi _]|H] Hn; [contradiction|exact H]. Qed.

(* the state a moved-from variant keeps: same alternative, element moved from *)
Lemma v_moved_ok n b st x : v_wf n b -> v_slot b = Alive x ->
  v_ok n b st ({| v_index := v_index b; v_slot := Alive moved |}, st).
Proof.
  intros W Hs. unfold v_ok, vcnt; cbn. split; [|split; [reflexivity|lia]].
  destruct W as [[_ Hd]|[Hi _]]; [congruence|]. right. cbn. eauto.
Qed.

Theorem v_step_inv (w : vworld) (op : vop) : v_inv w -> v_inv (v_step w op).
Proof.
  intros Hinv. pose proof Hinv as (Hb & Hf & Hc). unfold v_step.
  destruct (v_pre w op) eqn:Hp; cbn [negb]; [|exact Hinv].
  destruct op; cbn [v_pre] in Hp.
  - (* VNew *) destruct (v_dead_lt _ _ Hp) as [Hl Hn].
    apply (v_inv_new w i (v_new, v_stt w) Hinv Hl Hn). apply v_ok_refl, v_new_wf.
  - (* VVal *) apply andb_prop in Hp. destruct Hp as [Hd Hk]. destruct (v_dead_lt _ _ Hd) as [Hl Hn].
    destruct throw; [exact Hinv|].
    destruct (v_construct_ok (v_n w) k x false v_new (v_stt w) (v_new_wf _) eq_refl (alt_range _ _ Hk)) as [K _].
    destruct (v_construct k x false v_new (v_stt w)) as [v st'] eqn:E.
    apply (v_inv_new w i (v, st') Hinv Hl Hn K).
  - (* VCopy *) apply andb_prop in Hp. destruct Hp as [Hd Hj]. destruct (v_dead_lt _ _ Hd) as [Hl Hn].
    destruct (v_get w j) as [b|] eqn:Ej; [|discriminate]. destruct (v_get_wf w j b Hf Ej) as [Hwb Hlb].
    destruct (Z.eqb_spec (v_index b) (-1)) as [E|E].
    + apply (v_inv_new w i (v_new, v_stt w) Hinv Hl Hn). apply v_ok_refl, v_new_wf.
    + destruct (v_live_range _ _ Hwb E) as [Hr _].
      destruct (v_construct_ok (v_n w) (v_index b) (s_value (v_slot b)) false v_new (v_stt w) (v_new_wf _) eq_refl Hr) as [K _].
      destruct (v_construct (v_index b) (s_value (v_slot b)) false v_new (v_stt w)) as [v st'] eqn:E2.
      apply (v_inv_new w i (v, st') Hinv Hl Hn K).
  - (* VMove *) apply andb_prop in Hp. destruct Hp as [Hd Hj]. destruct (v_dead_lt _ _ Hd) as [Hl Hn].
    destruct (v_get w j) as [b|] eqn:Ej; [|discriminate]. destruct (v_get_wf w j b Hf Ej) as [Hwb Hlb].
    assert (Hij : j <> i) by (intros ->; unfold v_get in Ej; congruence).
    destruct (Z.eqb_spec (v_index b) (-1)) as [E|E].
    + apply (v_inv_new w i (v_new, v_stt w) Hinv Hl Hn). apply v_ok_refl, v_new_wf.
    + destruct (v_live_range _ _ Hwb E) as [Hr [x Hs]]. rewrite Hs. cbn [s_move_out].
      destruct (v_construct_ok (v_n w) (v_index b) x false v_new (v_stt w) (v_new_wf _) eq_refl Hr) as [K _].
      destruct (v_construct (v_index b) x false v_new (v_stt w)) as [v st'] eqn:E2.
      pose proof (v_inv_set w j b _ Hinv Ej (v_moved_ok _ b (v_stt w) x Hwb Hs)) as H1. cbn [fst snd] in H1.
      set (w1 := v_put w j (Some {| v_index := v_index b; v_slot := Alive moved |}) (v_stt w)) in H1.
      change (v_inv (v_put w1 i (Some (fst (v, st'))) (snd (v, st')))).
      apply v_inv_new; auto.
      * unfold w1, v_put; cbn. rewrite upd_length. exact Hl.
      * unfold w1, v_put; cbn [v_objs]. rewrite nth_upd_other by exact Hij. exact Hn.
  - (* VDestroy *)
    destruct (v_get w i) as [v|] eqn:Ei; [|discriminate]. destruct (v_get_wf w i v Hf Ei) as [Hw Hl].
    destruct (v_destruct_ok (v_n w) v (v_stt w) Hw) as [(W & B & C) Di].
    destruct (v_destruct v (v_stt w)) as [v' st'] eqn:E. cbn [fst snd] in *.
    unfold v_inv, v_put; cbn [v_objs v_stt v_n]. split; [congruence|]. split; [apply Forall_upd; auto; exact I|].
    pose proof (sum_upd v_cnt (v_objs w) i None None Hl) as S. unfold v_get in Ei. rewrite Ei in S.
    cbn [v_cnt] in S. unfold vcnt in C at 2. rewrite Di in C. cbn in C. lia.
  - (* VSet *) apply andb_prop in Hp. destruct Hp as [Hlv Hk].
    destruct (v_get w i) as [v|] eqn:Ei; [|discriminate]. destruct (v_get_wf w i v Hf Ei) as [Hw Hl].
    pose proof (v_assign_ok (v_n w) k x throw v (v_stt w) Hw (alt_range _ _ Hk)) as K.
    destruct (v_assign k x throw v (v_stt w)) as [v' st'] eqn:E.
    apply (v_inv_set w i v (v', st') Hinv Ei K).
  - (* VSetEmpty *)
    destruct (v_get w i) as [v|] eqn:Ei; [|discriminate]. destruct (v_get_wf w i v Hf Ei) as [Hw Hl].
    destruct (v_destruct_ok (v_n w) v (v_stt w) Hw) as [K _].
    destruct (v_destruct v (v_stt w)) as [v' st'] eqn:E.
    apply (v_inv_set w i v (v', st') Hinv Ei K).
  - (* VAssign *) apply andb_prop in Hp. destruct Hp as [Hi Hj].
    destruct (v_get w i) as [a|] eqn:Ei; [|discriminate]. destruct (v_get w j) as [b|] eqn:Ej; [|discriminate].
    destruct (v_get_wf w i a Hf Ei) as [Hwa Hla]. destruct (v_get_wf w j b Hf Ej) as [Hwb Hlb].
    destruct (Z.eqb_spec (v_index b) (-1)) as [E|E].
    + destruct (v_destruct_ok (v_n w) a (v_stt w) Hwa) as [K _].
      destruct (v_destruct a (v_stt w)) as [v' st'] eqn:E2. apply (v_inv_set w i a (v', st') Hinv Ei K).
    + destruct (v_live_range _ _ Hwb E) as [Hr _].
      pose proof (v_assign_ok (v_n w) (v_index b) (s_value (v_slot b)) false a (v_stt w) Hwa Hr) as K.
      destruct (v_assign (v_index b) (s_value (v_slot b)) false a (v_stt w)) as [v' st'] eqn:E2.
      apply (v_inv_set w i a (v', st') Hinv Ei K).
  - (* VMoveAssign *) apply andb_prop in Hp. destruct Hp as [Hi Hj].
    destruct (v_get w i) as [a|] eqn:Ei; [|discriminate]. destruct (v_get w j) as [b|] eqn:Ej; [|discriminate].
    destruct (v_get_wf w i a Hf Ei) as [Hwa Hla]. destruct (v_get_wf w j b Hf Ej) as [Hwb Hlb].
    destruct (Z.eqb_spec (v_index b) (-1)) as [E|E].
    + destruct (v_destruct_ok (v_n w) a (v_stt w) Hwa) as [K _].
      destruct (v_destruct a (v_stt w)) as [v' st'] eqn:E2. apply (v_inv_set w i a (v', st') Hinv Ei K).
    + destruct (v_live_range _ _ Hwb E) as [Hr [x Hs]].
      destruct (Nat.eqb_spec i j) as [Eij|Eij].
      * subst j. rewrite Ei in Ej. injection Ej as ->. rewrite Hs. cbn [s_assign s_value].
        apply (v_inv_set w i b ({| v_index := v_index b; v_slot := Alive x |}, v_stt w) Hinv Ei).
        unfold v_ok, vcnt; cbn. split; [right; cbn; eauto|split; [reflexivity|lia]].
      * rewrite Hs. cbn [s_move_out].
        pose proof (v_assign_ok (v_n w) (v_index b) x false a (v_stt w) Hwa Hr) as K.
        destruct (v_assign (v_index b) x false a (v_stt w)) as [a' st'] eqn:E2.
        pose proof (v_inv_set w j b _ Hinv Ej (v_moved_ok _ b (v_stt w) x Hwb Hs)) as H1. cbn [fst snd] in H1.
        set (w1 := v_put w j (Some {| v_index := v_index b; v_slot := Alive moved |}) (v_stt w)) in H1.
        change (v_inv (v_put w1 i (Some (fst (a', st'))) (snd (a', st')))).
        apply (v_inv_set w1 i a); auto.
        unfold w1, v_put, v_get; cbn [v_objs]. rewrite nth_upd_other by (intros X; apply Eij; symmetry; exact X). exact Ei.
  - (* VBecome *)
    destruct (v_get w i) as [v|] eqn:Ei; [|discriminate]. destruct (v_get_wf w i v Hf Ei) as [Hw Hl].
    destruct (Z.eqb_spec k (v_index v)); [exact Hinv|].
    destruct (v_destruct_ok (v_n w) v (v_stt w) Hw) as [K Di].
    destruct (v_destruct v (v_stt w)) as [v1 st1] eqn:E. cbn [fst snd] in *.
    destruct ((0 <=? k)%Z && (k <? v_n w)%Z) eqn:Ek.
    + pose proof K as (W1 & _).
      destruct (v_construct_ok (v_n w) k 0%Z false v1 st1 W1 Di (alt_range _ _ Ek)) as [K2 _].
      unfold v_construct in K2.
      destruct (s_construct 0%Z (v_slot v1) st1) as [s st2] eqn:E2.
      apply (v_inv_set w i v (_, st2) Hinv Ei). eapply v_ok_trans; [exact K|exact K2].
    + apply (v_inv_set w i v (v1, st1) Hinv Ei K).
Qed.

Theorem v_reachable_inv (n : nat) (alts : Z) (ops : list vop) : v_inv (fold_left v_step ops (v_init n alts)).
Proof.
  assert (H0 : v_inv (v_init n alts)).
  { unfold v_inv, v_init; cbn. repeat split; auto.
    - apply Forall_forall. intros x Hx. apply repeat_spec in Hx. subst. exact I.
    - induction n; cbn; auto. }
  revert H0. generalize (v_init n alts). induction ops as [|op ops IH]; cbn [fold_left]; intros w Hw; [exact Hw|].
  apply IH, v_step_inv, Hw.
Qed.

(* histories that mix ordinary and converting operations, for any placement of the other Variant's alternatives *)
Lemma vc_fold (ct at_ : Z -> Z) (cops : list vcop) (w : vworld) :
  fold_left (vc_step ct at_) cops w = fold_left v_step (map (vc_to_vop ct at_) cops) w.
Proof. revert w. induction cops as [|c cops IH]; intros w; cbn [fold_left map]; [reflexivity|]. rewrite IH. reflexivity. Qed.

Theorem vc_reachable_inv (ct at_ : Z -> Z) (n : nat) (alts : Z) (cops : list vcop) :
  v_inv (fold_left (vc_step ct at_) cops (v_init n alts)).
Proof. rewrite vc_fold. apply v_reachable_inv. Qed.

Theorem v_all_destroyed (n : nat) (alts : Z) (ops : list vop) :
  let w := fold_left v_step ops (v_init n alts) in
  (forall x, In x (v_objs w) -> x = None) -> ctor (v_stt w) = dtor (v_stt w) /\ bad (v_stt w) = 0.
Proof.
  intros w Hall. destruct (v_reachable_inv n alts ops) as (Hb & _ & Hc). fold w in Hb, Hc. split; [|exact Hb].
  rewrite Hc, sum_n_zero; [lia|]. intros x Hx. rewrite (Hall x Hx). reflexivity.
Qed.

(* Become(k) for k outside the alternatives leaves the variant empty; inside, it selects k *)
Theorem v_become_spec (w : vworld) i k v : v_inv w -> v_get w i = Some v ->
  match v_get (v_step w (VBecome i k)) i with
  | Some v' => v_index v' = (if ((0 <=? k) && (k <? v_n w))%Z then k else if (k =? v_index v)%Z then v_index v else -1)%Z
  | None => False
  end.
Proof.
  intros (Hb & Hf & Hc) Ei. destruct (v_get_wf w i v Hf Ei) as [Hw Hl].
  unfold v_step. cbn [v_pre]. rewrite Ei. cbn [negb].
  destruct (Z.eqb_spec k (v_index v)) as [E|E].
  - rewrite Ei. subst k. destruct Hw as [[Hi _]|[Hi _]].
    + rewrite Hi. reflexivity.
    + replace ((0 <=? v_index v)%Z && (v_index v <? v_n w)%Z) with true; [reflexivity|].
      symmetry. apply andb_true_intro. split; [apply Z.leb_le|apply Z.ltb_lt]; lia.
  - destruct (v_destruct_ok (v_n w) v (v_stt w) Hw) as [K Di].
    destruct (v_destruct v (v_stt w)) as [v1 st1]. cbn [fst snd] in Di.
    destruct ((0 <=? k)%Z && (k <? v_n w)%Z).
    + destruct (s_construct 0%Z (v_slot v1) st1) as [s st2]. unfold v_get, v_put; cbn [v_objs].
      rewrite nth_upd_same by exact Hl. reflexivity.
    + unfold v_get, v_put; cbn [v_objs]. rewrite nth_upd_same by exact Hl. exact Di.
Qed.

(* =============================== UniqueHandle ========================================= *)
Local Open Scope Z_scope.
Fixpoint cz (x : Z) (l : list Z) : nat :=
  match l with [] => 0%nat | y :: r => ((if (y =? x)%Z then 1 else 0) + cz x r)%nat end.
Definition hn (x : Z) (o : option Z) : nat :=
  match o with Some v => if v =? x then 1%nat else 0%nat | None => 0%nat end.
(* where resource x is: owned by living handle objects, closed, or released to the caller *)
Definition h_owned (x : Z) (w : hworld) : nat := sum_n (hn x) (h_objs w).
Definition h_tot (x : Z) (w : hworld) : nat :=
  (h_owned x w + cz x (h_closed w) + cz x (h_released w))%nat.
(* the only step that brings resource x into the world: adopting it into a new handle *)
Definition h_adopts (x : Z) (w : hworld) (op : hop) : nat :=
  match op with HVal _ y => if h_pre w op && (y =? x) then 1%nat else 0%nat | _ => 0%nat end.
Local Open Scope nat_scope.

Lemma h_dead_lt (w : hworld) i :
  match h_get w i with None => (i <? length (h_objs w)) | Some _ => false end = true ->
  i < length (h_objs w) /\ nth i (h_objs w) None = None.
Proof.
  intros H. unfold h_get in *. destruct (nth i (h_objs w) None) eqn:E; [discriminate|].
  apply Nat.ltb_lt in H. auto.
Qed.

Lemma hn_neg x v : (0 <= x)%Z -> (v < 0)%Z -> hn x (Some v) = 0.
Proof. intros Hx Hv. unfold hn. destruct (Z.eqb_spec v x); [lia|reflexivity]. Qed.

Lemma h_close_tot x a closed : (0 <= x)%Z ->
  let q := h_close a closed in
  (fst q < 0)%Z /\ cz x (snd q) = cz x closed + hn x (Some a).
Proof.
  intros Hx. unfold h_close. destruct (Z.leb_spec 0 a); cbn [fst snd cz hn]; split; try lia.
  destruct (Z.eqb_spec a x); lia.
Qed.

(* conservation: a step moves each resource between "owned by exactly the objects
   that hold it", "closed" and "released", and creates or loses none; only adoption
   adds one *)
Theorem h_step_conserves (w : hworld) (op : hop) (x : Z) : (0 <= x)%Z ->
  h_tot x (h_step w op) = h_tot x w + h_adopts x w op.
Proof.
  intros Hx. unfold h_step, h_adopts.
  destruct (h_pre w op) eqn:Hp; cbn [negb andb]; [|destruct op; lia].
  unfold h_tot, h_owned.
  destruct op; cbn [h_pre] in Hp; cbn [h_objs h_closed h_released].
  - destruct (h_dead_lt _ _ Hp) as [Hl Hn].
    pose proof (sum_upd (hn x) (h_objs w) i (Some (-1)%Z) None Hl) as S. rewrite Hn in S.
    rewrite (hn_neg x (-1)%Z) in S by lia. cbn [hn] in S. lia.
  - destruct (h_dead_lt _ _ Hp) as [Hl Hn].
    pose proof (sum_upd (hn x) (h_objs w) i (Some x0) None Hl) as S. rewrite Hn in S. cbn [hn] in S.
    destruct (Z.eqb x0 x); lia.
  - apply andb_prop in Hp. destruct Hp as [Hd Hj]. destruct (h_dead_lt _ _ Hd) as [Hl Hn].
    destruct (h_get w j) as [b|] eqn:Ej; [|discriminate]. pose proof (nth_some_lt _ _ _ Ej) as Hlj.
    assert (Hij : i <> j) by (intros ->; unfold h_get in Ej; congruence).
    cbn [h_close Z.leb Z.compare fst snd]. cbn [h_objs h_closed h_released].
    pose proof (sum_upd (hn x) (h_objs w) i (Some b) None Hl) as S1. rewrite Hn in S1.
    pose proof (sum_upd (hn x) (upd (h_objs w) i (Some b)) j (Some (-1)%Z) None) as S2.
    rewrite upd_length in S2. specialize (S2 Hlj). rewrite nth_upd_other in S2 by exact Hij.
    unfold h_get in Ej. rewrite Ej in S2. rewrite (hn_neg x (-1)%Z) in S2 by lia. cbn [hn] in S1, S2. lia.
  - destruct (h_get w i) as [a|] eqn:Ei; [|discriminate]. pose proof (nth_some_lt _ _ _ Ei) as Hl.
    destruct (h_close_tot x a (h_closed w) Hx) as [_ Hc]. destruct (h_close a (h_closed w)) as [a' cl].
    cbn [fst snd] in Hc. cbn [h_objs h_closed h_released].
    pose proof (sum_upd (hn x) (h_objs w) i None None Hl) as S. unfold h_get in Ei. rewrite Ei in S.
    cbn [hn] in S, Hc. lia.
  - apply andb_prop in Hp. destruct Hp as [Hi Hj]. destruct (Nat.eqb_spec i j) as [Eij|Eij]; [lia|].
    destruct (h_get w i) as [a|] eqn:Ei; [|discriminate]. destruct (h_get w j) as [b|] eqn:Ej; [|discriminate].
    pose proof (nth_some_lt _ _ _ Ei) as Hli. pose proof (nth_some_lt _ _ _ Ej) as Hlj.
    destruct (h_close_tot x a (h_closed w) Hx) as [Hneg Hc]. destruct (h_close a (h_closed w)) as [a' cl].
    cbn [fst snd] in Hc, Hneg. cbn [h_objs h_closed h_released].
    pose proof (sum_upd (hn x) (h_objs w) i (Some b) None Hli) as S1.
    pose proof (sum_upd (hn x) (upd (h_objs w) i (Some b)) j (Some a') None) as S2.
    rewrite upd_length in S2. specialize (S2 Hlj). rewrite nth_upd_other in S2 by exact Eij.
    unfold h_get in Ei, Ej. rewrite Ei in S1. rewrite Ej in S2. rewrite (hn_neg x a') in S2 by lia. lia.
  - destruct (h_get w i) as [a|] eqn:Ei; [|discriminate]. pose proof (nth_some_lt _ _ _ Ei) as Hl.
    destruct (h_close_tot x a (h_closed w) Hx) as [Hneg Hc]. destruct (h_close a (h_closed w)) as [a' cl].
    cbn [fst snd] in Hc, Hneg. cbn [h_objs h_closed h_released].
    pose proof (sum_upd (hn x) (h_objs w) i (Some a') None Hl) as S. unfold h_get in Ei. rewrite Ei in S.
    rewrite (hn_neg x a') in S by lia. lia.
  - destruct (h_get w i) as [a|] eqn:Ei; [|discriminate]. pose proof (nth_some_lt _ _ _ Ei) as Hl.
    cbn [h_objs h_closed h_released].
    pose proof (sum_upd (hn x) (h_objs w) i (Some (-1)%Z) None Hl) as S. unfold h_get in Ei. rewrite Ei in S.
    rewrite (hn_neg x (-1)%Z) in S by lia. cbn [hn] in S.
    destruct (Z.leb_spec 0 a); cbn [cz].
    + lia.
    + destruct (Z.eqb_spec a x); lia.
Qed.

(* over a whole history: everything adopted is, at every moment, in exactly one place *)
Fixpoint h_adopted (x : Z) (w : hworld) (ops : list hop) : nat :=
  match ops with [] => 0 | op :: r => h_adopts x w op + h_adopted x (h_step w op) r end.

Theorem h_history_conserves (w : hworld) (ops : list hop) (x : Z) : (0 <= x)%Z ->
  h_tot x (fold_left h_step ops w) = h_tot x w + h_adopted x w ops.
Proof.
  intros Hx. revert w. induction ops as [|op ops IH]; intros w; cbn [fold_left h_adopted]; [lia|].
  rewrite IH, h_step_conserves by exact Hx. lia.
Qed.

Lemma h_init_tot n x : h_tot x (h_init n) = 0.
Proof. unfold h_tot, h_owned, h_init; cbn. induction n; cbn; auto. Qed.

(* a resource adopted once is closed at most once, never closed after it was released,
   never closed while another handle still owns it (moved-to), and once no handle
   object is left it has been closed or released exactly once *)
Theorem h_exactly_once (n : nat) (ops : list hop) (x : Z) : (0 <= x)%Z ->
  h_adopted x (h_init n) ops = 1 ->
  let w := fold_left h_step ops (h_init n) in
  h_owned x w + cz x (h_closed w) + cz x (h_released w) = 1.
Proof.
  intros Hx Ha w. pose proof (h_history_conserves (h_init n) ops x Hx) as H.
  rewrite h_init_tot, Ha in H. exact H.
Qed.

(* =============================== comparison operators ================================= *)
(* the order the property names: an empty Optional is below every value, two values
   compare by the element order; the 18 operators are this one order seen through
   Optional-Optional, Optional-value and value-Optional operands *)
Section CompareOrder.
  Variable A : Type.
  Variables (eqb ltb : A -> A -> bool).
  Hypothesis eqb_eq : forall x y, eqb x y = true <-> x = y.
  Hypothesis ltb_irrefl : forall x, ltb x x = false.
  Hypothesis ltb_trans : forall x y z, ltb x y = true -> ltb y z = true -> ltb x z = true.
  Hypothesis ltb_total : forall x y, x <> y -> ltb x y = true \/ ltb y x = true.

  Definition olt (a b : option A) : bool :=
    match a, b with
    | None, Some _ => true
    | Some x, Some y => ltb x y
    | _, None => false
    end.

  Lemma ltb_asym x y : ltb x y = true -> ltb y x = false.
  Proof.
    intros H. destruct (ltb y x) eqn:E; [|reflexivity].
    pose proof (ltb_trans _ _ _ H E) as C. rewrite ltb_irrefl in C. discriminate.
  Qed.

  Lemma oo_eq_spec a b : oo_eq A eqb a b = true <-> a = b.
  Proof.
    destruct a as [x|], b as [y|]; cbn; try (split; [discriminate|congruence]); [|tauto].
    rewrite eqb_eq. split; congruence.
  Qed.

  Theorem oo_ops_order a b :
    oo_lt A ltb a b = olt a b /\ oo_gt A ltb a b = olt b a /\
    oo_le A ltb a b = olt a b || oo_eq A eqb a b /\
    oo_ge A ltb a b = olt b a || oo_eq A eqb a b /\
    oo_ne A eqb a b = negb (oo_eq A eqb a b).
  Proof.
    assert (L : forall x y, negb (ltb y x) = ltb x y || eqb x y).
    { intros x y. destruct (ltb y x) eqn:E1; cbn.
      - rewrite (ltb_asym _ _ E1). cbn. destruct (eqb x y) eqn:E2; [|reflexivity].
        apply eqb_eq in E2. subst. rewrite ltb_irrefl in E1. discriminate.
      - destruct (eqb x y) eqn:E2; [rewrite orb_true_r; reflexivity|].
        destruct (ltb_total x y) as [H|H]; [intros ->; assert (eqb y y = true) by (apply eqb_eq; reflexivity); congruence| |congruence].
        rewrite H. reflexivity. }
    assert (Es : forall x y, eqb x y = eqb y x).
    { intros x y. destruct (eqb x y) eqn:E1, (eqb y x) eqn:E2; try reflexivity.
      - apply eqb_eq in E1. subst. assert (eqb y y = true) by (apply eqb_eq; reflexivity). congruence.
      - apply eqb_eq in E2. subst. assert (eqb x x = true) by (apply eqb_eq; reflexivity). congruence. }
    unfold oo_lt, oo_gt, oo_le, oo_ge, oo_ne, oo_lt, olt, oo_eq.
    destruct a as [x|], b as [y|]; cbn; repeat split; auto.
    rewrite (Es x y). apply L.
  Qed.

  (* mixed operands agree with the Optional-Optional operators on the wrapped value *)
  Theorem ov_ops_agree (a : option A) (b : A) :
    ov_eq A eqb a b = oo_eq A eqb a (Some b) /\ ov_ne A eqb a b = oo_ne A eqb a (Some b) /\
    ov_lt A ltb a b = oo_lt A ltb a (Some b) /\ ov_gt A ltb a b = oo_gt A ltb a (Some b) /\
    ov_le A ltb a b = oo_le A ltb a (Some b) /\ ov_ge A ltb a b = oo_ge A ltb a (Some b).
  Proof. destruct a; cbn; repeat split; reflexivity. Qed.

  Theorem vo_ops_agree (a : A) (b : option A) :
    vo_eq A eqb a b = oo_eq A eqb (Some a) b /\ vo_ne A eqb a b = oo_ne A eqb (Some a) b /\
    vo_lt A ltb a b = oo_lt A ltb (Some a) b /\ vo_gt A ltb a b = oo_gt A ltb (Some a) b /\
    vo_le A ltb a b = oo_le A ltb (Some a) b /\ vo_ge A ltb a b = oo_ge A ltb (Some a) b.
  Proof. destruct b; cbn; repeat split; reflexivity. Qed.

  (* olt is a strict total order on option A whose least element is None *)
  Theorem olt_strict_total :
    (forall a, olt a a = false) /\
    (forall a b c, olt a b = true -> olt b c = true -> olt a c = true) /\
    (forall a b, a <> b -> olt a b = true \/ olt b a = true) /\
    (forall y, olt None (Some y) = true) /\ (forall a, olt a None = false).
  Proof.
    repeat split.
    - intros [x|]; cbn; auto.
    - intros [x|] [y|] [z|]; cbn; try discriminate; auto. apply ltb_trans.
    - intros [x|] [y|] H; cbn; auto. apply ltb_total. congruence.
    - intros [x|]; reflexivity.
  Qed.
End CompareOrder.

(* the element type of the harness: integers with Z.eqb / Z.ltb meets the hypotheses *)
Example compare_Z_nonvacuous :
  (forall x y, Z.eqb x y = true <-> x = y) /\ (forall x, Z.ltb x x = false) /\
  (forall x y z, Z.ltb x y = true -> Z.ltb y z = true -> Z.ltb x z = true) /\
  (forall x y, x <> y -> Z.ltb x y = true \/ Z.ltb y x = true).
Proof.
  repeat split; intros; try (apply Z.eqb_eq; assumption); try (apply Z.eqb_eq; assumption).
  - apply Z.ltb_irrefl.
  - apply Z.ltb_lt. apply Z.ltb_lt in H, H0. lia.
  - destruct (Z.lt_total x y) as [L|[L|L]]; [left|contradiction|right]; apply Z.ltb_lt; exact L.
Qed.

(* moving from a Result by assignment leaves it empty (no value, no error) *)
Theorem r_move_assign_empties (w : rworld) i j a b : i <> j ->
  r_get w i = Some a -> r_get w j = Some b ->
  exists b', r_get (r_step w (RMoveAssign i j)) j = Some b' /\ r_tag b' = RtEmpty.
Proof.
  intros Hij Ei Ej. unfold r_step. cbn [r_pre]. rewrite Ei, Ej. cbn [andb negb].
  rewrite (proj2 (Nat.eqb_neq i j) Hij).
  pose proof (nth_some_lt _ _ _ Ej) as Hlj.
  assert (D : forall r st, r_tag (fst (r_destruct r st)) = RtEmpty).
  { intros r st. unfold r_destruct. destruct (r_has_value r); [destruct (s_destroy (r_slot r) st)|]; reflexivity. }
  unfold r_move_from. destruct (r_has_value b).
  - destruct (s_move_out (r_slot b) (r_stt w)) as [[v bs] st1].
    destruct (r_assign_value v a st1) as [a' st2].
    pose proof (D {| r_tag := RtValue; r_slot := bs |} st2) as Hd.
    destruct (r_destruct {| r_tag := RtValue; r_slot := bs |} st2) as [b' st3]. exists b'. split; [|exact Hd].
    unfold r_get, r_put; cbn [r_objs]. apply nth_upd_same. rewrite upd_length. exact Hlj.
  - destruct (r_assign_error _ a (r_stt w)) as [a' st1].
    pose proof (D b st1) as Hd. destruct (r_destruct b st1) as [b' st2]. exists b'. split; [|exact Hd].
    unfold r_get, r_put; cbn [r_objs]. apply nth_upd_same. rewrite upd_length. exact Hlj.
Qed.
