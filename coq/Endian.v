(* Endian.v — nop::HostEndian (utility/endian.h) on a little-endian host.
   Values are bit patterns (N below 2^(8w)); the object's bytes in memory are
   le_bytes w v.  Definitions, then proofs. *)
From Nop Require Import Base SipHash SipHashProps Spec Sim EncSpec ScalarRT.
Local Open Scope N_scope.

(* out |= static_cast<T>(value[i]) << (pos i * 8), i = 0 .. n-1, in type T *)
Fixpoint or_up (get : nat -> N) (pos : nat -> nat) (i n : nat) (acc : N) : N :=
  match n with
  | O => acc
  | S n' => or_up get pos (S i) n' (N.lor acc (N.shiftl (get i) (8 * N.of_nat (pos i))))
  end.

Definition mask_w (w : nat) (x : N) : N := x mod 256 ^ N.of_nat w.

(* FromLittle / ToLittle: byte i goes to bits 8i *)
Definition from_little (w : nat) (bs : bytes) : N :=
  mask_w w (or_up (fun i => nth i bs 0) (fun i => i) 0 w 0).
(* FromBig / ToBig: byte i goes to bits 8(w-1-i) *)
Definition from_big (w : nat) (bs : bytes) : N :=
  mask_w w (or_up (fun i => nth i bs 0) (fun i => (w - 1 - i)%nat) 0 w 0).

(* the four conversions of an integral or floating-point object of w bytes
   holding bit pattern v (floating point forwards to the same-width integer) *)
Definition host_from_little (w : nat) (v : N) : N := from_little w (le_bytes w v).
Definition host_to_little (w : nat) (v : N) : N := from_little w (le_bytes w v).
Definition host_from_big (w : nat) (v : N) : N := from_big w (le_bytes w v).
Definition host_to_big (w : nat) (v : N) : N := from_big w (le_bytes w v).

(* ---- proofs ------------------------------------------------------------------------ *)
Lemma le_val_bound (bs : bytes) : all_bytes bs = true -> le_val bs < 256 ^ N.of_nat (length bs).
Proof.
  induction bs as [|b bs IH]; cbn [le_val length all_bytes forallb]; intros H.
  - cbn. lia.
  - apply andb_prop in H. destruct H as [Hb H]. unfold is_byte in Hb. apply N.ltb_lt in Hb.
    specialize (IH H). rewrite Nat2N.inj_succ, N.pow_succ_r'. lia.
Qed.

Lemma firstn_snoc (bs : bytes) i : (i < length bs)%nat -> firstn (S i) bs = firstn i bs ++ [nth i bs 0].
Proof.
  revert i. induction bs as [|b bs IHb]; intros i Hl; [cbn in Hl; lia|].
  destruct i; [reflexivity|]. change (b :: firstn (S i) bs = (b :: firstn i bs) ++ [nth i bs 0]).
  cbn [app]. f_equal. apply IHb. cbn in Hl; lia.
Qed.

Lemma or_up_little (bs : bytes) : all_bytes bs = true -> forall n i,
  (i + n <= length bs)%nat ->
  or_up (fun j => nth j bs 0) (fun j => j) i n (le_val (firstn i bs)) = le_val (firstn (i + n) bs).
Proof.
  intros Hb. induction n as [|n IH]; intros i Hl; cbn [or_up].
  - rewrite Nat.add_0_r. reflexivity.
  - assert (Hlt : le_val (firstn i bs) < 2 ^ (8 * N.of_nat i)).
    { pose proof (le_val_bound (firstn i bs)) as B.
      rewrite firstn_length_le in B by lia. rewrite N.pow_mul_r. change (2 ^ 8) with 256. apply B.
      unfold all_bytes in *. rewrite forallb_forall in *. intros x Hx. apply Hb.
      rewrite <- (firstn_skipn i bs). apply in_or_app. left. exact Hx. }
    rewrite (lor_shiftl_add _ _ _ Hlt).
    replace (le_val (firstn i bs) + nth i bs 0 * 2 ^ (8 * N.of_nat i)) with (le_val (firstn (S i) bs)).
    + rewrite IH by lia. f_equal. f_equal. lia.
    + assert (E : firstn (S i) bs = firstn i bs ++ [nth i bs 0]) by (apply firstn_snoc; lia).
      rewrite E, le_val_app, firstn_length_le by lia. cbn [le_val].
      rewrite N.pow_mul_r. change (2 ^ 8) with 256. lia.
Qed.

Lemma or_up_big (bs : bytes) w : all_bytes bs = true -> length bs = w -> forall n i,
  (i + n = w)%nat ->
  or_up (fun j => nth j bs 0) (fun j => (w - 1 - j)%nat) i n
        (le_val (rev (firstn i bs)) * 2 ^ (8 * N.of_nat (w - i))) = le_val (rev bs).
Proof.
  intros Hb Hw. induction n as [|n IH]; intros i Hl; cbn [or_up].
  - assert (i = w) by lia. subst i. rewrite Nat.sub_diag, N.mul_0_r, N.pow_0_r, N.mul_1_r.
    rewrite firstn_all2 by lia. reflexivity.
  - assert (Hbyte : nth i bs 0 < 256) by (apply nth_byte, Hb).
    set (X := le_val (rev (firstn i bs))).
    assert (E : N.lor (X * 2 ^ (8 * N.of_nat (w - i))) (N.shiftl (nth i bs 0) (8 * N.of_nat (w - 1 - i))) =
                le_val (rev (firstn (S i) bs)) * 2 ^ (8 * N.of_nat (w - S i))).
    { rewrite N.lor_comm. rewrite N.shiftl_mul_pow2.
      replace (X * 2 ^ (8 * N.of_nat (w - i))) with (N.shiftl X (8 * N.of_nat (w - i))) by apply N.shiftl_mul_pow2.
      rewrite lor_shiftl_add.
      - rewrite (firstn_snoc bs i) by lia. rewrite rev_app_distr. cbn [rev app le_val]. fold X.
        replace (w - 1 - i)%nat with (w - S i)%nat by lia.
        replace (8 * N.of_nat (w - i)) with (8 + 8 * N.of_nat (w - S i)) by lia.
        rewrite N.pow_add_r. change (2 ^ 8) with 256. lia.
      - replace (8 * N.of_nat (w - i)) with (8 + 8 * N.of_nat (w - 1 - i)) by lia.
        rewrite N.pow_add_r. change (2 ^ 8) with 256.
        assert (0 < 2 ^ (8 * N.of_nat (w - 1 - i))) by (apply N.neq_0_lt_0, N.pow_nonzero; lia). nia. }
    rewrite E. apply IH. lia.
Qed.

Theorem from_little_le_val w (bs : bytes) : all_bytes bs = true -> length bs = w ->
  from_little w bs = le_val bs.
Proof.
  intros Hb Hw. unfold from_little, mask_w.
  pose proof (or_up_little bs Hb w 0) as H. cbn [firstn le_val Nat.add] in H. rewrite H by lia.
  rewrite firstn_all2 by lia. apply N.mod_small. rewrite <- Hw. apply le_val_bound, Hb.
Qed.

Lemma all_bytes_rev (bs : bytes) : all_bytes bs = true -> all_bytes (rev bs) = true.
Proof.
  unfold all_bytes. rewrite !forallb_forall. intros H x Hx. apply H. apply in_rev. exact Hx.
Qed.

Theorem from_big_le_val_rev w (bs : bytes) : all_bytes bs = true -> length bs = w ->
  from_big w bs = le_val (rev bs).
Proof.
  intros Hb Hw. unfold from_big, mask_w.
  pose proof (or_up_big bs w Hb Hw w 0) as H. cbn [firstn rev le_val] in H.
  rewrite N.mul_0_l in H. rewrite H by lia.
  apply N.mod_small. rewrite <- Hw, <- rev_length. apply le_val_bound, all_bytes_rev, Hb.
Qed.

Lemma le_bytes_le_val (bs : bytes) : all_bytes bs = true -> le_bytes (length bs) (le_val bs) = bs.
Proof.
  induction bs as [|b bs IH]; cbn [le_bytes le_val length all_bytes forallb]; intros H; [reflexivity|].
  apply andb_prop in H. destruct H as [Hb H]. unfold is_byte in Hb. apply N.ltb_lt in Hb.
  assert (E1 : (b + 256 * le_val bs) mod 256 = b).
  { rewrite (N.mul_comm 256), N.mod_add by lia. apply N.mod_small. exact Hb. }
  assert (E2 : (b + 256 * le_val bs) / 256 = le_val bs).
  { rewrite (N.mul_comm 256), N.div_add by lia. rewrite N.div_small by exact Hb. lia. }
  rewrite E1, E2.
  rewrite (IH H). reflexivity.
Qed.

(* on a little-endian host: the little-endian conversions are the identity *)
Theorem host_little_identity w v : v < 256 ^ N.of_nat w ->
  host_from_little w v = v /\ host_to_little w v = v.
Proof.
  intros Hv. unfold host_from_little, host_to_little.
  rewrite from_little_le_val by (try apply le_bytes_all_bytes; apply le_bytes_length).
  rewrite le_val_le_bytes. split; apply N.mod_small; exact Hv.
Qed.

(* ... and the big-endian conversions reverse the object's bytes *)
Theorem host_big_reverses w v :
  host_from_big w v = le_val (rev (le_bytes w v)) /\ host_to_big w v = le_val (rev (le_bytes w v)).
Proof.
  unfold host_from_big, host_to_big.
  rewrite from_big_le_val_rev by (try apply le_bytes_all_bytes; apply le_bytes_length). auto.
Qed.

(* To and From are mutual inverses *)
Theorem host_big_involutive w v : v < 256 ^ N.of_nat w ->
  host_to_big w (host_from_big w v) = v /\ host_from_big w (host_to_big w v) = v.
Proof.
  intros Hv. destruct (host_big_reverses w v) as [E1 E2]. rewrite E1, E2.
  destruct (host_big_reverses w (le_val (rev (le_bytes w v)))) as [F1 F2]. rewrite F1, F2.
  assert (G : le_bytes w (le_val (rev (le_bytes w v))) = rev (le_bytes w v)).
  { pose proof (le_bytes_le_val (rev (le_bytes w v)) (all_bytes_rev _ (le_bytes_all_bytes w v))) as L.
    rewrite rev_length, le_bytes_length in L. exact L. }
  rewrite G, rev_involutive, le_val_le_bytes. split; apply N.mod_small; exact Hv.
Qed.
