(* Properties_C10.v — C10: I/O errors propagate verbatim and stop the
   operation.  Statements only; proofs in Fault.v (logical relations of Sim.v /
   WSim.v instantiated with the call-logging, fault-injecting wrapper). *)
From Nop Require Import Spec Sim WSim Fault.
Local Open Scope N_scope.

(* Read over ANY reader wrapped so that its k-th primitive call (Ensure, byte or
   block read, Skip, GetHandle — whichever it is) fails with code fe:
   - if the read reports success, the failing call was never made;
   - otherwise either exactly k+1 calls were made — the failing one is the last,
     nothing was called after it — and the status returned is fe itself, or the
     read had already failed before reaching it.
   The wrapped reader is arbitrary and may itself fail at any point. *)
Theorem C10_stop_read : forall k fe t R (o : rops R) (r : R),
  stops_at_fault k fe (dec t (inst_rops o) (inst_make r (Some (k, fe)))).
Proof. intros. apply read_stops_at_fault. Qed.
Print Assumptions C10_stop_read.

(* the same for Serializer::Write (Prepare, byte and block writes, Skip, PushHandle) *)
Theorem C10_stop_write : forall k fe t v W (o : wops W) (w : W),
  stops_at_fault k fe (serialize t v (inst_wops o) (inst_make w (Some (k, fe)))).
Proof. intros. apply write_stops_at_fault. Qed.
Print Assumptions C10_stop_write.

(* a Write whose Prepare fails performs no other call: nothing is written *)
Theorem C10_prepare_failure : forall t v W (o : wops W) (w : W) fe,
  serialize t v (inst_wops o) (inst_make w (Some (0, fe))) =
  Err fe {| i_inner := w; i_log := [CPrepare (tsize t v)]; i_fault := Some (0, fe) |}.
Proof. intros. apply prepare_failure_writes_nothing. Qed.
Print Assumptions C10_prepare_failure.

(* non-vacuity: a table read (Skip and Bounded reads included) failing at call 7 *)
Example C10_nonvacuous :
  let t := TTab 7 [(1, true, TSeq CVec (TScalar 0 (SInt U16))); (2, false, TStr 1)] in
  let bs := [181; 7; 2; 2; 3; 189; 1; 97; 1; 6; 188; 4; 1; 0; 2; 0] in
  (exists v s, dec t (inst_rops lr_ops) (inst_make bs None) = Ok v s /\ ncalls s = 13) /\
  (exists s, dec t (inst_rops lr_ops) (inst_make bs (Some (7, 16))) = Err 16 s /\ ncalls s = 8).
Proof. vm_compute. split; repeat eexists. Qed.
