(* Fungible.v — transcription of nop::IsFungible<A,B> (traits/is_fungible.h) on
   schema descriptors.  Definitions only. *)
From Nop Require Export Spec.
Local Open Scope N_scope.

Definition tupk_eqb (a b : tupk) : bool :=
  match a, b with KPair, KPair | KTuple, KTuple | KStruct, KStruct => true | _, _ => false end.

Definition seqc_eqb (a b : seqc) : bool :=
  match a, b with
  | CVec, CVec => true
  | CArr ca n, CArr cb m => Bool.eqb ca cb && (n =? m)
  | CLBuf ca n sk u, CLBuf cb m sk' u' => Bool.eqb ca cb && (n =? m) && ikind_eqb sk sk' && Bool.eqb u u'
  | _, _ => false
  end.

(* std::is_same *)
Fixpoint ty_eqb (a b : ty) {struct a} : bool :=
  match a, b with
  | TScalar c s, TScalar c' s' => (c =? c') && scalar_eqb s s'
  | TStr cw, TStr cw' => cw =? cw'
  | TSeq ca ta, TSeq cb tb => seqc_eqb ca cb && ty_eqb ta tb
  | TTuple k ts, TTuple k' ts' =>
      tupk_eqb k k' &&
      (fix go (ts ts' : list ty) : bool :=
         match ts, ts' with
         | [], [] => true
         | x :: r, y :: r' => ty_eqb x y && go r r'
         | _, _ => false
         end) ts ts'
  | TWrap i ta, TWrap j tb => (i =? j) && ty_eqb ta tb
  | TMap u k v, TMap u' k' v' => Bool.eqb u u' && ty_eqb k k' && ty_eqb v v'
  | TOpt ta, TOpt tb => ty_eqb ta tb
  | TRes e k ta, TRes e' k' tb => (e =? e') && ikind_eqb k k' && ty_eqb ta tb
  | TVar ts, TVar ts' =>
      (fix go (ts ts' : list ty) : bool :=
         match ts, ts' with
         | [], [] => true
         | x :: r, y :: r' => ty_eqb x y && go r r'
         | _, _ => false
         end) ts ts'
  | THnd p k z, THnd p' k' z' => (p =? p') && ikind_eqb k k' && (z =? z')%Z
  | TTab h es, TTab h' es' =>
      (h =? h') &&
      (fix go (es es' : list (N * bool * ty)) : bool :=
         match es, es' with
         | [], [] => true
         | (i, a1, x) :: r, (j, a2, y) :: r' => (i =? j) && Bool.eqb a1 a2 && ty_eqb x y && go r r'
         | _, _ => false
         end) es es'
  | _, _ => false
  end.

(* NOP_VALUE wrappers are looked through (IsValueWrapper specialisations) *)
Fixpoint strip (t : ty) : ty :=
  match t with
  | TWrap id t' => if id =? 0 then t else strip t'
  | _ => t
  end.

(* std::is_integral on the element type (EnableIfNotIntegral in the sequence / tuple rules) *)
Definition is_integral (t : ty) : bool :=
  match raw_kind t with Some _ => true | None => false end.

(* which pairs of sequence-like containers have a specialisation at all
   (vector / std::array / C array / logical buffer), before elements are compared *)
Definition seq_rule (ca cb : seqc) : bool :=
  match ca, cb with
  | CVec, CVec => true
  | CVec, CArr _ _ | CArr _ _, CVec => true
  | CArr _ n, CArr _ m => n =? m
  | CLBuf _ n _ _, CLBuf _ m _ _ => n =? m        (* IsFungible of the two array member types *)
  | CVec, CLBuf _ _ _ _ | CLBuf _ _ _ _, CVec => true
  | _, _ => false
  end.

Fixpoint fungible (a b : ty) {struct a} : bool :=
  match a with
  | TWrap id a' => if id =? 0 then ty_eqb a (strip b) else fungible a' b
  | _ =>
      let b := strip b in
      match a, b with
      | TScalar c s, TScalar c' s' => (c =? c') && scalar_eqb s s'
      | TStr cw, TStr cw' => cw =? cw'
      | TSeq ca ta, TSeq cb tb => seq_rule ca cb && fungible ta tb
      | TSeq ca ta, TTuple KTuple ts =>
          negb (is_integral ta) &&
          (match ca with
           | CVec => true
           | CArr _ n => n =? nlen ts
           | CLBuf _ _ _ _ => false
           end) && forallb (fungible ta) ts
      | TTuple KTuple ts, TSeq cb tb =>
          negb (is_integral tb) &&
          (match cb with
           | CVec => true
           | CArr _ n => n =? nlen ts
           | CLBuf _ _ _ _ => false
           end) && forallb (fun t => fungible t tb) ts
      | TTuple k ts, TTuple k' ts' =>
          (match k, k' with
           | KStruct, KStruct => true
           | KStruct, _ | _, KStruct => false
           | _, _ => true                        (* pair/pair, pair/tuple, tuple/pair, tuple/tuple *)
           end) &&
          (fix go (ts ts' : list ty) {struct ts} : bool :=
             match ts, ts' with
             | [], [] => true
             | x :: r, y :: r' => fungible x y && go r r'
             | _, _ => false
             end) ts ts'
      | TMap _ k v, TMap _ k' v' => fungible k k' && fungible v v'
      | TOpt ta, TOpt tb => fungible ta tb
      | TRes e ek ta, TRes e' ek' tb => (e =? e') && ikind_eqb ek ek' && fungible ta tb
      | TVar ts, TVar ts' =>
          (fix go (ts ts' : list ty) {struct ts} : bool :=
             match ts, ts' with
             | [], [] => true
             | x :: r, y :: r' => fungible x y && go r r'
             | _, _ => false
             end) ts ts'
      | THnd p k z, THnd p' k' z' => (p =? p') && ikind_eqb k k' && (z =? z')%Z
      | TTab h es, TTab h' es' =>
          (h =? h') &&
          (fix go (es es' : list (N * bool * ty)) {struct es} : bool :=
             match es, es' with
             | [], [] => true
             | (i, a1, x) :: r, (j, a2, y) :: r' =>
                 (i =? j) && Bool.eqb a1 a2 && fungible x y && go r r'
             | _, _ => false
             end) es es'
      | _, _ => false
      end
  end.
