(* Properties_C11.v — C11: decoding depends only on the bytes, not on the
   destination's prior contents.  Statements only; proofs in Into.v. *)
From Nop Require Import Spec Sim ScalarRT Into.
Local Open Scope N_scope.

(* [dec_into t prior] performs the in-place algorithm of the library on a
   destination holding [prior] — clear() before push_back / emplace,
   ClearEntries and re-creation of each table entry, Optional cleared or
   assigned from a fresh temporary, Result reset to T{} before reading in
   place, Variant::Become keeping a same-index alternative, fixed arrays,
   structure members and logical-buffer slots read element by element over
   what they hold.  For every schema, EVERY prior value (well-typed or not:
   whatever an earlier assignment, successful read or failed read left
   behind), every reader and every input, the outcome — status, value, reader
   state — is the one obtained with a freshly constructed destination. *)
Theorem C11_prior_independent : forall t prior R (o : rops R) r,
  dec_into t prior o r = dec t o r.
Proof. intros. apply dec_into_prior_independent. Qed.
Print Assumptions C11_prior_independent.

(* any history of reads into one object: the last read alone decides *)
Theorem C11_history : forall t (priors : list val) R (o : rops R) r p0,
  dec_into t (fold_left (fun _ p => p) priors p0) o r = dec t o r.
Proof. intros. apply dec_into_prior_independent. Qed.
Print Assumptions C11_history.

Example C11_nonvacuous :
  let t := TTuple KStruct [TSeq CVec (TStr 1); TVar [TSeq CVec (TScalar 0 (SInt U8)); TScalar 0 SBool];
                           TTab 3 [(1, true, TOpt (TScalar 0 (SInt U8)))]] in
  let prior := VSeq [VSeq [VSeq [VInt 120]; VSeq []]; VAlt 0 (VSeq [VInt 1; VInt 2]); VTab [VSome (VSome (VInt 9))]] in
  let bs := [185; 3; 186; 1; 189; 1; 97; 184; 0; 188; 1; 7; 181; 3; 0] in
  dec_into t prior lr_ops bs =
  Ok (VSeq [VSeq [VSeq [VInt 97]]; VAlt 0 (VSeq [VInt 7]); VTab [VNone]]) [].
Proof. vm_compute. reflexivity. Qed.
