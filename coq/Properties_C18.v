(* Properties_C18.v — C18: table hashes and method selectors are standard
   SipHash-2-4 values of the names.  Statements only; proofs in SipHashProps.v. *)
From Nop Require Import Base SipHash SipHashProps.
Local Open Scope N_scope.

(* nop::SipHash::Compute (block loop, fall-through tail) equals SipHash-2-4 as
   specified — pad with zeros and the length byte, little-endian words, 2
   compression rounds per word, 4 finalisation rounds — for every byte string of
   every length and every 128-bit key.  (Elements are octets: after the repair
   of BlockReader, char elements are read as unsigned bytes.) *)
Theorem C18_standard_siphash : forall k0 k1 (m : bytes), all_bytes m = true ->
  nop_siphash k0 k1 m = siphash_spec k0 k1 m.
Proof. exact nop_siphash_correct. Qed.
Print Assumptions C18_standard_siphash.

(* the specification reproduces the 64 reference vectors of the SipHash paper,
   and so does the transcription of the header *)
Theorem C18_reference_vectors :
  map (fun i => siphash_spec ref_k0 ref_k1 (ref_message i)) (seq 0 64) = ref_vectors /\
  map (fun i => nop_siphash ref_k0 ref_k1 (ref_message i)) (seq 0 64) = ref_vectors.
Proof. split; [exact ref_vectors_spec|exact ref_vectors_nop]. Qed.
Print Assumptions C18_reference_vectors.

(* the values carried on the wire are pure functions of the name bytes: the table
   hash, the interface hash and the method selectors are SipHash-2-4 of the name
   followed by its terminating NUL under the library's fixed keys *)
Theorem C18_table_hash : forall name, all_bytes name = true ->
  table_hash name = siphash_spec kNopTableKey0 kNopTableKey1 (name ++ [0]).
Proof.
  intros name H. unfold table_hash. apply nop_siphash_correct.
  unfold all_bytes in *. rewrite forallb_app, H. reflexivity.
Qed.
Print Assumptions C18_table_hash.

Theorem C18_method_selector : forall ihash name, all_bytes name = true ->
  method_selector false ihash name = siphash_spec ihash kNopInterfaceKey1 (name ++ [0]) /\
  method_selector true ihash name = siphash_spec ihash kNopInterfaceKey1 (name ++ [0]) mod 2 ^ 32.
Proof.
  intros ihash name H. unfold method_selector.
  rewrite nop_siphash_correct by (unfold all_bytes in *; rewrite forallb_app, H; reflexivity).
  split; reflexivity.
Qed.
Print Assumptions C18_method_selector.
