(* Codec.v — Encoding<T>::{Prefix,Match,Size,Write,Read} for every supported
   type constructor, written once, generically over the reader / writer
   primitive records, following the C++ control flow (base/*.h).
   Definitions only. *)
From Nop Require Export IO.
Local Open Scope N_scope.

Definition sU64 : scalar := SInt U64.
Definition sI32 : scalar := SInt I32.
Definition sI64 : scalar := SInt I64.

Definition nlen {A} (l : list A) : N := N.of_nat (length l).

(* ======================= reading ======================================== *)
Section Read.
  Context {R : Type} (o : rops R).

  (* Encoding<arithmetic>::ReadPayload *)
  Definition read_scalar_payload (s : scalar) (p : N) (r : R) : res Z R :=
    match s with
    | SBool => Ok (Z.of_N p) r
    | _ =>
        if (class_len p =? 0)%nat then Ok (scalar_value s p []) r
        else do bs, r <- r_readn o (N.of_nat (class_len p)) r;
             Ok (scalar_value s p bs) r
    end.

  (* EncodingIO<arithmetic>::Read *)
  Definition read_scalar (s : scalar) (r : R) : res Z R :=
    do p, r <- r_read1 o r;
    if scalar_match s p then read_scalar_payload s p r else Err EType r.

  Definition read_u64 (r : R) : res N R := rmap Z.to_N (read_scalar sU64 r).

  (* EncodingIO<T>::Read given Match and ReadPayload *)
  Definition dec_with (m : N -> bool) (dp : N -> R -> res val R) (r : R) : res val R :=
    do p, r <- r_read1 o r;
    if m p then dp p r else Err EType r.

  (* for (i = 0; i < n; i++) { status = step; if (!status) return status; } *)
  Definition loop_res {X} (n : N) (f : X -> R -> res X R) (x : X) (r : R) : res X R :=
    match iter_N (fun st : X * R =>
                    match f (fst st) (snd st) with
                    | Ok x' r' => inl (x', r')
                    | Err e r' => inr (e, r')
                    end) n (x, r) with
    | inl (x', r') => Ok x' r'
    | inr (e, r') => Err e r'
    end.

  (* Table: SkipEntry *)
  Definition skip_entry (r : R) : res unit R :=
    do sz, r <- read_u64 r; r_skip o sz r.

  (* Table: ReadEntry for an active, still empty entry: size, then the value
     through a BoundedReader of that size, then ReadPadding.  [rdb] is
     Encoding<T>::Read instantiated at BoundedReader<Reader>. *)
  Definition framed_read (rdb : Bounded R -> res val (Bounded R)) (r : R) : res val R :=
    do sz, r <- read_u64 r;
    match rdb (b_make r sz) with
    | Ok v b =>
        match bounded_read_padding o b with
        | Ok _ b' => Ok v (b_inner b')
        | Err e b' => Err e (b_inner b')
        end
    | Err e b => Err e (b_inner b)
    end.

  (* Table: ReadEntryForId over the declared entries (id, active, reader) *)
  Fixpoint find_entry (id : N) (es : list (N * bool * (R -> res val R))) (slots : list val)
           (r : R) {struct es} : res (list val) R :=
    match es, slots with
    | (eid, act, rd) :: es', sl :: slots' =>
        if eid =? id then
          if act then
            match sl with
            | VNone => do v, r <- rd r; Ok (VSome v :: slots') r
            | _ => Err EDupEntry r
            end
          else
            do _, r <- skip_entry r; Ok (sl :: slots') r
        else
          do rest, r <- find_entry id es' slots' r; Ok (sl :: rest) r
    | _, _ => do _, r <- skip_entry r; Ok slots r
    end.
End Read.

Definition unraw (w : nat) (sg : bool) (n : N) (bs : bytes) : list val :=
  map (fun c => VInt (raw_dec w sg c)) (chunks w (N.to_nat n) bs).

(* std::map/unordered_map::emplace: the first occurrence of a key wins *)
Definition map_emplace (acc : list (val * val)) (k v : val) : list (val * val) :=
  if existsb (fun kv => val_eqb (fst kv) k) acc then acc else acc ++ [(k, v)].

Fixpoint tmatch (t : ty) (p : N) {struct t} : bool :=
  match t with
  | TScalar _ s => scalar_match s p
  | TStr _ => p =? P_STR
  | TSeq _ t' => match raw_kind t' with Some _ => p =? P_BIN | None => p =? P_ARY end
  | TTuple KStruct _ => p =? P_STU
  | TTuple _ _ => p =? P_ARY
  | TWrap _ t' => tmatch t' p
  | TMap _ _ _ => p =? P_MAP
  | TOpt t' => (p =? P_NIL) || tmatch t' p
  | TRes _ _ t' => (p =? P_ERR) || tmatch t' p
  | TVar _ => p =? P_VAR
  | THnd _ _ _ => p =? P_HND
  | TTab _ _ => p =? P_TAB
  end.

Definition count_err (k : tupk) : N :=
  match k with KStruct => EMemberCount | _ => EContLen end.

(* Encoding<T>::ReadPayload.  Polymorphic recursion on the reader type: a
   table entry is decoded by the same function at [Bounded R], exactly as
   Encoding<T>::Read is instantiated at BoundedReader<Reader>. *)
Fixpoint decp (t : ty) (p : N) (R : Type) (o : rops R) (r : R) {struct t} : res val R :=
  match t with
  | TScalar _ s => rmap VInt (read_scalar_payload o s p r)
  | TStr cw =>
      do len, r <- read_u64 o r;
      if negb (len mod cw =? 0) then Err EStrLen r else
      do _, r <- r_ensure o (len / cw) r;
      do bs, r <- r_readn o len r;
      Ok (VSeq (unraw (N.to_nat cw) false (len / cw) bs)) r
  | TSeq c t' =>
      match raw_kind t' with
      | Some (w, sg) =>
          let wN := N.of_nat w in
          do len, r <- read_u64 o r;
          match c with
          | CVec =>
              if negb (len mod wN =? 0) then Err EContLen r else
              do _, r <- r_ensure o len r;
              do bs, r <- r_readn o len r;
              Ok (VSeq (unraw w sg (len / wN) bs)) r
          | CArr _ n =>
              if negb (len =? n * wN) then Err EContLen r else
              do bs, r <- r_readn o len r;
              Ok (VSeq (unraw w sg n bs)) r
          | CLBuf _ cap _ unb =>
              if (negb unb && (cap * wN <? len)) || negb (len mod wN =? 0)
              then Err EContLen r else
              do bs, r <- r_readn o len r;
              Ok (VSeq (unraw w sg (len / wN) bs)) r
          end
      | None =>
          do n, r <- read_u64 o r;
          if negb (match c with
                   | CVec => true
                   | CArr _ m => n =? m
                   | CLBuf _ cap _ unb => unb || (n <=? cap)
                   end) then Err EContLen r else
          do vs, r <- loop_res n
                 (fun acc r => do v, r <- dec_with o (tmatch t') (fun p r => decp t' p R o r) r;
                               Ok (v :: acc) r) [] r;
          Ok (VSeq (rev vs)) r
      end
  | TTuple k ts =>
      do n, r <- read_u64 o r;
      if negb (n =? nlen ts) then Err (count_err k) r else
      do vs, r <- (fix go (ts : list ty) (r : R) {struct ts} : res (list val) R :=
                     match ts with
                     | [] => Ok [] r
                     | t' :: ts' =>
                         do v, r <- dec_with o (tmatch t') (fun p r => decp t' p R o r) r;
                         do vs, r <- go ts' r;
                         Ok (v :: vs) r
                     end) ts r;
      Ok (VSeq vs) r
  | TWrap _ t' => decp t' p R o r
  | TMap _ kt vt =>
      do n, r <- read_u64 o r;
      do kvs, r <- loop_res n
             (fun acc r =>
                do k, r <- dec_with o (tmatch kt) (fun p r => decp kt p R o r) r;
                do v, r <- dec_with o (tmatch vt) (fun p r => decp vt p R o r) r;
                Ok (map_emplace acc k v) r) [] r;
      Ok (VMap kvs) r
  | TOpt t' =>
      if p =? P_NIL then Ok VNone r else rmap VSome (decp t' p R o r)
  | TRes _ ek t' =>
      if p =? P_ERR then rmap VErr (read_scalar o (SInt ek) r)
      else rmap VOk (decp t' p R o r)
  | TVar ts =>
      do i, r <- read_scalar o sI32 r;
      if (i <? -1)%Z || (Z.of_N (nlen ts) <=? i)%Z then Err EVariant r else
      if (i =? -1)%Z then
        dec_with o (fun p => p =? P_NIL) (fun _ r => Ok VEmpty r) r
      else
        (fix pick (ts : list ty) (n : nat) {struct ts} : res val R :=
           match ts with
           | [] => Err EVariant r
           | t' :: ts' =>
               match n with
               | O => rmap (VAlt i) (dec_with o (tmatch t') (fun p r => decp t' p R o r) r)
               | S n' => pick ts' n'
               end
           end) ts (Z.to_nat i)
  | THnd _ tk tag =>
      do tg, r <- read_scalar o (SInt tk) r;
      if negb (tg =? tag)%Z then Err EHandleType r else
      do ref, r <- read_scalar o sI64 r;
      do h, r <- r_gethandle o ref r;
      Ok (VHnd h) r
  | TTab hash es =>
      do h, r <- read_u64 o r;
      if negb (h =? hash) then Err ETableHash r else
      do count, r <- read_u64 o r;
      do slots, r <- loop_res count
             (fun slots r =>
                do id, r <- read_u64 o r;
                find_entry o id
                  (map (fun e : N * bool * ty =>
                          match e with
                          | (eid, act, t') =>
                              (eid, act,
                               framed_read o
                                 (dec_with (bounded_rops o) (tmatch t')
                                    (fun p b => decp t' p (Bounded R) (bounded_rops o) b)))
                          end) es)
                  slots r)
             (map (fun _ => VNone) es) r;
      Ok (VTab slots) r
  end.

(* Deserializer::Read *)
Definition dec (t : ty) {R} (o : rops R) (r : R) : res val R :=
  dec_with o (tmatch t) (fun p r => decp t p R o r) r.

(* ======================= sizes ========================================== *)
Definition usize (n : N) : N := base_size (uprefix (Z.of_N n)).

Fixpoint sum_sizes (f : val -> N) (vs : list val) : N :=
  match vs with [] => 0 | v :: vs' => f v + sum_sizes f vs' end.

(* Encoding<T>::Prefix *)
Fixpoint tprefix (t : ty) (v : val) {struct t} : N :=
  match t with
  | TScalar _ s => match v with VInt z => scalar_prefix s z | _ => 0 end
  | TStr _ => P_STR
  | TSeq _ t' => match raw_kind t' with Some _ => P_BIN | None => P_ARY end
  | TTuple KStruct _ => P_STU
  | TTuple _ _ => P_ARY
  | TWrap _ t' => tprefix t' v
  | TMap _ _ _ => P_MAP
  | TOpt t' => match v with VSome x => tprefix t' x | _ => P_NIL end
  | TRes _ _ t' => match v with VOk x => tprefix t' x | _ => P_ERR end
  | TVar _ => P_VAR
  | THnd _ _ _ => P_HND
  | TTab _ _ => P_TAB
  end.

(* Encoding<T>::Size *)
Fixpoint tsize (t : ty) (v : val) {struct t} : N :=
  match t with
  | TScalar _ s => match v with VInt z => base_size (scalar_prefix s z) | _ => 0 end
  | TStr cw =>
      match v with
      | VSeq vs => let lb := nlen vs * cw in 1 + usize lb + lb
      | _ => 0
      end
  | TSeq c t' =>
      match v with
      | VSeq vs =>
          match raw_kind t' with
          | Some (w, _) => let lb := nlen vs * N.of_nat w in 1 + usize lb + lb
          | None => 1 + usize (nlen vs) + sum_sizes (tsize t') vs
          end
      | _ => 0
      end
  | TTuple _ ts =>
      match v with
      | VSeq vs =>
          1 + usize (nlen ts) +
          (fix go (ts : list ty) (vs : list val) {struct ts} : N :=
             match ts, vs with
             | t' :: ts', v' :: vs' => tsize t' v' + go ts' vs'
             | _, _ => 0
             end) ts vs
      | _ => 0
      end
  | TWrap _ t' => tsize t' v
  | TMap _ kt vt =>
      match v with
      | VMap kvs =>
          1 + usize (nlen kvs) +
          (fix go (kvs : list (val * val)) : N :=
             match kvs with
             | [] => 0
             | (k, x) :: kvs' => tsize kt k + tsize vt x + go kvs'
             end) kvs
      | _ => 0
      end
  | TOpt t' => match v with VSome x => tsize t' x | _ => 1 end
  | TRes _ ek t' =>
      match v with
      | VOk x => tsize t' x
      | VErr e => 1 + base_size (scalar_prefix (SInt ek) e)
      | _ => 0
      end
  | TVar ts =>
      match v with
      | VAlt i x =>
          1 + base_size (sprefix i) +
          (fix pick (ts : list ty) (n : nat) {struct ts} : N :=
             match ts with
             | [] => 0
             | t' :: ts' => match n with O => tsize t' x | S n' => pick ts' n' end
             end) ts (Z.to_nat i)
      | _ => 1 + 1 + 1
      end
  | THnd _ tk tag => 1 + base_size (scalar_prefix (SInt tk) tag) + 9
  | TTab hash es =>
      match v with
      | VTab xs =>
          1 + usize hash +
          usize (nlen (filter (fun x => match x with VSome _ => true | _ => false end) xs)) +
          (fix go (es : list (N * bool * ty)) (xs : list val) {struct es} : N :=
             match es, xs with
             | (eid, act, t') :: es', x :: xs' =>
                 (match x with
                  | VSome y => if act then let sz := tsize t' y in usize eid + usize sz + sz else 0
                  | _ => 0
                  end) + go es' xs'
             | _, _ => 0
             end) es xs
      | _ => 0
      end
  end.

Definition seq_len_ok (c : seqc) (n : N) : bool :=
  match c with
  | CVec => true
  | CArr _ m => n =? m
  | CLBuf _ cap _ unb => unb || (n <=? cap)
  end.

(* a std::map / unordered_map holds each key once; the check mirrors the
   test emplace performs when the map is read back *)
Fixpoint keys_fresh (acc kvs : list (val * val)) : bool :=
  match kvs with
  | [] => true
  | (k, x) :: r =>
      negb (existsb (fun kv => val_eqb (fst kv) k) acc) && keys_fresh (acc ++ [(k, x)]) r
  end.

(* has_type: the values a C++ object of the described type can hold (a table
   entry's encoding is an in-memory object, hence shorter than 2^64 bytes) *)
Fixpoint has_type (t : ty) (v : val) {struct t} : bool :=
  match t, v with
  | TScalar _ s, VInt z => scalar_ok s z
  | TStr cw, VSeq vs =>
      (nlen vs * cw <? two64) &&
      forallb (fun x => match x with
                        | VInt z => (0 <=? z)%Z && (z <? 2 ^ (8 * Z.of_N cw))%Z
                        | _ => false end) vs
  | TSeq c t', VSeq vs =>
      seq_len_ok c (nlen vs) && (nlen vs * 8 <? two64) && forallb (has_type t') vs
  | TTuple _ ts, VSeq vs =>
      (fix go (ts : list ty) (vs : list val) : bool :=
         match ts, vs with
         | [], [] => true
         | t' :: ts', v' :: vs' => has_type t' v' && go ts' vs'
         | _, _ => false
         end) ts vs
  | TWrap _ t', _ => has_type t' v
  | TMap _ kt vt, VMap kvs =>
      (nlen kvs <? two64) && keys_fresh [] kvs &&
      forallb (fun kv => has_type kt (fst kv) && has_type vt (snd kv)) kvs
  | TOpt _, VNone => true
  | TOpt t', VSome x => has_type t' x
  | TRes _ ek _, VErr e => in_range ek e
  | TRes _ _ t', VOk x => has_type t' x
  | TVar ts, VEmpty => true
  | TVar ts, VAlt i x =>
      (0 <=? i)%Z &&
      (fix pick (ts : list ty) (n : nat) : bool :=
         match ts with
         | [] => false
         | t' :: ts' => match n with O => has_type t' x | S n' => pick ts' n' end
         end) ts (Z.to_nat i)
  | THnd _ _ _, VHnd h => in_range I64 h
  | TTab _ es, VTab xs =>
      (fix go (es : list (N * bool * ty)) (xs : list val) : bool :=
         match es, xs with
         | [], [] => true
         | (_, act, t') :: es', x :: xs' =>
             (match x with
              | VNone => true
              | VSome y => act && has_type t' y && (tsize t' y <? two64)
              | _ => false
              end) && go es' xs'
         | _, _ => false
         end) es xs
  | _, _ => false
  end.

(* ======================= writing ======================================== *)
Section Write.
  Context {W : Type} (o : wops W).

  (* Encoding<arithmetic>::WritePayload *)
  Definition write_scalar_payload (s : scalar) (z : Z) (w : W) : res unit W :=
    match s with
    | SBool => Ok tt w
    | _ =>
        if (class_len (scalar_prefix s z) =? 0)%nat then Ok tt w
        else w_writen o (scalar_payload s z) w
    end.

  Definition write_scalar (s : scalar) (z : Z) (w : W) : res unit W :=
    do _, w <- w_write1 o (scalar_prefix s z) w;
    write_scalar_payload s z w.

  Definition write_u64 (n : N) (w : W) : res unit W := write_scalar sU64 (Z.of_N n) w.
End Write.

Definition raw_bytes (w : nat) (vs : list val) : bytes :=
  flat_map (fun v => match v with VInt z => raw_enc w z | _ => [] end) vs.

(* Encoding<T>::WritePayload; [encp t v] is called after the prefix byte
   [tprefix t v] has been written. *)
Fixpoint encp (t : ty) (v : val) (W : Type) (o : wops W) (w : W) {struct t} : res unit W :=
  match t with
  | TScalar _ s =>
      match v with VInt z => write_scalar_payload o s z w | _ => Err EModel w end
  | TStr cw =>
      match v with
      | VSeq vs =>
          do _, w <- write_u64 o (nlen vs * cw) w;
          w_writen o (raw_bytes (N.to_nat cw) vs) w
      | _ => Err EModel w
      end
  | TSeq c t' =>
      match v with
      | VSeq vs =>
          let n := nlen vs in
          let too_long := match c with
                          | CLBuf _ cap _ unb => negb unb && (cap <? n)
                          | _ => false
                          end in
          if too_long then Err EContLen w else
          match raw_kind t' with
          | Some (wd, _) =>
              do _, w <- write_u64 o (n * N.of_nat wd) w;
              w_writen o (raw_bytes wd vs) w
          | None =>
              do _, w <- write_u64 o n w;
              (fix go (vs : list val) (w : W) {struct vs} : res unit W :=
                 match vs with
                 | [] => Ok tt w
                 | x :: vs' =>
                     do _, w <- w_write1 o (tprefix t' x) w;
                     do _, w <- encp t' x W o w;
                     go vs' w
                 end) vs w
          end
      | _ => Err EModel w
      end
  | TTuple _ ts =>
      match v with
      | VSeq vs =>
          do _, w <- write_u64 o (nlen ts) w;
          (fix go (ts : list ty) (vs : list val) (w : W) {struct ts} : res unit W :=
             match ts, vs with
             | [], [] => Ok tt w
             | t' :: ts', x :: vs' =>
                 do _, w <- w_write1 o (tprefix t' x) w;
                 do _, w <- encp t' x W o w;
                 go ts' vs' w
             | _, _ => Err EModel w
             end) ts vs w
      | _ => Err EModel w
      end
  | TWrap _ t' => encp t' v W o w
  | TMap _ kt vt =>
      match v with
      | VMap kvs =>
          do _, w <- write_u64 o (nlen kvs) w;
          (fix go (kvs : list (val * val)) (w : W) {struct kvs} : res unit W :=
             match kvs with
             | [] => Ok tt w
             | (k, x) :: kvs' =>
                 do _, w <- w_write1 o (tprefix kt k) w;
                 do _, w <- encp kt k W o w;
                 do _, w <- w_write1 o (tprefix vt x) w;
                 do _, w <- encp vt x W o w;
                 go kvs' w
             end) kvs w
      | _ => Err EModel w
      end
  | TOpt t' =>
      match v with
      | VSome x => encp t' x W o w
      | VNone => Ok tt w
      | _ => Err EModel w
      end
  | TRes _ ek t' =>
      match v with
      | VOk x => encp t' x W o w
      | VErr e => write_scalar o (SInt ek) e w
      | _ => Err EModel w
      end
  | TVar ts =>
      match v with
      | VAlt i x =>
          do _, w <- write_scalar o sI32 i w;
          (fix pick (ts : list ty) (n : nat) {struct ts} : res unit W :=
             match ts with
             | [] => Err EModel w
             | t' :: ts' =>
                 match n with
                 | O => do _, w <- w_write1 o (tprefix t' x) w; encp t' x W o w
                 | S n' => pick ts' n'
                 end
             end) ts (Z.to_nat i)
      | VEmpty =>
          do _, w <- write_scalar o sI32 (-1)%Z w;
          w_write1 o P_NIL w
      | _ => Err EModel w
      end
  | THnd _ tk tag =>
      match v with
      | VHnd h =>
          do _, w <- write_scalar o (SInt tk) tag w;
          do ref, w <- w_pushhandle o h w;
          write_scalar o sI64 ref w
      | _ => Err EModel w
      end
  | TTab hash es =>
      match v with
      | VTab xs =>
          do _, w <- write_u64 o hash w;
          do _, w <- write_u64 o
                (nlen (filter (fun x => match x with VSome _ => true | _ => false end) xs)) w;
          (fix go (es : list (N * bool * ty)) (xs : list val) (w : W) {struct es} : res unit W :=
             match es, xs with
             | [], [] => Ok tt w
             | (eid, act, t') :: es', x :: xs' =>
                 match x with
                 | VSome y =>
                     if act then
                       do _, w <- write_u64 o eid w;
                       let sz := tsize t' y in
                       do _, w <- write_u64 o sz w;
                       match (do _, b <- w_write1 (bounded_wops o) (tprefix t' y) (b_make w sz);
                              encp t' y (Bounded W) (bounded_wops o) b) with
                       | Ok _ b =>
                           match bounded_write_padding o 0 b with
                           | Ok _ b' => go es' xs' (b_inner b')
                           | Err e b' => Err e (b_inner b')
                           end
                       | Err e b => Err e (b_inner b)
                       end
                     else Err EModel w
                 | VNone => go es' xs' w
                 | _ => Err EModel w
                 end
             | _, _ => Err EModel w
             end) es xs w
      | _ => Err EModel w
      end
  end.

(* EncodingIO<T>::Write *)
Definition enc (t : ty) (v : val) {W} (o : wops W) (w : W) : res unit W :=
  do _, w <- w_write1 o (tprefix t v) w; encp t v W o w.

(* Serializer::Write: Prepare(Size(value)) then the encoding *)
Definition serialize (t : ty) (v : val) {W} (o : wops W) (w : W) : res unit W :=
  do _, w <- w_prepare o (tsize t v) w; enc t v o w.

(* ---- instances over the specification-level source / sink --------------- *)
Definition ldec (t : ty) (bs : bytes) : res val LR := dec t lr_ops bs.

Definition lenc (t : ty) (v : val) : res unit LW := enc t v lw_ops [].
