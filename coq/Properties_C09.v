(* Properties_C09.v — C09: IsFungible<A,B> implies wire compatibility.  Proved here
   on the transcription of is_fungible.h: reflexivity, the documented pairs, the main
   theorem C09_wire (fungible schemas give the same bytes and the same size, and what
   A wrote reads back as B, for every value both can hold — outside the K3 corner),
   symmetry (C09_symmetric), and K3 itself.  The transcription is tied to the trait by the full
   pairwise matrix (DESIGN.md).  Statements only; proofs in FungibleProps.v and
   FungibleWire.v. *)
From Nop Require Import Spec Sim EncSpec ScalarRT DecSpec Fungible FungibleProps FungibleWire.
Local Open Scope N_scope.

(* [k3free t]: no NOP_VALUE wrapper of an integral type sits directly under a sequence
   constructor of t (that is the K3 corner, refuted below) *)
Theorem C09_wire : forall a b v,
  fungible a b = true -> k3free a = true -> k3free b = true ->
  has_type a v = true -> has_type b v = true ->
  spec_enc a v = spec_enc b v /\ tsize a v = tsize b v /\
  lenc a v = Ok tt (spec_enc b v) /\
  (wf b = true -> forall rest, ldec b (spec_enc a v ++ rest) = Ok v rest).
Proof.
  intros a b v Hf Ka Kb Ha Hb. destruct (fungible_wire a b v Hf Ka Kb Ha Hb) as [E1 E2].
  split; [exact E1|]. split; [exact E2|]. split.
  - rewrite <- E1. apply lenc_spec, Ha.
  - intros Hw rest. rewrite E1. apply dec_from_payload; [exact Hb|apply decp_payload; assumption].
Qed.
Print Assumptions C09_wire.

Example C09_wire_nonvacuous :
  let a := TSeq CVec (TTuple KPair [TScalar 0 (SInt I32); TStr 1]) in
  let b := TSeq (CArr false 2) (TWrap 5 (TTuple KTuple [TScalar 0 (SInt I32); TWrap 6 (TStr 1)])) in
  let v := VSeq [VSeq [VInt 300; VSeq [VInt 104]]; VSeq [VInt (-1); VSeq []]] in
  fungible a b = true /\ k3free a = true /\ k3free b = true /\ has_type a v = true /\ has_type b v = true /\ wf b = true.
Proof. vm_compute. repeat split; reflexivity. Qed.

(* IsFungible<A,B> equals IsFungible<B,A>, for all schemas *)
Theorem C09_symmetric : forall a b, fungible a b = fungible b a.
Proof. exact fungible_sym. Qed.
Print Assumptions C09_symmetric.

Theorem C09_reflexive : forall t, fungible t t = true.
Proof. exact fungible_refl. Qed.
Print Assumptions C09_reflexive.

(* wrappers on the right are looked through, as on the left *)
Theorem C09_wrapper_transparent : forall a b, fungible a b = fungible a (strip b).
Proof. exact fungible_strip_r. Qed.
Print Assumptions C09_wrapper_transparent.

(* the pairs the documentation declares fungible evaluate to true *)
Theorem C09_doc_wrapper : forall id t, id <> 0 ->
  fungible (TWrap id t) t = true /\ fungible t (TWrap id t) = true.
Proof. exact fungible_wrapper. Qed.
Print Assumptions C09_doc_wrapper.

Theorem C09_doc_vector_array : forall t ca n,
  fungible (TSeq CVec t) (TSeq (CArr ca n) t) = true /\ fungible (TSeq (CArr ca n) t) (TSeq CVec t) = true.
Proof. exact fungible_vector_array. Qed.
Print Assumptions C09_doc_vector_array.

Theorem C09_doc_array_carray : forall t n, fungible (TSeq (CArr false n) t) (TSeq (CArr true n) t) = true.
Proof. exact fungible_array_carray. Qed.
Print Assumptions C09_doc_array_carray.

Theorem C09_doc_pair_tuple : forall a b,
  fungible (TTuple KPair [a; b]) (TTuple KTuple [a; b]) = true /\
  fungible (TTuple KTuple [a; b]) (TTuple KPair [a; b]) = true.
Proof. exact fungible_pair_tuple. Qed.
Print Assumptions C09_doc_pair_tuple.

Theorem C09_doc_map_unordered : forall k v u u', fungible (TMap u k v) (TMap u' k v) = true.
Proof. exact fungible_map_unordered. Qed.
Print Assumptions C09_doc_map_unordered.

Theorem C09_doc_lbuf_vector : forall t ca cap sk unb,
  fungible (TSeq (CLBuf ca cap sk unb) t) (TSeq CVec t) = true /\
  fungible (TSeq CVec t) (TSeq (CLBuf ca cap sk unb) t) = true.
Proof. exact fungible_lbuf_vector. Qed.
Print Assumptions C09_doc_lbuf_vector.

Theorem C09_doc_vector_tuple : forall t ts, is_integral t = false ->
  Forall (fun x => fungible t x = true) ts -> fungible (TSeq CVec t) (TTuple KTuple ts) = true.
Proof. exact fungible_vector_tuple. Qed.
Print Assumptions C09_doc_vector_tuple.

(* Finding K3: the trait holds for vector<int32_t> / vector<NOP_VALUE wrapper of
   int32_t>, but one is a BIN container and the other an ARY container. *)
Theorem C09_refuted_K3 :
  let a := TSeq CVec (TScalar 0 (SInt I32)) in
  let b := TSeq CVec (TWrap 1 (TScalar 0 (SInt I32))) in
  let v := VSeq [VInt 7] in
  fungible a b = true /\ has_type a v = true /\ has_type b v = true /\ spec_enc a v <> spec_enc b v.
Proof. exact fungible_K3. Qed.
Print Assumptions C09_refuted_K3.
