(* Properties_C02.v — C02 (partial by nature: undefined behaviour and real
   memory are not expressible in Gallina).  What is proved is the byte-level
   contract of the bounded readers; the code is tied to it by the hostile-input
   stream under ASan+UBSan with exactly-sized heap inputs and a counting
   allocator. *)
From Nop Require Import Spec Sim EncSpec ScalarRT DecSpec Readers Lang Sound Alloc.
Local Open Scope N_scope.

(* Reading over the buffer reader model (BufferReader after its repair,
   PedanticBufferReader) from any buffer, for any schema: the read terminates
   (the model is a total function), and whatever the outcome the index stays
   inside the buffer; it delivers exactly what ListReader delivers on the same
   bytes. *)
Theorem C02_in_bounds : forall t (buf : bytes), nlen buf < two64 ->
  rel_res true bufr_rel (dec t bufr_ops {| br_buf := buf; br_idx := 0 |}) (ldec t buf).
Proof. exact bufr_dec_refines. Qed.
Print Assumptions C02_in_bounds.

(* a BoundedReader never lets the wrapped reader be consumed past the limit *)
Theorem C02_bounded_in_frame : forall t r0 sz, sz < two64 ->
  rel_res true (frame_rel r0 sz) (dec t (bounded_rops lr_ops) (b_make r0 sz))
               (ldec t (firstn (N.to_nat sz) r0)).
Proof. intros t r0 sz Hs. apply dec_frame, Hs. Qed.
Print Assumptions C02_bounded_in_frame.

(* what a successful read consumed is a prefix of the input *)
Theorem C02_consumes_prefix : forall t bs v rest, ldec t bs = Ok v rest -> exists e, bs = e ++ rest.
Proof. exact dec_consumes_prefix. Qed.
Print Assumptions C02_consumes_prefix.

(* Never writes outside the destination object, at the level of the model: for EVERY
   byte string (of octets) and every schema, whatever a successful read delivers has
   the shape of the destination type at every nesting depth — integers within the
   range of their C++ type, std::array / C arrays with exactly their extent, logical
   buffers within their capacity, all members of tuples and structures, a variant index
   that selects an existing alternative, values only in active table entries. *)
Theorem C02_decoded_fits_destination : forall t (bs : bytes) v rest, all_bytes bs = true ->
  dec t lr_ops bs = Ok v rest -> has_shape t v = true /\ all_bytes rest = true.
Proof. exact dec_shape. Qed.
Print Assumptions C02_decoded_fits_destination.

(* ... and the same over any reader that hands out octets, in particular over any nesting
   of BoundedReader (which is how table entries are read) *)
Theorem C02_fits_over_any_reader : forall t R (o : rops R) inv, good_reader o inv ->
  forall r v r', inv r -> dec t o r = Ok v r' -> has_shape t v = true /\ inv r'.
Proof. intros t R o inv G. exact (dec_shape_any_reader t o inv G). Qed.
Print Assumptions C02_fits_over_any_reader.

Theorem C02_bounded_reader_is_good : forall R (o : rops R) inv,
  good_reader o inv -> good_reader (bounded_rops o) (fun b => inv (b_inner b)).
Proof. exact @bounded_good. Qed.
Print Assumptions C02_bounded_reader_is_good.

Theorem C02_array_extent_and_buffer_capacity :
  (forall ca n t' vs, has_shape (TSeq (CArr ca n) t') (VSeq vs) = true -> nlen vs = n) /\
  (forall ca cap sk t' vs, has_shape (TSeq (CLBuf ca cap sk false) t') (VSeq vs) = true -> nlen vs <= cap).
Proof. split; [exact shape_array|exact shape_lbuf]. Qed.
Print Assumptions C02_array_extent_and_buffer_capacity.

(* Never allocates more than a type-dependent constant multiple of the input length, at the
   level of the model: for EVERY input and schema, the number of container elements (of
   sequences, strings, maps, tuples and structures, at every nesting depth, also inside
   table entries) in a successfully decoded value is at most the number of bytes the read
   consumed.  A destination allocates (elements) x (object size of the element type). *)
Theorem C02_elements_bounded_by_input : forall t (bs : bytes) v rest,
  dec t lr_ops bs = Ok v rest -> nlen rest + vweight v + 1 <= nlen bs.
Proof. exact dec_weight. Qed.
Print Assumptions C02_elements_bounded_by_input.

(* ... over any reader whose remaining input can be measured, and BoundedReader preserves that *)
Theorem C02_elements_bounded_any_reader : forall t p R (o : rops R) rem, measured o rem ->
  forall r v r', decp t p R o r = Ok v r' -> rem r' + vweight v <= rem r.
Proof. exact decp_weight. Qed.
Print Assumptions C02_elements_bounded_any_reader.
