(* Properties_C02.v — C02 (partial by nature: undefined behaviour and real
   memory are not expressible in Gallina).  What is proved is the byte-level
   contract of the bounded readers; the code is tied to it by the hostile-input
   stream under ASan+UBSan with exactly-sized heap inputs and a counting
   allocator. *)
From Nop Require Import Spec Sim EncSpec ScalarRT DecSpec Readers Lang.
Local Open Scope N_scope.

(* Reading over the buffer reader model (BufferReader after its repair,
   PedanticBufferReader) from any buffer, for any schema: the read terminates
   (the model is a total function), and whatever the outcome the index stays
   inside the buffer; it delivers exactly what ListReader delivers on the same
   bytes. *)
Theorem C02_in_bounds : forall t (buf : bytes), nlen buf < two64 ->
  rel_res true bufr_rel (dec t bufr_ops {| br_buf := buf; br_idx := 0 |}) (ldec t buf).
Proof. exact bufr_dec_refines. Qed.
Print Assumptions C02_in_bounds.

(* a BoundedReader never lets the wrapped reader be consumed past the limit *)
Theorem C02_bounded_in_frame : forall t r0 sz, sz < two64 ->
  rel_res true (frame_rel r0 sz) (dec t (bounded_rops lr_ops) (b_make r0 sz))
               (ldec t (firstn (N.to_nat sz) r0)).
Proof. intros t r0 sz Hs. apply dec_frame, Hs. Qed.
Print Assumptions C02_bounded_in_frame.

(* what a successful read consumed is a prefix of the input *)
Theorem C02_consumes_prefix : forall t bs v rest, ldec t bs = Ok v rest -> exists e, bs = e ++ rest.
Proof. exact dec_consumes_prefix. Qed.
Print Assumptions C02_consumes_prefix.
