(* Sound.v — what a successful Read delivers fits the destination (C02, C04): for every
   schema, over every reader that hands out octets (the list reader, and any nesting
   of BoundedReader around it), a decoded value has the shape of its type: integers
   within the range of their C++ type, arrays with exactly their extent, logical
   buffers within their capacity, tuples / structures with all their members, a
   variant index that selects an existing alternative, table entries only where the
   definition has an active entry — at every nesting depth.  This is the model-level
   content of "never writes outside the destination object". *)
From Nop Require Import Spec Sim ScalarRT Endian.
From Coq Require Import Lia ZifyBool.
Local Open Scope N_scope.

Definition char_ok (cw : N) (x : val) : bool :=
  match x with VInt z => (0 <=? z)%Z && (z <? 2 ^ (8 * Z.of_N cw))%Z | _ => false end.

(* an element stored raw in a BIN container: the integer its w object bytes denote *)
Definition raw_elem_ok (w : nat) (sg : bool) (x : val) : bool :=
  match x with
  | VInt z => if sg then (- 2 ^ (8 * Z.of_nat w - 1) <=? z)%Z && (z <? 2 ^ (8 * Z.of_nat w - 1))%Z
              else (0 <=? z)%Z && (z <? 2 ^ (8 * Z.of_nat w))%Z
  | _ => false
  end.

Fixpoint has_shape (t : ty) (v : val) {struct t} : bool :=
  match t, v with
  | TScalar _ s, VInt z => scalar_ok s z
  | TStr cw, VSeq vs => forallb (char_ok cw) vs
  | TSeq c t', VSeq vs =>
      seq_len_ok c (nlen vs) &&
      (match raw_kind t' with
       | Some (w, sg) => forallb (raw_elem_ok w sg) vs     (* BIN elements are raw object bytes *)
       | None => forallb (has_shape t') vs
       end)
  | TTuple _ ts, VSeq vs =>
      (fix go (ts : list ty) (vs : list val) : bool :=
         match ts, vs with
         | [], [] => true
         | t' :: ts', v' :: vs' => has_shape t' v' && go ts' vs'
         | _, _ => false
         end) ts vs
  | TWrap _ t', _ => has_shape t' v
  | TMap _ kt vt, VMap kvs => forallb (fun kv => has_shape kt (fst kv) && has_shape vt (snd kv)) kvs
  | TOpt _, VNone => true
  | TOpt t', VSome x => has_shape t' x
  | TRes _ ek _, VErr e => in_range ek e
  | TRes _ _ t', VOk x => has_shape t' x
  | TVar ts, VEmpty => true
  | TVar ts, VAlt i x =>
      (0 <=? i)%Z &&
      (fix pick (ts : list ty) (n : nat) : bool :=
         match ts with
         | [] => false
         | t' :: ts' => match n with O => has_shape t' x | S n' => pick ts' n' end
         end) ts (Z.to_nat i)
  | THnd _ _ _, VHnd _ => true
  | TTab _ es, VTab xs =>
      (fix go (es : list (N * bool * ty)) (xs : list val) : bool :=
         match es, xs with
         | [], [] => true
         | (_, act, t') :: es', x :: xs' =>
             (match x with
              | VNone => true
              | VSome y => act && has_shape t' y
              | _ => false
              end) && go es' xs'
         | _, _ => false
         end) es xs
  | _, _ => false
  end.

(* ---- readers that hand out octets ------------------------------------------------------ *)
Record good_reader {R} (o : rops R) (inv : R -> Prop) : Prop := {
  gr_ensure : forall n r u r', inv r -> r_ensure o n r = Ok u r' -> inv r';
  gr_read1 : forall r b r', inv r -> r_read1 o r = Ok b r' -> b < 256 /\ inv r';
  gr_readn : forall n r bs r', inv r -> r_readn o n r = Ok bs r' -> nlen bs = n /\ all_bytes bs = true /\ inv r';
  gr_skip : forall n r u r', inv r -> r_skip o n r = Ok u r' -> inv r';
  gr_gethandle : forall ref r h r', inv r -> r_gethandle o ref r = Ok h r' -> inv r'
}.

Lemma all_bytes_app a b : all_bytes (a ++ b) = all_bytes a && all_bytes b.
Proof. unfold all_bytes. apply forallb_app. Qed.

Lemma take_n_spec n bs a b : take_n n bs = Some (a, b) -> bs = a ++ b /\ nlen a = n.
Proof.
  unfold take_n. destruct (n <=? N.of_nat (length bs)) eqn:E; [|discriminate]. intros H. injection H as <- <-.
  split; [symmetry; apply firstn_skipn|]. unfold nlen. rewrite firstn_length. apply N.leb_le in E. lia.
Qed.

Lemma lr_good : good_reader lr_ops (fun r => all_bytes r = true).
Proof.
  split; cbn [lr_ops r_ensure r_read1 r_readn r_skip r_gethandle].
  - intros n r u r' Hi H. destruct (n <=? _); [injection H as _ <-; exact Hi|discriminate].
  - intros r b r' Hi H. destruct r as [|x r]; [discriminate|]. injection H as <- <-.
    cbn in Hi. apply andb_prop in Hi. destruct Hi as [A B]. unfold is_byte in A. split; [lia|exact B].
  - intros n r bs r' Hi H. destruct (take_n n r) as [[a b]|] eqn:E; [|discriminate]. injection H as <- <-.
    destruct (take_n_spec _ _ _ _ E) as [-> L]. rewrite all_bytes_app in Hi. apply andb_prop in Hi. tauto.
  - intros n r u r' Hi H. destruct (take_n n r) as [[a b]|] eqn:E; [|discriminate]. injection H as _ <-.
    destruct (take_n_spec _ _ _ _ E) as [-> L]. rewrite all_bytes_app in Hi. apply andb_prop in Hi. tauto.
  - intros ref r h r' Hi H. injection H as _ <-. exact Hi.
Qed.

Lemma b_lift_ok {X A} (b : Bounded X) adv (m : res A X) a b' :
  b_lift b adv m = Ok a b' -> exists x, m = Ok a x /\ b_inner b' = x.
Proof. destruct m as [y x|e x]; cbn; [|discriminate]. intros H. injection H as <- <-. eauto. Qed.
Lemma b_keep_ok {X A} (b : Bounded X) (m : res A X) a b' :
  b_keep b m = Ok a b' -> exists x, m = Ok a x /\ b_inner b' = x.
Proof. destruct m as [y x|e x]; cbn; [|discriminate]. intros H. injection H as <- <-. eauto. Qed.

Lemma bounded_good {R} (o : rops R) inv : good_reader o inv -> good_reader (bounded_rops o) (fun b => inv (b_inner b)).
Proof.
  intros G. split; cbn [bounded_rops r_ensure r_read1 r_readn r_skip r_gethandle].
  - intros n b u b' Hi H. destruct (_ <? n); [discriminate|].
    destruct (b_keep_ok _ _ _ _ H) as (x & E & ->). apply (gr_ensure _ _ G _ _ _ _ Hi E).
  - intros b x b' Hi H. destruct (_ <? _); [|discriminate].
    destruct (b_lift_ok _ _ _ _ _ H) as (y & E & ->). apply (gr_read1 _ _ G _ _ _ Hi E).
  - intros n b bs b' Hi H. destruct (_ <? n); [discriminate|].
    destruct (b_lift_ok _ _ _ _ _ H) as (y & E & ->). apply (gr_readn _ _ G _ _ _ _ Hi E).
  - intros n b u b' Hi H. destruct (_ <? n); [discriminate|].
    destruct (b_lift_ok _ _ _ _ _ H) as (y & E & ->). apply (gr_skip _ _ G _ _ _ _ Hi E).
  - intros ref b h b' Hi H.
    destruct (b_keep_ok _ _ _ _ H) as (x & E & ->). apply (gr_gethandle _ _ G _ _ _ _ Hi E).
Qed.

(* ---- scalars ------------------------------------------------------------------------------ *)
Definition prefixes : list N := map N.of_nat (seq 0 256).
Lemma prefixes_complete p : p < 256 -> In p prefixes.
Proof. intros H. unfold prefixes. apply in_map_iff. exists (N.to_nat p). split; [apply N2Nat.id|]. apply in_seq. lia. Qed.

Definition all_scalars : list scalar :=
  [SBool; SInt U8; SInt U16; SInt U32; SInt U64; SInt I8; SInt I16; SInt I32; SInt I64; SF32; SF64].
Lemma all_scalars_complete s : In s all_scalars.
Proof. destruct s as [|[]| |]; cbn; tauto. Qed.

(* classes without payload: the value is in the prefix byte *)
Definition nopayload_ok (s : scalar) (p : N) : bool :=
  implb (scalar_match s p && (class_len p =? 0)%nat) (scalar_ok s (scalar_value s p [])).
(* classes with payload: no wider than the destination and of its signedness *)
Definition payload_class_ok (s : scalar) (p : N) : bool :=
  implb (scalar_match s p && negb (class_len p =? 0)%nat)
        (match s with
         | SBool => false
         | SInt k => (class_len p <=? width k)%nat
         | SF32 => (class_len p =? 4)%nat
         | SF64 => (class_len p =? 8)%nat
         end).

Lemma class_sweep : forallb (fun s => forallb (fun p => nopayload_ok s p && payload_class_ok s p) prefixes) all_scalars = true.
Proof. vm_compute. reflexivity. Qed.

Lemma class_facts s p : p < 256 -> nopayload_ok s p = true /\ payload_class_ok s p = true.
Proof.
  intros Hp. pose proof class_sweep as H. rewrite forallb_forall in H. specialize (H s (all_scalars_complete s)).
  rewrite forallb_forall in H. specialize (H p (prefixes_complete p Hp)). apply andb_prop in H. exact H.
Qed.

Lemma class_len_values p : In (class_len p) [0; 1; 2; 4; 8]%nat.
Proof. unfold class_len. repeat match goal with |- context [if ?b then _ else _] => destruct b end; cbn; tauto. Qed.

Lemma le_val_bound_len (bs : bytes) (l : nat) : all_bytes bs = true -> length bs = l -> le_val bs < 256 ^ N.of_nat l.
Proof. intros A <-. apply le_val_bound, A. Qed.

Lemma sext_range (w : nat) (x : N) : (0 < w)%nat ->
  (- 2 ^ (8 * Z.of_nat w - 1) <= sext w x < 2 ^ (8 * Z.of_nat w - 1))%Z.
Proof.
  intros Hw. unfold sext. cbv zeta.
  set (m := (2 ^ (8 * Z.of_nat w))%Z).
  assert (Hm : (m = 2 * 2 ^ (8 * Z.of_nat w - 1))%Z).
  { unfold m. rewrite <- Z.pow_succ_r by lia. f_equal. lia. }
  assert (Hp : (0 < 2 ^ (8 * Z.of_nat w - 1))%Z) by (apply Z.pow_pos_nonneg; lia).
  assert (Hz : (0 <= Z.of_N x mod m < m)%Z) by (apply Z.mod_pos_bound; lia).
  assert (Hd : (m / 2 = 2 ^ (8 * Z.of_nat w - 1))%Z) by (rewrite Hm, Z.mul_comm, Z.div_mul; lia).
  rewrite Hd. destruct (Z.ltb_spec (Z.of_N x mod m) (2 ^ (8 * Z.of_nat w - 1))%Z); lia.
Qed.

Lemma pow2_mono a b : (0 <= a <= b)%Z -> (2 ^ a <= 2 ^ b)%Z.
Proof. intros H. apply Z.pow_le_mono_r; lia. Qed.

Lemma scalar_value_ok s p bs : p < 256 -> scalar_match s p = true ->
  length bs = class_len p -> all_bytes bs = true -> scalar_ok s (scalar_value s p bs) = true.
Proof.
  intros Hp Hm Hl Hb. destruct (class_facts s p Hp) as [F0 F1].
  unfold nopayload_ok, payload_class_ok in F0, F1. rewrite Hm in F0, F1. cbn [andb] in F0, F1.
  destruct (class_len p =? 0)%nat eqn:E0.
  - apply Nat.eqb_eq in E0. rewrite E0 in Hl. destruct bs; [|discriminate]. exact F0.
  - cbn [negb implb] in F1. apply Nat.eqb_neq in E0.
    pose proof (le_val_bound_len bs (class_len p) Hb Hl) as Hv.
    destruct s as [|k| |]; [discriminate| | |].
    + (* integers *)
      apply Nat.leb_le in F1. unfold scalar_value, scalar_ok. rewrite (proj2 (Nat.eqb_neq _ _) E0).
      unfold in_range, bits. destruct (signed k) eqn:Sg.
      * pose proof (sext_range (class_len p) (le_val bs) ltac:(lia)) as R.
        assert (M : (2 ^ (8 * Z.of_nat (class_len p) - 1) <= 2 ^ (8 * Z.of_nat (width k) - 1))%Z) by (apply pow2_mono; lia).
        apply andb_true_intro. split; [apply Z.leb_le|apply Z.ltb_lt]; lia.
      * assert (M : (2 ^ (8 * Z.of_nat (class_len p)) <= 2 ^ (8 * Z.of_nat (width k)))%Z) by (apply pow2_mono; lia).
        assert (Hv' : (Z.of_N (le_val bs) < 2 ^ (8 * Z.of_nat (class_len p)))%Z).
        { rewrite pow2_8. apply N2Z.inj_lt. exact Hv. }
        apply andb_true_intro. split; [apply Z.leb_le|apply Z.ltb_lt]; lia.
    + apply Nat.eqb_eq in F1. rewrite F1 in Hv. unfold scalar_value, scalar_ok.
      apply andb_true_intro. split; [apply Z.leb_le; lia|apply Z.ltb_lt].
      change (2 ^ 32)%Z with (Z.of_N (256 ^ N.of_nat 4)). apply N2Z.inj_lt. exact Hv.
    + apply Nat.eqb_eq in F1. rewrite F1 in Hv. unfold scalar_value, scalar_ok.
      apply andb_true_intro. split; [apply Z.leb_le; lia|apply Z.ltb_lt].
      change (2 ^ 64)%Z with (Z.of_N (256 ^ N.of_nat 8)). apply N2Z.inj_lt. exact Hv.
Qed.


(* ---- inversion of the result monad --------------------------------------------------------- *)
Lemma bind_ok {A B S} (m : res A S) (k : A -> S -> res B S) b s' :
  bind m k = Ok b s' -> exists a s1, m = Ok a s1 /\ k a s1 = Ok b s'.
Proof. destruct m as [a s1|e s1]; cbn [bind]; [eauto|discriminate]. Qed.
Lemma rmap_ok {A B S} (f : A -> B) (m : res A S) b s' : rmap f m = Ok b s' -> exists a, m = Ok a s' /\ b = f a.
Proof. destruct m as [a s1|e s1]; cbn; [|discriminate]. intros H. injection H as <- <-. eauto. Qed.

(* ---- raw (BIN / STR) payloads ------------------------------------------------------------- *)
Lemma all_bytes_firstn n bs : all_bytes bs = true -> all_bytes (firstn n bs) = true.
Proof.
  intros H. rewrite <- (firstn_skipn n bs) in H. rewrite all_bytes_app in H. apply andb_prop in H. tauto.
Qed.
Lemma all_bytes_skipn n bs : all_bytes bs = true -> all_bytes (skipn n bs) = true.
Proof.
  intros H. rewrite <- (firstn_skipn n bs) in H. rewrite all_bytes_app in H. apply andb_prop in H. tauto.
Qed.

Lemma raw_dec_ok w sg c : (sg = true -> (0 < w)%nat) -> all_bytes c = true -> (length c <= w)%nat ->
  raw_elem_ok w sg (VInt (raw_dec w sg c)) = true.
Proof.
  intros Hw Hb Hl. unfold raw_elem_ok, raw_dec. destruct sg.
  - pose proof (sext_range w (le_val c) (Hw eq_refl)) as R. apply andb_true_intro. split; [apply Z.leb_le|apply Z.ltb_lt]; lia.
  - pose proof (le_val_bound c Hb) as Hv.
    assert (M : 256 ^ N.of_nat (length c) <= 256 ^ N.of_nat w) by (apply N.pow_le_mono_r; lia).
    apply andb_true_intro. split; [apply Z.leb_le; lia|apply Z.ltb_lt].
    rewrite pow2_8. apply N2Z.inj_lt. lia.
Qed.

Lemma unraw_ok w sg bs : (sg = true -> (0 < w)%nat) -> all_bytes bs = true -> forall n,
  forallb (raw_elem_ok w sg) (unraw w sg n bs) = true /\ length (unraw w sg n bs) = N.to_nat n.
Proof.
  intros Hw Hb n. unfold unraw. rewrite map_length.
  generalize (N.to_nat n) as k. intros k. revert bs Hb. induction k as [|k IH]; intros bs Hb; cbn [chunks map forallb length]; [auto|].
  destruct (IH (skipn w bs) (all_bytes_skipn w bs Hb)) as [A B]. rewrite A, B. split; [|reflexivity].
  rewrite andb_true_r. apply raw_dec_ok; [exact Hw|apply all_bytes_firstn, Hb|apply firstn_le_length].
Qed.

Lemma raw_kind_width t w sg : raw_kind t = Some (w, sg) -> (0 < w)%nat.
Proof.
  destruct t as [c s| | | | | | | | | |]; cbn; try discriminate. destruct s as [|k| |]; try discriminate;
    destruct (c <? 2); try discriminate; intros H; injection H as <- _; [lia|destruct k; cbn; lia].
Qed.

Lemma char_ok_raw cw x : raw_elem_ok (N.to_nat cw) false x = true -> char_ok cw x = true.
Proof. unfold raw_elem_ok, char_ok. destruct x; auto. rewrite N_nat_Z. auto. Qed.

(* ---- reading primitives over a good reader ---------------------------------------------------- *)
Section Good.
  Context {R : Type} (o : rops R) (inv : R -> Prop).
  Hypothesis G : good_reader o inv.

  Lemma read_scalar_payload_sound s p r z r' : p < 256 -> scalar_match s p = true -> inv r ->
    read_scalar_payload o s p r = Ok z r' -> scalar_ok s z = true /\ inv r'.
  Proof.
    intros Hp Hm Hi H. unfold read_scalar_payload in H.
    assert (V : forall bs, length bs = class_len p -> all_bytes bs = true -> scalar_ok s (scalar_value s p bs) = true)
      by (intros bs L B; apply scalar_value_ok; assumption).
    destruct s as [|k| |].
    - injection H as <- <-. split; [|exact Hi]. refine (V [] _ eq_refl).
      cbn in Hm. apply orb_prop in Hm. destruct Hm as [E|E]; apply N.eqb_eq in E; subst; reflexivity.
    - destruct (class_len p =? 0)%nat eqn:E0.
      + injection H as <- <-. split; [|exact Hi]. refine (V [] _ eq_refl). apply Nat.eqb_eq in E0. rewrite E0. reflexivity.
      + apply bind_ok in H. destruct H as (bs & r1 & E1 & E2). injection E2 as <- <-.
        destruct (gr_readn _ _ G _ _ _ _ Hi E1) as (L & B & I). split; [|exact I]. apply V; [|exact B].
        unfold nlen in L. lia.
    - destruct (class_len p =? 0)%nat eqn:E0.
      + injection H as <- <-. split; [|exact Hi]. refine (V [] _ eq_refl). apply Nat.eqb_eq in E0. rewrite E0. reflexivity.
      + apply bind_ok in H. destruct H as (bs & r1 & E1 & E2). injection E2 as <- <-.
        destruct (gr_readn _ _ G _ _ _ _ Hi E1) as (L & B & I). split; [|exact I]. apply V; [|exact B].
        unfold nlen in L. lia.
    - destruct (class_len p =? 0)%nat eqn:E0.
      + injection H as <- <-. split; [|exact Hi]. refine (V [] _ eq_refl). apply Nat.eqb_eq in E0. rewrite E0. reflexivity.
      + apply bind_ok in H. destruct H as (bs & r1 & E1 & E2). injection E2 as <- <-.
        destruct (gr_readn _ _ G _ _ _ _ Hi E1) as (L & B & I). split; [|exact I]. apply V; [|exact B].
        unfold nlen in L. lia.
  Qed.

  Lemma read_scalar_sound s r z r' : inv r -> read_scalar o s r = Ok z r' -> scalar_ok s z = true /\ inv r'.
  Proof.
    intros Hi H. unfold read_scalar in H. apply bind_ok in H. destruct H as (p & r1 & E1 & E2).
    destruct (gr_read1 _ _ G _ _ _ Hi E1) as [Hp I1].
    destruct (scalar_match s p) eqn:Hm; [|discriminate]. exact (read_scalar_payload_sound s p r1 z r' Hp Hm I1 E2).
  Qed.

  Lemma read_u64_sound r n r' : inv r -> read_u64 o r = Ok n r' -> inv r'.
  Proof.
    intros Hi H. unfold read_u64 in H. apply rmap_ok in H. destruct H as (z & E & _).
    exact (proj2 (read_scalar_sound _ _ _ _ Hi E)).
  Qed.

  Lemma dec_with_sound (m : N -> bool) (dp : N -> R -> res val R) (P : val -> Prop) r v r' :
    (forall p r1 v r2, p < 256 -> m p = true -> inv r1 -> dp p r1 = Ok v r2 -> P v /\ inv r2) ->
    inv r -> dec_with o m dp r = Ok v r' -> P v /\ inv r'.
  Proof.
    intros Hd Hi H. unfold dec_with in H. apply bind_ok in H. destruct H as (p & r1 & E1 & E2).
    destruct (gr_read1 _ _ G _ _ _ Hi E1) as [Hp I1]. destruct (m p) eqn:Hm; [|discriminate].
    exact (Hd p r1 v r' Hp Hm I1 E2).
  Qed.

  (* a loop that succeeds ran its body exactly n times, each time from a state the invariant held in *)
  Lemma loop_res_sound {X} (Q : nat -> X -> Prop) n (f : X -> R -> res X R) x r x' r' :
    (forall i a s a' s', Q i a -> inv s -> f a s = Ok a' s' -> Q (S i) a' /\ inv s') ->
    Q O x -> inv r -> loop_res n f x r = Ok x' r' -> Q (N.to_nat n) x' /\ inv r'.
  Proof.
    intros Hf. rewrite loop_res_nat. generalize (N.to_nat n) as k. intros k.
    assert (Gen : forall k i x r, Q i x -> inv r -> loop_nat k f x r = Ok x' r' -> Q (i + k)%nat x' /\ inv r').
    { clear k. induction k as [|k IH]; intros i y s Hq Hi H; cbn [loop_nat] in H.
      - injection H as <- <-. rewrite Nat.add_0_r. auto.
      - destruct (f y s) as [y1 s1|e s1] eqn:E; [|discriminate].
        destruct (Hf i y s y1 s1 Hq Hi E) as [Hq1 Hi1]. replace (i + S k)%nat with (S i + k)%nat by lia.
        exact (IH (S i) y1 s1 Hq1 Hi1 H). }
    intros Hq Hi H. exact (Gen k O x r Hq Hi H).
  Qed.

  Lemma skip_entry_sound r u r' : inv r -> skip_entry o r = Ok u r' -> inv r'.
  Proof.
    intros Hi H. unfold skip_entry in H. apply bind_ok in H. destruct H as (sz & r1 & E1 & E2).
    apply (gr_skip _ _ G _ _ _ _ (read_u64_sound _ _ _ Hi E1) E2).
  Qed.
End Good.

(* ---- the main theorem ---------------------------------------------------------------------------- *)
Definition shape_sound (t : ty) : Prop := forall p R (o : rops R) inv, good_reader o inv ->
  forall r v r', p < 256 -> tmatch t p = true -> inv r -> decp t p R o r = Ok v r' -> has_shape t v = true /\ inv r'.

Lemma elem_sound t : shape_sound t -> forall R (o : rops R) inv, good_reader o inv ->
  forall r v r', inv r -> dec_with o (tmatch t) (fun p r => decp t p R o r) r = Ok v r' -> has_shape t v = true /\ inv r'.
Proof.
  intros S R o inv G r v r' Hi H.
  apply (dec_with_sound o inv G (tmatch t) (fun p r => decp t p R o r) (fun v => has_shape t v = true) r v r'); [|exact Hi|exact H].
  intros p r1 v1 r2 Hp Hm I1 E. exact (S p R o inv G r1 v1 r2 Hp Hm I1 E).
Qed.

Lemma forallb_rev {A} (f : A -> bool) l : forallb f (rev l) = forallb f l.
Proof.
  destruct (forallb f l) eqn:E.
  - rewrite forallb_forall in *. intros x Hx. apply E, in_rev, Hx.
  - destruct (forallb f (rev l)) eqn:E2; [|reflexivity]. rewrite forallb_forall in E2.
    assert (forallb f l = true) by (apply forallb_forall; intros x Hx; apply E2; rewrite <- in_rev; exact Hx). congruence.
Qed.

Lemma nlen_of_length {A} (l : list A) n : length l = N.to_nat n -> nlen l = n.
Proof. unfold nlen. intros ->. apply N2Nat.id. Qed.

Theorem decp_shape : forall t, shape_sound t.
Proof.
  induction t using ty_ind'; intros p R o inv G r v r' Hp Hm Hi Hd; cbn [decp] in Hd.
  - (* scalar *)
    apply rmap_ok in Hd. destruct Hd as (z & E & ->).
    exact (read_scalar_payload_sound o inv G s p r z r' Hp Hm Hi E).
  - (* string *)
    apply bind_ok in Hd. destruct Hd as (len & r1 & E1 & Hd). pose proof (read_u64_sound o inv G _ _ _ Hi E1) as I1.
    destruct (negb (len mod cw =? 0)); [discriminate|].
    apply bind_ok in Hd. destruct Hd as (u & r2 & E2 & Hd). pose proof (gr_ensure _ _ G _ _ _ _ I1 E2) as I2.
    apply bind_ok in Hd. destruct Hd as (bs & r3 & E3 & Hd). destruct (gr_readn _ _ G _ _ _ _ I2 E3) as (_ & B & I3).
    injection Hd as <- <-. split; [|exact I3]. cbn [has_shape].
    destruct (unraw_ok (N.to_nat cw) false bs ltac:(discriminate) B (len / cw)) as [A _].
    rewrite forallb_forall in *. intros x Hx. apply char_ok_raw, A, Hx.
  - (* sequence *)
    destruct (raw_kind t) as [[w sg]|] eqn:Rk.
    + pose proof (raw_kind_width _ _ _ Rk) as Hw.
      apply bind_ok in Hd. destruct Hd as (len & r1 & E1 & Hd). pose proof (read_u64_sound o inv G _ _ _ Hi E1) as I1.
      destruct c as [|ca n|ca cap sk unb].
      * destruct (negb (len mod N.of_nat w =? 0)); [discriminate|].
        apply bind_ok in Hd. destruct Hd as (u & r2 & E2 & Hd). pose proof (gr_ensure _ _ G _ _ _ _ I1 E2) as I2.
        apply bind_ok in Hd. destruct Hd as (bs & r3 & E3 & Hd). destruct (gr_readn _ _ G _ _ _ _ I2 E3) as (_ & B & I3).
        injection Hd as <- <-. split; [|exact I3]. cbn [has_shape seq_len_ok andb]. rewrite Rk.
        exact (proj1 (unraw_ok w sg bs (fun _ => Hw) B _)).
      * destruct (negb (len =? n * N.of_nat w)); [discriminate|].
        apply bind_ok in Hd. destruct Hd as (bs & r3 & E3 & Hd). destruct (gr_readn _ _ G _ _ _ _ I1 E3) as (_ & B & I3).
        injection Hd as <- <-. split; [|exact I3]. cbn [has_shape seq_len_ok]. rewrite Rk.
        destruct (unraw_ok w sg bs (fun _ => Hw) B n) as [A L]. rewrite A, (nlen_of_length _ _ L), N.eqb_refl. reflexivity.
      * destruct ((negb unb && (cap * N.of_nat w <? len)) || negb (len mod N.of_nat w =? 0)) eqn:Ec; [discriminate|].
        apply bind_ok in Hd. destruct Hd as (bs & r3 & E3 & Hd). destruct (gr_readn _ _ G _ _ _ _ I1 E3) as (_ & B & I3).
        injection Hd as <- <-. split; [|exact I3]. cbn [has_shape seq_len_ok]. rewrite Rk.
        destruct (unraw_ok w sg bs (fun _ => Hw) B (len / N.of_nat w)) as [A L]. rewrite A, (nlen_of_length _ _ L), andb_true_r.
        apply orb_false_elim in Ec. destruct Ec as [Ec _]. destruct unb; [reflexivity|]. cbn [negb andb orb] in *.
        apply N.ltb_ge in Ec. apply N.leb_le. apply N.div_le_upper_bound; lia.
    + apply bind_ok in Hd. destruct Hd as (n & r1 & E1 & Hd). pose proof (read_u64_sound o inv G _ _ _ Hi E1) as I1.
      destruct (negb _) eqn:Ec; [discriminate|]. apply negb_false_iff in Ec.
      apply bind_ok in Hd. destruct Hd as (vs & r2 & E2 & Hd). injection Hd as <- <-.
      apply (loop_res_sound inv (fun i acc => length acc = i /\ forallb (has_shape t) acc = true)) in E2; [| |split; reflexivity|exact I1].
      * destruct E2 as [[L A] I2]. split; [|exact I2]. cbn [has_shape]. rewrite Rk, forallb_rev, A, andb_true_r.
        assert (Ln : nlen (rev vs) = n) by (apply nlen_of_length; rewrite rev_length; exact L). rewrite Ln.
        destruct c; exact Ec.
      * intros i acc s acc' s' [La Fa] Is Hs. apply bind_ok in Hs. destruct Hs as (x & s1 & Ex & Hs). injection Hs as <- <-.
        destruct (elem_sound t IHt R o inv G s x s1 Is Ex) as [Sx I1']. cbn [length forallb]. rewrite Sx, Fa, La. auto.
  - (* tuple *)
    apply bind_ok in Hd. destruct Hd as (n & r1 & E1 & Hd). pose proof (read_u64_sound o inv G _ _ _ Hi E1) as I1.
    destruct (negb (n =? nlen ts)); [discriminate|].
    apply bind_ok in Hd. destruct Hd as (vs & r2 & E2 & Hd). injection Hd as <- <-. cbn [has_shape].
    clear E1 Hm. revert r1 vs I1 E2. induction H as [|t ts Ht _ IHts]; intros r1 vs I1 E2.
    + injection E2 as <- <-. auto.
    + apply bind_ok in E2. destruct E2 as (x & s1 & Ex & E2). apply bind_ok in E2. destruct E2 as (xs & s2 & Exs & E2).
      injection E2 as <- <-. destruct (elem_sound t Ht R o inv G r1 x s1 I1 Ex) as [Sx Is1].
      destruct (IHts s1 xs Is1 Exs) as [Sxs Is2]. rewrite Sx, Sxs. auto.
  - (* wrapper *) exact (IHt p R o inv G r v r' Hp Hm Hi Hd).
  - (* map *)
    apply bind_ok in Hd. destruct Hd as (n & r1 & E1 & Hd). pose proof (read_u64_sound o inv G _ _ _ Hi E1) as I1.
    apply bind_ok in Hd. destruct Hd as (kvs & r2 & E2 & Hd). injection Hd as <- <-. cbn [has_shape].
    apply (loop_res_sound inv (fun _ acc => forallb (fun kv => has_shape t1 (fst kv) && has_shape t2 (snd kv)) acc = true)) in E2;
      [exact E2| |reflexivity|exact I1].
    intros i acc s acc' s' Fa Is Hs. apply bind_ok in Hs. destruct Hs as (k & s1 & Ek & Hs).
    apply bind_ok in Hs. destruct Hs as (x & s2 & Ex & Hs). injection Hs as <- <-.
    destruct (elem_sound t1 IHt1 R o inv G s k s1 Is Ek) as [Sk I1'].
    destruct (elem_sound t2 IHt2 R o inv G s1 x s2 I1' Ex) as [Sx I2']. split; [|exact I2'].
    unfold map_emplace. destruct (existsb _ acc); [exact Fa|]. rewrite forallb_app, Fa. cbn. rewrite Sk, Sx. reflexivity.
  - (* optional *)
    cbn [tmatch] in Hm. destruct (p =? P_NIL) eqn:En.
    + injection Hd as <- <-. auto.
    + cbn [orb] in Hm. apply rmap_ok in Hd. destruct Hd as (x & E & ->). exact (IHt p R o inv G r x r' Hp Hm Hi E).
  - (* result *)
    cbn [tmatch] in Hm. destruct (p =? P_ERR) eqn:En.
    + apply rmap_ok in Hd. destruct Hd as (e & E & ->). cbn [has_shape]. exact (read_scalar_sound o inv G (SInt ek) r e r' Hi E).
    + cbn [orb] in Hm. apply rmap_ok in Hd. destruct Hd as (x & E & ->). exact (IHt p R o inv G r x r' Hp Hm Hi E).
  - (* variant *)
    apply bind_ok in Hd. destruct Hd as (i & r1 & E1 & Hd). destruct (read_scalar_sound o inv G sI32 r i r1 Hi E1) as [_ I1].
    destruct ((i <? -1)%Z || (Z.of_N (nlen ts) <=? i)%Z) eqn:Ec; [discriminate|]. apply orb_false_elim in Ec. destruct Ec as [Ec1 Ec2].
    destruct (i =? -1)%Z eqn:Em.
    + apply (dec_with_sound o inv G _ _ (fun v => has_shape (TVar ts) v = true)) in Hd; [exact Hd| |exact I1].
      intros q s1 v1 s2 _ _ Is Hv. injection Hv as <- <-. auto.
    + assert (Hi0 : (0 <= i)%Z) by lia.
      assert (P : exists x, v = VAlt i x /\
                (fix pick (ts : list ty) (n : nat) : bool :=
                   match ts with
                   | [] => false
                   | t' :: ts' => match n with O => has_shape t' x | S n' => pick ts' n' end
                   end) ts (Z.to_nat i) = true /\ inv r').
      { clear Ec2 E1 Hm. revert Hd. generalize (Z.to_nat i) as n. induction H as [|t ts Ht _ IHts]; intros n Hd; [discriminate|].
        destruct n as [|n]; [|exact (IHts n Hd)].
        apply rmap_ok in Hd. destruct Hd as (x & E & ->). exists x.
        destruct (elem_sound t Ht R o inv G r1 x r' I1 E) as [Sx Ix]. auto. }
      destruct P as (x & -> & Sx & Ix). split; [|exact Ix]. cbn [has_shape].
      rewrite (proj2 (Z.leb_le 0 i) Hi0). exact Sx.
  - (* handle *)
    apply bind_ok in Hd. destruct Hd as (tg & r1 & E1 & Hd). destruct (read_scalar_sound o inv G _ r tg r1 Hi E1) as [_ I1].
    destruct (negb (tg =? tag)%Z); [discriminate|].
    apply bind_ok in Hd. destruct Hd as (ref & r2 & E2 & Hd). destruct (read_scalar_sound o inv G _ r1 ref r2 I1 E2) as [_ I2].
    apply bind_ok in Hd. destruct Hd as (h & r3 & E3 & Hd). injection Hd as <- <-.
    split; [reflexivity|exact (gr_gethandle _ _ G _ _ _ _ I2 E3)].
  - (* table *)
    apply bind_ok in Hd. destruct Hd as (hh & r1 & E1 & Hd). pose proof (read_u64_sound o inv G _ _ _ Hi E1) as I1.
    destruct (negb (hh =? h)); [discriminate|].
    apply bind_ok in Hd. destruct Hd as (count & r2 & E2 & Hd). pose proof (read_u64_sound o inv G _ _ _ I1 E2) as I2.
    apply bind_ok in Hd. destruct Hd as (slots & r3 & E3 & Hd). injection Hd as <- <-.
    set (ok := fun (es : list (N * bool * ty)) (xs : list val) => has_shape (TTab 0 es) (VTab xs) = true).
    change (ok es slots /\ inv r3).
    apply (loop_res_sound inv (fun _ sl => ok es sl)) in E3; [exact E3| | |exact I2].
    + intros i sl s sl' s' Hs Is Hstep. apply bind_ok in Hstep. destruct Hstep as (id & s1 & Eid & Hstep).
      pose proof (read_u64_sound o inv G _ _ _ Is Eid) as Is1. clear Eid E3 E2 E1 Hm.
      revert sl sl' s1 s' Hs Is1 Hstep. unfold ok. cbn [has_shape].
      induction H as [|[[eid act] t'] es Ht _ IHes]; intros sl sl' s1 s' Hs Is1 Hstep; cbn [map find_entry] in Hstep.
      * apply bind_ok in Hstep. destruct Hstep as (u & s2 & Es & Hstep). injection Hstep as <- <-.
        split; [exact Hs|exact (skip_entry_sound o inv G _ _ _ Is1 Es)].
      * destruct sl as [|x sl].
        { apply bind_ok in Hstep. destruct Hstep as (u & s2 & Es & Hstep). injection Hstep as <- <-.
          split; [exact Hs|exact (skip_entry_sound o inv G _ _ _ Is1 Es)]. }
        apply andb_prop in Hs. destruct Hs as [Hx Hs]. cbn [snd] in Ht.
        destruct (eid =? id).
        { destruct act.
          - destruct x; try discriminate.
            apply bind_ok in Hstep. destruct Hstep as (y & s2 & Ey & Hstep). injection Hstep as <- <-.
            unfold framed_read in Ey. apply bind_ok in Ey. destruct Ey as (sz & s3 & Esz & Ey).
            pose proof (read_u64_sound o inv G _ _ _ Is1 Esz) as Is3.
            destruct (dec_with (bounded_rops o) (tmatch t') _ (b_make s3 sz)) as [y1 b|e b] eqn:Eb; [|discriminate].
            destruct (bounded_read_padding o b) as [u b'|e b'] eqn:Ep; [|discriminate]. injection Ey as <- <-.
            destruct (elem_sound t' Ht (Bounded R) (bounded_rops o) _ (bounded_good o inv G) (b_make s3 sz) y1 b Is3 Eb) as [Sy Ib].
            unfold bounded_read_padding in Ep. destruct (b_lift_ok _ _ _ _ _ Ep) as (x2 & Esk & ->).
            split; [|exact (gr_skip _ _ G _ _ _ _ Ib Esk)]. rewrite Sy, Hs. reflexivity.
          - apply bind_ok in Hstep. destruct Hstep as (u & s2 & Es & Hstep). injection Hstep as <- <-.
            split; [|exact (skip_entry_sound o inv G _ _ _ Is1 Es)]. rewrite Hx, Hs. reflexivity. }
        { apply bind_ok in Hstep. destruct Hstep as (rest & s2 & Er & Hstep). injection Hstep as <- <-.
          destruct (IHes sl rest s1 s2 Hs Is1 Er) as [Sr I2']. split; [|exact I2']. rewrite Hx, Sr. reflexivity. }
    + unfold ok. cbn [has_shape]. clear. induction es as [|[[i a] t] es IH]; [reflexivity|]. cbn [map]. exact IH.
Qed.

(* Deserializer::Read over the list reader, and over any nesting of BoundedReader around a good reader *)
Theorem dec_shape t (bs : bytes) v rest : all_bytes bs = true ->
  dec t lr_ops bs = Ok v rest -> has_shape t v = true /\ all_bytes rest = true.
Proof. intros Hb H. exact (elem_sound t (decp_shape t) LR lr_ops _ lr_good bs v rest Hb H). Qed.

Theorem dec_shape_any_reader t {R} (o : rops R) inv : good_reader o inv ->
  forall r v r', inv r -> dec t o r = Ok v r' -> has_shape t v = true /\ inv r'.
Proof. intros G r v r' Hi H. exact (elem_sound t (decp_shape t) R o inv G r v r' Hi H). Qed.

(* what the shape says about the containers whose capacity is fixed by the C++ type *)
Lemma shape_array ca n t' vs : has_shape (TSeq (CArr ca n) t') (VSeq vs) = true -> nlen vs = n.
Proof. cbn [has_shape seq_len_ok]. intros H. apply andb_prop in H. destruct H as [H _]. apply N.eqb_eq, H. Qed.
Lemma shape_lbuf ca cap sk t' vs : has_shape (TSeq (CLBuf ca cap sk false) t') (VSeq vs) = true -> nlen vs <= cap.
Proof. cbn [has_shape seq_len_ok orb]. intros H. apply andb_prop in H. destruct H as [H _]. apply N.leb_le, H. Qed.

Example shape_nonvacuous :
  let t := TTuple KStruct [TSeq (CLBuf true 4 U8 false) (TScalar 0 (SInt I16)); TVar [TStr 1; TScalar 0 SBool]] in
  exists v rest, dec t lr_ops [185; 2; 188; 4; 255; 255; 1; 0; 184; 1; 1; 9] = Ok v rest /\ has_shape t v = true /\ rest = [9].
Proof. eexists. eexists. split; [vm_compute; reflexivity|split; reflexivity]. Qed.
