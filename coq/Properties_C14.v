(* Properties_C14.v — C14: RPC dispatch calls exactly the selected handler with the sent
   arguments.  Statements only; proofs in Rpc.v (on top of the round-trip theorems of
   C01).  Model: a request is the selector followed by the argument tuple
   (SimpleMethodSender::SendMethod), InterfaceBindings::operator() reads the selector,
   walks the bindings from the last to the first (DispatchTable), the matching binding
   reads the arguments under its own argument types, calls the handler with the
   passthrough values followed by the arguments, and writes the returned value
   (SimpleMethodReceiver); the caller's GetReturn reads it.  Handlers are ARBITRARY
   functions of passthrough and argument values. *)
From Nop Require Import Spec Sim EncSpec ScalarRT DecSpec Readers Rpc.
Local Open Scope N_scope.

(* what Invoke puts on the wire *)
Theorem C14_request : forall b32 sel ats args w,
  sel_ok b32 sel -> has_type (args_ty ats) (VSeq args) = true ->
  send_request b32 sel ats args w = Ok tt (w ++ request_bytes b32 sel ats args).
Proof. exact send_request_bytes. Qed.
Print Assumptions C14_request.

(* one call: exactly the selected handler, exactly once, with exactly the sent arguments;
   exactly the request is consumed; exactly one reply, the handler's value, which is what
   the caller's Invoke returns — whatever follows on either stream *)
Theorem C14_call : forall b32 bs pass sel i b args rest out log,
  sel_ok b32 sel -> lookup sel bs 0 = Some (i, b) ->
  wf (args_ty (b_args b)) = true -> has_type (args_ty (b_args b)) (VSeq args) = true ->
  wf (b_ret b) = true -> has_type (b_ret b) (b_fn b pass args) = true ->
  dispatch b32 bs pass (request_bytes b32 sel (b_args b) args ++ rest, out, log) =
    Ok tt (rest, out ++ spec_enc (b_ret b) (b_fn b pass args),
           log ++ [{| k_idx := i; k_pass := pass; k_args := args |}]) /\
  forall rest', get_return (b_ret b) (spec_enc (b_ret b) (b_fn b pass args) ++ rest') = Ok (b_fn b pass args) rest'.
Proof. exact dispatch_bound. Qed.
Print Assumptions C14_call.

(* the binding found is one bound to the requested selector; none is found exactly when no
   binding has it *)
Theorem C14_lookup_sound : forall sel bs k i b, lookup sel bs k = Some (i, b) ->
  b_sel b = sel /\ (k <= i)%nat /\ nth_error bs (i - k) = Some b.
Proof. exact lookup_sound. Qed.
Print Assumptions C14_lookup_sound.

Theorem C14_lookup_none : forall sel bs k, lookup sel bs k = None <-> Forall (fun b => b_sel b <> sel) bs.
Proof. exact lookup_none. Qed.
Print Assumptions C14_lookup_none.

(* unbound selector: InvalidInterfaceMethod, no handler, nothing sent back *)
Theorem C14_unbound : forall b32 bs pass sel rest out log,
  sel_ok b32 sel -> lookup sel bs 0 = None ->
  dispatch b32 bs pass (spec_enc (sel_ty b32) (VInt (Z.of_N sel)) ++ rest, out, log) =
    Err EInterfaceMethod (rest, out, log).
Proof. exact dispatch_unbound. Qed.
Print Assumptions C14_unbound.

(* undecodable selector or arguments: that decode error, no handler, nothing sent back *)
Theorem C14_bad_selector : forall b32 bs pass inp e inp1 out log,
  dec (sel_ty b32) lr_ops inp = Err e inp1 ->
  dispatch b32 bs pass (inp, out, log) = Err e (inp1, out, log).
Proof. exact dispatch_bad_selector. Qed.
Print Assumptions C14_bad_selector.

Theorem C14_bad_arguments : forall b32 bs pass sel i b inp e inp2 out log,
  sel_ok b32 sel -> lookup sel bs 0 = Some (i, b) ->
  dec (args_ty (b_args b)) lr_ops inp = Err e inp2 ->
  dispatch b32 bs pass (spec_enc (sel_ty b32) (VInt (Z.of_N sel)) ++ inp, out, log) = Err e (inp2, out, log).
Proof. exact dispatch_bad_arguments. Qed.
Print Assumptions C14_bad_arguments.

(* for EVERY input: a failing dispatch ran no handler and wrote nothing, unless it is the
   reply writer itself that failed after the handler ran *)
Theorem C14_failure_is_silent : forall b32 bs pass inp out log e inp' out' log',
  dispatch b32 bs pass (inp, out, log) = Err e (inp', out', log') ->
  (log' = log /\ out' = out) \/
  (exists i b args, log' = log ++ [{| k_idx := i; k_pass := pass; k_args := args |}] /\
                    serialize (b_ret b) (b_fn b pass args) lw_ops out = Err e out').
Proof. exact dispatch_failure_is_silent. Qed.
Print Assumptions C14_failure_is_silent.

(* successive calls on one connection stay in frame, in both directions *)
Theorem C14_calls_stay_in_frame : forall b32 bs pass cs, Forall (call_ok b32 bs pass) cs ->
  forall rest out log,
  serve b32 bs pass (length cs) (requests b32 bs cs ++ rest, out, log) =
    Ok tt (rest, out ++ replies bs pass cs, log ++ calls_log bs pass cs).
Proof. exact serve_in_frame. Qed.
Print Assumptions C14_calls_stay_in_frame.

Theorem C14_replies_stay_in_frame : forall b32 bs pass c cs rest, call_ok b32 bs pass c ->
  match lookup (rc_sel c) bs 0 with
  | Some (_, b) =>
      get_return (b_ret b) (replies bs pass (c :: cs) ++ rest) =
        Ok (b_fn b pass (rc_args c)) (replies bs pass cs ++ rest)
  | None => False
  end.
Proof. exact replies_in_frame. Qed.
Print Assumptions C14_replies_stay_in_frame.

(* any input at all (any integer class of the selector, any accepted argument encoding):
   a successful dispatch ran exactly the handler the selector on the wire selects, once,
   with the arguments decoded under that handler's types, and replied with its return value *)
Theorem C14_success_any_input : forall b32 bs pass inp out log inp' out' log',
  dispatch b32 bs pass (inp, out, log) = Ok tt (inp', out', log') ->
  exists s inp1 i b args,
    dec (sel_ty b32) lr_ops inp = Ok (VInt s) inp1 /\
    lookup (Z.to_N s) bs 0 = Some (i, b) /\
    dec (args_ty (b_args b)) lr_ops inp1 = Ok (VSeq args) inp' /\
    log' = log ++ [{| k_idx := i; k_pass := pass; k_args := args |}] /\
    serialize (b_ret b) (b_fn b pass args) lw_ops out = Ok tt out'.
Proof. exact dispatch_success_any_input. Qed.
Print Assumptions C14_success_any_input.

Theorem C14_at_most_one_handler : forall b32 bs pass inp out log r inp' out' log',
  dispatch b32 bs pass (inp, out, log) = r ->
  (r = Ok tt (inp', out', log') \/ exists e, r = Err e (inp', out', log')) ->
  log' = log \/ exists c, log' = log ++ [c].
Proof. exact dispatch_at_most_one_handler. Qed.
Print Assumptions C14_at_most_one_handler.

Theorem C14_handlers_bounded : forall b32 bs pass n inp out log,
  exists l, snd (res_state (serve b32 bs pass n (inp, out, log))) = log ++ l /\ (length l <= n)%nat.
Proof. exact serve_handlers_bounded. Qed.
Print Assumptions C14_handlers_bounded.

(* non-vacuity: two bindings, a call of the second, then an unbound selector *)
Example C14_nonvacuous :
  let i32 := TScalar 0 (SInt I32) in
  let add := {| b_sel := 5; b_args := [i32; i32]; b_ret := i32;
                b_fn := fun _ a => match a with [VInt x; VInt y] => VInt (x + y) | _ => VInt 0 end |} in
  let len := {| b_sel := 9; b_args := [TStr 1]; b_ret := TScalar 0 (SInt U64);
                b_fn := fun _ a => match a with [VSeq l] => VInt (Z.of_nat (length l)) | _ => VInt 0 end |} in
  let rq := request_bytes false 9 [TStr 1] [VSeq [VInt 104; VInt 105]] in
  dispatch false [add; len] [] (rq ++ [1; 2], [], []) =
    Ok tt ([1; 2], [2], [{| k_idx := 1%nat; k_pass := []; k_args := [VSeq [VInt 104; VInt 105]] |}]) /\
  dispatch false [add; len] [] ([7; 186; 0], [], []) = Err EInterfaceMethod ([186; 0], [], []).
Proof. vm_compute. split; reflexivity. Qed.
