(* TableSpec.v — exact semantics of reading a table: for ANY sequence of
   framed entries on the wire (any order, known or unknown ids, any declared
   sizes), Encoding<Table>::Read is a fold of one pure step per entry.
   C07 (versions) and C08 (framing) are corollaries. *)
From Nop Require Import Spec Sim EncSpec ScalarRT DecSpec Readers Lang.
Local Open Scope N_scope.

(* one entry as it appears on the wire: id, declared size, the sz bytes that follow *)
Record went := { w_id : N; w_body : bytes }.
Definition went_bytes (e : went) : bytes :=
  uint_enc (w_id e) ++ uint_enc (nlen (w_body e)) ++ w_body e.
Definition went_ok (e : went) : Prop := w_id e < two64 /\ nlen (w_body e) < two64.

(* ---- a frame of exactly sz bytes ------------------------------------------------ *)
Lemma framed_read_spec t' (body rest : bytes) : nlen body < two64 ->
  match dec t' lr_ops body with
  | Ok v pad => framed_read lr_ops (dec t' (bounded_rops lr_ops)) (uint_enc (nlen body) ++ body ++ rest) = Ok v rest
  | Err e _ => exists s, framed_read lr_ops (dec t' (bounded_rops lr_ops)) (uint_enc (nlen body) ++ body ++ rest) = Err e s
  end.
Proof.
  intros Hs. set (sz := nlen body) in *. unfold framed_read. rewrite (read_u64_rt sz _ Hs). cbn [bind].
  assert (E : firstn (tn sz) (body ++ rest) = body).
  { unfold sz, nlen. rewrite Nat2N.id. apply firstn_app_exact. }
  assert (F : match dec t' (bounded_rops lr_ops) (b_make (body ++ rest) sz) with
              | Ok a s1 => match dec t' lr_ops body with
                           | Ok b0 s2 => a = b0 /\ frame_rel (body ++ rest) sz s1 s2
                           | Err _ _ => False end
              | Err e s1 => match dec t' lr_ops body with
                            | Err f s2 => e = f /\ frame_rel (body ++ rest) sz s1 s2
                            | Ok _ _ => False end
              end).
  { pose proof (dec_frame t' sz (body ++ rest) Hs) as F0. rewrite E in F0. exact F0. }
  match goal with |- context [match ?d with Ok _ _ => _ | Err _ _ => _ end] =>
    change d with (dec t' (bounded_rops lr_ops) (b_make (body ++ rest) sz)) end.
  destruct (dec t' lr_ops body) as [v pad|e l] eqn:Edl;
    destruct (dec t' (bounded_rops lr_ops) (b_make (body ++ rest) sz)) as [v' b|e' b]; try contradiction.
  - destruct F as [-> F].
    pose proof (frame_len _ _ _ _ F) as Hl. destruct F as (H1 & H2 & H3 & H4 & H5).
    assert (Hr : nlen (body ++ rest) = sz + nlen rest) by (rewrite nlen_app; reflexivity).
    assert (Hi : b_index b = sz - nlen pad) by lia.
    assert (Hp : nlen pad <= sz) by lia.
    unfold bounded_read_padding. rewrite H1, sub64_small by lia.
    replace (sz - b_index b) with (nlen pad) by lia.
    assert (Hin : b_inner b = pad ++ rest).
    { destruct (dec_consumes_prefix t' body v pad Edl) as (pre & Epre).
      rewrite H4, Hi, Epre. rewrite <- app_assoc.
      replace (tn (sz - nlen pad)) with (length pre).
      - apply skipn_app_exact.
      - unfold sz, nlen in *. rewrite Epre, app_length. lia. }
    rewrite Hin, lr_skip_app. cbn [b_lift]. reflexivity.
  - destruct F as [-> _]. eexists. reflexivity.
Qed.

(* ---- one entry against the reader's declared entries ----------------------------- *)
Fixpoint apply_entry (es : list (N * bool * ty)) (slots : list val) (e : went) : list val + N :=
  match es, slots with
  | (eid, act, t') :: es', sl :: slots' =>
      if eid =? w_id e then
        if act then
          match sl with
          | VNone =>
              match dec t' lr_ops (w_body e) with
              | Ok v _ => inl (VSome v :: slots')       (* value, then padding *)
              | Err c _ => inr c                        (* an inner error fails the read *)
              end
          | _ => inr EDupEntry
          end
        else inl (sl :: slots')                         (* deleted entry: skipped *)
      else match apply_entry es' slots' e with
           | inl r => inl (sl :: r)
           | inr c => inr c
           end
  | _, _ => inl slots                                   (* unknown id: skipped *)
  end.

Fixpoint apply_entries (es : list (N * bool * ty)) (slots : list val) (ents : list went) : list val + N :=
  match ents with
  | [] => inl slots
  | e :: r => match apply_entry es slots e with
              | inl s' => apply_entries es s' r
              | inr c => inr c
              end
  end.

Lemma skip_entry_spec (body rest : bytes) : nlen body < two64 ->
  skip_entry lr_ops (uint_enc (nlen body) ++ body ++ rest) = Ok tt rest.
Proof.
  intros H. unfold skip_entry. rewrite (read_u64_rt _ _ H). cbn [bind]. apply lr_skip_app.
Qed.

Lemma find_entry_spec es slots (e : went) rest : nlen (w_body e) < two64 ->
  match apply_entry es slots e with
  | inl s' => find_entry lr_ops (w_id e) (entry_readers es) slots
                (uint_enc (nlen (w_body e)) ++ w_body e ++ rest) = Ok s' rest
  | inr c => exists st, find_entry lr_ops (w_id e) (entry_readers es) slots
                (uint_enc (nlen (w_body e)) ++ w_body e ++ rest) = Err c st
  end.
Proof.
  intros Hs. revert slots.
  induction es as [|[[eid act] t'] es' IH]; intros slots; cbn [apply_entry entry_readers map find_entry].
  - rewrite (skip_entry_spec _ _ Hs). reflexivity.
  - destruct slots as [|sl slots'].
    + rewrite (skip_entry_spec _ _ Hs). reflexivity.
    + destruct (eid =? w_id e).
      * destruct act.
        -- destruct sl; try (eexists; reflexivity).
           pose proof (framed_read_spec t' (w_body e) rest Hs) as F.
           destruct (dec t' lr_ops (w_body e)) as [v pad|c l].
           ++ match goal with |- bind ?m _ = _ => assert (Em : m = Ok v rest) by exact F; rewrite Em end.
              reflexivity.
           ++ destruct F as (st & F).
              match goal with |- exists _, bind ?m _ = _ => assert (Em : m = Err c st) by exact F; rewrite Em end.
              eexists. reflexivity.
        -- rewrite (skip_entry_spec _ _ Hs). reflexivity.
      * specialize (IH slots'). fold (entry_readers es').
        destruct (apply_entry es' slots' e) as [r|c].
        -- rewrite IH. reflexivity.
        -- destruct IH as (st & IH). rewrite IH. eexists. reflexivity.
Qed.

Lemma table_step_spec es slots (e : went) rest : went_ok e ->
  match apply_entry es slots e with
  | inl s' => table_step es slots (went_bytes e ++ rest) = Ok s' rest
  | inr c => exists st, table_step es slots (went_bytes e ++ rest) = Err c st
  end.
Proof.
  intros (Hid & Hs). unfold table_step, went_bytes. rewrite <- !app_assoc.
  rewrite (read_u64_rt _ _ Hid). cbn [bind]. apply find_entry_spec, Hs.
Qed.

Lemma table_entries_spec es (ents : list went) rest : Forall went_ok ents -> forall slots,
  match apply_entries es slots ents with
  | inl s' => loop_nat (length ents) (table_step es) slots (flat_map went_bytes ents ++ rest) = Ok s' rest
  | inr c => exists st, loop_nat (length ents) (table_step es) slots (flat_map went_bytes ents ++ rest) = Err c st
  end.
Proof.
  induction 1 as [|e ents He _ IH]; intros slots; cbn [apply_entries length loop_nat flat_map]; [reflexivity|].
  rewrite <- app_assoc.
  pose proof (table_step_spec es slots e (flat_map went_bytes ents ++ rest) He) as S.
  destruct (apply_entry es slots e) as [s'|c].
  - rewrite S. apply IH.
  - destruct S as (st & S). rewrite S. eexists. reflexivity.
Qed.

(* the whole table *)
Definition table_wire (h : N) (ents : list went) : bytes :=
  P_TAB :: uint_enc h ++ uint_enc (nlen ents) ++ flat_map went_bytes ents.

Theorem table_read_spec h es (ents : list went) rest :
  h < two64 -> nlen ents < two64 -> Forall went_ok ents ->
  match apply_entries es (map (fun _ => VNone) es) ents with
  | inl s' => dec (TTab h es) lr_ops (table_wire h ents ++ rest) = Ok (VTab s') rest
  | inr c => exists st, dec (TTab h es) lr_ops (table_wire h ents ++ rest) = Err c st
  end.
Proof.
  intros Hh Hn Hok. unfold table_wire, dec, dec_with. cbn [app lr_ops r_read1 bind tmatch].
  rewrite N.eqb_refl. cbn [decp]. rewrite <- !app_assoc.
  rewrite (read_u64_rt _ _ Hh). cbn [bind]. rewrite N.eqb_refl. cbn [negb].
  rewrite (read_u64_rt _ _ Hn). cbn [bind]. rewrite loop_res_nat.
  replace (tn (nlen ents)) with (length ents) by (unfold nlen; rewrite Nat2N.id; reflexivity).
  change (fun (slots : list val) (r : LR) =>
            do id, r0 <- read_u64 lr_ops r;
            find_entry lr_ops id
              (map (fun e : N * bool * ty =>
                      match e with
                      | (eid, act, t') =>
                          (eid, act, framed_read lr_ops
                             (dec_with (bounded_rops lr_ops) (tmatch t')
                                (fun p b => decp t' p (Bounded LR) (bounded_rops lr_ops) b)))
                      end) es) slots r0) with (table_step es).
  pose proof (table_entries_spec es ents rest Hok (map (fun _ => VNone) es)) as S.
  destruct (apply_entries es (map (fun _ => VNone) es) ents) as [s'|c].
  - match goal with |- bind ?m _ = _ => assert (Em : m = Ok s' rest) by exact S; rewrite Em end.
    reflexivity.
  - destruct S as (st & S).
    match goal with |- exists _, bind ?m _ = _ => assert (Em : m = Err c st) by exact S; rewrite Em end.
    eexists. reflexivity.
Qed.
