(* Imp.v — a small statement language for the method bodies of BoundedReader / BoundedWriter
   (utility/bounded_reader.h, bounded_writer.h) and its meaning.  tools/nop2coq_bounded.py prints
   each method of /repo's current headers as a term of [bstmt] (GenBounded.v, regenerated on
   every run); BridgeBounded.v proves that running those terms is the hand-written model
   (IO.bounded_rops / bounded_wops / the padding functions) that the theorems of C16 are about.

   The subset: guards that return an error status, `const std::size_t` locals, at most one call
   forwarded to the wrapped object per path (its failure is returned unchanged), `index_ += e`,
   `return {}` and `return <forwarded call>`; for BufferReader / PedanticBufferReader also the guarded memcpy out of
   buffer_.  Arithmetic is std::size_t (mod 2^64). *)
From Nop Require Export IO.
Local Open Scope N_scope.

Inductive bexpr :=
| EParam (i : nat)            (* the i-th std::size_t parameter of the method *)
| ELocal (i : nat)            (* the i-th local, innermost last               *)
| ESize | EIndex              (* size_, index_                                *)
| EConst (n : N)
| ESub (a b : bexpr) | EAdd (a b : bexpr) | EMul (a b : bexpr).

Inductive bcond :=
| CLt (a b : bexpr) | CGt (a b : bexpr) | CLe (a b : bexpr) | CGe (a b : bexpr)
| CEq (a b : bexpr) | CNot (c : bcond) | CTrue.

Inductive bstmt :=
| SRetErr (e : N)                                  (* return ErrorStatus::e;                                   *)
| SRetOk                                           (* return {};                                               *)
| SRetCall (arg : bexpr)                           (* return inner_->Call(arg);                                *)
| SIf (c : bcond) (yes no : bstmt)                 (* if (c) yes else no   /   if (c) yes; no                  *)
| SLet (e : bexpr) (rest : bstmt)                  (* const std::size_t x = e; rest                            *)
| SCallChk (arg : bexpr) (rest : bstmt)            (* auto status = inner_->Call(arg); if (!status) return status; rest *)
| SAddIndex (e : bexpr) (rest : bstmt)             (* index_ += e; rest                                        *)
| SWhenCopy (c : bcond) (off len : bexpr) (rest : bstmt).
                                                   (* if (c) std::memcpy(begin, &buffer_[off], len); rest   (buffer readers) *)

Section Run.
  Context {X A : Type}.
  Variable call : N -> X -> res A X.      (* the one method of the wrapped object this method forwards to *)
  Variable copy : N -> N -> X -> A.       (* buffer readers: the len bytes at offset off that memcpy hands to the caller *)
  Variable dflt : A.                      (* the value of `return {}` when no call was made               *)
  Variable params : list N.

  Fixpoint eval (env : list N) (b : Bounded X) (e : bexpr) : N :=
    match e with
    | EParam i => nth i params 0
    | ELocal i => nth i env 0
    | ESize => b_size b
    | EIndex => b_index b
    | EConst n => n
    | ESub x y => sub64 (eval env b x) (eval env b y)
    | EAdd x y => add64 (eval env b x) (eval env b y)
    | EMul x y => wrap64 (eval env b x * eval env b y)
    end.

  Fixpoint test (env : list N) (b : Bounded X) (c : bcond) : bool :=
    match c with
    | CLt x y => eval env b x <? eval env b y
    | CGt x y => eval env b y <? eval env b x
    | CLe x y => eval env b x <=? eval env b y
    | CGe x y => eval env b y <=? eval env b x
    | CEq x y => eval env b x =? eval env b y
    | CNot c' => negb (test env b c')
    | CTrue => true
    end.

  Fixpoint run (s : bstmt) (env : list N) (last : A) (b : Bounded X) : res A (Bounded X) :=
    match s with
    | SRetErr e => Err e b
    | SRetOk => Ok last b
    | SRetCall arg =>
        match call (eval env b arg) (b_inner b) with
        | Ok a x => Ok a (b_with b x (b_index b))
        | Err e x => Err e (b_with b x (b_index b))
        end
    | SIf c yes no => if test env b c then run yes env last b else run no env last b
    | SLet e rest => run rest (env ++ [eval env b e]) last b
    | SCallChk arg rest =>
        match call (eval env b arg) (b_inner b) with
        | Ok a x => run rest env a (b_with b x (b_index b))
        | Err e x => Err e (b_with b x (b_index b))
        end
    | SAddIndex e rest => run rest env last (b_with b (b_inner b) (add64 (b_index b) (eval env b e)))
    | SWhenCopy c off len rest =>
        run rest env (if test env b c then copy (eval env b off) (eval env b len) (b_inner b) else last) b
    end.

  Definition exec (s : bstmt) (b : Bounded X) : res A (Bounded X) := run s [] dflt b.
End Run.
