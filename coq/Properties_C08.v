(* Properties_C08.v — C08: table framing is validated.  Statements only; proofs
   in TableSpec.v / TableProps.v / Lang.v. *)
From Nop Require Import Spec Sim EncSpec ScalarRT DecSpec Readers Lang TableSpec TableProps.
From Coq Require Import Permutation.
Local Open Scope N_scope.

(* Exact semantics: for ANY well-formed sequence of framed entries on the wire
   — any order, known, deleted or unknown ids, any declared sizes — reading
   the table is the fold of one pure step per entry (apply_entry): unknown
   and deleted ids are skipped, an empty recognised active entry is decoded
   inside its frame and the rest of the frame is padding, a non-empty one is
   DuplicateTableEntry, an error inside a frame is the result of the read. *)
Theorem C08_table_read_spec : forall h es (ents : list went) rest,
  h < two64 -> nlen ents < two64 -> Forall went_ok ents ->
  match apply_entries es (map (fun _ => VNone) es) ents with
  | inl s' => ldec (TTab h es) (table_wire h ents ++ rest) = Ok (VTab s') rest
  | inr c => exists st, ldec (TTab h es) (table_wire h ents ++ rest) = Err c st
  end.
Proof. exact table_read_spec. Qed.
Print Assumptions C08_table_read_spec.

Theorem C08_hash : forall hash es hh rest, hh < two64 -> hh <> hash ->
  ldec (TTab hash es) (P_TAB :: uint_enc hh ++ rest) = Err ETableHash rest.
Proof. exact defect_table_hash. Qed.
Print Assumptions C08_hash.

(* a recognised active id occurring twice (anywhere, with anything that does
   not fail in between) is DuplicateTableEntry *)
Theorem C08_duplicate : forall es slots (e1 : went) (mid : list went) (e2 : went) post t' y pad s1 s2,
  w_id e2 = w_id e1 ->
  slot_of es slots (w_id e1) = Some (true, t', VNone) ->
  ldec t' (w_body e1) = Ok y pad ->
  apply_entry es slots e1 = inl s1 ->
  apply_entries es s1 mid = inl s2 ->
  apply_entries es slots (e1 :: mid ++ e2 :: post) = inr EDupEntry.
Proof. exact duplicate_rejected. Qed.
Print Assumptions C08_duplicate.

(* repeated unknown or deleted ids are simply skipped *)
Theorem C08_unknown_skipped : forall es slots e,
  slot_of es slots (w_id e) = None -> apply_entry es slots e = inl slots.
Proof. exact apply_entry_unknown. Qed.
Print Assumptions C08_unknown_skipped.

Theorem C08_deleted_skipped : forall es slots e t' sl,
  slot_of es slots (w_id e) = Some (false, t', sl) -> apply_entry es slots e = inl slots.
Proof. exact apply_entry_deleted. Qed.
Print Assumptions C08_deleted_skipped.

(* declared size smaller than the value needs: the read fails *)
Theorem C08_short_size : forall es slots eid t' y k,
  wf t' = true -> has_type t' y = true -> (k < length (spec_enc t' y))%nat ->
  slot_of es slots eid = Some (true, t', VNone) ->
  exists c, apply_entry es slots {| w_id := eid; w_body := firstn k (spec_enc t' y) |} = inr c.
Proof. exact short_size_rejected. Qed.
Print Assumptions C08_short_size.

(* declared size larger than the value needs: accepted, exactly the surplus is skipped *)
Theorem C08_long_size : forall es slots eid t' y (pad : bytes),
  wf t' = true -> has_type t' y = true ->
  slot_of es slots eid = Some (true, t', VNone) ->
  apply_entry es slots {| w_id := eid; w_body := spec_enc t' y ++ pad |} = inl (set_slot es slots eid (VSome y)).
Proof. exact long_size_accepted. Qed.
Print Assumptions C08_long_size.

(* entries are accepted in any order *)
Theorem C08_any_order : forall es (ents ents' : list went), Permutation ents ents' ->
  NoDup (map w_id ents) -> forall slots s,
  apply_entries es slots ents = inl s -> apply_entries es slots ents' = inl s.
Proof. exact any_order. Qed.
Print Assumptions C08_any_order.

(* a decoding error inside an entry is the result of the whole read *)
Theorem C08_inner_error_not_masked : forall es slots e t' c l,
  slot_of es slots (w_id e) = Some (true, t', VNone) -> ldec t' (w_body e) = Err c l ->
  apply_entry es slots e = inr c.
Proof. exact apply_entry_inner_error. Qed.
Print Assumptions C08_inner_error_not_masked.
