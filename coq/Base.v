(* Base.v — bytes, little-endian packing, results, early-exit loops.
   Model definitions only (no proofs), so that the model still builds and
   extracts when a proof elsewhere breaks. *)
From Coq Require Export List NArith ZArith Bool Lia.
Export ListNotations.
Local Open Scope N_scope.

(* A byte is an N below 256; byte strings are [list N]. *)
Definition bytes := list N.

Fixpoint le_bytes (n : nat) (v : N) : bytes :=
  match n with
  | O => []
  | S n' => (v mod 256) :: le_bytes n' (v / 256)
  end.

Fixpoint le_val (bs : bytes) : N :=
  match bs with
  | [] => 0
  | b :: r => b + 256 * le_val r
  end.

Definition is_byte (b : N) : bool := b <? 256.
Definition all_bytes (bs : bytes) : bool := forallb is_byte bs.

(* ErrorStatus (status.h); bridged to the translated enumerator table in
   Gen/GenStatus.v by Bridge.v *)
Definition ENone : N := 0.
Definition EType : N := 1.        (* UnexpectedEncodingType *)
Definition EHandleType : N := 2.  (* UnexpectedHandleType *)
Definition EVariant : N := 3.     (* UnexpectedVariantType *)
Definition EContLen : N := 4.     (* InvalidContainerLength *)
Definition EMemberCount : N := 5. (* InvalidMemberCount *)
Definition EStrLen : N := 6.      (* InvalidStringLength *)
Definition ETableHash : N := 7.   (* InvalidTableHash *)
Definition EHandleRef : N := 8.   (* InvalidHandleReference *)
Definition EHandleValue : N := 9.
Definition EInterfaceMethod : N := 10.
Definition EDupEntry : N := 11.   (* DuplicateTableEntry *)
Definition EReadLimit : N := 12.
Definition EWriteLimit : N := 13.
Definition EStream : N := 14.
Definition EProtocol : N := 15.
Definition EIO : N := 16.
Definition ESystem : N := 17.
Definition EDebug : N := 18.
(* Not an ErrorStatus: the model was given a value outside the schema. *)
Definition EModel : N := 99.

(* Result of an operation over an I/O state S.  The error case keeps the
   state, so "no further calls after an error" is expressible. *)
Inductive res (A S : Type) : Type :=
| Ok (a : A) (s : S)
| Err (e : N) (s : S).
Arguments Ok {A S} a s.
Arguments Err {A S} e s.

Definition bind {A B S} (m : res A S) (f : A -> S -> res B S) : res B S :=
  match m with
  | Ok a s => f a s
  | Err e s => Err e s
  end.

Definition rmap {A B S} (g : A -> B) (m : res A S) : res B S :=
  match m with
  | Ok a s => Ok (g a) s
  | Err e s => Err e s
  end.

Definition res_state {A S} (m : res A S) : S :=
  match m with Ok _ s => s | Err _ s => s end.

Definition res_is_ok {A S} (m : res A S) : bool :=
  match m with Ok _ _ => true | Err _ _ => false end.

Notation "'do' x , s <- m ; k" := (bind m (fun x s => k))
  (at level 200, x name, s name, m at level 100, k at level 200).

(* Early-exit iteration.  [iter_N n f x] applies [f] up to [n] times, stopping
   at the first [inr].  Structural on the binary representation of [n], so a
   hostile count such as 2^64-1 costs only the steps actually executed. *)
Section Iter.
  Context {X E : Type}.
  Variable f : X -> X + E.

  Fixpoint iter_pos (p : positive) (x : X) : X + E :=
    match p with
    | xH => f x
    | xO p' =>
        match iter_pos p' x with
        | inl x' => iter_pos p' x'
        | inr e => inr e
        end
    | xI p' =>
        match f x with
        | inl x1 =>
            match iter_pos p' x1 with
            | inl x' => iter_pos p' x'
            | inr e => inr e
            end
        | inr e => inr e
        end
    end.

  Definition iter_N (n : N) (x : X) : X + E :=
    match n with
    | N0 => inl x
    | Npos p => iter_pos p x
    end.

  Fixpoint iter_nat (n : nat) (x : X) : X + E :=
    match n with
    | O => inl x
    | S n' => match f x with inl x' => iter_nat n' x' | inr e => inr e end
    end.
End Iter.

(* 64-bit machine arithmetic, used only where a property is about it. *)
Definition two64 : N := 18446744073709551616.
Definition wrap64 (n : N) : N := n mod two64.
Definition sub64 (a b : N) : N := (a + two64 - b mod two64) mod two64.
Definition add64 (a b : N) : N := (a + b) mod two64.

Fixpoint chunks (w : nat) (n : nat) (bs : bytes) : list bytes :=
  match n with
  | O => []
  | S n' => firstn w bs :: chunks w n' (skipn w bs)
  end.
