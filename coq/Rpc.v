(* Rpc.v — the RPC layer (C14): rpc/interface.h, simple_method_sender.h,
   simple_method_receiver.h.
   A request is the method selector followed by the argument tuple; the reply is the
   return value.  InterfaceBindings::operator() reads the selector, walks the
   bindings from the last to the first comparing selectors (DispatchTable), and the
   matching binding reads the argument tuple under ITS OWN argument types
   (Helper<handler signature minus passthrough>::Dispatch: GetArgs -> Call ->
   SendReturn).  Handlers are arbitrary functions of the passthrough and protocol
   argument values. *)
From Nop Require Import Spec Sim EncSpec ScalarRT DecSpec Readers.
Local Open Scope N_scope.

Record binding := {
  b_sel : N;                                   (* InterfaceMethod::Selector               *)
  b_args : list ty;                            (* the handler's protocol argument types   *)
  b_ret : ty;                                  (* the handler's return type               *)
  b_fn : list val -> list val -> val           (* passthrough values -> arguments -> value *)
}.

(* one handler invocation as seen by an observer *)
Record rpc_call := { k_idx : nat; k_pass : list val; k_args : list val }.

Definition sel_ty (b32 : bool) : ty := TScalar 0 (SInt (if b32 then U32 else U64)).
Definition args_ty (ts : list ty) : ty := TTuple KTuple ts.

(* DispatchTable(Index<n>): At<n-1> first, then towards the front *)
Fixpoint lookup (sel : N) (bs : list binding) (i : nat) : option (nat * binding) :=
  match bs with
  | [] => None
  | b :: r =>
      match lookup sel r (S i) with
      | Some x => Some x
      | None => if b_sel b =? sel then Some (i, b) else None
      end
  end.

(* server side: remaining request bytes, reply bytes so far, handler log *)
Definition sstate : Type := bytes * bytes * list rpc_call.

Definition dispatch (b32 : bool) (bs : list binding) (pass : list val) (st : sstate) : res unit sstate :=
  let '(inp, out, log) := st in
  match dec (sel_ty b32) lr_ops inp with
  | Err e inp1 => Err e (inp1, out, log)
  | Ok (VInt s) inp1 =>
      match lookup (Z.to_N s) bs 0 with
      | None => Err EInterfaceMethod (inp1, out, log)
      | Some (i, b) =>
          match dec (args_ty (b_args b)) lr_ops inp1 with
          | Err e inp2 => Err e (inp2, out, log)
          | Ok (VSeq args) inp2 =>
              let r := b_fn b pass args in
              let log' := log ++ [{| k_idx := i; k_pass := pass; k_args := args |}] in
              match serialize (b_ret b) r lw_ops out with
              | Ok _ out' => Ok tt (inp2, out', log')
              | Err e out' => Err e (inp2, out', log')
              end
          | Ok _ inp2 => Err EModel (inp2, out, log)
          end
      end
  | Ok _ inp1 => Err EModel (inp1, out, log)
  end.

(* caller side: SimpleMethodSender::SendMethod writes selector and arguments ... *)
Definition send_request (b32 : bool) (sel : N) (ats : list ty) (args : list val) (w : LW) : res unit LW :=
  do _, w <- serialize (sel_ty b32) (VInt (Z.of_N sel)) lw_ops w;
  serialize (args_ty ats) (VSeq args) lw_ops w.
(* ... and GetReturn reads the reply *)
Definition get_return (rt : ty) (reply : bytes) : res val LR := dec rt lr_ops reply.

Definition request_bytes (b32 : bool) (sel : N) (ats : list ty) (args : list val) : bytes :=
  spec_enc (sel_ty b32) (VInt (Z.of_N sel)) ++ spec_enc (args_ty ats) (VSeq args).

(* ---- basic facts about the codec used here ------------------------------------------ *)
Lemma dec_enc t v rest : wf t = true -> has_type t v = true ->
  dec t lr_ops (spec_enc t v ++ rest) = Ok v rest.
Proof. intros Hw Hv. apply dec_from_payload; [exact Hv|apply decp_payload; assumption]. Qed.

Lemma serialize_lw t v w : has_type t v = true -> serialize t v lw_ops w = Ok tt (w ++ spec_enc t v).
Proof.
  intros Hv.
  destruct (serialize_fits t v Hv LW lw_ops _ _ lw_appender w 0 I) as (w' & E & V & _).
  rewrite E. cbn in V. rewrite V. reflexivity.
Qed.

Lemma sel_wf b32 : wf (sel_ty b32) = true.  Proof. reflexivity. Qed.

Definition sel_ok (b32 : bool) (sel : N) : Prop := sel < (if b32 then 2 ^ 32 else 2 ^ 64).

Lemma sel_typed b32 sel : sel_ok b32 sel -> has_type (sel_ty b32) (VInt (Z.of_N sel)) = true.
Proof.
  unfold sel_ok. intros H. destruct b32; cbn; unfold in_range; cbn;
    apply andb_true_intro; split; [apply Z.leb_le|apply Z.ltb_lt|apply Z.leb_le|apply Z.ltb_lt]; lia.
Qed.

Theorem send_request_bytes b32 sel ats args w :
  sel_ok b32 sel -> has_type (args_ty ats) (VSeq args) = true ->
  send_request b32 sel ats args w = Ok tt (w ++ request_bytes b32 sel ats args).
Proof.
  intros Hs Ha. unfold send_request, request_bytes.
  rewrite (serialize_lw _ _ _ (sel_typed b32 sel Hs)). cbn [bind].
  rewrite (serialize_lw _ _ _ Ha), app_assoc. reflexivity.
Qed.

(* ---- one call -------------------------------------------------------------------------- *)
(* the dispatcher invokes exactly the selected handler, exactly once, with the argument
   values the caller sent, replies with exactly the handler's value, consumes exactly
   the request, and the caller's GetReturn yields that value *)
Theorem dispatch_bound b32 bs pass sel i b args rest out log :
  sel_ok b32 sel -> lookup sel bs 0 = Some (i, b) ->
  wf (args_ty (b_args b)) = true -> has_type (args_ty (b_args b)) (VSeq args) = true ->
  wf (b_ret b) = true -> has_type (b_ret b) (b_fn b pass args) = true ->
  dispatch b32 bs pass (request_bytes b32 sel (b_args b) args ++ rest, out, log) =
    Ok tt (rest, out ++ spec_enc (b_ret b) (b_fn b pass args),
           log ++ [{| k_idx := i; k_pass := pass; k_args := args |}]) /\
  forall rest', get_return (b_ret b) (spec_enc (b_ret b) (b_fn b pass args) ++ rest') = Ok (b_fn b pass args) rest'.
Proof.
  intros Hs Hl Hwa Hta Hwr Htr. split.
  - unfold dispatch, request_bytes. rewrite <- app_assoc.
    rewrite (dec_enc _ _ _ (sel_wf b32) (sel_typed b32 sel Hs)). rewrite N2Z.id, Hl.
    rewrite (dec_enc _ _ _ Hwa Hta). rewrite (serialize_lw _ _ _ Htr). reflexivity.
  - intros rest'. apply dec_enc; assumption.
Qed.

(* a selector with no bound handler: InvalidInterfaceMethod, no handler runs, nothing is
   sent back (whatever follows the selector) *)
Theorem dispatch_unbound b32 bs pass sel rest out log :
  sel_ok b32 sel -> lookup sel bs 0 = None ->
  dispatch b32 bs pass (spec_enc (sel_ty b32) (VInt (Z.of_N sel)) ++ rest, out, log) =
    Err EInterfaceMethod (rest, out, log).
Proof.
  intros Hs Hl. unfold dispatch.
  rewrite (dec_enc _ _ _ (sel_wf b32) (sel_typed b32 sel Hs)). rewrite N2Z.id, Hl. reflexivity.
Qed.

(* a request whose selector does not decode, or whose arguments do not decode under the
   handler's types: that decode error, no handler runs, nothing is sent back *)
Theorem dispatch_bad_selector b32 bs pass inp e inp1 out log :
  dec (sel_ty b32) lr_ops inp = Err e inp1 ->
  dispatch b32 bs pass (inp, out, log) = Err e (inp1, out, log).
Proof. intros E. unfold dispatch. rewrite E. reflexivity. Qed.

Theorem dispatch_bad_arguments b32 bs pass sel i b inp e inp2 out log :
  sel_ok b32 sel -> lookup sel bs 0 = Some (i, b) ->
  dec (args_ty (b_args b)) lr_ops inp = Err e inp2 ->
  dispatch b32 bs pass (spec_enc (sel_ty b32) (VInt (Z.of_N sel)) ++ inp, out, log) = Err e (inp2, out, log).
Proof.
  intros Hs Hl E. unfold dispatch.
  rewrite (dec_enc _ _ _ (sel_wf b32) (sel_typed b32 sel Hs)). rewrite N2Z.id, Hl, E. reflexivity.
Qed.

(* whatever the input: a failing dispatch either ran no handler and left the reply stream
   untouched, or it is the reply writer that failed after the handler ran *)
Theorem dispatch_failure_is_silent b32 bs pass inp out log e inp' out' log' :
  dispatch b32 bs pass (inp, out, log) = Err e (inp', out', log') ->
  (log' = log /\ out' = out) \/
  (exists i b args, log' = log ++ [{| k_idx := i; k_pass := pass; k_args := args |}] /\
                    serialize (b_ret b) (b_fn b pass args) lw_ops out = Err e out').
Proof.
  intros E. unfold dispatch in E.
  destruct (dec (sel_ty b32) lr_ops inp) as [v inp1|e1 inp1]; [|injection E as <- <- <- <-; left; auto].
  destruct v; try (injection E as <- <- <- <-; left; auto).
  destruct (lookup (Z.to_N z) bs 0) as [[i b]|]; [|injection E as <- <- <- <-; left; auto].
  destruct (dec (args_ty (b_args b)) lr_ops inp1) as [v2 inp2|e2 inp2]; [|injection E as <- <- <- <-; left; auto].
  destruct v2; try (injection E as <- <- <- <-; left; auto).
  destruct (serialize (b_ret b) (b_fn b pass vs) lw_ops out) as [u o|e3 o] eqn:Es; [discriminate|].
  injection E as <- <- <- <-. right. exists i, b, vs. split; [reflexivity|exact Es].
Qed.

(* whatever the input (any integer class for the selector, any accepted encoding of the
   arguments, trailing bytes): a dispatch that succeeds ran exactly one handler -- the one
   the lookup gives for the selector ON THE WIRE --, with exactly the arguments decoded
   under that handler's own types, consumed exactly selector + arguments, and appended
   exactly the serialization of that handler's return value *)
Theorem dispatch_success_any_input b32 bs pass inp out log inp' out' log' :
  dispatch b32 bs pass (inp, out, log) = Ok tt (inp', out', log') ->
  exists s inp1 i b args,
    dec (sel_ty b32) lr_ops inp = Ok (VInt s) inp1 /\
    lookup (Z.to_N s) bs 0 = Some (i, b) /\
    dec (args_ty (b_args b)) lr_ops inp1 = Ok (VSeq args) inp' /\
    log' = log ++ [{| k_idx := i; k_pass := pass; k_args := args |}] /\
    serialize (b_ret b) (b_fn b pass args) lw_ops out = Ok tt out'.
Proof.
  intros E. unfold dispatch in E.
  destruct (dec (sel_ty b32) lr_ops inp) as [v inp1|e1 inp1] eqn:E1; [|discriminate].
  destruct v; try discriminate.
  destruct (lookup (Z.to_N z) bs 0) as [[i b]|] eqn:El; [|discriminate].
  destruct (dec (args_ty (b_args b)) lr_ops inp1) as [v2 inp2|e2 inp2] eqn:E2; [|discriminate].
  destruct v2; try discriminate.
  destruct (serialize (b_ret b) (b_fn b pass vs) lw_ops out) as [u o|e3 o] eqn:Es; [|discriminate].
  injection E as <- <- <-. destruct u.
  exists z, inp1, i, b, vs. repeat split; try reflexivity; assumption.
Qed.

(* hence, on any input, one dispatch runs at most one handler *)
Theorem dispatch_at_most_one_handler b32 bs pass inp out log r inp' out' log' :
  dispatch b32 bs pass (inp, out, log) = r ->
  (r = Ok tt (inp', out', log') \/ exists e, r = Err e (inp', out', log')) ->
  log' = log \/ exists c, log' = log ++ [c].
Proof.
  intros E [->|[e ->]].
  - apply dispatch_success_any_input in E. destruct E as (s & inp1 & i & b & args & _ & _ & _ & -> & _).
    right. eexists. reflexivity.
  - apply dispatch_failure_is_silent in E. destruct E as [[-> _]|(i & b & args & -> & _)]; [left; reflexivity|].
    right. eexists. reflexivity.
Qed.

(* the lookup finds a binding with the requested selector, and with unique selectors
   (InterfaceAPI's static_assert) it is the only one *)
Lemma lookup_sound sel bs k i b : lookup sel bs k = Some (i, b) ->
  b_sel b = sel /\ (k <= i)%nat /\ nth_error bs (i - k) = Some b.
Proof.
  revert k. induction bs as [|a bs IH]; intros k H; cbn in H; [discriminate|].
  destruct (lookup sel bs (S k)) as [[j c]|] eqn:E.
  - injection H as -> ->. destruct (IH _ E) as (H1 & H2 & H3). split; [exact H1|]. split; [lia|].
    replace (i - k)%nat with (S (i - S k)) by lia. exact H3.
  - destruct (N.eqb_spec (b_sel a) sel); [|discriminate]. injection H as <- <-.
    split; [assumption|]. split; [lia|]. rewrite Nat.sub_diag. reflexivity.
Qed.

Lemma lookup_none sel bs k : lookup sel bs k = None <-> Forall (fun b => b_sel b <> sel) bs.
Proof.
  revert k. induction bs as [|a bs IH]; intros k; cbn; [split; auto|].
  destruct (lookup sel bs (S k)) as [[j c]|] eqn:E.
  - split; [discriminate|]. intros H. inversion H as [|? ? _ Hr]; subst. apply (IH (S k)) in Hr. congruence.
  - destruct (N.eqb_spec (b_sel a) sel).
    + split; [discriminate|]. intros H. inversion H; subst. contradiction.
    + split; [|reflexivity]. intros _. constructor; [assumption|]. apply (IH (S k)), E.
Qed.

(* ---- call sequences stay in frame ------------------------------------------------------ *)
Record rcall := { rc_sel : N; rc_args : list val }.

Fixpoint serve (b32 : bool) (bs : list binding) (pass : list val) (n : nat) (st : sstate) : res unit sstate :=
  match n with
  | O => Ok tt st
  | S n' => do _, st <- dispatch b32 bs pass st; serve b32 bs pass n' st
  end.

(* the requests, replies and handler log of a list of calls *)
Fixpoint requests b32 bs (cs : list rcall) : bytes :=
  match cs with
  | [] => []
  | c :: r =>
      match lookup (rc_sel c) bs 0 with
      | Some (_, b) => request_bytes b32 (rc_sel c) (b_args b) (rc_args c) ++ requests b32 bs r
      | None => []
      end
  end.
Fixpoint replies bs pass (cs : list rcall) : bytes :=
  match cs with
  | [] => []
  | c :: r =>
      match lookup (rc_sel c) bs 0 with
      | Some (_, b) => spec_enc (b_ret b) (b_fn b pass (rc_args c)) ++ replies bs pass r
      | None => []
      end
  end.
Fixpoint calls_log bs pass (cs : list rcall) : list rpc_call :=
  match cs with
  | [] => []
  | c :: r =>
      match lookup (rc_sel c) bs 0 with
      | Some (i, _) => {| k_idx := i; k_pass := pass; k_args := rc_args c |} :: calls_log bs pass r
      | None => []
      end
  end.

Definition call_ok b32 bs pass (c : rcall) : Prop :=
  sel_ok b32 (rc_sel c) /\
  exists i b, lookup (rc_sel c) bs 0 = Some (i, b) /\
    wf (args_ty (b_args b)) = true /\ has_type (args_ty (b_args b)) (VSeq (rc_args c)) = true /\
    wf (b_ret b) = true /\ has_type (b_ret b) (b_fn b pass (rc_args c)) = true.

Theorem serve_in_frame b32 bs pass cs : Forall (call_ok b32 bs pass) cs ->
  forall rest out log,
  serve b32 bs pass (length cs) (requests b32 bs cs ++ rest, out, log) =
    Ok tt (rest, out ++ replies bs pass cs, log ++ calls_log bs pass cs).
Proof.
  induction 1 as [|c cs (Hs & i & b & Hl & Hwa & Hta & Hwr & Htr) _ IH]; intros rest out log.
  - cbn. rewrite !app_nil_r. reflexivity.
  - cbn [length serve requests replies calls_log]. rewrite Hl. rewrite <- app_assoc.
    destruct (dispatch_bound b32 bs pass (rc_sel c) i b (rc_args c) (requests b32 bs cs ++ rest) out log
                Hs Hl Hwa Hta Hwr Htr) as [E _].
    rewrite E. cbn [bind]. rewrite IH. rewrite <- !app_assoc. reflexivity.
Qed.

(* the caller reads the replies back one by one, each exactly its own *)
Theorem replies_in_frame b32 bs pass c cs rest : call_ok b32 bs pass c ->
  match lookup (rc_sel c) bs 0 with
  | Some (_, b) =>
      get_return (b_ret b) (replies bs pass (c :: cs) ++ rest) =
        Ok (b_fn b pass (rc_args c)) (replies bs pass cs ++ rest)
  | None => False
  end.
Proof.
  intros (Hs & i & b & Hl & Hwa & Hta & Hwr & Htr). cbn [replies]. rewrite Hl.
  rewrite <- app_assoc. apply dec_enc; assumption.
Qed.

(* any connection, any bytes: n dispatches run at most n handlers, each appended to the log
   in order (nothing is removed or rewritten), whether or not the run ends in an error *)
Theorem serve_handlers_bounded b32 bs pass n : forall inp out log,
  exists l, snd (res_state (serve b32 bs pass n (inp, out, log))) = log ++ l /\ (length l <= n)%nat.
Proof.
  induction n as [|n IH]; intros inp out log.
  - exists []. cbn. rewrite app_nil_r. split; [reflexivity|apply le_n].
  - cbn [serve].
    destruct (dispatch b32 bs pass (inp, out, log)) as [u [[inp' out'] log']|e [[inp' out'] log']] eqn:E.
    + destruct u. apply dispatch_success_any_input in E.
      destruct E as (s & inp1 & i & b & args & _ & _ & _ & -> & _). cbn [bind].
      destruct (IH inp' out' (log ++ [{| k_idx := i; k_pass := pass; k_args := args |}])) as (l & -> & Hl).
      exists ({| k_idx := i; k_pass := pass; k_args := args |} :: l). rewrite <- app_assoc. split; [reflexivity|].
      cbn [length]. apply le_n_S, Hl.
    + cbn [bind res_state snd].
      apply dispatch_failure_is_silent in E. destruct E as [[-> _]|(i & b & args & -> & _)].
      * exists []. rewrite app_nil_r. split; [reflexivity|apply Nat.le_0_l].
      * eexists. split; [reflexivity|]. cbn [length]. apply le_n_S, Nat.le_0_l.
Qed.
