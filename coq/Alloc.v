(* Alloc.v — a successful read never materialises more container elements than it consumed
   bytes (C02: "never allocates more than a type-dependent constant multiple of the input
   length"): every element of a sequence, string, map, tuple or structure that ends up in
   the decoded value cost at least one input byte, at every nesting depth, also through
   table entries read over BoundedReader.  The bytes a C++ destination allocates are
   (number of elements) x (object size of the element type), the type-dependent constant. *)
From Nop Require Import Spec Sim ScalarRT Sound.
From Coq Require Import Lia.
Local Open Scope N_scope.

Fixpoint vweight (v : val) : N :=
  match v with
  | VSeq vs => nlen vs + (fix go (l : list val) : N := match l with [] => 0 | x :: r => vweight x + go r end) vs
  | VMap kvs => nlen kvs + (fix go (l : list (val * val)) : N :=
                              match l with [] => 0 | (k, x) :: r => vweight k + vweight x + go r end) kvs
  | VSome x | VOk x | VAlt _ x => vweight x
  | VTab xs => (fix go (l : list val) : N := match l with [] => 0 | x :: r => vweight x + go r end) xs
  | _ => 0
  end.

Fixpoint wsum (l : list val) : N := match l with [] => 0 | x :: r => vweight x + wsum r end.
Fixpoint wsum2 (l : list (val * val)) : N := match l with [] => 0 | (k, x) :: r => vweight k + vweight x + wsum2 r end.
Lemma vweight_seq vs : vweight (VSeq vs) = nlen vs + wsum vs.
Proof. reflexivity. Qed.
Lemma vweight_map kvs : vweight (VMap kvs) = nlen kvs + wsum2 kvs.
Proof. reflexivity. Qed.
Lemma vweight_tab xs : vweight (VTab xs) = wsum xs.
Proof. reflexivity. Qed.
Lemma wsum_app a b : wsum (a ++ b) = wsum a + wsum b.
Proof. induction a as [|x a IH]; cbn [app wsum]; [reflexivity|]. rewrite IH. lia. Qed.
Lemma wsum_rev l : wsum (rev l) = wsum l.
Proof. induction l as [|x l IH]; cbn [rev wsum]; [reflexivity|]. rewrite wsum_app, IH. cbn [wsum]. lia. Qed.
Lemma wsum2_app a b : wsum2 (a ++ b) = wsum2 a + wsum2 b.
Proof. induction a as [|[k x] a IH]; cbn [app wsum2]; [reflexivity|]. rewrite IH. lia. Qed.
Lemma nlen_cons {A} (x : A) l : nlen (x :: l) = 1 + nlen l.
Proof. unfold nlen. cbn [length]. lia. Qed.
Lemma nlen_app' {A} (a b : list A) : nlen (a ++ b) = nlen a + nlen b.
Proof. unfold nlen. rewrite app_length. lia. Qed.

Lemma wsum_ints l : (forall x, In x l -> exists z, x = VInt z) -> wsum l = 0.
Proof. induction l as [|x l IH]; intros H; cbn [wsum]; [reflexivity|]. destruct (H x (or_introl eq_refl)) as [z ->]. rewrite IH; [reflexivity|]. intros y Hy. apply H. right. exact Hy. Qed.
Lemma wsum_unraw w sg n bs : wsum (unraw w sg n bs) = 0.
Proof. apply wsum_ints. unfold unraw. intros x Hx. apply in_map_iff in Hx. destruct Hx as (c & <- & _). eauto. Qed.
Lemma length_unraw w sg n bs : nlen (unraw w sg n bs) = n.
Proof.
  unfold unraw, nlen. rewrite map_length. assert (L : forall k b, length (chunks w k b) = k) by (induction k; intros; cbn; auto).
  rewrite L. apply N2Nat.id.
Qed.

(* ---- readers whose remaining input can be measured ------------------------------------------- *)
Record measured {R} (o : rops R) (rem : R -> N) : Prop := {
  ms_ensure : forall n r u r', r_ensure o n r = Ok u r' -> rem r' = rem r;
  ms_read1 : forall r b r', r_read1 o r = Ok b r' -> rem r = 1 + rem r';
  ms_readn : forall n r bs r', r_readn o n r = Ok bs r' -> rem r = n + rem r';
  ms_skip : forall n r u r', r_skip o n r = Ok u r' -> rem r = n + rem r';
  ms_gethandle : forall ref r h r', r_gethandle o ref r = Ok h r' -> rem r' = rem r
}.

Lemma lr_measured : measured lr_ops (fun r => nlen r).
Proof.
  split; cbn [lr_ops r_ensure r_read1 r_readn r_skip r_gethandle].
  - intros n r u r' H. destruct (n <=? _); [injection H as _ <-; reflexivity|discriminate].
  - intros r b r' H. destruct r as [|x r]; [discriminate|]. injection H as _ <-. apply nlen_cons.
  - intros n r bs r' H. destruct (take_n n r) as [[a b]|] eqn:E; [|discriminate]. injection H as _ <-.
    destruct (take_n_spec _ _ _ _ E) as [-> L]. rewrite nlen_app', L. reflexivity.
  - intros n r u r' H. destruct (take_n n r) as [[a b]|] eqn:E; [|discriminate]. injection H as _ <-.
    destruct (take_n_spec _ _ _ _ E) as [-> L]. rewrite nlen_app', L. reflexivity.
  - intros ref r h r' H. injection H as _ <-. reflexivity.
Qed.

Lemma bounded_measured {R} (o : rops R) rem : measured o rem -> measured (bounded_rops o) (fun b => rem (b_inner b)).
Proof.
  intros M. split; cbn [bounded_rops r_ensure r_read1 r_readn r_skip r_gethandle].
  - intros n b u b' H. destruct (_ <? n); [discriminate|].
    destruct (b_keep_ok _ _ _ _ H) as (x & E & ->). rewrite (ms_ensure _ _ M _ _ _ _ E). reflexivity.
  - intros b x b' H. destruct (_ <? _); [|discriminate].
    destruct (b_lift_ok _ _ _ _ _ H) as (y & E & ->). apply (ms_read1 _ _ M _ _ _ E).
  - intros n b bs b' H. destruct (_ <? n); [discriminate|].
    destruct (b_lift_ok _ _ _ _ _ H) as (y & E & ->). apply (ms_readn _ _ M _ _ _ _ E).
  - intros n b u b' H. destruct (_ <? n); [discriminate|].
    destruct (b_lift_ok _ _ _ _ _ H) as (y & E & ->). apply (ms_skip _ _ M _ _ _ _ E).
  - intros ref b h b' H.
    destruct (b_keep_ok _ _ _ _ H) as (x & E & ->). rewrite (ms_gethandle _ _ M _ _ _ _ E). reflexivity.
Qed.

Section Measured.
  Context {R : Type} (o : rops R) (rem : R -> N).
  Hypothesis M : measured o rem.

  Lemma read_scalar_payload_rem s p r z r' : read_scalar_payload o s p r = Ok z r' -> rem r' <= rem r.
  Proof.
    unfold read_scalar_payload. destruct s; try (intros H; injection H as _ <-; lia);
      (destruct (class_len p =? 0)%nat; [intros H; injection H as _ <-; lia|]);
      intros H; apply bind_ok in H; destruct H as (bs & r1 & E1 & E2); injection E2 as _ <-;
      rewrite (ms_readn _ _ M _ _ _ _ E1); lia.
  Qed.
  Lemma read_scalar_rem s r z r' : read_scalar o s r = Ok z r' -> rem r' + 1 <= rem r.
  Proof.
    unfold read_scalar. intros H. apply bind_ok in H. destruct H as (p & r1 & E1 & E2).
    destruct (scalar_match s p); [|discriminate]. pose proof (read_scalar_payload_rem _ _ _ _ _ E2).
    rewrite (ms_read1 _ _ M _ _ _ E1). lia.
  Qed.
  Lemma read_u64_rem r n r' : read_u64 o r = Ok n r' -> rem r' + 1 <= rem r.
  Proof. unfold read_u64. intros H. apply rmap_ok in H. destruct H as (z & E & _). exact (read_scalar_rem _ _ _ _ E). Qed.

  Lemma dec_with_rem (m : N -> bool) (dp : N -> R -> res val R) (w : val -> N) r v r' :
    (forall p r1 v r2, dp p r1 = Ok v r2 -> rem r2 + w v <= rem r1) ->
    dec_with o m dp r = Ok v r' -> rem r' + w v + 1 <= rem r.
  Proof.
    intros Hd H. unfold dec_with in H. apply bind_ok in H. destruct H as (p & r1 & E1 & E2).
    destruct (m p); [|discriminate]. pose proof (Hd _ _ _ _ E2). rewrite (ms_read1 _ _ M _ _ _ E1). lia.
  Qed.

  Lemma loop_res_inv {X} (Q : nat -> X -> R -> Prop) n (f : X -> R -> res X R) x r x' r' :
    (forall i a s a' s', Q i a s -> f a s = Ok a' s' -> Q (S i) a' s') ->
    Q O x r -> loop_res n f x r = Ok x' r' -> Q (N.to_nat n) x' r'.
  Proof.
    intros Hf. rewrite loop_res_nat. generalize (N.to_nat n) as k. intros k.
    assert (Gen : forall k i x r, Q i x r -> loop_nat k f x r = Ok x' r' -> Q (i + k)%nat x' r').
    { clear k. induction k as [|k IH]; intros i y s Hq H; cbn [loop_nat] in H.
      - injection H as <- <-. rewrite Nat.add_0_r. exact Hq.
      - destruct (f y s) as [y1 s1|e s1] eqn:E; [|discriminate].
        replace (i + S k)%nat with (S i + k)%nat by lia. exact (IH (S i) y1 s1 (Hf i y s y1 s1 Hq E) H). }
    intros Hq H. exact (Gen k O x r Hq H).
  Qed.

  Lemma skip_entry_rem r u r' : skip_entry o r = Ok u r' -> rem r' <= rem r.
  Proof.
    unfold skip_entry. intros H. apply bind_ok in H. destruct H as (sz & r1 & E1 & E2).
    pose proof (read_u64_rem _ _ _ E1). rewrite (ms_skip _ _ M _ _ _ _ E2) in *. lia.
  Qed.
End Measured.

Definition weight_bounded (t : ty) : Prop := forall p R (o : rops R) rem, measured o rem ->
  forall r v r', decp t p R o r = Ok v r' -> rem r' + vweight v <= rem r.

Lemma elem_weight t : weight_bounded t -> forall R (o : rops R) rem, measured o rem ->
  forall r v r', dec_with o (tmatch t) (fun p r => decp t p R o r) r = Ok v r' -> rem r' + vweight v + 1 <= rem r.
Proof.
  intros S R o rem M r v r' H.
  apply (dec_with_rem o rem M (tmatch t) (fun p r => decp t p R o r) vweight r v r'); [|exact H].
  intros p r1 v1 r2 E. exact (S p R o rem M r1 v1 r2 E).
Qed.

Theorem decp_weight : forall t, weight_bounded t.
Proof.
  induction t using ty_ind'; intros p R o rem M r v r' Hd; cbn [decp] in Hd.
  - (* scalar *)
    apply rmap_ok in Hd. destruct Hd as (z & E & ->). pose proof (read_scalar_payload_rem o rem M _ _ _ _ _ E). cbn [vweight]. lia.
  - (* string *)
    apply bind_ok in Hd. destruct Hd as (len & r1 & E1 & Hd). pose proof (read_u64_rem o rem M _ _ _ E1) as L1.
    destruct (negb (len mod cw =? 0)); [discriminate|].
    apply bind_ok in Hd. destruct Hd as (u & r2 & E2 & Hd). pose proof (ms_ensure _ _ M _ _ _ _ E2) as L2.
    apply bind_ok in Hd. destruct Hd as (bs & r3 & E3 & Hd). pose proof (ms_readn _ _ M _ _ _ _ E3) as L3.
    injection Hd as <- <-. rewrite vweight_seq, wsum_unraw, length_unraw.
    assert (len / cw <= len) by (destruct (N.eq_dec cw 0) as [->|Hc]; [destruct len; cbn; lia|apply N.div_le_upper_bound; nia]). lia.
  - (* sequence *)
    destruct (raw_kind t) as [[w sg]|] eqn:Rk.
    + pose proof (raw_kind_width _ _ _ Rk) as Hw.
      apply bind_ok in Hd. destruct Hd as (len & r1 & E1 & Hd). pose proof (read_u64_rem o rem M _ _ _ E1) as L1.
      assert (Dv : len / N.of_nat w <= len) by (apply N.div_le_upper_bound; nia).
      destruct c as [|ca n|ca cap sk unb].
      * destruct (negb (len mod N.of_nat w =? 0)); [discriminate|].
        apply bind_ok in Hd. destruct Hd as (u & r2 & E2 & Hd). pose proof (ms_ensure _ _ M _ _ _ _ E2) as L2.
        apply bind_ok in Hd. destruct Hd as (bs & r3 & E3 & Hd). pose proof (ms_readn _ _ M _ _ _ _ E3) as L3.
        injection Hd as <- <-. rewrite vweight_seq, wsum_unraw, length_unraw. lia.
      * destruct (negb (len =? n * N.of_nat w)) eqn:En; [discriminate|]. apply negb_false_iff, N.eqb_eq in En.
        apply bind_ok in Hd. destruct Hd as (bs & r3 & E3 & Hd). pose proof (ms_readn _ _ M _ _ _ _ E3) as L3.
        injection Hd as <- <-. rewrite vweight_seq, wsum_unraw, length_unraw. nia.
      * destruct (_ || _); [discriminate|].
        apply bind_ok in Hd. destruct Hd as (bs & r3 & E3 & Hd). pose proof (ms_readn _ _ M _ _ _ _ E3) as L3.
        injection Hd as <- <-. rewrite vweight_seq, wsum_unraw, length_unraw. lia.
    + apply bind_ok in Hd. destruct Hd as (n & r1 & E1 & Hd). pose proof (read_u64_rem o rem M _ _ _ E1) as L1.
      destruct (negb _); [discriminate|].
      apply bind_ok in Hd. destruct Hd as (vs & r2 & E2 & Hd). injection Hd as <- <-.
      apply (loop_res_inv (fun i acc s => rem s + nlen acc + wsum acc <= rem r1)) in E2.
      * rewrite vweight_seq, wsum_rev. unfold nlen in *. rewrite rev_length. lia.
      * intros i acc s acc' s' Hq Hs. apply bind_ok in Hs. destruct Hs as (x & s1 & Ex & Hs). injection Hs as <- <-.
        pose proof (elem_weight t IHt R o rem M s x s1 Ex). rewrite nlen_cons. cbn [wsum]. lia.
      * cbn. lia.
  - (* tuple *)
    apply bind_ok in Hd. destruct Hd as (n & r1 & E1 & Hd). pose proof (read_u64_rem o rem M _ _ _ E1) as L1.
    destruct (negb (n =? nlen ts)); [discriminate|].
    apply bind_ok in Hd. destruct Hd as (vs & r2 & E2 & Hd). injection Hd as <- <-. rewrite vweight_seq.
    assert (P : rem r2 + nlen vs + wsum vs <= rem r1); [|lia].
    clear E1 L1. revert r1 vs E2. induction H as [|t ts Ht _ IHts]; intros r1 vs E2.
    + injection E2 as <- <-. cbn. lia.
    + apply bind_ok in E2. destruct E2 as (x & s1 & Ex & E2). apply bind_ok in E2. destruct E2 as (xs & s2 & Exs & E2).
      injection E2 as <- <-. pose proof (elem_weight t Ht R o rem M r1 x s1 Ex). pose proof (IHts s1 xs Exs).
      rewrite nlen_cons. cbn [wsum]. lia.
  - (* wrapper *) exact (IHt p R o rem M r v r' Hd).
  - (* map *)
    apply bind_ok in Hd. destruct Hd as (n & r1 & E1 & Hd). pose proof (read_u64_rem o rem M _ _ _ E1) as L1.
    apply bind_ok in Hd. destruct Hd as (kvs & r2 & E2 & Hd). injection Hd as <- <-. rewrite vweight_map.
    apply (loop_res_inv (fun i acc s => rem s + nlen acc + wsum2 acc <= rem r1)) in E2; [lia| |cbn; lia].
    intros i acc s acc' s' Hq Hs. apply bind_ok in Hs. destruct Hs as (k & s1 & Ek & Hs).
    apply bind_ok in Hs. destruct Hs as (x & s2 & Ex & Hs). injection Hs as <- <-.
    pose proof (elem_weight t1 IHt1 R o rem M s k s1 Ek). pose proof (elem_weight t2 IHt2 R o rem M s1 x s2 Ex).
    unfold map_emplace. destruct (existsb _ acc); [lia|]. rewrite nlen_app', wsum2_app. cbn [wsum2]. unfold nlen at 2. cbn [length]. lia.
  - (* optional *)
    destruct (p =? P_NIL).
    + injection Hd as <- <-. cbn. lia.
    + apply rmap_ok in Hd. destruct Hd as (x & E & ->). exact (IHt p R o rem M r x r' E).
  - (* result *)
    destruct (p =? P_ERR).
    + apply rmap_ok in Hd. destruct Hd as (e & E & ->). pose proof (read_scalar_rem o rem M _ _ _ _ E). cbn [vweight]. lia.
    + apply rmap_ok in Hd. destruct Hd as (x & E & ->). exact (IHt p R o rem M r x r' E).
  - (* variant *)
    apply bind_ok in Hd. destruct Hd as (i & r1 & E1 & Hd). pose proof (read_scalar_rem o rem M _ _ _ _ E1) as L1.
    destruct (_ || _); [discriminate|].
    destruct (i =? -1)%Z.
    + unfold dec_with in Hd. apply bind_ok in Hd. destruct Hd as (q & s1 & Eq & Hd). destruct (q =? P_NIL); [|discriminate].
      injection Hd as <- <-. pose proof (ms_read1 _ _ M _ _ _ Eq). cbn [vweight]. lia.
    + assert (P : rem r' + vweight v <= rem r1); [|lia].
      clear E1 L1. revert Hd. generalize (Z.to_nat i) as n. induction H as [|t ts Ht _ IHts]; intros n Hd; [discriminate|].
      destruct n as [|n]; [|exact (IHts n Hd)].
      apply rmap_ok in Hd. destruct Hd as (x & E & ->). pose proof (elem_weight t Ht R o rem M r1 x r' E). cbn [vweight]. lia.
  - (* handle *)
    apply bind_ok in Hd. destruct Hd as (tg & r1 & E1 & Hd). pose proof (read_scalar_rem o rem M _ _ _ _ E1) as L1.
    destruct (negb (tg =? tag)%Z); [discriminate|].
    apply bind_ok in Hd. destruct Hd as (ref & r2 & E2 & Hd). pose proof (read_scalar_rem o rem M _ _ _ _ E2) as L2.
    apply bind_ok in Hd. destruct Hd as (h & r3 & E3 & Hd). injection Hd as <- <-.
    rewrite (ms_gethandle _ _ M _ _ _ _ E3). cbn [vweight]. lia.
  - (* table *)
    apply bind_ok in Hd. destruct Hd as (hh & r1 & E1 & Hd). pose proof (read_u64_rem o rem M _ _ _ E1) as L1.
    destruct (negb (hh =? h)); [discriminate|].
    apply bind_ok in Hd. destruct Hd as (count & r2 & E2 & Hd). pose proof (read_u64_rem o rem M _ _ _ E2) as L2.
    apply bind_ok in Hd. destruct Hd as (slots & r3 & E3 & Hd). injection Hd as <- <-. rewrite vweight_tab.
    apply (loop_res_inv (fun i sl s => rem s + wsum sl <= rem r2)) in E3; [lia| |].
    + intros i sl s sl' s' Hq Hstep. apply bind_ok in Hstep. destruct Hstep as (id & s1 & Eid & Hstep).
      pose proof (read_u64_rem o rem M _ _ _ Eid) as Lid.
      assert (P : rem s' + wsum sl' <= rem s1 + wsum sl); [|lia].
      clear Eid Lid Hq E3 E2 E1 L1 L2. revert sl sl' s1 s' Hstep.
      induction H as [|[[eid act] t'] es Ht _ IHes]; intros sl sl' s1 s' Hstep; cbn [map find_entry] in Hstep.
      * apply bind_ok in Hstep. destruct Hstep as (u & s2 & Es & Hstep). injection Hstep as <- <-.
        pose proof (skip_entry_rem o rem M _ _ _ Es). lia.
      * destruct sl as [|x sl].
        { apply bind_ok in Hstep. destruct Hstep as (u & s2 & Es & Hstep). injection Hstep as <- <-.
          pose proof (skip_entry_rem o rem M _ _ _ Es). lia. }
        cbn [snd] in Ht. destruct (eid =? id).
        { destruct act.
          - destruct x; try discriminate.
            apply bind_ok in Hstep. destruct Hstep as (y & s2 & Ey & Hstep). injection Hstep as <- <-.
            unfold framed_read in Ey. apply bind_ok in Ey. destruct Ey as (sz & s3 & Esz & Ey).
            pose proof (read_u64_rem o rem M _ _ _ Esz) as L3.
            destruct (dec_with (bounded_rops o) (tmatch t') _ (b_make s3 sz)) as [y1 b|e b] eqn:Eb; [|discriminate].
            destruct (bounded_read_padding o b) as [u b'|e b'] eqn:Ep; [|discriminate]. injection Ey as <- <-.
            pose proof (elem_weight t' Ht (Bounded R) (bounded_rops o) _ (bounded_measured o rem M) (b_make s3 sz) y1 b Eb) as Lb.
            cbn [b_make b_inner fst] in Lb.
            unfold bounded_read_padding in Ep. destruct (b_lift_ok _ _ _ _ _ Ep) as (x2 & Esk & ->).
            pose proof (ms_skip _ _ M _ _ _ _ Esk) as Lk. cbn [wsum vweight]. lia.
          - apply bind_ok in Hstep. destruct Hstep as (u & s2 & Es & Hstep). injection Hstep as <- <-.
            pose proof (skip_entry_rem o rem M _ _ _ Es). lia. }
        { apply bind_ok in Hstep. destruct Hstep as (rest & s2 & Er & Hstep). injection Hstep as <- <-.
          pose proof (IHes sl rest s1 s2 Er). cbn [wsum]. lia. }
    + assert (Z0 : wsum (map (fun _ : N * bool * ty => VNone) es) = 0) by (clear; induction es; cbn; auto). rewrite Z0. lia.
Qed.

(* Deserializer::Read over the list reader: elements materialised <= bytes consumed *)
Theorem dec_weight t (bs : bytes) v rest : dec t lr_ops bs = Ok v rest -> nlen rest + vweight v + 1 <= nlen bs.
Proof. intros H. exact (elem_weight t (decp_weight t) LR lr_ops _ lr_measured bs v rest H). Qed.

Example weight_nonvacuous :
  let t := TSeq CVec (TTuple KPair [TStr 1; TOpt (TScalar 0 (SInt U8))]) in
  exists v rest, dec t lr_ops [186; 2; 186; 2; 189; 1; 97; 190; 186; 2; 189; 0; 7] = Ok v rest /\ vweight v = 7 /\ rest = [].
Proof. eexists. eexists. split; [vm_compute; reflexivity|split; reflexivity]. Qed.
