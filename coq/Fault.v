(* Fault.v — C10: an I/O error at the k-th primitive call stops the operation:
   no further call is issued and that same error code is returned; success is
   never reported after a failed call.  Holds for arbitrary wrapped readers and
   writers (which may fail on their own as well). *)
From Nop Require Import Spec Sim WSim.
Local Open Scope N_scope.

Definition ncalls {X} (s : inst X) : N := N.of_nat (length (i_log s)).

Section Fault.
  Variables (k fe : N).

  (* before the fault: same state, fault armed, fewer than k+1 calls made *)
  Definition armed {X} (s1 s2 : inst X) : Prop :=
    s1 = s2 /\ i_fault s1 = Some (k, fe) /\ ncalls s1 <= k.

  (* after an error: either the injected fault just fired (exactly k+1 calls,
     its code is the result) or something else failed earlier *)
  Definition stopped {X} (e : N) (s1 : inst X) (f : N) (s2 : inst X) : Prop :=
    s1 = s2 /\ e = f /\ ((ncalls s1 = k + 1 /\ e = fe) \/ ncalls s1 <= k).

  Lemma i_step_fault {X A} (c : call) (s : inst X) (run : X -> res A X) :
    armed s s -> rel_resg true armed stopped (i_step c s run) (i_step c s run).
  Proof.
    intros (_ & Hf & Hn). unfold i_step. rewrite Hf. fold (ncalls s).
    destruct (N.eqb_spec k (ncalls s)) as [E|E].
    - cbn. unfold stopped, ncalls in *; cbn [i_log length]. split; [reflexivity|]. split; [reflexivity|].
      left. split; [lia|reflexivity].
    - destruct (run (i_inner s)) as [a x|e x]; cbn.
      + split; [reflexivity|]. unfold armed, ncalls in *; cbn [i_log i_fault length]. repeat split; try assumption; lia.
      + unfold stopped, ncalls in *; cbn [i_log length]. split; [reflexivity|]. split; [reflexivity|]. right. lia.
  Qed.

  Lemma armed_refl {X} (s1 s2 : inst X) : armed s1 s2 -> s1 = s2 /\ armed s1 s1.
  Proof. intros (-> & H). split; [reflexivity|]. split; [reflexivity|exact H]. Qed.

  Lemma inst_rops_fault {R} (o : rops R) : rops_relg true armed stopped (inst_rops o) (inst_rops o).
  Proof.
    split; cbn [inst_rops r_ensure r_read1 r_readn r_skip r_gethandle].
    - intros e s1 s2 (-> & Hf & Hn). unfold stopped. auto.
    - intros n s1 s2 H. destruct (armed_refl _ _ H) as [<- H']. apply i_step_fault, H'.
    - intros s1 s2 H. destruct (armed_refl _ _ H) as [<- H']. apply i_step_fault, H'.
    - intros n s1 s2 H. destruct (armed_refl _ _ H) as [<- H']. apply i_step_fault, H'.
    - intros n s1 s2 H. destruct (armed_refl _ _ H) as [<- H']. apply i_step_fault, H'.
    - intros h s1 s2 H. destruct (armed_refl _ _ H) as [<- H']. apply i_step_fault, H'.
  Qed.

  Lemma inst_wops_fault {W} (o : wops W) : wops_relg true armed stopped (inst_wops o) (inst_wops o).
  Proof.
    split; cbn [inst_wops w_prepare w_write1 w_writen w_skip w_pushhandle].
    - intros e s1 s2 (-> & Hf & Hn). unfold stopped. auto.
    - intros n s1 s2 H. destruct (armed_refl _ _ H) as [<- H']. apply i_step_fault, H'.
    - intros b s1 s2 H. destruct (armed_refl _ _ H) as [<- H']. apply i_step_fault, H'.
    - intros bs s1 s2 H. destruct (armed_refl _ _ H) as [<- H']. apply i_step_fault, H'.
    - intros n v s1 s2 H. destruct (armed_refl _ _ H) as [<- H']. apply i_step_fault, H'.
    - intros h s1 s2 H. destruct (armed_refl _ _ H) as [<- H']. apply i_step_fault, H'.
  Qed.

  (* outcome of a run started with the fault armed and no call made yet *)
  Definition stops_at_fault {A X} (m : res A (inst X)) : Prop :=
    match m with
    | Ok _ s => ncalls s <= k                    (* success: the failing call was never made *)
    | Err e s => (ncalls s = k + 1 /\ e = fe)    (* the failing call was the last one; its code is returned *)
                 \/ ncalls s <= k                (* or the operation failed earlier for another reason *)
    end.

  Lemma stops_of_rel {A X} (m : res A (inst X)) : rel_resg true armed stopped m m -> stops_at_fault m.
  Proof.
    unfold rel_resg, stops_at_fault. destruct m as [a s|e s].
    - intros (_ & _ & _ & H). exact H.
    - intros (_ & _ & H). exact H.
  Qed.

  Theorem read_stops_at_fault t {R} (o : rops R) (r : R) :
    stops_at_fault (dec t (inst_rops o) (inst_make r (Some (k, fe)))).
  Proof.
    apply stops_of_rel. unfold dec. apply dec_with_sim.
    - apply inst_rops_fault.
    - intros p s1 s2 H. apply decp_sim; [apply inst_rops_fault|exact H].
    - unfold armed, inst_make, ncalls; cbn. repeat split; lia.
  Qed.

  Theorem write_stops_at_fault t v {W} (o : wops W) (w : W) :
    stops_at_fault (serialize t v (inst_wops o) (inst_make w (Some (k, fe)))).
  Proof.
    apply stops_of_rel. apply serialize_sim.
    - apply inst_wops_fault.
    - unfold armed, inst_make, ncalls; cbn. repeat split; lia.
  Qed.
End Fault.

(* A Write whose Prepare fails writes nothing: Prepare is the first call. *)
Theorem prepare_failure_writes_nothing t v {W} (o : wops W) (w : W) fe :
  serialize t v (inst_wops o) (inst_make w (Some (0, fe))) =
  Err fe {| i_inner := w; i_log := [CPrepare (tsize t v)]; i_fault := Some (0, fe) |}.
Proof. reflexivity. Qed.
