(* Properties_C05.v — C05: a truncated message is never reported as
   successfully decoded.  Statements only; proofs in Readers.v. *)
From Nop Require Import Spec Sim EncSpec ScalarRT DecSpec Readers.
Local Open Scope N_scope.

(* A successful read never depends on the bytes that follow what it consumed. *)
Theorem C05_read_is_local : forall t bs v rest x,
  ldec t bs = Ok v rest -> ldec t (bs ++ x) = Ok v (rest ++ x).
Proof. exact dec_extend. Qed.
Print Assumptions C05_read_is_local.

(* If e is a complete valid encoding (the decoder accepts it and consumes all
   of it — canonical or not, with padding, skipped entries, wider integer
   classes), every strict prefix of e is rejected. *)
Theorem C05_truncation : forall t e v k,
  ldec t e = Ok v [] -> (k < length e)%nat ->
  forall v' r, ldec t (firstn k e) <> Ok v' r.
Proof. exact truncation_rejected. Qed.
Print Assumptions C05_truncation.

(* in particular every strict prefix of what the encoder writes *)
Theorem C05_truncated_write : forall t v k,
  wf t = true -> has_type t v = true -> (k < length (spec_enc t v))%nat ->
  forall v' r, ldec t (firstn k (spec_enc t v)) <> Ok v' r.
Proof.
  intros t v k Hw Hv Hk. apply (truncation_rejected t (spec_enc t v) v k); [|exact Hk].
  pose proof (dec_from_payload t v [] Hv (decp_payload t v Hw Hv [])) as H.
  rewrite app_nil_r in H. exact H.
Qed.
Print Assumptions C05_truncated_write.

(* The same on every reader that simulates ListReader (buffer readers,
   BoundedReader around any such reader — instances in Properties_C01.v):
   the read returns an error status. *)
Theorem C05_any_reader : forall t e v k R (rho : R -> LR -> Prop) (o : rops R) r,
  rops_rel true rho o lr_ops -> rho r (firstn k e) ->
  ldec t e = Ok v [] -> (k < length e)%nat ->
  exists err r', dec t o r = Err err r'.
Proof. intros t e v k R rho o r. exact (truncation_rejected_any_source t e v k rho o r). Qed.
Print Assumptions C05_any_reader.

(* non-vacuity: a two-entry table read by a definition that knows one entry,
   with padding: complete, and cut inside the skipped entry *)
Example C05_nonvacuous :
  let t := TTab 7 [(1, true, TScalar 0 (SInt U8))] in
  let e := [181; 7; 2; 1; 3; 5; 0; 0; 9; 2; 170; 187] in
  ldec t e = Ok (VTab [VSome (VInt 5)]) [] /\
  (exists err r, ldec t (firstn 11 e) = Err err r) /\
  (exists err r, ldec t (firstn 6 e) = Err err r).
Proof. vm_compute. repeat split; eexists; eexists; reflexivity. Qed.

(* readers that cannot look ahead (Ensure always succeeds: the shape of StreamReader and
   FdReader) reject every strict prefix as well — the missing bytes are noticed when read *)
Theorem C05_truncation_lazy_ensure : forall t e v k,
  ldec t e = Ok v [] -> (k < length e)%nat ->
  forall v' r, dec t lazy_ops (firstn k e) <> Ok v' r.
Proof. exact truncation_rejected_lazy. Qed.
Print Assumptions C05_truncation_lazy_ensure.
