(* Properties_C16.v — C16: BoundedReader / BoundedWriter confine all traffic to
   their byte limit.  Statements only; proofs in Calls.v.  The wrapped reader /
   writer is arbitrary (it may fail at any call); arithmetic is 64-bit. *)
From Nop Require Import Spec Sim WSim EncSpec ScalarRT DecSpec Readers Calls.
Local Open Scope N_scope.

Theorem C16_read_cross_limit : forall R (o : rops R) (b : Bounded R) n, wfb b -> b_size b - b_index b < n ->
  r_ensure (bounded_rops o) n b = Err EReadLimit b /\
  r_readn (bounded_rops o) n b = Err EReadLimit b /\
  r_skip (bounded_rops o) n b = Err EReadLimit b.
Proof. intros R o b n. apply bounded_read_cross. Qed.
Print Assumptions C16_read_cross_limit.

Theorem C16_read1_at_limit : forall R (o : rops R) (b : Bounded R), b_index b = b_size b ->
  r_read1 (bounded_rops o) b = Err EReadLimit b.
Proof. intros R o b. apply bounded_read1_cross. Qed.
Print Assumptions C16_read1_at_limit.

Theorem C16_read_within : forall R (o : rops R) (b : Bounded R) n, wfb b -> n <= b_size b - b_index b ->
  r_readn (bounded_rops o) n b =
    match r_readn o n (b_inner b) with
    | Ok bs x => Ok bs (x, b_size b, b_index b + n)
    | Err e x => Err e (x, b_size b, b_index b)
    end /\
  r_skip (bounded_rops o) n b =
    match r_skip o n (b_inner b) with
    | Ok u x => Ok u (x, b_size b, b_index b + n)
    | Err e x => Err e (x, b_size b, b_index b)
    end.
Proof. intros R o b n. apply bounded_read_within. Qed.
Print Assumptions C16_read_within.

(* whatever sequence of Ensure / Read / Skip calls is made, with whatever sizes,
   the count of bytes taken from the wrapped reader never exceeds the limit *)
Theorem C16_read_invariant : forall R (o : rops R) (cs : list rcall) (b : Bounded R),
  wfb b -> wfb (snd (run_rcalls (bounded_rops o) cs b)).
Proof. intros R o cs b. apply bounded_read_seq_inv. Qed.
Print Assumptions C16_read_invariant.

Theorem C16_read_padding : forall R (o : rops R) (b b' : Bounded R), wfb b ->
  bounded_read_padding o b = Ok tt b' -> b_index b' = b_size b' /\ b_size b' = b_size b.
Proof. intros R o b b'. apply bounded_padding_to_limit. Qed.
Print Assumptions C16_read_padding.

Theorem C16_write_cross_limit : forall W (o : wops W) (b : Bounded W) n bs v, wfb b ->
  (b_size b - b_index b < n -> w_prepare (bounded_wops o) n b = Err EWriteLimit b /\
                               w_skip (bounded_wops o) n v b = Err EWriteLimit b) /\
  (b_size b - b_index b < nlen bs -> w_writen (bounded_wops o) bs b = Err EWriteLimit b).
Proof. intros W o b n bs v. apply bounded_write_cross. Qed.
Print Assumptions C16_write_cross_limit.

Theorem C16_write_within : forall W (o : wops W) (b : Bounded W) bs, wfb b -> nlen bs <= b_size b - b_index b ->
  w_writen (bounded_wops o) bs b =
    match w_writen o bs (b_inner b) with
    | Ok u x => Ok u (x, b_size b, b_index b + nlen bs)
    | Err e x => Err e (x, b_size b, b_index b)
    end.
Proof. intros W o b bs. apply bounded_write_within. Qed.
Print Assumptions C16_write_within.

Theorem C16_write_invariant : forall W (o : wops W) (c : wcall) (b : Bounded W),
  wfb b -> wfb (snd (run_wcall (bounded_wops o) c b)).
Proof. intros W o c b. apply bounded_write_inv. Qed.
Print Assumptions C16_write_invariant.

(* WritePadding fills the frame with the requested byte value *)
Theorem C16_write_padding : forall W (o : wops W) v (b b' : Bounded W), wfb b ->
  bounded_write_padding o v b = Ok tt b' ->
  b_index b' = b_size b' /\
  exists x, w_skip o (b_size b - b_index b) v (b_inner b) = Ok tt x /\ b_inner b' = x.
Proof. intros W o v b b'. apply bounded_write_padding_fills. Qed.
Print Assumptions C16_write_padding.
