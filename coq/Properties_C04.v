(* Properties_C04.v — C04: the decoder accepts exactly the documented language
   and reports the right error.  Statements only; proofs in Lang.v, DecSpec.v,
   Readers.v.  The structural part of "accepts exactly" is split as follows:
     - which prefix bytes each arithmetic type admits: C04_prefix_sweep (all 256
       bytes x 11 scalar types, against the table of docs/format.md);
     - every admitted class is read and denotes its little-endian payload,
       every other prefix is UnexpectedEncodingType: C04_any_class_accepted,
       C04_other_class_rejected;
     - canonical encodings of every schema are accepted with the value they
       denote: C04_canonical_accepted (round trip);
     - acceptance is local and consumes a prefix: C04_consumes_prefix,
       C04_local;
     - the error category of each single top-level defect: C04_defect_*.
   Completeness for non-canonical *composite* encodings (entry padding, entry
   order, unknown ids) is stated with the table properties (C08). *)
From Nop Require Import Spec Sim EncSpec ScalarRT DecSpec Readers Lang Sound.
Local Open Scope N_scope.

Theorem C04_prefix_sweep : forall s p, In s all_scalars -> p < 256 ->
  scalar_match s p = existsb (N.eqb p) (doc_classes s).
Proof. exact prefix_sweep. Qed.
Print Assumptions C04_prefix_sweep.

Theorem C04_any_class_accepted : forall s p pl rest,
  scalar_match s p = true -> length pl = class_len p ->
  read_scalar lr_ops s (p :: pl ++ rest) = Ok (scalar_value s p pl) rest.
Proof. exact any_class_accepted. Qed.
Print Assumptions C04_any_class_accepted.

Theorem C04_other_class_rejected : forall s p bs,
  scalar_match s p = false -> read_scalar lr_ops s (p :: bs) = Err EType bs.
Proof. exact other_class_rejected. Qed.
Print Assumptions C04_other_class_rejected.

Theorem C04_canonical_accepted : forall t v rest, wf t = true -> has_type t v = true ->
  ldec t (spec_enc t v ++ rest) = Ok v rest.
Proof. intros t v rest Hw Hv. apply dec_from_payload; [exact Hv|apply decp_payload; assumption]. Qed.
Print Assumptions C04_canonical_accepted.

Theorem C04_consumes_prefix : forall t bs v rest,
  ldec t bs = Ok v rest -> exists e, bs = e ++ rest.
Proof. exact dec_consumes_prefix. Qed.
Print Assumptions C04_consumes_prefix.

Theorem C04_local : forall t bs v rest x,
  ldec t bs = Ok v rest -> ldec t (bs ++ x) = Ok v (rest ++ x).
Proof. exact dec_extend. Qed.
Print Assumptions C04_local.

Theorem C04_defect_wrong_prefix : forall t p bs,
  tmatch t p = false -> ldec t (p :: bs) = Err EType bs.
Proof. exact defect_wrong_prefix. Qed.
Print Assumptions C04_defect_wrong_prefix.

Theorem C04_defect_empty_input : forall t, ldec t [] = Err EReadLimit [].
Proof. exact defect_empty_input. Qed.
Print Assumptions C04_defect_empty_input.

Theorem C04_defect_string_length : forall cw n rest, n < two64 -> n mod cw <> 0 ->
  ldec (TStr cw) (P_STR :: uint_enc n ++ rest) = Err EStrLen rest.
Proof. exact defect_string_length. Qed.
Print Assumptions C04_defect_string_length.

Theorem C04_defect_bin_length : forall t w sg n rest, raw_kind t = Some (w, sg) -> n < two64 ->
  n mod N.of_nat w <> 0 ->
  ldec (TSeq CVec t) (P_BIN :: uint_enc n ++ rest) = Err EContLen rest.
Proof. exact defect_bin_length. Qed.
Print Assumptions C04_defect_bin_length.

Theorem C04_defect_array_length : forall t ca m n rest, raw_kind t = None -> n < two64 -> n <> m ->
  ldec (TSeq (CArr ca m) t) (P_ARY :: uint_enc n ++ rest) = Err EContLen rest.
Proof. exact defect_array_length. Qed.
Print Assumptions C04_defect_array_length.

Theorem C04_defect_lbuf_over_capacity : forall t ca cap sk n rest,
  raw_kind t = None -> n < two64 -> cap < n ->
  ldec (TSeq (CLBuf ca cap sk false) t) (P_ARY :: uint_enc n ++ rest) = Err EContLen rest.
Proof. exact defect_lbuf_over_capacity. Qed.
Print Assumptions C04_defect_lbuf_over_capacity.

Theorem C04_defect_member_count : forall ts n rest, n < two64 -> n <> nlen ts ->
  ldec (TTuple KStruct ts) (P_STU :: uint_enc n ++ rest) = Err EMemberCount rest /\
  ldec (TTuple KTuple ts) (P_ARY :: uint_enc n ++ rest) = Err EContLen rest.
Proof. exact defect_member_count. Qed.
Print Assumptions C04_defect_member_count.

Theorem C04_defect_variant_index : forall ts i rest, in_range I32 i = true ->
  (i < -1 \/ Z.of_N (nlen ts) <= i)%Z ->
  ldec (TVar ts) (P_VAR :: int32_enc i ++ rest) = Err EVariant rest.
Proof. exact defect_variant_index. Qed.
Print Assumptions C04_defect_variant_index.

Theorem C04_defect_handle_type : forall pid tk tag tg rest, in_range tk tg = true -> tg <> tag ->
  ldec (THnd pid tk tag) (P_HND :: scalar_enc (SInt tk) tg ++ rest) = Err EHandleType rest.
Proof. exact defect_handle_type. Qed.
Print Assumptions C04_defect_handle_type.

Theorem C04_defect_table_hash : forall hash es hh rest, hh < two64 -> hh <> hash ->
  ldec (TTab hash es) (P_TAB :: uint_enc hh ++ rest) = Err ETableHash rest.
Proof. exact defect_table_hash. Qed.
Print Assumptions C04_defect_table_hash.

(* Finding K2: docs/format.md gives the variant index as INT64; the decoder
   (as the code does) reads it as INT32, so an index carried in the I64 class,
   which the document admits, is rejected. *)
Theorem C04_refuted_variant_index_i64 :
  ldec (TVar [TScalar 0 (SInt U8)]) [P_VAR; P_I64; 0; 0; 0; 0; 0; 0; 0; 0; 5] = Err EType [0; 0; 0; 0; 0; 0; 0; 0; 5]
  /\ scalar_match sI64 P_I64 = true.
Proof. split; reflexivity. Qed.
Print Assumptions C04_refuted_variant_index_i64.

(* soundness of acceptance, value part: what Read yields on ANY input is a value of the
   destination type (shape at every depth), not merely on canonical encodings *)
Theorem C04_accepted_value_is_of_the_type : forall t (bs : bytes) v rest, all_bytes bs = true ->
  dec t lr_ops bs = Ok v rest -> has_shape t v = true /\ all_bytes rest = true.
Proof. exact dec_shape. Qed.
Print Assumptions C04_accepted_value_is_of_the_type.
