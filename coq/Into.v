(* Into.v — C11: decoding in place.  [decp_into t prior] mirrors what
   Encoding<T>::ReadPayload does to a destination that already holds [prior]:
   which parts are cleared, reset, re-created or overwritten element by
   element.  The theorem says the outcome does not depend on [prior]. *)
From Nop Require Import Spec Sim ScalarRT.
Local Open Scope N_scope.

(* a value-initialised object *)
Fixpoint default_val (t : ty) : val :=
  match t with
  | TScalar _ _ => VInt 0
  | TStr _ => VSeq []
  | TSeq (CArr _ n) t' => VSeq (repeat (default_val t') (N.to_nat n))
  | TSeq _ _ => VSeq []
  | TTuple _ ts => VSeq (map default_val ts)
  | TWrap _ t' => default_val t'
  | TMap _ _ _ => VMap []
  | TOpt _ => VNone
  | TRes _ _ _ => VErr 0
  | TVar _ => VEmpty
  | THnd _ _ _ => VHnd (-1)
  | TTab _ es => VTab (map (fun _ => VNone) es)
  end.

(* the destructive steps the C++ performs on the destination *)
Definition vec_clear (prior : val) : list val := [].                (* value->clear() *)
Definition map_clear (prior : val) : list (val * val) := [].        (* value->clear() *)
Definition clear_entries (prior : val) (es : list (N * bool * ty)) : list val :=
  map (fun _ => VNone) es.                                           (* ClearEntries *)
Definition prior_elems (prior : val) : list val :=
  match prior with VSeq vs => vs | _ => [] end.
(* Variant::Become(i): keeps the element when the index is unchanged,
   otherwise destroys it and default-constructs alternative i *)
Definition become (prior : val) (i : Z) (t' : ty) : val :=
  match prior with
  | VAlt j x => if (j =? i)%Z then x else default_val t'
  | _ => default_val t'
  end.

Fixpoint decp_into (t : ty) (prior : val) (p : N) (R : Type) (o : rops R) (r : R) {struct t} : res val R :=
  match t with
  | TScalar _ s => rmap VInt (read_scalar_payload o s p r)            (* assignment *)
  | TStr cw =>
      do len, r <- read_u64 o r;
      if negb (len mod cw =? 0) then Err EStrLen r else
      do _, r <- r_ensure o (len / cw) r;
      (* resize(size) keeps a prefix of the old characters; Read overwrites all of them *)
      do bs, r <- r_readn o len r;
      Ok (VSeq (unraw (N.to_nat cw) false (len / cw) bs)) r
  | TSeq c t' =>
      match raw_kind t' with
      | Some (w, sg) =>
          let wN := N.of_nat w in
          do len, r <- read_u64 o r;
          match c with
          | CVec =>
              if negb (len mod wN =? 0) then Err EContLen r else
              do _, r <- r_ensure o len r;
              do bs, r <- r_readn o len r;
              Ok (VSeq (unraw w sg (len / wN) bs)) r
          | CArr _ n =>
              if negb (len =? n * wN) then Err EContLen r else
              do bs, r <- r_readn o len r;
              Ok (VSeq (unraw w sg n bs)) r
          | CLBuf _ cap _ unb =>
              if (negb unb && (cap * wN <? len)) || negb (len mod wN =? 0)
              then Err EContLen r else
              do bs, r <- r_readn o len r;
              Ok (VSeq (unraw w sg (len / wN) bs)) r
          end
      | None =>
          do n, r <- read_u64 o r;
          if negb (match c with
                   | CVec => true
                   | CArr _ m => n =? m
                   | CLBuf _ cap _ unb => unb || (n <=? cap)
                   end) then Err EContLen r else
          match c with
          | CVec =>
              (* clear(); then a fresh element per iteration, push_back *)
              do vs, r <- loop_res n
                     (fun acc r => do v, r <- dec_with o (tmatch t')
                                               (fun p r => decp_into t' (default_val t') p R o r) r;
                                   Ok (v :: acc) r) (rev (vec_clear prior)) r;
              Ok (VSeq (rev vs)) r
          | _ =>
              (* element i is read in place over what slot i holds *)
              do vs, r <- loop_res n
                     (fun acc r =>
                        do v, r <- dec_with o (tmatch t')
                              (fun p r => decp_into t' (nth (length acc) (prior_elems prior) (default_val t')) p R o r) r;
                        Ok (v :: acc) r) [] r;
              Ok (VSeq (rev vs)) r
          end
      end
  | TTuple k ts =>
      do n, r <- read_u64 o r;
      if negb (n =? nlen ts) then Err (count_err k) r else
      do vs, r <- (fix go (ts : list ty) (ps : list val) (r : R) {struct ts} : res (list val) R :=
                     match ts with
                     | [] => Ok [] r
                     | t' :: ts' =>
                         do v, r <- dec_with o (tmatch t')
                               (fun p r => decp_into t' (hd (default_val t') ps) p R o r) r;
                         do vs, r <- go ts' (tl ps) r;
                         Ok (v :: vs) r
                     end) ts (prior_elems prior) r;
      Ok (VSeq vs) r
  | TWrap _ t' => decp_into t' prior p R o r
  | TMap _ kt vt =>
      do n, r <- read_u64 o r;
      do kvs, r <- loop_res n
             (fun acc r =>
                do k, r <- dec_with o (tmatch kt) (fun p r => decp_into kt (default_val kt) p R o r) r;
                do v, r <- dec_with o (tmatch vt) (fun p r => decp_into vt (default_val vt) p R o r) r;
                Ok (map_emplace acc k v) r) (map_clear prior) r;
      Ok (VMap kvs) r
  | TOpt t' =>
      if p =? P_NIL then Ok VNone r                                   (* clear() *)
      else rmap VSome (decp_into t' (default_val t') p R o r)         (* T temp; read; move-assign *)
  | TRes _ ek t' =>
      if p =? P_ERR then rmap VErr (read_scalar o (SInt ek) r)
      else rmap VOk (decp_into t' (default_val t') p R o r)           (* *value = T{}; read in place *)
  | TVar ts =>
      do i, r <- read_scalar o sI32 r;
      if (i <? -1)%Z || (Z.of_N (nlen ts) <=? i)%Z then Err EVariant r else
      if (i =? -1)%Z then
        dec_with o (fun p => p =? P_NIL) (fun _ r => Ok VEmpty r) r
      else
        (fix pick (ts : list ty) (n : nat) {struct ts} : res val R :=
           match ts with
           | [] => Err EVariant r
           | t' :: ts' =>
               match n with
               | O => rmap (VAlt i) (dec_with o (tmatch t')
                                       (fun p r => decp_into t' (become prior i t') p R o r) r)
               | S n' => pick ts' n'
               end
           end) ts (Z.to_nat i)
  | THnd _ tk tag =>
      do tg, r <- read_scalar o (SInt tk) r;
      if negb (tg =? tag)%Z then Err EHandleType r else
      do ref, r <- read_scalar o sI64 r;
      do h, r <- r_gethandle o ref r;
      Ok (VHnd h) r
  | TTab hash es =>
      (* ClearEntries first; each entry is re-created (Optional<T>{T{}}) before it is read *)
      do h, r <- read_u64 o r;
      if negb (h =? hash) then Err ETableHash r else
      do count, r <- read_u64 o r;
      do slots, r <- loop_res count
             (fun slots r =>
                do id, r <- read_u64 o r;
                find_entry o id
                  (map (fun e : N * bool * ty =>
                          match e with
                          | (eid, act, t') =>
                              (eid, act,
                               framed_read o
                                 (dec_with (bounded_rops o) (tmatch t')
                                    (fun p b => decp_into t' (default_val t') p (Bounded R) (bounded_rops o) b)))
                          end) es)
                  slots r)
             (clear_entries prior es) r;
      Ok (VTab slots) r
  end.

Definition dec_into (t : ty) (prior : val) {R} (o : rops R) (r : R) : res val R :=
  dec_with o (tmatch t) (fun p r => decp_into t prior p R o r) r.

(* ---- congruence helpers -------------------------------------------------------- *)
Lemma bind_ext {A B S} (m : res A S) (f g : A -> S -> res B S) :
  (forall a s, f a s = g a s) -> bind m f = bind m g.
Proof. intros H. destruct m; cbn; auto. Qed.

Lemma dec_with_ext {R} (o : rops R) m (f g : N -> R -> res val R) r :
  (forall p r, f p r = g p r) -> dec_with o m f r = dec_with o m g r.
Proof.
  intros H. unfold dec_with. apply bind_ext. intros p s. destruct (m p); auto.
Qed.

Lemma loop_res_ext {X R} n (f g : X -> R -> res X R) x r :
  (forall x r, f x r = g x r) -> loop_res n f x r = loop_res n g x r.
Proof.
  intros H. rewrite !loop_res_nat. generalize (N.to_nat n) as k. intros k. revert x r.
  induction k as [|k IH]; intros x r; cbn [loop_nat]; [reflexivity|].
  rewrite H. destruct (g x r); [apply IH|reflexivity].
Qed.

Lemma find_entry_ext {R} (o : rops R) id (es1 es2 : list (N * bool * (R -> res val R))) slots r :
  Forall2 (fun e1 e2 => fst e1 = fst e2 /\ forall r, snd e1 r = snd e2 r) es1 es2 ->
  find_entry o id es1 slots r = find_entry o id es2 slots r.
Proof.
  intros H. revert slots r.
  induction H as [|[[i1 a1] rd1] [[i2 a2] rd2] l1 l2 [He Hr] _ IH]; intros slots r; cbn [find_entry]; [reflexivity|].
  cbn [fst snd] in *. injection He as -> ->. destruct slots as [|sl slots']; [reflexivity|].
  destruct (i2 =? id).
  - destruct a2; [|reflexivity]. destruct sl; try reflexivity. rewrite Hr. reflexivity.
  - rewrite IH. reflexivity.
Qed.

Lemma framed_read_ext {R} (o : rops R) (d1 d2 : Bounded R -> res val (Bounded R)) r :
  (forall b, d1 b = d2 b) -> framed_read o d1 r = framed_read o d2 r.
Proof.
  intros H. unfold framed_read. apply bind_ext. intros sz s. rewrite H. reflexivity.
Qed.

(* ---- the outcome does not depend on the prior contents -------------------------- *)
Theorem decp_into_prior_independent : forall t prior p R (o : rops R) r,
  decp_into t prior p R o r = decp t p R o r.
Proof.
  induction t using ty_ind'; intros prior p R o r; cbn [decp_into decp]; try reflexivity.
  - (* seq *)
    destruct (raw_kind t) as [[w sg]|]; [reflexivity|].
    apply bind_ext. intros n s.
    match goal with |- context [negb ?c] => destruct (negb c) end; [reflexivity|].
    destruct c as [|ca m|ca cap sk unb]; cbn [vec_clear rev].
    + f_equal. apply loop_res_ext. intros acc s'. apply bind_ext' || idtac.
      f_equal. apply dec_with_ext. intros; apply IHt.
    + f_equal. apply loop_res_ext. intros acc s'. f_equal. apply dec_with_ext. intros; apply IHt.
    + f_equal. apply loop_res_ext. intros acc s'. f_equal. apply dec_with_ext. intros; apply IHt.
  - (* tuple *)
    apply bind_ext. intros n s. destruct (negb (n =? nlen ts)); [reflexivity|].
    f_equal. generalize (prior_elems prior) as ps. revert s.
    induction H as [|t' ts' Ht' _ IH]; intros s ps; [reflexivity|].
    rewrite (dec_with_ext o (tmatch t') _ (fun p r => decp t' p R o r)) by (intros; apply Ht').
    apply bind_ext. intros v s'. rewrite IH. reflexivity.
  - (* wrap *) apply IHt.
  - (* map *)
    apply bind_ext. intros n s. f_equal. apply loop_res_ext. intros acc s'.
    rewrite (dec_with_ext o (tmatch t1) _ (fun p r => decp t1 p R o r)) by (intros; apply IHt1).
    apply bind_ext. intros k s''.
    rewrite (dec_with_ext o (tmatch t2) _ (fun p r => decp t2 p R o r)) by (intros; apply IHt2).
    reflexivity.
  - (* optional *) destruct (p =? P_NIL); [reflexivity|]. rewrite IHt. reflexivity.
  - (* result *) destruct (p =? P_ERR); [reflexivity|]. rewrite IHt. reflexivity.
  - (* variant *)
    apply bind_ext. intros i s.
    destruct ((i <? -1)%Z || (Z.of_N (nlen ts) <=? i)%Z); [reflexivity|].
    destruct (i =? -1)%Z; [reflexivity|].
    generalize (Z.to_nat i) as n. induction H as [|t' ts' Ht' _ IH]; intros n; [reflexivity|].
    destruct n as [|n']; [|apply IH].
    f_equal. apply dec_with_ext. intros; apply Ht'.
  - (* table *)
    apply bind_ext. intros hh s. destruct (negb (hh =? h)); [reflexivity|].
    apply bind_ext. intros count s'. f_equal. unfold clear_entries.
    apply loop_res_ext. intros slots s''. apply bind_ext. intros id s3.
    apply find_entry_ext. clear -H.
    induction H as [|[[eid act] t'] es' Ht' _ IH]; cbn [map]; constructor; auto.
    cbn [fst snd] in *. split; [reflexivity|]. intros r.
    apply framed_read_ext. intros b. apply dec_with_ext. intros; apply Ht'.
Qed.

Theorem dec_into_prior_independent t prior {R} (o : rops R) r :
  dec_into t prior o r = dec t o r.
Proof.
  unfold dec_into, dec. apply dec_with_ext. intros; apply decp_into_prior_independent.
Qed.
