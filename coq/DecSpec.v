(* DecSpec.v — decoding over the specification-level source (ListReader).
   1. BoundedReader over ListReader with limit sz behaves like ListReader on
      the first sz bytes (instance of the logical relation of Sim.v); hence a
      table entry is "decode inside the frame, then drop the frame".
   2. Round trip: reading back what the encoder wrote gives the value back and
      consumes exactly the bytes written. *)
From Nop Require Import Spec Sim EncSpec ScalarRT.
Local Open Scope N_scope.

Notation tn := N.to_nat.

Lemma skipn_skipn' {A} (a b : nat) (l : list A) : skipn a (skipn b l) = skipn (b + a) l.
Proof.
  revert l; induction b as [|b IH]; intros l; cbn [skipn Nat.add]; [reflexivity|].
  destruct l as [|x l]; [destruct a; reflexivity|apply IH].
Qed.

Lemma take_n_some n (l : bytes) : n <= nlen l ->
  take_n n l = Some (firstn (tn n) l, skipn (tn n) l).
Proof. intros H. unfold take_n. fold (nlen l). rewrite (proj2 (N.leb_le _ _) H). reflexivity. Qed.

Lemma take_n_none n (l : bytes) : nlen l < n -> take_n n l = None.
Proof. intros H. unfold take_n. fold (nlen l). rewrite (proj2 (N.leb_gt _ _) H). reflexivity. Qed.

Lemma nlen_firstn {A} n (l : list A) : nlen (firstn (tn n) l) = N.min n (nlen l).
Proof. unfold nlen. rewrite firstn_length. lia. Qed.

Lemma nlen_skipn {A} n (l : list A) : nlen (skipn (tn n) l) = nlen l - n.
Proof. unfold nlen. rewrite skipn_length. lia. Qed.

(* ---- BoundedReader over ListReader = ListReader on the frame -------------- *)
(* r0: the wrapped reader's input when the frame was opened; sz: the limit *)
Definition frame_rel (r0 : bytes) (sz : N) (b : Bounded LR) (l : LR) : Prop :=
  b_size b = sz /\ b_index b <= sz /\ b_index b <= nlen r0 /\
  b_inner b = skipn (tn (b_index b)) r0 /\
  l = firstn (tn (sz - b_index b)) (b_inner b).

Lemma frame_rel_init r0 sz : frame_rel r0 sz (b_make r0 sz) (firstn (tn sz) r0).
Proof.
  unfold frame_rel, b_make, b_size, b_index, b_inner; cbn. rewrite N.sub_0_r.
  repeat split; try lia.
Qed.

Lemma frame_rel_same r0 sz b l :
  frame_rel r0 sz b l -> frame_rel r0 sz (b_with b (b_inner b) (b_index b)) l.
Proof. destruct b as [[x s] i]. exact (fun H => H). Qed.

Lemma frame_len r0 sz b l : frame_rel r0 sz b l ->
  nlen l = N.min (sz - b_index b) (nlen r0 - b_index b).
Proof. intros (H1 & H2 & H3 & H4 & ->). rewrite nlen_firstn, H4, nlen_skipn. reflexivity. Qed.

Lemma frame_adv r0 sz (b : Bounded LR) n :
  frame_rel r0 sz b (firstn (tn (sz - b_index b)) (b_inner b)) ->
  n <= sz - b_index b -> n <= nlen (b_inner b) -> sz < two64 ->
  frame_rel r0 sz (b_with b (skipn (tn n) (b_inner b)) (add64 (b_index b) n))
            (skipn (tn n) (firstn (tn (sz - b_index b)) (b_inner b))).
Proof.
  intros (H1 & H2 & H3 & H4 & _) Hn Hl Hs.
  assert (Hi : nlen (b_inner b) = nlen r0 - b_index b) by (rewrite H4, nlen_skipn; reflexivity).
  unfold frame_rel, b_with, b_size, b_index, b_inner in *; cbn [fst snd].
  rewrite add64_small by lia. repeat split; try lia.
  - rewrite H4, skipn_skipn'. f_equal. lia.
  - rewrite skipn_firstn_comm. f_equal. lia.
Qed.

Lemma lr_bounded_rel r0 sz : sz < two64 ->
  rops_rel true (frame_rel r0 sz) (bounded_rops lr_ops) lr_ops.
Proof.
  intros Hs. apply mk_rops_rel; cbn [bounded_rops lr_ops r_ensure r_read1 r_readn r_skip r_gethandle].
  - (* Ensure *)
    intros n b l H. pose proof (frame_len _ _ _ _ H) as Hl. pose proof H as (H1 & H2 & H3 & H4 & H5).
    rewrite H1, sub64_small by lia.
    assert (Hi : nlen (b_inner b) = nlen r0 - b_index b) by (rewrite H4, nlen_skipn; reflexivity).
    unfold nlen in *.
    destruct (N.ltb_spec (sz - b_index b) n) as [L|L].
    + rewrite (proj2 (N.leb_gt _ _)) by lia. cbn. auto.
    + unfold b_keep.
      destruct (N.leb_spec n (N.of_nat (length (b_inner b)))) as [M|M].
      * rewrite !(proj2 (N.leb_le _ _)) by lia. cbn. split; auto; try (destruct b as [[x s] i]; exact H).
      * rewrite !(proj2 (N.leb_gt _ _)) by lia. cbn. split; auto; try (destruct b as [[x s] i]; exact H).
  - (* Read one byte *)
    intros b l H. pose proof H as (H1 & H2 & H3 & H4 & H5).
    rewrite H1.
    destruct (N.ltb_spec (b_index b) sz) as [L|L].
    + destruct (b_inner b) as [|x rest] eqn:Eb.
      * rewrite firstn_nil in H5. subst l. cbn. split; auto.
        replace (b_with b [] (b_index b)) with (b_with b (b_inner b) (b_index b)) by (rewrite Eb; reflexivity).
        apply frame_rel_same. exact H.
      * replace (tn (sz - b_index b)) with (S (tn (sz - b_index b - 1))) in H5 by lia.
        cbn [firstn] in H5. subst l. cbn [b_lift]. split; [reflexivity|].
        pose proof (frame_adv r0 sz b 1) as F. rewrite Eb in F.
        replace (tn (sz - b_index b)) with (S (tn (sz - b_index b - 1))) in F by lia.
        change (tn 1) with 1%nat in F. cbn [firstn skipn] in F.
        apply F; try lia; [|unfold nlen; cbn [length]; lia].
        replace (x :: firstn (tn (sz - b_index b - 1)) rest)
          with (firstn (tn (sz - b_index b)) (b_inner b)).
        -- rewrite Eb.
           replace (tn (sz - b_index b)) with (S (tn (sz - b_index b - 1))) by lia. exact H.
        -- rewrite Eb. replace (tn (sz - b_index b)) with (S (tn (sz - b_index b - 1))) by lia. reflexivity.
    + assert (l = []) as -> by (subst l; replace (sz - b_index b) with 0 by lia; reflexivity).
      cbn. auto.
  - (* Read n bytes *)
    intros n b l H. pose proof (frame_len _ _ _ _ H) as Hl. pose proof H as (H1 & H2 & H3 & H4 & H5).
    rewrite H1, sub64_small by lia.
    assert (Hi : nlen (b_inner b) = nlen r0 - b_index b) by (rewrite H4, nlen_skipn; reflexivity).
    destruct (N.ltb_spec (sz - b_index b) n) as [L|L].
    + rewrite take_n_none by lia. cbn. auto.
    + destruct (N.leb_spec n (nlen (b_inner b))) as [M|M].
      * rewrite (take_n_some n (b_inner b)) by lia. rewrite (take_n_some n l) by lia.
        cbn [b_lift]. split.
        -- subst l. rewrite firstn_firstn. f_equal. lia.
        -- subst l. apply frame_adv; try assumption; lia.
      * rewrite (take_n_none n (b_inner b)) by lia. rewrite (take_n_none n l) by lia.
        cbn. split; auto; try (destruct b as [[x s] i]; exact H).
  - (* Skip *)
    intros n b l H. pose proof (frame_len _ _ _ _ H) as Hl. pose proof H as (H1 & H2 & H3 & H4 & H5).
    rewrite H1, sub64_small by lia.
    assert (Hi : nlen (b_inner b) = nlen r0 - b_index b) by (rewrite H4, nlen_skipn; reflexivity).
    destruct (N.ltb_spec (sz - b_index b) n) as [L|L].
    + rewrite take_n_none by lia. cbn. auto.
    + destruct (N.leb_spec n (nlen (b_inner b))) as [M|M].
      * rewrite (take_n_some n (b_inner b)) by lia. rewrite (take_n_some n l) by lia.
        cbn [b_lift]. split; [reflexivity|].
        subst l. apply frame_adv; try assumption; lia.
      * rewrite (take_n_none n (b_inner b)) by lia. rewrite (take_n_none n l) by lia.
        cbn. split; auto; try (destruct b as [[x s] i]; exact H).
  - (* GetHandle *)
    intros h b l H. cbn. split; auto; try (destruct b as [[x s] i]; exact H).
Qed.

(* ---- a framed table entry --------------------------------------------------- *)
Lemma dec_frame t' sz r : sz < two64 ->
  rel_res true (frame_rel r sz) (dec t' (bounded_rops lr_ops) (b_make r sz))
          (dec t' lr_ops (firstn (tn sz) r)).
Proof.
  intros Hs. unfold dec. apply dec_with_sim1.
  - apply lr_bounded_rel, Hs.
  - intros p s1 s2 H. apply decp_sim1; [apply lr_bounded_rel, Hs|exact H].
  - apply frame_rel_init.
Qed.

Lemma firstn_app_exact {A} (a b : list A) : firstn (length a) (a ++ b) = a.
Proof. rewrite firstn_app, Nat.sub_diag, firstn_O, app_nil_r. apply firstn_all. Qed.

Lemma skipn_app_exact {A} (a b : list A) : skipn (length a) (a ++ b) = b.
Proof. rewrite skipn_app, Nat.sub_diag, skipn_all. reflexivity. Qed.

Lemma frame_entry t' sz (body pad rest : bytes) y :
  sz < two64 -> nlen body + nlen pad = sz ->
  dec t' lr_ops (body ++ pad) = Ok y pad ->
  exists b, dec t' (bounded_rops lr_ops) (b_make (body ++ pad ++ rest) sz) = Ok y b /\
  exists b', bounded_read_padding lr_ops b = Ok tt b' /\ b_inner b' = rest.
Proof.
  intros Hs Hlen Hd.
  pose proof (dec_frame t' sz (body ++ pad ++ rest) Hs) as F.
  assert (E : firstn (tn sz) (body ++ pad ++ rest) = body ++ pad).
  { rewrite app_assoc. replace (tn sz) with (length (body ++ pad)).
    - apply firstn_app_exact.
    - rewrite app_length. unfold nlen in Hlen. lia. }
  rewrite E, Hd in F. unfold rel_res, rel_resg in F.
  match type of F with match ?d with _ => _ end => destruct d as [v b|e b] eqn:Ed end;
    [|contradiction].
  destruct F as [-> F]. exists b. split; [exact Ed|].
  pose proof (frame_len _ _ _ _ F) as Hl. destruct F as (H1 & H2 & H3 & H4 & H5).
  assert (Hr : nlen (body ++ pad ++ rest) = nlen body + nlen pad + nlen rest)
    by (rewrite !nlen_app; lia).
  assert (Hi : b_index b = nlen body) by lia.
  unfold bounded_read_padding. rewrite H1, Hi, sub64_small by lia.
  replace (sz - nlen body) with (nlen pad) by lia.
  assert (Hin : b_inner b = pad ++ rest).
  { rewrite H4, Hi. unfold nlen. rewrite Nat2N.id. apply skipn_app_exact. }
  rewrite Hin, lr_skip_app. cbn [b_lift]. eexists; split; [reflexivity|]. reflexivity.
Qed.

(* ---- round trip --------------------------------------------------------------- *)
Lemma tmatch_prefix : forall t v, has_type t v = true -> tmatch t (tprefix t v) = true.
Proof.
  induction t using ty_ind'; intros v Hv; destruct v; cbn in Hv; try discriminate;
    cbn [tmatch tprefix]; try reflexivity; try (apply IHt; exact Hv);
    try (destruct (raw_kind t) as [[w sg]|]; reflexivity); try (destruct k; reflexivity).
  - apply (scalar_payload_rt s z [] Hv).
  - rewrite (IHt _ Hv). apply orb_true_r.
  - rewrite (IHt _ Hv). apply orb_true_r.
Qed.

Lemma dec_from_payload t x rest : has_type t x = true ->
  decp t (tprefix t x) LR lr_ops (spec_payload t x ++ rest) = Ok x rest ->
  dec t lr_ops (spec_enc t x ++ rest) = Ok x rest.
Proof.
  intros Hx H. rewrite (spec_enc_hd t x Hx). unfold dec, dec_with.
  cbn [app lr_ops r_read1 bind]. rewrite (tmatch_prefix t x Hx). exact H.
Qed.

(* raw (BIN / STR) element blocks *)
Lemma chunks_raw w (vs : list val) :
  Forall (fun x => is_int x = true) vs ->
  chunks w (length vs) (raw_bytes w vs) =
  map (fun x => match x with VInt z => raw_enc w z | _ => [] end) vs.
Proof.
  induction 1 as [|x vs Hx _ IH]; cbn [length chunks raw_bytes flat_map map]; [reflexivity|].
  destruct x; try discriminate.
  assert (L : length (raw_enc w z) = w) by apply raw_enc_length.
  rewrite <- L at 1. rewrite firstn_app_exact. f_equal.
  rewrite <- L at 2. rewrite skipn_app_exact. exact IH.
Qed.

Lemma unraw_raw w sg (vs : list val) :
  Forall (fun x => exists z, x = VInt z /\ raw_dec w sg (raw_enc w z) = z) vs ->
  unraw w sg (nlen vs) (raw_bytes w vs) = vs.
Proof.
  intros H. unfold unraw, nlen. rewrite Nat2N.id, chunks_raw.
  - rewrite map_map. induction H as [|x vs (z & -> & Hz) _ IH]; cbn [map]; [reflexivity|].
    rewrite Hz, IH. reflexivity.
  - eapply Forall_impl; [|exact H]. intros x (z & -> & _). reflexivity.
Qed.

Lemma raw_elem_rt t w sg x : raw_kind t = Some (w, sg) -> has_type t x = true ->
  exists z, x = VInt z /\ raw_dec w sg (raw_enc w z) = z.
Proof.
  destruct t as [c s| | | | | | | | | |]; cbn [raw_kind]; try discriminate.
  destruct s as [|k| |]; try discriminate; destruct (c <? 2); try discriminate;
    intros E H; injection E as <- <-; destruct x; cbn in H; try discriminate; exists z; split; auto;
    unfold raw_dec, raw_enc.
  - apply orb_prop in H. apply unsigned_rt. cbn.
    destruct H as [H|H]; apply Z.eqb_eq in H; subst z; lia.
  - unfold in_range in H. destruct (signed k) eqn:Hs.
    + apply andb_prop in H. destruct H as [A B]. apply Z.leb_le in A. apply Z.ltb_lt in B.
      apply signed_rt; [destruct k; cbn; lia|]. unfold bits in *. lia.
    + apply andb_prop in H. destruct H as [A B]. apply Z.leb_le in A. apply Z.ltb_lt in B.
      apply unsigned_rt. unfold bits in *. lia.
Qed.

Lemma raw_kind_width t w sg : raw_kind t = Some (w, sg) -> (1 <= w <= 8)%nat.
Proof.
  destruct t as [c s| | | | | | | | | |]; cbn [raw_kind]; try discriminate.
  destruct s as [|k| |]; try discriminate; destruct (c <? 2); try discriminate;
    intros E; injection E as <- <-; [lia|destruct k; cbn; lia].
Qed.

(* element loops *)
Lemma loop_elems (t : ty) (vs : list val) rest :
  Forall (fun x => forall rest, dec t lr_ops (spec_enc t x ++ rest) = Ok x rest) vs ->
  forall acc,
  loop_nat (length vs)
    (fun acc r => do v, r <- dec_with lr_ops (tmatch t) (fun p r => decp t p LR lr_ops r) r;
                  Ok (v :: acc) r) acc (flat_map (spec_enc t) vs ++ rest)
  = Ok (rev vs ++ acc) rest.
Proof.
  induction 1 as [|x vs Hx _ IH]; intros acc; cbn [length loop_nat flat_map rev app]; [reflexivity|].
  rewrite <- app_assoc. unfold dec in Hx. rewrite Hx. cbn [bind]. rewrite IH.
  rewrite <- app_assoc. reflexivity.
Qed.

Lemma map_emplace_fresh acc k v :
  existsb (fun kv => val_eqb (fst kv) k) acc = false -> map_emplace acc k v = acc ++ [(k, v)].
Proof. intros H. unfold map_emplace. rewrite H. reflexivity. Qed.

Lemma loop_map (kt vt : ty) (kvs : list (val * val)) rest :
  Forall (fun kv => (forall rest, dec kt lr_ops (spec_enc kt (fst kv) ++ rest) = Ok (fst kv) rest) /\
                    (forall rest, dec vt lr_ops (spec_enc vt (snd kv) ++ rest) = Ok (snd kv) rest)) kvs ->
  forall acc, keys_fresh acc kvs = true ->
  loop_nat (length kvs)
    (fun acc r =>
       do k, r <- dec_with lr_ops (tmatch kt) (fun p r => decp kt p LR lr_ops r) r;
       do v, r <- dec_with lr_ops (tmatch vt) (fun p r => decp vt p LR lr_ops r) r;
       Ok (map_emplace acc k v) r) acc
    (flat_map (fun kv => spec_enc kt (fst kv) ++ spec_enc vt (snd kv)) kvs ++ rest)
  = Ok (acc ++ kvs) rest.
Proof.
  induction 1 as [|[k x] kvs [Hk Hx] _ IH]; intros acc Hf;
    cbn [length loop_nat flat_map keys_fresh fst snd] in *.
  - rewrite app_nil_r. reflexivity.
  - apply andb_prop in Hf. destruct Hf as [Hn Hf]. apply negb_true_iff in Hn.
    rewrite <- !app_assoc. unfold dec in Hk, Hx. rewrite Hk. cbn [bind]. rewrite Hx. cbn [bind].
    rewrite (map_emplace_fresh _ _ _ Hn), (IH _ Hf), <- app_assoc. reflexivity.
Qed.

(* ---- tables -------------------------------------------------------------------- *)
Definition entry_readers (es : list (N * bool * ty)) : list (N * bool * (LR -> res val LR)) :=
  map (fun e : N * bool * ty =>
         match e with
         | (eid, act, t') =>
             (eid, act,
              framed_read lr_ops
                (dec_with (bounded_rops lr_ops) (tmatch t')
                   (fun p b => decp t' p (Bounded LR) (bounded_rops lr_ops) b)))
         end) es.

Lemma find_entry_hit id (rd : LR -> res val LR) v r r'
      (es1 es2 : list (N * bool * (LR -> res val LR))) (s1 s2 : list val) :
  Forall (fun e => fst (fst e) <> id) es1 -> length s1 = length es1 -> rd r = Ok v r' ->
  find_entry lr_ops id (es1 ++ (id, true, rd) :: es2) (s1 ++ VNone :: s2) r
  = Ok (s1 ++ VSome v :: s2) r'.
Proof.
  intros H. revert s1. induction H as [|[[eid act] rd1] es1' Hne _ IH]; intros s1 Hl Hrd.
  - destruct s1; [|discriminate]. cbn [app find_entry]. rewrite N.eqb_refl, Hrd. reflexivity.
  - destruct s1 as [|sl s1']; [discriminate|]. cbn [app find_entry].
    cbn [fst] in Hne. rewrite (proj2 (N.eqb_neq _ _) Hne).
    rewrite IH by (cbn in Hl; try lia; assumption). reflexivity.
Qed.

Definition table_step (es : list (N * bool * ty)) (slots : list val) (r : LR) : res (list val) LR :=
  do id, r <- read_u64 lr_ops r; find_entry lr_ops id (entry_readers es) slots r.

Definition count_some (xs : list val) : nat := length (filter is_some xs).

Fixpoint enc_entries (es : list (N * bool * ty)) (xs : list val) : bytes :=
  match es, xs with
  | (eid, act, t') :: es', x :: xs' =>
      (match x with
       | VSome y =>
           uint_enc eid ++ uint_enc (tsize t' y) ++ spec_enc t' y ++
           repeat 0 (N.to_nat (tsize t' y - nlen (spec_enc t' y)))
       | _ => []
       end) ++ enc_entries es' xs'
  | _, _ => []
  end.

Fixpoint entries_typed (es : list (N * bool * ty)) (xs : list val) : bool :=
  match es, xs with
  | [], [] => true
  | (_, act, t') :: es', x :: xs' =>
      (match x with
       | VNone => true
       | VSome y => act && has_type t' y && (tsize t' y <? two64)
       | _ => false
       end) && entries_typed es' xs'
  | _, _ => false
  end.

Lemma nodup_ids_app_mid (ids1 : list N) (i : N) (ids2 : list N) :
  nodup_ids (ids1 ++ i :: ids2) = true -> Forall (fun j => j <> i) ids1.
Proof.
  induction ids1 as [|j ids1 IH]; cbn [app nodup_ids]; intros H; constructor.
  - apply andb_prop in H. destruct H as [H _]. apply negb_true_iff in H.
    intros ->. rewrite existsb_app in H. cbn in H. rewrite N.eqb_refl in H.
    rewrite orb_true_r in H. discriminate.
  - apply IH. apply andb_prop in H. apply H.
Qed.

Lemma table_loop (es : list (N * bool * ty)) rest :
  Forall (fun e => forall y, has_type (snd e) y = true ->
                   forall rest, dec (snd e) lr_ops (spec_enc (snd e) y ++ rest) = Ok y rest) es ->
  nodup_ids (map (fun e => fst (fst e)) es) = true ->
  forallb (fun e => fst (fst e) <? two64) es = true ->
  forall es2 es1 xs1 xs2, es = es1 ++ es2 -> length xs1 = length es1 ->
  entries_typed es2 xs2 = true ->
  loop_nat (count_some xs2) (table_step es)
    (xs1 ++ map (fun _ => VNone) es2) (enc_entries es2 xs2 ++ rest)
  = Ok (xs1 ++ xs2) rest.
Proof.
  intros Hdec Hnd Hids es2.
  induction es2 as [|[[eid act] t'] es2' IH]; intros es1 xs1 xs2 Hes Hl Ht;
    destruct xs2 as [|x xs2']; cbn [entries_typed] in Ht; try discriminate.
  - cbn. reflexivity.
  - apply andb_prop in Ht. destruct Ht as [Hx Ht].
    assert (Hes' : es = (es1 ++ [(eid, act, t')]) ++ es2') by (rewrite <- app_assoc; exact Hes).
    destruct x; try discriminate.
    + (* empty entry: nothing on the wire *)
      cbn [enc_entries count_some filter is_some app map]. fold (count_some xs2').
      specialize (IH (es1 ++ [(eid, act, t')]) (xs1 ++ [VNone]) xs2' Hes').
      rewrite <- !app_assoc in IH. cbn [app] in IH. apply IH; [|exact Ht].
      rewrite !app_length. cbn. lia.
    + (* present entry *)
      apply andb_prop in Hx. destruct Hx as [Hx Hsz]. apply andb_prop in Hx. destruct Hx as [Ha Hx].
      destruct act; [|discriminate]. apply N.ltb_lt in Hsz.
      cbn [enc_entries count_some filter is_some length map]. fold (count_some xs2').
      cbn [loop_nat]. unfold table_step at 1. rewrite <- !app_assoc.
      assert (Hid : eid < two64).
      { rewrite forallb_forall in Hids. specialize (Hids (eid, true, t')).
        apply N.ltb_lt. apply Hids. rewrite Hes. apply in_or_app. right. left. reflexivity. }
      rewrite (read_u64_rt eid _ Hid). cbn [bind].
      (* locate the entry *)
      assert (Her : entry_readers es = entry_readers es1 ++
                (eid, true, framed_read lr_ops
                   (dec_with (bounded_rops lr_ops) (tmatch t')
                      (fun p b => decp t' p (Bounded LR) (bounded_rops lr_ops) b))) :: entry_readers es2').
      { unfold entry_readers. rewrite Hes, map_app. reflexivity. }
      rewrite Her at 1.
      rewrite Forall_forall in Hdec.
      assert (Hd : forall y, has_type t' y = true ->
                   forall rest, dec t' lr_ops (spec_enc t' y ++ rest) = Ok y rest).
      { apply (Hdec (eid, true, t')). rewrite Hes. apply in_or_app. right. left. reflexivity. }
      destruct (spec_enc_size t' x Hx) as [Hle _].
      set (body := spec_enc t' x) in *. set (sz := tsize t' x) in *.
      set (pad := repeat 0 (N.to_nat (sz - nlen body))).
      assert (Hpad : nlen body + nlen pad = sz) by (unfold pad; rewrite nlen_repeat, N2Nat.id; lia).
      match goal with |- context [find_entry lr_ops eid (?a ++ (eid, true, ?rd) :: ?b) _ ?r] =>
        rewrite (find_entry_hit eid rd x r (enc_entries es2' xs2' ++ rest) a b xs1 (map (fun _ => VNone) es2'))
      end.
      * specialize (IH (es1 ++ [(eid, true, t')]) (xs1 ++ [VSome x]) xs2' Hes').
        rewrite <- !app_assoc in IH. cbn [app] in IH. apply IH; [|exact Ht].
        rewrite !app_length. cbn. lia.
      * rewrite Hes, map_app in Hnd. cbn [map fst] in Hnd.
        pose proof (nodup_ids_app_mid _ _ _ Hnd) as Hne.
        rewrite Forall_map in Hne. unfold entry_readers. rewrite Forall_map.
        eapply Forall_impl; [|exact Hne]. intros [[i a] tt'] Hi. cbn [fst] in *. exact Hi.
      * unfold entry_readers. rewrite map_length. exact Hl.
      * unfold framed_read. rewrite (read_u64_rt sz _ Hsz). cbn [bind].
        destruct (frame_entry t' sz body pad (enc_entries es2' xs2' ++ rest) x Hsz Hpad (Hd x Hx pad))
          as (b & Eb & b' & Ep & Ei).
        match goal with |- match ?d with _ => _ end = _ =>
          assert (Ed : d = Ok x b) by exact Eb; rewrite Ed end.
        rewrite Ep, Ei. reflexivity.
Qed.

Lemma entries_typed_of_has_type es xs :
  (fix go (es : list (N * bool * ty)) (xs : list val) : bool :=
     match es, xs with
     | [], [] => true
     | (_, act, t') :: es', x :: xs' =>
         (match x with
          | VNone => true
          | VSome y => act && has_type t' y && (tsize t' y <? two64)
          | _ => false
          end) && go es' xs'
     | _, _ => false
     end) es xs = entries_typed es xs.
Proof. revert xs; induction es as [|[[i a] t] es IH]; intros [|x xs]; cbn; try reflexivity; try (rewrite IH; reflexivity). Qed.

Lemma enc_entries_eq es xs :
  (fix go (es : list (N * bool * ty)) (xs : list val) {struct es} : bytes :=
     match es, xs with
     | (eid, act, t') :: es', x :: xs' =>
         (match x with
          | VSome y =>
              let body := spec_enc t' y in
              let sz := tsize t' y in
              uint_enc eid ++ uint_enc sz ++ body ++ repeat 0 (N.to_nat (sz - nlen body))
          | _ => []
          end) ++ go es' xs'
     | _, _ => []
     end) es xs = enc_entries es xs.
Proof. revert xs; induction es as [|[[i a] t] es IH]; intros [|x xs]; cbn; try reflexivity; try (rewrite IH; reflexivity). Qed.

Lemma entries_typed_length es xs : entries_typed es xs = true -> length xs = length es.
Proof.
  revert xs; induction es as [|[[i a] t] es IH]; intros [|x xs]; cbn; try discriminate; auto.
  intros H. apply andb_prop in H. destruct H as [_ H]. rewrite (IH _ H). reflexivity.
Qed.

Theorem decp_payload : forall t v, wf t = true -> has_type t v = true ->
  forall rest, decp t (tprefix t v) LR lr_ops (spec_payload t v ++ rest) = Ok v rest.
Proof.
  unfold spec_payload.
  induction t using ty_ind'; intros v Hwf Hv rest; destruct v; cbn in Hv; try discriminate;
    cbn [decp spec_enc tprefix tl].
  - (* scalar *)
    destruct (scalar_payload_rt s z rest Hv) as [_ Hp]. unfold scalar_enc. cbn [tl].
    rewrite Hp. reflexivity.
  - (* string *)
    apply andb_prop in Hv. destruct Hv as [Hlen Hv]. apply N.ltb_lt in Hlen.
    cbn [wf] in Hwf.
    assert (Hcw : cw = 1 \/ cw = 2 \/ cw = 4).
    { apply orb_prop in Hwf. destruct Hwf as [Hwf|Hwf]; [apply orb_prop in Hwf; destruct Hwf as [H|H]|];
        apply N.eqb_eq in H || apply N.eqb_eq in Hwf; auto. }
    assert (Hcw0 : cw <> 0) by lia.
    rewrite <- app_assoc, (read_u64_rt _ _ Hlen). cbn [bind].
    rewrite N.mod_mul by exact Hcw0. cbn [N.eqb negb]. rewrite N.div_mul by exact Hcw0.
    assert (Hraw : nlen (raw_bytes (tn cw) vs) = nlen vs * cw).
    { rewrite raw_bytes_len, N2Nat.id; [reflexivity|].
      eapply forallb_impl; [|exact Hv]. intros x Hx; destruct x; try discriminate; reflexivity. }
    cbn [lr_ops r_ensure]. rewrite (proj2 (N.leb_le _ _)).
    2:{ fold (nlen (raw_bytes (tn cw) vs ++ rest)). rewrite nlen_app, Hraw. nia. }
    cbv beta iota delta [bind]. rewrite <- Hraw, lr_readn_app. cbv beta iota delta [bind].
    rewrite unraw_raw; [reflexivity|].
    apply forallb_Forall in Hv. eapply Forall_impl; [|exact Hv].
    intros x Hx. destruct x; try discriminate. exists z. split; [reflexivity|].
    apply andb_prop in Hx. destruct Hx as [A B]. apply Z.leb_le in A. apply Z.ltb_lt in B.
    assert (B' : (z < 2 ^ (8 * Z.of_N cw))%Z) by exact B.
    unfold raw_dec, raw_enc. apply unsigned_rt. rewrite N_nat_Z. lia.
  - (* seq *)
    apply andb_prop in Hv. destruct Hv as [Hlen Hv]. apply andb_prop in Hlen.
    destruct Hlen as [Hok Hlen]. apply N.ltb_lt in Hlen.
    cbn [wf] in Hwf. apply andb_prop in Hwf. destruct Hwf as [Hwt Hwc].
    destruct (raw_kind t) as [[w sg]|] eqn:Ek; cbn [tl].
    + (* BIN *)
      pose proof (raw_kind_width _ _ _ Ek) as Hw.
      assert (Hb : nlen vs * N.of_nat w < two64) by nia.
      assert (Hw0 : N.of_nat w <> 0) by lia.
      assert (Hraw : nlen (raw_bytes w vs) = nlen vs * N.of_nat w).
      { apply raw_bytes_len. eapply forallb_impl; [|exact Hv]. intros x; apply (raw_kind_int _ _ _ _ Ek). }
      assert (Hun : unraw w sg (nlen vs) (raw_bytes w vs) = vs).
      { apply unraw_raw. apply forallb_Forall in Hv. eapply Forall_impl; [|exact Hv].
        intros x Hx. apply (raw_elem_rt _ _ _ _ Ek Hx). }
      rewrite <- app_assoc, (read_u64_rt _ _ Hb). cbn [bind].
      destruct c as [|ca n|ca cap sk unb]; cbn [seq_len_ok] in Hok.
      * rewrite N.mod_mul by exact Hw0. cbn [N.eqb negb].
        cbn [lr_ops r_ensure]. rewrite (proj2 (N.leb_le _ _)).
        2:{ fold (nlen (raw_bytes w vs ++ rest)). rewrite nlen_app, Hraw. lia. }
        cbv beta iota delta [bind]. rewrite <- Hraw, lr_readn_app. cbv beta iota delta [bind]. rewrite Hraw, N.div_mul by exact Hw0.
        rewrite Hun. reflexivity.
      * apply N.eqb_eq in Hok. rewrite <- Hok, N.eqb_refl. cbn [negb].
        rewrite <- Hraw, lr_readn_app. cbn [bind]. rewrite Hun. reflexivity.
      * rewrite N.mod_mul by exact Hw0. cbn [N.eqb negb]. rewrite orb_false_r.
        assert (Hcap : (negb unb && (cap * N.of_nat w <? nlen vs * N.of_nat w)) = false).
        { destruct unb; [reflexivity|]. cbn in Hok |- *. apply N.leb_le in Hok. apply N.ltb_ge. nia. }
        rewrite Hcap. rewrite <- Hraw, lr_readn_app. cbn [bind]. rewrite Hraw, N.div_mul by exact Hw0.
        rewrite Hun. reflexivity.
    + (* ARY *)
      assert (Hb : nlen vs < two64) by lia.
      rewrite <- app_assoc, (read_u64_rt _ _ Hb). cbn [bind].
      assert (Hpol : (match c with CVec => true | CArr _ m => nlen vs =? m
                                  | CLBuf _ cap _ unb => unb || (nlen vs <=? cap) end) = true)
        by (destruct c; exact Hok).
      rewrite Hpol. cbn [negb]. rewrite loop_res_nat. unfold nlen at 1. rewrite Nat2N.id.
      rewrite loop_elems.
      * cbn [bind]. rewrite app_nil_r, rev_involutive. reflexivity.
      * apply forallb_Forall in Hv. eapply Forall_impl; [|exact Hv]. intros x Hx rest'.
        apply dec_from_payload; [exact Hx|]. apply IHt; assumption.
  - (* tuple *)
    cbn [wf] in Hwf. apply andb_prop in Hwf. destruct Hwf as [Hwf _]. apply andb_prop in Hwf.
    destruct Hwf as [Hwt Hn]. apply N.ltb_lt in Hn.
    rewrite <- app_assoc, (read_u64_rt _ _ Hn). cbn [bind]. rewrite N.eqb_refl. cbn [negb].
    match goal with |- bind ?m _ = _ => assert (E : m = Ok vs rest); [|rewrite E; reflexivity] end.
    clear k Hn. revert vs Hv rest.
    induction H as [|t' ts' Ht' _ IH]; intros vs Hv rest; destruct vs as [|x vs']; try discriminate.
    + reflexivity.
    + apply andb_prop in Hv. destruct Hv as [Hx Hr].
      cbn [forallb] in Hwt. apply andb_prop in Hwt. destruct Hwt as [Hw1 Hw2].
      rewrite <- app_assoc.
      pose proof (dec_from_payload t' x (((fix go (ts : list ty) (vs : list val) {struct ts} : bytes :=
             match ts, vs with
             | t'0 :: ts'0, x0 :: vs'0 => spec_enc t'0 x0 ++ go ts'0 vs'0
             | _, _ => []
             end) ts' vs') ++ rest) Hx (Ht' x Hw1 Hx _)) as Hd.
      unfold dec in Hd. rewrite Hd. cbn [bind]. rewrite (IH Hw2 vs' Hr rest). reflexivity.
  - apply IHt; assumption.
  - apply IHt; assumption.
  - apply IHt; assumption.
  - apply IHt; assumption.
  - apply IHt; assumption.
  - apply IHt; assumption.
  - apply IHt; assumption.
  - apply IHt; assumption.
  - apply IHt; assumption.
  - apply IHt; assumption.
  - apply IHt; assumption.
  - (* map *)
    apply andb_prop in Hv. destruct Hv as [Hv Hty]. apply andb_prop in Hv. destruct Hv as [Hn Hf].
    apply N.ltb_lt in Hn. cbn [wf] in Hwf. apply andb_prop in Hwf. destruct Hwf as [Hw1 Hw2].
    rewrite <- app_assoc, (read_u64_rt _ _ Hn). cbn [bind].
    rewrite loop_res_nat. unfold nlen at 1. rewrite Nat2N.id.
    rewrite (loop_map t1 t2 kvs rest); [reflexivity| |exact Hf].
    apply forallb_Forall in Hty. eapply Forall_impl; [|exact Hty]. intros [k x] Hkx.
    cbn [fst snd] in *. apply andb_prop in Hkx. destruct Hkx as [Hk Hx]. split; intros rest'.
    + apply dec_from_payload; [exact Hk|]. apply IHt1; assumption.
    + apply dec_from_payload; [exact Hx|]. apply IHt2; assumption.
  - (* opt none *) reflexivity.
  - (* opt some *)
    cbn [wf] in Hwf. apply andb_prop in Hwf. destruct Hwf as [Hw Hnil]. apply negb_true_iff in Hnil.
    assert (Hp : (tprefix t v =? P_NIL) = false).
    { apply N.eqb_neq. intros E. pose proof (tmatch_prefix t v Hv) as Hm. rewrite E, Hnil in Hm. discriminate. }
    rewrite Hp, (IHt v Hw Hv). reflexivity.
  - (* res err *)
    rewrite N.eqb_refl. cbn [tl]. rewrite (scalar_rt (SInt ek) e rest Hv). reflexivity.
  - (* res ok *)
    cbn [wf] in Hwf. apply andb_prop in Hwf. destruct Hwf as [Hw Hnil]. apply negb_true_iff in Hnil.
    assert (Hp : (tprefix t v =? P_ERR) = false).
    { apply N.eqb_neq. intros E. pose proof (tmatch_prefix t v Hv) as Hm. rewrite E, Hnil in Hm. discriminate. }
    rewrite Hp, (IHt v Hw Hv). reflexivity.
  - (* var alt *)
    apply andb_prop in Hv. destruct Hv as [Hi Hv]. apply Z.leb_le in Hi.
    cbn [wf] in Hwf. apply andb_prop in Hwf. destruct Hwf as [Hwt Hn]. apply N.ltb_lt in Hn.
    assert (Hlt : (Z.to_nat i < length ts)%nat).
    { revert Hv. generalize (Z.to_nat i). clear. induction ts as [|t' ts IH]; intros n Hv; [discriminate|].
      destruct n; cbn; [lia|]. specialize (IH n Hv). lia. }
    assert (Hr : in_range I32 i = true).
    { unfold in_range, nlen in *. cbn. apply andb_true_intro. split; [apply Z.leb_le|apply Z.ltb_lt]; lia. }
    unfold int32_enc. rewrite <- app_assoc, (scalar_rt sI32 i _ Hr). cbn [bind].
    assert (Hc : ((i <? -1)%Z || (Z.of_N (nlen ts) <=? i)%Z) = false).
    { apply orb_false_iff. split; [apply Z.ltb_ge; lia|apply Z.leb_gt; unfold nlen; lia]. }
    rewrite Hc. rewrite (proj2 (Z.eqb_neq i (-1))) by lia.
    clear Hc Hr Hlt Hn. revert Hv. generalize (Z.to_nat i) as n.
    induction H as [|t' ts' Ht' _ IH]; intros n Hv; [discriminate|].
    cbn [forallb] in Hwt. apply andb_prop in Hwt. destruct Hwt as [Hw1 Hw2].
    destruct n as [|n'].
    + pose proof (dec_from_payload t' v rest Hv (Ht' v Hw1 Hv rest)) as Hd. unfold dec in Hd.
      rewrite Hd. reflexivity.
    + apply IH; assumption.
  - (* var empty *)
    unfold int32_enc. rewrite <- app_assoc.
    rewrite (scalar_rt sI32 (-1) _ eq_refl). cbn [bind].
    cbn [wf] in Hwf. apply andb_prop in Hwf. destruct Hwf as [_ Hn]. apply N.ltb_lt in Hn.
    assert (Hc : ((-1 <? -1)%Z || (Z.of_N (nlen ts) <=? -1)%Z) = false).
    { apply orb_false_iff. split; [reflexivity|apply Z.leb_gt; lia]. }
    rewrite Hc. reflexivity.
  - (* handle *)
    cbn [wf] in Hwf. rewrite <- app_assoc, (scalar_rt (SInt tk) tag _ Hwf). cbn [bind].
    rewrite Z.eqb_refl. cbn [negb]. unfold int64_enc.
    match goal with |- context [scalar_enc sI64 ?hh] => rewrite (scalar_rt sI64 hh rest Hv) end. reflexivity.
  - (* table *)
    change (fun x : val => match x with VSome _ => true | _ => false end) with is_some.
    cbn [wf] in Hwf. apply andb_prop in Hwf. destruct Hwf as [Hwf Hnd]. apply andb_prop in Hwf.
    destruct Hwf as [Hwf Hids]. apply andb_prop in Hwf. destruct Hwf as [Hwf Hne]. apply N.ltb_lt in Hne.
    apply andb_prop in Hwf. destruct Hwf as [Hwt Hh]. apply N.ltb_lt in Hh.
    rewrite entries_typed_of_has_type in Hv. rewrite enc_entries_eq.
    rewrite <- !app_assoc, (read_u64_rt _ _ Hh). cbn [bind]. rewrite N.eqb_refl. cbn [negb].
    pose proof (entries_typed_length _ _ Hv) as Hl.
    assert (Hc : nlen (filter is_some es0) < two64).
    { assert (G : forall l : list val, (length (filter is_some l) <= length l)%nat).
      { induction l as [|a l IHl]; cbn; [lia|]. destruct (is_some a); cbn; lia. }
      specialize (G es0). unfold nlen in *. lia. }
    rewrite (read_u64_rt _ _ Hc). cbn [bind]. rewrite loop_res_nat.
    unfold nlen at 1. rewrite Nat2N.id. fold (count_some es0).
    change (fun (slots : list val) (r : LR) =>
              do id, r0 <- read_u64 lr_ops r;
              find_entry lr_ops id
                (map (fun e : N * bool * ty =>
                        match e with
                        | (eid, act, t') =>
                            (eid, act, framed_read lr_ops
                               (dec_with (bounded_rops lr_ops) (tmatch t')
                                  (fun p b => decp t' p (Bounded LR) (bounded_rops lr_ops) b)))
                        end) es) slots r0) with (table_step es).
    assert (Hdec : Forall (fun e => forall y, has_type (snd e) y = true ->
                     forall rest, dec (snd e) lr_ops (spec_enc (snd e) y ++ rest) = Ok y rest) es).
    { apply Forall_forall. intros [[eid act] t'] Hin y Hy rest'. cbn [snd] in *.
      rewrite Forall_forall in H. rewrite forallb_forall in Hwt.
      apply dec_from_payload; [exact Hy|]. apply (H _ Hin); [apply (Hwt _ Hin)|exact Hy]. }
    pose proof (table_loop es rest Hdec Hnd Hids es [] [] es0 eq_refl eq_refl Hv) as HL.
    cbn [app] in HL. rewrite HL. reflexivity.
Qed.

