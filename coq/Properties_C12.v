(* Properties_C12.v — C12: a Variant always holds exactly one live alternative or none.
   Statements only; proofs in ObjectsProps.v.  The model (Objects.v) is the state
   machine of types/variant.h over several interacting Variant objects whose elements
   track their own lifetime: index_, the union slot (dead / alive with a value), and
   the counters of element constructions, destructions and protocol violations
   (construction over a live element, destruction or assignment of a dead one).  It is
   tied to the implementation by running the same operation sequences on
   nop::Variant<Tr<0>,Tr<1>,Tr<2>> (harness/objs.cpp) and comparing every observation
   after every step. *)
From Nop Require Import Objects ObjectsProps.

(* after any sequence of operations on any number of objects: no element was
   constructed over a live one or destroyed twice (bad = 0); every living Variant has
   index -1 and a dead slot, or an index naming one of the n alternatives and exactly
   that element alive; constructions = destructions + elements alive right now *)
Theorem C12_invariant_all_histories : forall (n : nat) (alts : Z) (ops : list vop),
  v_inv (fold_left v_step ops (v_init n alts)).
Proof. exact v_reachable_inv. Qed.
Print Assumptions C12_invariant_all_histories.

Theorem C12_invariant_step : forall (w : vworld) (op : vop), v_inv w -> v_inv (v_step w op).
Proof. exact v_step_inv. Qed.
Print Assumptions C12_invariant_step.

(* every element a Variant constructs is destroyed exactly once *)
Theorem C12_destroyed_exactly_once : forall (n : nat) (alts : Z) (ops : list vop),
  let w := fold_left v_step ops (v_init n alts) in
  (forall x, In x (v_objs w) -> x = None) -> ctor (v_stt w) = dtor (v_stt w) /\ bad (v_stt w) = 0.
Proof. exact v_all_destroyed. Qed.
Print Assumptions C12_destroyed_exactly_once.

(* Become: an index outside the alternatives leaves the Variant empty *)
Theorem C12_become : forall (w : vworld) i k v, v_inv w -> v_get w i = Some v ->
  match v_get (v_step w (VBecome i k)) i with
  | Some v' => v_index v' = (if ((0 <=? k) && (k <? v_n w))%Z then k else if (k =? v_index v)%Z then v_index v else -1)%Z
  | None => False
  end.
Proof. exact v_become_spec. Qed.
Print Assumptions C12_become.

(* the converting operations (construction / assignment from a type that is not an alternative, and from another
   Variant type by copy or move) are, for any placement of the source's alternatives, operations of the same state
   machine, so every mixed history keeps the invariant and destroys what it constructs *)
Theorem C12_converting_histories : forall (ctor_target assign_target : Z -> Z) (n : nat) (alts : Z) (cops : list vcop),
  v_inv (fold_left (vc_step ctor_target assign_target) cops (v_init n alts)).
Proof. exact vc_reachable_inv. Qed.
Print Assumptions C12_converting_histories.

Theorem C12_converting_destroyed_exactly_once : forall ct at_ (n : nat) (alts : Z) (cops : list vcop),
  let w := fold_left (vc_step ct at_) cops (v_init n alts) in
  (forall x, In x (v_objs w) -> x = None) -> ctor (v_stt w) = dtor (v_stt w) /\ bad (v_stt w) = 0.
Proof. intros ct at_ n alts cops. rewrite vc_fold. apply v_all_destroyed. Qed.
Print Assumptions C12_converting_destroyed_exactly_once.

Example C12_converting_nonvacuous :
  let w := fold_left (vc_step harness_ctor_target harness_assign_target)
             [VCConvConstruct 0 1 5; VCConvAssign 0 3 7; VCFromOther 1 3 9; VCAssignOther 1 3 8; VCAssignOther 1 (-1) 0;
              VCOp (VMoveAssign 1 0); VCOp (VDestroy 0)]%Z (v_init 3 4) in
  v_objs w = [None; Some {| v_index := 3; v_slot := Alive 7 |}; None] /\ bad (v_stt w) = 0.
Proof. vm_compute. split; reflexivity. Qed.

(* non-vacuity: a history with a throwing constructor, a cross-alternative assignment,
   a self move-assignment and an out-of-range Become *)
Example C12_nonvacuous :
  let w := fold_left v_step [VVal 0 1 7 false; VNew 1; VSet 1 2 9 true; VSet 1 2 9 false; VAssign 1 0;
                             VMoveAssign 0 0; VMove 2 0; VBecome 1 5; VDestroy 0]%Z (v_init 3 3) in
  v_objs w = [None; Some {| v_index := -1; v_slot := Dead |}; Some {| v_index := 1; v_slot := Alive 7 |}]
  /\ v_stt w = {| ctor := 4; dtor := 3; bad := 0 |}.
Proof. vm_compute. split; reflexivity. Qed.
