(* IO.v — reader / writer primitive interfaces and the models of the library's
   readers and writers.  Definitions only. *)
From Nop Require Export Schema.
Local Open Scope N_scope.

(* The five calls Encoding<T>::Read makes on a Reader. *)
Record rops (R : Type) := {
  r_ensure : N -> R -> res unit R;          (* Ensure(size)                 *)
  r_read1 : R -> res N R;                   (* Read(one byte)               *)
  r_readn : N -> R -> res bytes R;          (* Read(begin,end), n bytes     *)
  r_skip : N -> R -> res unit R;            (* Skip(n)                      *)
  r_gethandle : Z -> R -> res Z R           (* GetHandle(reference)         *)
}.
Arguments r_ensure {R}. Arguments r_read1 {R}. Arguments r_readn {R}.
Arguments r_skip {R}. Arguments r_gethandle {R}.

(* The five calls Encoding<T>::Write makes on a Writer. *)
Record wops (W : Type) := {
  w_prepare : N -> W -> res unit W;         (* Prepare(size)                *)
  w_write1 : N -> W -> res unit W;          (* Write(uint8_t)               *)
  w_writen : bytes -> W -> res unit W;      (* Write(begin,end)             *)
  w_skip : N -> N -> W -> res unit W;       (* Skip(n, value)               *)
  w_pushhandle : Z -> W -> res Z W          (* PushHandle(handle)           *)
}.
Arguments w_prepare {W}. Arguments w_write1 {W}. Arguments w_writen {W}.
Arguments w_skip {W}. Arguments w_pushhandle {W}.

(* ---- specification-level byte source / sink ------------------------------ *)
(* ListReader: the remaining input.  Handle references are resolved by the
   identity (reference = handle value): the specification-level out-of-band
   channel is stateless.  The table-based channel of the harness is [tlr_ops]. *)
Definition LR : Type := bytes.

Definition take_n (n : N) (bs : bytes) : option (bytes * bytes) :=
  if n <=? N.of_nat (length bs)
  then Some (firstn (N.to_nat n) bs, skipn (N.to_nat n) bs)
  else None.

Definition lr_ops : rops LR := {|
  r_ensure := fun n r => if n <=? N.of_nat (length r) then Ok tt r else Err EReadLimit r;
  r_read1 := fun r => match r with
                      | b :: bs => Ok b bs
                      | [] => Err EReadLimit r
                      end;
  r_readn := fun n r => match take_n n r with
                        | Some (a, b) => Ok a b
                        | None => Err EReadLimit r
                        end;
  r_skip := fun n r => match take_n n r with
                       | Some (_, b) => Ok tt b
                       | None => Err EReadLimit r
                       end;
  r_gethandle := fun ref r => Ok ref r
|}.

(* ListWriter: the bytes produced so far; PushHandle returns the handle value
   itself as the reference. *)
Definition LW : Type := bytes.

Definition lw_ops : wops LW := {|
  w_prepare := fun _ w => Ok tt w;
  w_write1 := fun b w => Ok tt (w ++ [b]);
  w_writen := fun bs w => Ok tt (w ++ bs);
  w_skip := fun n v w => Ok tt (w ++ repeat v (N.to_nat n));
  w_pushhandle := fun h w => Ok h w
|}.

(* Table-based out-of-band channel (the harness's instrumented reader/writer
   in table mode): references index a handle table. *)
Definition TLR : Type := bytes * list Z.
Definition tlr_ops : rops TLR := {|
  r_ensure := fun n r => if n <=? N.of_nat (length (fst r)) then Ok tt r else Err EReadLimit r;
  r_read1 := fun r => match fst r with
                      | b :: bs => Ok b (bs, snd r)
                      | [] => Err EReadLimit r
                      end;
  r_readn := fun n r => match take_n n (fst r) with
                        | Some (a, b) => Ok a (b, snd r)
                        | None => Err EReadLimit r
                        end;
  r_skip := fun n r => match take_n n (fst r) with
                       | Some (_, b) => Ok tt (b, snd r)
                       | None => Err EReadLimit r
                       end;
  r_gethandle := fun ref r =>
      if (ref =? -1)%Z then Ok (-1)%Z r
      else if (0 <=? ref)%Z && (ref <? Z.of_nat (length (snd r)))%Z
           then Ok (nth (Z.to_nat ref) (snd r) (-1)%Z) r
           else Err EHandleRef r
|}.

Definition TLW : Type := bytes * list Z.
Definition tlw_ops : wops TLW := {|
  w_prepare := fun _ w => Ok tt w;
  w_write1 := fun b w => Ok tt (fst w ++ [b], snd w);
  w_writen := fun bs w => Ok tt (fst w ++ bs, snd w);
  w_skip := fun n v w => Ok tt (fst w ++ repeat v (N.to_nat n), snd w);
  w_pushhandle := fun h w =>
      if (h <? 0)%Z then Ok (-1)%Z w
      else Ok (Z.of_nat (length (snd w))) (fst w, snd w ++ [h])
|}.

(* ---- BoundedReader<R> / BoundedWriter<W> (utility/bounded_*.h) ----------- *)
(* state: wrapped object, size_, index_ ; arithmetic is std::size_t (64 bit) *)
Definition Bounded (X : Type) : Type := X * N * N.
Definition b_inner {X} (b : Bounded X) : X := fst (fst b).
Definition b_size {X} (b : Bounded X) : N := snd (fst b).
Definition b_index {X} (b : Bounded X) : N := snd b.
Definition b_make {X} (x : X) (size : N) : Bounded X := (x, size, 0).
Definition b_with {X} (b : Bounded X) (x : X) (idx : N) : Bounded X := (x, b_size b, idx).

(* lift an inner result: on success advance the index by [adv] *)
Definition b_lift {X A} (b : Bounded X) (adv : N) (m : res A X) : res A (Bounded X) :=
  match m with
  | Ok a x => Ok a (b_with b x (add64 (b_index b) adv))
  | Err e x => Err e (b_with b x (b_index b))
  end.

Definition b_keep {X A} (b : Bounded X) (m : res A X) : res A (Bounded X) :=
  match m with
  | Ok a x => Ok a (b_with b x (b_index b))
  | Err e x => Err e (b_with b x (b_index b))
  end.

Definition bounded_rops {R} (o : rops R) : rops (Bounded R) := {|
  r_ensure := fun n b =>
      if sub64 (b_size b) (b_index b) <? n then Err EReadLimit b
      else b_keep b (r_ensure o n (b_inner b));
  r_read1 := fun b =>
      if b_index b <? b_size b then b_lift b 1 (r_read1 o (b_inner b))
      else Err EReadLimit b;
  r_readn := fun n b =>
      if sub64 (b_size b) (b_index b) <? n then Err EReadLimit b
      else b_lift b n (r_readn o n (b_inner b));
  r_skip := fun n b =>
      if sub64 (b_size b) (b_index b) <? n then Err EReadLimit b
      else b_lift b n (r_skip o n (b_inner b));
  r_gethandle := fun ref b => b_keep b (r_gethandle o ref (b_inner b))
|}.

(* ReadPadding: Skip(size_ - index_) on the wrapped reader *)
Definition bounded_read_padding {R} (o : rops R) (b : Bounded R) : res unit (Bounded R) :=
  let pad := sub64 (b_size b) (b_index b) in
  b_lift b pad (r_skip o pad (b_inner b)).

Definition bounded_wops {W} (o : wops W) : wops (Bounded W) := {|
  w_prepare := fun n b =>
      if sub64 (b_size b) (b_index b) <? n then Err EWriteLimit b
      else b_keep b (w_prepare o n (b_inner b));
  w_write1 := fun x b =>
      if b_index b <? b_size b then b_lift b 1 (w_write1 o x (b_inner b))
      else Err EWriteLimit b;
  w_writen := fun bs b =>
      let n := N.of_nat (length bs) in
      if sub64 (b_size b) (b_index b) <? n then Err EWriteLimit b
      else b_lift b n (w_writen o bs (b_inner b));
  w_skip := fun n v b =>
      if sub64 (b_size b) (b_index b) <? n then Err EWriteLimit b
      else b_lift b n (w_skip o n v (b_inner b));
  w_pushhandle := fun h b => b_keep b (w_pushhandle o h (b_inner b))
|}.

Definition bounded_write_padding {W} (o : wops W) (v : N) (b : Bounded W) : res unit (Bounded W) :=
  let pad := sub64 (b_size b) (b_index b) in
  b_lift b pad (w_skip o pad v (b_inner b)).

(* ---- buffer readers (utility/buffer_reader.h, pedantic_buffer_reader.h) --- *)
(* state: the whole buffer, size_ = its length, index_.  After the repair of
   BufferReader both have the same checks. *)
Record bufr := { br_buf : bytes; br_idx : N }.

Definition br_size (r : bufr) : N := N.of_nat (length (br_buf r)).
Definition br_adv (r : bufr) (n : N) : bufr :=
  {| br_buf := br_buf r; br_idx := add64 (br_idx r) n |}.
Definition br_slice (r : bufr) (n : N) : bytes :=
  firstn (N.to_nat n) (skipn (N.to_nat (br_idx r)) (br_buf r)).

Definition bufr_ops : rops bufr := {|
  r_ensure := fun n r =>
      if sub64 (br_size r) (br_idx r) <? n then Err EReadLimit r else Ok tt r;
  r_read1 := fun r =>
      if sub64 (br_size r) (br_idx r) <? 1 then Err EReadLimit r
      else Ok (nth (N.to_nat (br_idx r)) (br_buf r) 0) (br_adv r 1);
  r_readn := fun n r =>
      if sub64 (br_size r) (br_idx r) <? n then Err EReadLimit r
      else Ok (br_slice r n) (br_adv r n);
  r_skip := fun n r =>
      if sub64 (br_size r) (br_idx r) <? n then Err EReadLimit r
      else Ok tt (br_adv r n);
  r_gethandle := fun ref r => Ok ref r
|}.

(* ---- buffer writers ------------------------------------------------------- *)
(* state: bytes written so far (index_ = their number), capacity size_.
   [checked] distinguishes PedanticBufferWriter / ConstexprBufferWriter (every
   call checked) from BufferWriter (only Prepare checked; an unchecked call
   past the capacity is recorded in [bw_oob], the model's stand-in for the
   out-of-bounds store the real code would perform). *)
Record bufw := { bw_out : bytes; bw_cap : N; bw_oob : bool }.

Definition bw_idx (w : bufw) : N := N.of_nat (length (bw_out w)).
Definition bw_put (w : bufw) (bs : bytes) : bufw :=
  {| bw_out := bw_out w ++ bs; bw_cap := bw_cap w;
     bw_oob := bw_oob w || (bw_cap w <? bw_idx w + N.of_nat (length bs)) |}.

Definition bufw_ops (checked : bool) : wops bufw := {|
  w_prepare := fun n w =>
      if sub64 (bw_cap w) (bw_idx w) <? n then Err EWriteLimit w else Ok tt w;
  w_write1 := fun b w =>
      if checked && (sub64 (bw_cap w) (bw_idx w) <? 1) then Err EWriteLimit w
      else Ok tt (bw_put w [b]);
  w_writen := fun bs w =>
      if checked && (sub64 (bw_cap w) (bw_idx w) <? N.of_nat (length bs)) then Err EWriteLimit w
      else Ok tt (bw_put w bs);
  w_skip := fun n v w =>
      if checked && (sub64 (bw_cap w) (bw_idx w) <? n) then Err EWriteLimit w
      else Ok tt (bw_put w (repeat v (N.to_nat n)));
  w_pushhandle := fun h w => Ok h w
|}.

(* ---- instrumentation: call log and fault injection (C10, C15) ----------- *)
Inductive call :=
| CEnsure (n : N) | CRead1 | CReadN (n : N) | CSkip (n : N) | CGetHandle (ref : Z)
| CPrepare (n : N) | CWrite1 (b : N) | CWriteN (bs : bytes) | CWSkip (n v : N)
| CPushHandle (h : Z).

(* state: wrapped object, calls made so far (newest first), optional fault
   (fail the call with this 0-based index with this error code) *)
Record inst (X : Type) := { i_inner : X; i_log : list call; i_fault : option (N * N) }.
Arguments i_inner {X}. Arguments i_log {X}. Arguments i_fault {X}.

Definition i_step {X A} (c : call) (st : inst X) (run : X -> res A X) : res A (inst X) :=
  let k := N.of_nat (length (i_log st)) in
  let log' := c :: i_log st in
  match i_fault st with
  | Some (fk, fe) =>
      if fk =? k then Err fe {| i_inner := i_inner st; i_log := log'; i_fault := i_fault st |}
      else match run (i_inner st) with
           | Ok a x => Ok a {| i_inner := x; i_log := log'; i_fault := i_fault st |}
           | Err e x => Err e {| i_inner := x; i_log := log'; i_fault := i_fault st |}
           end
  | None =>
      match run (i_inner st) with
      | Ok a x => Ok a {| i_inner := x; i_log := log'; i_fault := i_fault st |}
      | Err e x => Err e {| i_inner := x; i_log := log'; i_fault := i_fault st |}
      end
  end.

Definition inst_rops {R} (o : rops R) : rops (inst R) := {|
  r_ensure := fun n st => i_step (CEnsure n) st (r_ensure o n);
  r_read1 := fun st => i_step CRead1 st (r_read1 o);
  r_readn := fun n st => i_step (CReadN n) st (r_readn o n);
  r_skip := fun n st => i_step (CSkip n) st (r_skip o n);
  r_gethandle := fun ref st => i_step (CGetHandle ref) st (r_gethandle o ref)
|}.

Definition inst_wops {W} (o : wops W) : wops (inst W) := {|
  w_prepare := fun n st => i_step (CPrepare n) st (w_prepare o n);
  w_write1 := fun b st => i_step (CWrite1 b) st (w_write1 o b);
  w_writen := fun bs st => i_step (CWriteN bs) st (w_writen o bs);
  w_skip := fun n v st => i_step (CWSkip n v) st (w_skip o n v);
  w_pushhandle := fun h st => i_step (CPushHandle h) st (w_pushhandle o h)
|}.

Definition inst_make {X} (x : X) (fault : option (N * N)) : inst X :=
  {| i_inner := x; i_log := []; i_fault := fault |}.
