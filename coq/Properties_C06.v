(* Properties_C06.v — C06: GetSize never under-estimates; buffer writes never
   exceed capacity.  Theorem statements only; proofs are in EncSpec.v. *)
From Nop Require Import Spec Sim EncSpec SizeProps.
Local Open Scope N_scope.

(* GetSize(value) >= bytes Write(value) emits, with equality for every type
   that contains no handle. *)
Theorem C06_upper : forall t v, has_type t v = true ->
  lenc t v = Ok tt (spec_enc t v) /\ nlen (spec_enc t v) <= tsize t v.
Proof. exact c06_upper. Qed.
Print Assumptions C06_upper.

Theorem C06_exact : forall t v, has_type t v = true -> no_handles t = true ->
  nlen (spec_enc t v) = tsize t v.
Proof. exact c06_exact. Qed.
Print Assumptions C06_exact.

(* Write into a buffer writer (BufferWriter: checked = false; Pedantic /
   Constexpr: checked = true) with at least GetSize(value) bytes of remaining
   capacity never fails and never stores past the end. *)
Theorem C06_buffer_fit : forall t v checked w, has_type t v = true ->
  bw_idx w + tsize t v <= bw_cap w -> bw_cap w < two64 -> bw_oob w = false ->
  exists w', serialize t v (bufw_ops checked) w = Ok tt w' /\
             bw_out w' = bw_out w ++ spec_enc t v /\
             bw_oob w' = false /\ bw_idx w' <= bw_cap w'.
Proof. exact c06_buffer_fit. Qed.
Print Assumptions C06_buffer_fit.

(* the same through a BoundedWriter wrapped around the buffer writer *)
Theorem C06_bounded_fit : forall t v checked w limit, has_type t v = true ->
  tsize t v <= limit -> limit < two64 ->
  bw_idx w + limit <= bw_cap w -> bw_cap w < two64 -> bw_oob w = false ->
  exists b', serialize t v (bounded_wops (bufw_ops checked)) (b_make w limit) = Ok tt b' /\
             bw_out (b_inner b') = bw_out w ++ spec_enc t v /\
             bw_oob (b_inner b') = false /\ b_index b' <= b_size b'.
Proof. exact c06_bounded_fit. Qed.
Print Assumptions C06_bounded_fit.

(* a smaller buffer: WriteLimitReached, and not a single byte is written *)
Theorem C06_buffer_small : forall t v checked w,
  bw_idx w <= bw_cap w -> bw_cap w < two64 -> bw_cap w - bw_idx w < tsize t v ->
  serialize t v (bufw_ops checked) w = Err EWriteLimit w.
Proof. exact c06_buffer_small. Qed.
Print Assumptions C06_buffer_small.

(* inside a table the declared size of an entry equals the bytes that follow
   it (value plus padding) *)
Theorem C06_entry_frame : forall t y, has_type t y = true ->
  nlen (spec_enc t y ++ repeat 0 (N.to_nat (tsize t y - nlen (spec_enc t y)))) = tsize t y.
Proof. exact c06_entry_frame. Qed.
Print Assumptions C06_entry_frame.

Example C06_nonvacuous :
  let t := TTuple KStruct [THnd 1 U64 0; TSeq CVec (TStr 1)] in
  let v := VSeq [VHnd 3; VSeq [VSeq [VInt 97]]] in
  has_type t v = true /\ nlen (spec_enc t v) = 10 /\ tsize t v = 18.
Proof. vm_compute. repeat split; reflexivity. Qed.
