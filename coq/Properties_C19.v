(* Properties_C19.v — C19 (partial): ThreadLocal is per thread and per (T, Slot) pair.
   Statements only; proofs in Threads.v.  What is NOT a theorem here: absence of data
   races in the C++ code and "no hidden shared state" of serializers, readers and
   writers.  In the model those are functions of their arguments by construction; the
   check ties that to /repo by listing the objects with static storage duration in
   the headers and by running N threads of codec, table, variant and RPC traffic under
   ThreadSanitizer, comparing every thread's results with a sequential run. *)
From Nop Require Import Threads.
From Coq Require Import List ZArith.
Import ListNotations.

(* in EVERY interleaving of the operations of any number of threads, a thread observes
   exactly what it would observe running its own operations alone *)
Theorem C19_thread_isolation : forall (t : nat) (tr : list (nat * top)) (a b : store), agree_on t a b ->
  view t (snd (trun a tr)) = view t (snd (trun b (mine t tr))) /\
  agree_on t (fst (trun a tr)) (fst (trun b (mine t tr))).
Proof. exact thread_isolation. Qed.
Print Assumptions C19_thread_isolation.

(* hence all interleavings of the same per-thread programs look alike to every thread *)
Theorem C19_schedule_independence : forall (t : nat) (tr1 tr2 : list (nat * top)) (st : store),
  mine t tr1 = mine t tr2 -> view t (snd (trun st tr1)) = view t (snd (trun st tr2)).
Proof. exact interleavings_agree. Qed.
Print Assumptions C19_schedule_independence.

(* an operation on one (T, Slot) leaves the thread's other slots alone *)
Theorem C19_slot_isolation : forall st t op s', slot_of op <> s' -> fst (tstep st (t, op)) t s' = st t s'.
Proof. exact slot_isolation. Qed.
Print Assumptions C19_slot_isolation.

(* the first initialisation in a thread wins until Clear *)
Theorem C19_first_initialisation_wins : forall st t s x y, st t s = Some x ->
  fst (tstep st (t, TInit s y)) t s = Some x /\ fst (tstep st (t, TNew s y)) t s = Some x.
Proof. exact first_initialisation_wins. Qed.
Print Assumptions C19_first_initialisation_wins.

Theorem C19_initialisation_after_clear : forall st t s y,
  fst (tstep (fst (tstep st (t, TClear s))) (t, TInit s y)) t s = Some y.
Proof. exact initialisation_after_clear. Qed.
Print Assumptions C19_initialisation_after_clear.

Example C19_nonvacuous :
  let tr := [(0, TNew 0 5%Z); (1, TGet 0); (1, TNew 0 6%Z); (0, TGet 0); (1, TSet 0 7%Z); (0, TInit 0 9%Z); (1, TGet 0); (0, TGet 0);
             (0, TClear 0); (0, TInit 0 9%Z); (0, TGet 0); (1, TGet 1)] in
  view 0 (snd (trun empty_store tr)) = [None; Some 5; None; Some 5; None; None; Some 9]%Z /\
  view 1 (snd (trun empty_store tr)) = [None; None; None; Some 7; None]%Z.
Proof. vm_compute. split; reflexivity. Qed.
