(* Properties_C03.v — C03: the encoder emits exactly the documented wire format.
   Theorem statements only; proofs are in EncSpec.v. *)
From Nop Require Import Spec Sim EncSpec.
Local Open Scope N_scope.

(* Over the specification-level byte sink, Encoding<T>::Write produces exactly
   the bytes docs/format.md prescribes (spec_enc), for every schema and value. *)
Theorem C03_canonical : forall t v,
  has_type t v = true -> lenc t v = Ok tt (spec_enc t v).
Proof. exact lenc_spec. Qed.
Print Assumptions C03_canonical.

(* The same bytes are produced over every byte sink that honours the appender
   contract with enough room: ListWriter, the buffer writers, BoundedWriter
   over any of them, nested to any depth. *)
Theorem C03_any_sink : forall t v, has_type t v = true ->
  forall W (o : wops W) view can, appender o view can ->
  forall w k, can w (nlen (spec_enc t v) + k) ->
  exists w', enc t v o w = Ok tt w' /\ view w' = view w ++ spec_enc t v /\ can w' k.
Proof. intros t v Hv W o view can A. exact (enc_writes t v Hv W o view can A). Qed.
Print Assumptions C03_any_sink.

(* the encoding starts with the documented prefix byte of the type *)
Theorem C03_prefix : forall t v, has_type t v = true ->
  spec_enc t v = tprefix t v :: spec_payload t v.
Proof. exact spec_enc_hd. Qed.
Print Assumptions C03_prefix.

(* non-vacuity: a structure holding a table, a string and an optional *)
Example C03_nonvacuous :
  let t := TTuple KStruct [TTab 12345 [(1, true, TScalar 0 (SInt U32)); (2, false, TScalar 0 (SInt U8));
                                        (300, true, TStr 1)];
                           TOpt (TScalar 0 (SInt I64))] in
  let v := VSeq [VTab [VSome (VInt 300); VNone; VSome (VSeq [VInt 104; VInt 105])]; VSome (VInt (-70000))] in
  has_type t v = true /\
  spec_enc t v = [185; 2; 181; 129; 57; 48; 2; 1; 3; 129; 44; 1; 129; 44; 1; 4; 189; 2; 104; 105;
                  134; 144; 238; 254; 255].
Proof. vm_compute. split; reflexivity. Qed.
