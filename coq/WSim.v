(* WSim.v — the logical relation for writers: if two writer primitive records
   are related step by step, Encoding<T>::Write over them are related. *)
From Nop Require Import Spec Sim.
Local Open Scope N_scope.

Section WithDirection.
Variable bd : bool.

Record wops_relg {W1 W2} (rho : W1 -> W2 -> Prop) (rhoe : N -> W1 -> N -> W2 -> Prop)
       (o1 : wops W1) (o2 : wops W2) : Prop := {
  wr_sub : forall e w1 w2, rho w1 w2 -> rhoe e w1 e w2;
  wr_prepare : forall n w1 w2, rho w1 w2 -> rel_resg bd rho rhoe (w_prepare o1 n w1) (w_prepare o2 n w2);
  wr_write1 : forall b w1 w2, rho w1 w2 -> rel_resg bd rho rhoe (w_write1 o1 b w1) (w_write1 o2 b w2);
  wr_writen : forall bs w1 w2, rho w1 w2 -> rel_resg bd rho rhoe (w_writen o1 bs w1) (w_writen o2 bs w2);
  wr_skip : forall n v w1 w2, rho w1 w2 -> rel_resg bd rho rhoe (w_skip o1 n v w1) (w_skip o2 n v w2);
  wr_push : forall h w1 w2, rho w1 w2 -> rel_resg bd rho rhoe (w_pushhandle o1 h w1) (w_pushhandle o2 h w2)
}.

Ltac werr Hops H := apply (rel_err bd _ _ _ _ _ (wr_sub _ _ _ _ Hops)); exact H.

Section WriteSim.
  Context {W1 W2 : Type} (rho : W1 -> W2 -> Prop) (rhoe : N -> W1 -> N -> W2 -> Prop)
          (o1 : wops W1) (o2 : wops W2).
  Hypothesis Hops : wops_relg rho rhoe o1 o2.

  Lemma write_scalar_payload_sim s z w1 w2 :
    rho w1 w2 -> rel_resg bd rho rhoe (write_scalar_payload o1 s z w1) (write_scalar_payload o2 s z w2).
  Proof.
    intros H. unfold write_scalar_payload.
    destruct s; try (apply rel_ok; exact H);
      (destruct (class_len _ =? 0)%nat; [apply rel_ok; exact H|apply (wr_writen _ _ _ _ Hops); exact H]).
  Qed.

  Lemma write_scalar_sim s z w1 w2 :
    rho w1 w2 -> rel_resg bd rho rhoe (write_scalar o1 s z w1) (write_scalar o2 s z w2).
  Proof.
    intros H. unfold write_scalar. apply rel_bind; [apply (wr_write1 _ _ _ _ Hops); exact H|].
    intros _ s1 s2 Hs. apply write_scalar_payload_sim, Hs.
  Qed.

  Lemma write_u64_sim n w1 w2 :
    rho w1 w2 -> rel_resg bd rho rhoe (write_u64 o1 n w1) (write_u64 o2 n w2).
  Proof. apply write_scalar_sim. Qed.
End WriteSim.

Lemma bounded_wops_rel {W1 W2} (rho : W1 -> W2 -> Prop) (rhoe : N -> W1 -> N -> W2 -> Prop) o1 o2 :
  wops_relg rho rhoe o1 o2 -> wops_relg (brel rho) (brele rhoe) (bounded_wops o1) (bounded_wops o2).
Proof.
  intros Hops.
  assert (Hsubb : forall e (c1 : Bounded W1) (c2 : Bounded W2), brel rho c1 c2 -> brele rhoe e c1 e c2)
    by (intros e c1 c2 (Hc & Hs' & Hx'); split; [apply (wr_sub _ _ _ _ Hops), Hc|auto]).
  split; cbn [bounded_wops w_prepare w_write1 w_writen w_skip w_pushhandle].
  - exact Hsubb.
  - intros n b1 b2 H. pose proof H as (Hi & Hs & Hx). rewrite Hs, Hx.
    destruct (sub64 (b_size b2) (b_index b2) <? n); [apply (rel_err bd _ _ _ _ _ Hsubb); exact H|].
    apply b_keep_sim; [exact H|]. apply (wr_prepare _ _ _ _ Hops), Hi.
  - intros x b1 b2 H. pose proof H as (Hi & Hs & Hx). rewrite Hs, Hx.
    destruct (b_index b2 <? b_size b2); [|apply (rel_err bd _ _ _ _ _ Hsubb); exact H].
    apply b_lift_sim; [exact H|]. apply (wr_write1 _ _ _ _ Hops), Hi.
  - intros bs b1 b2 H. pose proof H as (Hi & Hs & Hx). rewrite Hs, Hx.
    destruct (sub64 (b_size b2) (b_index b2) <? N.of_nat (length bs)); [apply (rel_err bd _ _ _ _ _ Hsubb); exact H|].
    apply b_lift_sim; [exact H|]. apply (wr_writen _ _ _ _ Hops), Hi.
  - intros n v b1 b2 H. pose proof H as (Hi & Hs & Hx). rewrite Hs, Hx.
    destruct (sub64 (b_size b2) (b_index b2) <? n); [apply (rel_err bd _ _ _ _ _ Hsubb); exact H|].
    apply b_lift_sim; [exact H|]. apply (wr_skip _ _ _ _ Hops), Hi.
  - intros h b1 b2 H. pose proof H as (Hi & Hs & Hx).
    apply b_keep_sim; [exact H|]. apply (wr_push _ _ _ _ Hops), Hi.
Qed.

Lemma bounded_write_padding_sim {W1 W2} (rho : W1 -> W2 -> Prop) (rhoe : N -> W1 -> N -> W2 -> Prop)
      o1 o2 v b1 b2 :
  wops_relg rho rhoe o1 o2 -> brel rho b1 b2 ->
  rel_resg bd (brel rho) (brele rhoe) (bounded_write_padding o1 v b1) (bounded_write_padding o2 v b2).
Proof.
  intros Hops H. pose proof H as (Hi & Hs & Hx). unfold bounded_write_padding.
  rewrite Hs, Hx. apply b_lift_sim; [exact H|]. apply (wr_skip _ _ _ _ Hops), Hi.
Qed.

(* one element: prefix byte then payload *)
Lemma elem_sim {W1 W2} (rho : W1 -> W2 -> Prop) (rhoe : N -> W1 -> N -> W2 -> Prop) o1 o2 p
      (e1 : W1 -> res unit W1) (e2 : W2 -> res unit W2) :
  wops_relg rho rhoe o1 o2 ->
  (forall w1 w2, rho w1 w2 -> rel_resg bd rho rhoe (e1 w1) (e2 w2)) ->
  forall w1 w2, rho w1 w2 ->
  rel_resg bd rho rhoe (bind (w_write1 o1 p w1) (fun _ w => e1 w)) (bind (w_write1 o2 p w2) (fun _ w => e2 w)).
Proof.
  intros Hops He w1 w2 H. apply rel_bind; [apply (wr_write1 _ _ _ _ Hops); exact H|].
  intros _ s1 s2 Hs. apply He, Hs.
Qed.

Theorem encp_sim : forall (t : ty) (v : val) (W1 W2 : Type) (rho : W1 -> W2 -> Prop)
                          (rhoe : N -> W1 -> N -> W2 -> Prop) (o1 : wops W1) (o2 : wops W2),
    wops_relg rho rhoe o1 o2 ->
    forall w1 w2, rho w1 w2 -> rel_resg bd rho rhoe (encp t v W1 o1 w1) (encp t v W2 o2 w2).
Proof.
  induction t using ty_ind'; intros v W1 W2 rho rhoe o1 o2 Hops w1 w2 Hw; cbn [encp].
  - (* scalar *) destruct v; try (werr Hops Hw). apply write_scalar_payload_sim; assumption.
  - (* string *)
    destruct v; try (werr Hops Hw).
    apply rel_bind; [apply write_u64_sim; assumption|]. intros _ s1 s2 Hs.
    apply (wr_writen _ _ _ _ Hops), Hs.
  - (* seq *)
    destruct v; try (werr Hops Hw).
    match goal with |- context [if ?c then _ else _] => destruct c end; [werr Hops Hw|].
    destruct (raw_kind t) as [[wd sg]|].
    + apply rel_bind; [apply write_u64_sim; assumption|]. intros _ s1 s2 Hs.
      apply (wr_writen _ _ _ _ Hops), Hs.
    + apply rel_bind; [apply write_u64_sim; assumption|]. intros _ s1 s2 Hs.
      revert s1 s2 Hs. induction vs as [|x vs IHvs]; intros s1 s2 Hs.
      * apply rel_ok, Hs.
      * apply rel_bind; [apply (wr_write1 _ _ _ _ Hops); exact Hs|]. intros _ u1 u2 Hu.
        apply rel_bind; [apply IHt; assumption|]. intros _ x1 x2 Hx. apply IHvs, Hx.
  - (* tuple *)
    destruct v; try (werr Hops Hw).
    apply rel_bind; [apply write_u64_sim; assumption|]. intros _ s1 s2 Hs.
    revert vs s1 s2 Hs. induction H as [|t' ts' Ht' _ IH]; intros vs s1 s2 Hs; destruct vs as [|x vs'];
      try (werr Hops Hs); [apply rel_ok, Hs|].
    apply rel_bind; [apply (wr_write1 _ _ _ _ Hops); exact Hs|]. intros _ u1 u2 Hu.
    apply rel_bind; [apply Ht'; assumption|]. intros _ x1 x2 Hx. apply IH, Hx.
  - (* wrap *) apply IHt; assumption.
  - (* map *)
    destruct v; try (werr Hops Hw).
    apply rel_bind; [apply write_u64_sim; assumption|]. intros _ s1 s2 Hs.
    revert s1 s2 Hs. induction kvs as [|[k x] kvs IHk]; intros s1 s2 Hs.
    + apply rel_ok, Hs.
    + apply rel_bind; [apply (wr_write1 _ _ _ _ Hops); exact Hs|]. intros _ a1 a2 Ha.
      apply rel_bind; [apply IHt1; assumption|]. intros _ b1 b2 Hb.
      apply rel_bind; [apply (wr_write1 _ _ _ _ Hops); exact Hb|]. intros _ c1 c2 Hc.
      apply rel_bind; [apply IHt2; assumption|]. intros _ d1 d2 Hd. apply IHk, Hd.
  - (* optional *)
    destruct v; try (werr Hops Hw); [apply rel_ok, Hw|apply IHt; assumption].
  - (* result *)
    destruct v; try (werr Hops Hw); [apply write_scalar_sim; assumption|apply IHt; assumption].
  - (* variant *)
    destruct v; try (werr Hops Hw).
    + apply rel_bind; [apply write_scalar_sim; assumption|]. intros _ s1 s2 Hs.
      generalize (Z.to_nat i) as n. induction H as [|t' ts' Ht' _ IH]; intros n.
      * werr Hops Hs.
      * destruct n as [|n']; [|apply IH].
        apply rel_bind; [apply (wr_write1 _ _ _ _ Hops); exact Hs|]. intros _ u1 u2 Hu.
        apply Ht'; assumption.
    + apply rel_bind; [apply write_scalar_sim; assumption|]. intros _ s1 s2 Hs.
      apply (wr_write1 _ _ _ _ Hops), Hs.
  - (* handle *)
    destruct v; try (werr Hops Hw).
    apply rel_bind; [apply write_scalar_sim; assumption|]. intros _ s1 s2 Hs.
    apply rel_bind; [apply (wr_push _ _ _ _ Hops); exact Hs|]. intros ref u1 u2 Hu.
    apply write_scalar_sim; assumption.
  - (* table *)
    destruct v; try (werr Hops Hw).
    apply rel_bind; [apply write_u64_sim; assumption|]. intros _ s1 s2 Hs.
    apply rel_bind; [apply write_u64_sim; assumption|]. intros _ u1 u2 Hu.
    revert es0 u1 u2 Hu. induction H as [|[[eid act] t'] es' Ht' _ IH]; intros xs u1 u2 Hu;
      destruct xs as [|x xs']; try (werr Hops Hu); [apply rel_ok, Hu|].
    destruct x; try (werr Hops Hu); [apply IH, Hu|].
    destruct act; [|werr Hops Hu].
    apply rel_bind; [apply write_u64_sim; assumption|]. intros _ a1 a2 Ha.
    apply rel_bind; [apply write_u64_sim; assumption|]. intros _ b1 b2 Hb.
    cbn [snd] in Ht'.
    assert (Hbb : brel rho (b_make b1 (tsize t' x)) (b_make b2 (tsize t' x)))
      by (unfold brel, b_make, b_inner, b_size, b_index; cbn; auto).
    pose proof (bounded_wops_rel rho rhoe o1 o2 Hops) as Hbops.
    pose proof (elem_sim (brel rho) (brele rhoe) (bounded_wops o1) (bounded_wops o2) (tprefix t' x)
                  (encp t' x (Bounded W1) (bounded_wops o1)) (encp t' x (Bounded W2) (bounded_wops o2))
                  Hbops (fun c1 c2 Hc => Ht' x _ _ (brel rho) (brele rhoe) _ _ Hbops c1 c2 Hc)
                  _ _ Hbb) as Hd.
    unfold rel_resg in Hd |- *.
    match type of Hd with match ?d1 with _ => _ end =>
      destruct d1 as [[] c1|e1 c1] eqn:E1 end;
    match type of Hd with context [match ?d2 with Ok _ _ => _ | Err _ _ => _ end] =>
      destruct d2 as [[] c2|e2 c2] eqn:E2 end; try contradiction.
    + destruct Hd as [_ Hc].
      pose proof (bounded_write_padding_sim rho rhoe o1 o2 0 c1 c2 Hops Hc) as Hp. unfold rel_resg in Hp.
      destruct (bounded_write_padding o1 0 c1) as [[] d1|g1 d1], (bounded_write_padding o2 0 c2) as [[] d2|g2 d2];
        try contradiction.
      * destruct Hp as [_ Hp]. apply IH, Hp.
      * destruct bd; [contradiction|exact I].
      * destruct bd; [|exact I]. apply Hp.
    + destruct bd; [contradiction|exact I].
    + destruct bd; [|exact I]. apply Hd.
Qed.

End WithDirection.

(* enc and serialize *)
Lemma enc_sim bd t v {W1 W2} (rho : W1 -> W2 -> Prop) (rhoe : N -> W1 -> N -> W2 -> Prop) o1 o2 w1 w2 :
  wops_relg bd rho rhoe o1 o2 -> rho w1 w2 ->
  rel_resg bd rho rhoe (enc t v o1 w1) (enc t v o2 w2).
Proof.
  intros Hops H. unfold enc. apply rel_bind; [apply (wr_write1 _ _ _ _ _ Hops); exact H|].
  intros _ s1 s2 Hs. apply encp_sim; assumption.
Qed.

Lemma serialize_sim bd t v {W1 W2} (rho : W1 -> W2 -> Prop) (rhoe : N -> W1 -> N -> W2 -> Prop) o1 o2 w1 w2 :
  wops_relg bd rho rhoe o1 o2 -> rho w1 w2 ->
  rel_resg bd rho rhoe (serialize t v o1 w1) (serialize t v o2 w2).
Proof.
  intros Hops H. unfold serialize. apply rel_bind; [apply (wr_prepare _ _ _ _ _ Hops); exact H|].
  intros _ s1 s2 Hs. apply enc_sim; assumption.
Qed.
