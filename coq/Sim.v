(* Sim.v — one logical-relation lemma for readers and one for writers:
   if two primitive records are related step by step, then Encoding<T>::Read
   (resp. Write) over them are related.  Instantiated later for
   (Bounded over list) vs (list on a prefix), (concrete reader) vs (list),
   (faulty) vs (fault-free). *)
From Nop Require Import Codec.
Local Open Scope N_scope.

(* ---- induction principle for the nested inductive [ty] ------------------ *)
Section TyInd.
  Variable P : ty -> Prop.
  Hypothesis Hscalar : forall c s, P (TScalar c s).
  Hypothesis Hstr : forall cw, P (TStr cw).
  Hypothesis Hseq : forall c t, P t -> P (TSeq c t).
  Hypothesis Htuple : forall k ts, Forall P ts -> P (TTuple k ts).
  Hypothesis Hwrap : forall id t, P t -> P (TWrap id t).
  Hypothesis Hmap : forall u k v, P k -> P v -> P (TMap u k v).
  Hypothesis Hopt : forall t, P t -> P (TOpt t).
  Hypothesis Hres : forall eid ek t, P t -> P (TRes eid ek t).
  Hypothesis Hvar : forall ts, Forall P ts -> P (TVar ts).
  Hypothesis Hhnd : forall pid tk tag, P (THnd pid tk tag).
  Hypothesis Htab : forall h es, Forall (fun e => P (snd e)) es -> P (TTab h es).

  Fixpoint ty_ind' (t : ty) : P t :=
    match t with
    | TScalar c s => Hscalar c s
    | TStr cw => Hstr cw
    | TSeq c t' => Hseq c t' (ty_ind' t')
    | TTuple k ts =>
        Htuple k ts ((fix go (ts : list ty) : Forall P ts :=
                        match ts with
                        | [] => Forall_nil P
                        | t' :: ts' => Forall_cons t' (ty_ind' t') (go ts')
                        end) ts)
    | TWrap id t' => Hwrap id t' (ty_ind' t')
    | TMap u k v => Hmap u k v (ty_ind' k) (ty_ind' v)
    | TOpt t' => Hopt t' (ty_ind' t')
    | TRes eid ek t' => Hres eid ek t' (ty_ind' t')
    | TVar ts =>
        Hvar ts ((fix go (ts : list ty) : Forall P ts :=
                    match ts with
                    | [] => Forall_nil P
                    | t' :: ts' => Forall_cons t' (ty_ind' t') (go ts')
                    end) ts)
    | THnd pid tk tag => Hhnd pid tk tag
    | TTab h es =>
        Htab h es ((fix go (es : list (N * bool * ty)) : Forall (fun e => P (snd e)) es :=
                      match es with
                      | [] => Forall_nil _
                      | e :: es' => Forall_cons e (ty_ind' (snd e)) (go es')
                      end) es)
    end.
End TyInd.

(* ---- relations on results ------------------------------------------------ *)
(* [bd = true]: both runs succeed or fail alike (same value / same error, related
   states).  [bd = false]: only successes of the first run are tracked — used
   for "a successful read does not depend on what follows". *)
(* [rhoe e s1 f s2] relates the error outcomes (codes and states). *)
Definition rel_resg {A S1 S2} (bd : bool) (rho : S1 -> S2 -> Prop) (rhoe : N -> S1 -> N -> S2 -> Prop)
           (m1 : res A S1) (m2 : res A S2) : Prop :=
  match m1 with
  | Ok a s1 => match m2 with Ok b s2 => a = b /\ rho s1 s2 | Err _ _ => False end
  | Err e s1 =>
      if bd then match m2 with Err f s2 => rhoe e s1 f s2 | Ok _ _ => False end
      else True
  end.

(* the common case: same error code, states related as for success *)
Definition same_err {S1 S2} (rho : S1 -> S2 -> Prop) : N -> S1 -> N -> S2 -> Prop :=
  fun e s1 f s2 => e = f /\ rho s1 s2.

Section WithDirection.
Variable bd : bool.

Lemma rel_bind {A B S1 S2} (rho : S1 -> S2 -> Prop) (rhoe : N -> S1 -> N -> S2 -> Prop)
      (m1 : res A S1) (m2 : res A S2) (f1 : A -> S1 -> res B S1) (f2 : A -> S2 -> res B S2) :
  rel_resg bd rho rhoe m1 m2 ->
  (forall a s1 s2, rho s1 s2 -> rel_resg bd rho rhoe (f1 a s1) (f2 a s2)) ->
  rel_resg bd rho rhoe (bind m1 f1) (bind m2 f2).
Proof.
  unfold rel_resg. destruct m1 as [a s1|e s1], m2 as [b s2|f s2]; cbn [bind]; intros H Hf;
    try contradiction; try exact H.
  - destruct H as [-> H]. apply Hf, H.
  - destruct bd; [contradiction|exact I].
Qed.

Lemma rel_rmap {A B S1 S2} (rho : S1 -> S2 -> Prop) (rhoe : N -> S1 -> N -> S2 -> Prop) (g : A -> B)
      (m1 : res A S1) (m2 : res A S2) :
  rel_resg bd rho rhoe m1 m2 -> rel_resg bd rho rhoe (rmap g m1) (rmap g m2).
Proof.
  unfold rel_resg. destruct m1, m2; cbn [rmap]; intros H; try contradiction; try exact H.
  destruct H as [-> H]; auto.
Qed.

Lemma rel_ok {A S1 S2} (rho : S1 -> S2 -> Prop) (rhoe : N -> S1 -> N -> S2 -> Prop) (a : A) s1 s2 :
  rho s1 s2 -> rel_resg bd rho rhoe (Ok a s1) (Ok a s2).
Proof. cbn; auto. Qed.

Lemma rel_err {A S1 S2} (rho : S1 -> S2 -> Prop) (rhoe : N -> S1 -> N -> S2 -> Prop) e s1 s2 :
  (forall e s1 s2, rho s1 s2 -> rhoe e s1 e s2) ->
  rho s1 s2 -> rel_resg bd rho rhoe (@Err A _ e s1) (@Err A _ e s2).
Proof. intros Hsub H. unfold rel_resg. destruct bd; auto. Qed.

(* ---- readers ---------------------------------------------------------------- *)
Record rops_relg {R1 R2} (rho : R1 -> R2 -> Prop) (rhoe : N -> R1 -> N -> R2 -> Prop) (o1 : rops R1) (o2 : rops R2) : Prop := {
  rr_sub : forall e r1 r2, rho r1 r2 -> rhoe e r1 e r2;
  rr_ensure : forall n r1 r2, rho r1 r2 -> rel_resg bd rho rhoe (r_ensure o1 n r1) (r_ensure o2 n r2);
  rr_read1 : forall r1 r2, rho r1 r2 -> rel_resg bd rho rhoe (r_read1 o1 r1) (r_read1 o2 r2);
  rr_readn : forall n r1 r2, rho r1 r2 -> rel_resg bd rho rhoe (r_readn o1 n r1) (r_readn o2 n r2);
  rr_skip : forall n r1 r2, rho r1 r2 -> rel_resg bd rho rhoe (r_skip o1 n r1) (r_skip o2 n r2);
  rr_gethandle : forall h r1 r2, rho r1 r2 -> rel_resg bd rho rhoe (r_gethandle o1 h r1) (r_gethandle o2 h r2)
}.

Ltac relerr Hops H := apply (rel_err _ _ _ _ _ (rr_sub _ _ _ _ Hops)); exact H.

Section ReadSim.
  Context {R1 R2 : Type} (rho : R1 -> R2 -> Prop) (rhoe : N -> R1 -> N -> R2 -> Prop) (o1 : rops R1) (o2 : rops R2).
  Hypothesis Hops : rops_relg rho rhoe o1 o2.

  Lemma read_scalar_payload_sim s p r1 r2 :
    rho r1 r2 -> rel_resg bd rho rhoe (read_scalar_payload o1 s p r1) (read_scalar_payload o2 s p r2).
  Proof.
    intros H. unfold read_scalar_payload.
    destruct s; try (apply rel_ok; exact H);
      (destruct (class_len p =? 0)%nat; [apply rel_ok; exact H|];
       apply rel_bind; [apply (rr_readn _ _ _ _ Hops); exact H|];
       intros; apply rel_ok; assumption).
  Qed.

  Lemma read_scalar_sim s r1 r2 :
    rho r1 r2 -> rel_resg bd rho rhoe (read_scalar o1 s r1) (read_scalar o2 s r2).
  Proof.
    intros H. unfold read_scalar. apply rel_bind.
    - apply (rr_read1 _ _ _ _ Hops); exact H.
    - intros p s1 s2 Hs. destruct (scalar_match s p).
      + apply read_scalar_payload_sim; exact Hs.
      + relerr Hops Hs.
  Qed.

  Lemma read_u64_sim r1 r2 :
    rho r1 r2 -> rel_resg bd rho rhoe (read_u64 o1 r1) (read_u64 o2 r2).
  Proof. intros H. unfold read_u64. apply rel_rmap, read_scalar_sim, H. Qed.

  Lemma dec_with_sim m dp1 dp2 r1 r2 :
    (forall p s1 s2, rho s1 s2 -> rel_resg bd rho rhoe (dp1 p s1) (dp2 p s2)) ->
    rho r1 r2 -> rel_resg bd rho rhoe (dec_with o1 m dp1 r1) (dec_with o2 m dp2 r2).
  Proof.
    intros Hdp H. unfold dec_with. apply rel_bind.
    - apply (rr_read1 _ _ _ _ Hops); exact H.
    - intros p s1 s2 Hs. destruct (m p); [apply Hdp; exact Hs|relerr Hops Hs].
  Qed.

  Lemma skip_entry_sim r1 r2 :
    rho r1 r2 -> rel_resg bd rho rhoe (skip_entry o1 r1) (skip_entry o2 r2).
  Proof.
    intros H. unfold skip_entry. apply rel_bind; [apply read_u64_sim; exact H|].
    intros; apply (rr_skip _ _ _ _ Hops); assumption.
  Qed.

  (* loops *)
  Section Loop.
    Context {X : Type} (f1 : X -> R1 -> res X R1) (f2 : X -> R2 -> res X R2).
    Hypothesis Hf : forall x s1 s2, rho s1 s2 -> rel_resg bd rho rhoe (f1 x s1) (f2 x s2).

    Let g1 := fun st : X * R1 =>
                match f1 (fst st) (snd st) with
                | Ok x' r' => inl (x', r') | Err e r' => inr (e, r') end.
    Let g2 := fun st : X * R2 =>
                match f2 (fst st) (snd st) with
                | Ok x' r' => inl (x', r') | Err e r' => inr (e, r') end.

    Definition rel_sum (a : (X * R1) + (N * R1)) (b : (X * R2) + (N * R2)) : Prop :=
      match a with
      | inl (x, s1) => match b with inl (y, s2) => x = y /\ rho s1 s2 | inr _ => False end
      | inr (e, s1) =>
          if bd then match b with inr (f, s2) => rhoe e s1 f s2 | inl _ => False end
          else True
      end.

    Lemma g_sim x s1 s2 : rho s1 s2 -> rel_sum (g1 (x, s1)) (g2 (x, s2)).
    Proof.
      intros H. unfold g1, g2; cbn [fst snd]. specialize (Hf x s1 s2 H). unfold rel_resg in Hf.
      destruct (f1 x s1), (f2 x s2); cbn in *; try contradiction; exact Hf.
    Qed.

    Lemma rel_sum_bind a b (k1 : X * R1 -> (X * R1) + (N * R1)) (k2 : X * R2 -> (X * R2) + (N * R2)) :
      rel_sum a b ->
      (forall x s1 s2, rho s1 s2 -> rel_sum (k1 (x, s1)) (k2 (x, s2))) ->
      rel_sum (match a with inl p => k1 p | inr e => inr e end)
              (match b with inl p => k2 p | inr e => inr e end).
    Proof.
      intros H Hk. destruct a as [[x1 t1]|[e1 t1]], b as [[x2 t2]|[e2 t2]]; cbn in H |- *;
        try contradiction; try exact H.
      - destruct H as [-> H]. apply Hk, H.
      - destruct bd; [contradiction|exact I].
    Qed.

    Lemma iter_pos_sim p : forall x s1 s2,
      rho s1 s2 -> rel_sum (iter_pos g1 p (x, s1)) (iter_pos g2 p (x, s2)).
    Proof.
      induction p as [p IH|p IH|]; intros x s1 s2 H; cbn [iter_pos].
      - apply (rel_sum_bind (g1 (x, s1)) (g2 (x, s2))
                 (fun p1 => match iter_pos g1 p p1 with inl x' => iter_pos g1 p x' | inr e => inr e end)
                 (fun p2 => match iter_pos g2 p p2 with inl x' => iter_pos g2 p x' | inr e => inr e end)).
        + apply g_sim, H.
        + intros y t1 t2 Ht.
          apply (rel_sum_bind (iter_pos g1 p (y, t1)) (iter_pos g2 p (y, t2)) (iter_pos g1 p) (iter_pos g2 p)).
          * apply IH, Ht.
          * intros; apply IH; assumption.
      - apply (rel_sum_bind (iter_pos g1 p (x, s1)) (iter_pos g2 p (x, s2)) (iter_pos g1 p) (iter_pos g2 p)).
        + apply IH, H.
        + intros; apply IH; assumption.
      - apply g_sim, H.
    Qed.

    Lemma loop_res_sim n x r1 r2 :
      rho r1 r2 -> rel_resg bd rho rhoe (loop_res n f1 x r1) (loop_res n f2 x r2).
    Proof.
      intros H. unfold loop_res. fold g1 g2.
      destruct n as [|p]; cbn [iter_N].
      - cbn. auto.
      - pose proof (iter_pos_sim p x r1 r2 H) as H1. unfold rel_resg.
        destruct (iter_pos g1 p (x, r1)) as [[y1 u1]|[e1 u1]],
                 (iter_pos g2 p (x, r2)) as [[y2 u2]|[e2 u2]];
          cbn in H1 |- *; try contradiction; exact H1.
    Qed.
  End Loop.
End ReadSim.

(* Bounded readers over related readers are related *)
Definition brele {R1 R2} (rhoe : N -> R1 -> N -> R2 -> Prop) : N -> Bounded R1 -> N -> Bounded R2 -> Prop :=
  fun e b1 f b2 => rhoe e (b_inner b1) f (b_inner b2) /\ b_size b1 = b_size b2 /\ b_index b1 = b_index b2.

Definition brel {R1 R2} (rho : R1 -> R2 -> Prop) (b1 : Bounded R1) (b2 : Bounded R2) : Prop :=
  rho (b_inner b1) (b_inner b2) /\ b_size b1 = b_size b2 /\ b_index b1 = b_index b2.

Lemma b_lift_sim {A R1 R2} (rho : R1 -> R2 -> Prop) (rhoe : N -> R1 -> N -> R2 -> Prop) (b1 : Bounded R1) (b2 : Bounded R2) adv
      (m1 : res A R1) (m2 : res A R2) :
  brel rho b1 b2 -> rel_resg bd rho rhoe m1 m2 -> rel_resg bd (brel rho) (brele rhoe) (b_lift b1 adv m1) (b_lift b2 adv m2).
Proof.
  intros (Hi & Hs & Hx) H. unfold b_lift, b_with.
  unfold rel_resg in *. destruct m1, m2; try contradiction.
  - destruct H as [-> H]. split; [reflexivity|].
    unfold brel, b_inner, b_size, b_index in *; cbn; rewrite Hs, Hx; auto.
  - destruct bd; [contradiction|exact I].
  - destruct bd; [|exact I]. unfold brele, b_inner, b_size, b_index in *; cbn. rewrite Hs, Hx. auto.
Qed.

Lemma b_keep_sim {A R1 R2} (rho : R1 -> R2 -> Prop) (rhoe : N -> R1 -> N -> R2 -> Prop) (b1 : Bounded R1) (b2 : Bounded R2)
      (m1 : res A R1) (m2 : res A R2) :
  brel rho b1 b2 -> rel_resg bd rho rhoe m1 m2 -> rel_resg bd (brel rho) (brele rhoe) (b_keep b1 m1) (b_keep b2 m2).
Proof.
  intros (Hi & Hs & Hx) H. unfold b_keep, b_with.
  unfold rel_resg in *. destruct m1, m2; try contradiction.
  - destruct H as [-> H]. split; [reflexivity|].
    unfold brel, b_inner, b_size, b_index in *; cbn; rewrite Hs, Hx; auto.
  - destruct bd; [contradiction|exact I].
  - destruct bd; [|exact I]. unfold brele, b_inner, b_size, b_index in *; cbn. rewrite Hs, Hx. auto.
Qed.

Lemma bounded_rops_rel {R1 R2} (rho : R1 -> R2 -> Prop) (rhoe : N -> R1 -> N -> R2 -> Prop) o1 o2 :
  rops_relg rho rhoe o1 o2 -> rops_relg (brel rho) (brele rhoe) (bounded_rops o1) (bounded_rops o2).
Proof.
  intros Hops.
  assert (Hsubb : forall e (c1 : Bounded R1) (c2 : Bounded R2), brel rho c1 c2 -> brele rhoe e c1 e c2)
    by (intros e c1 c2 (Hc & Hs' & Hx'); split; [apply (rr_sub _ _ _ _ Hops), Hc|auto]).
  split; cbn [bounded_rops r_ensure r_read1 r_readn r_skip r_gethandle].
  - exact Hsubb.
  - intros n b1 b2 H. pose proof H as (Hi & Hs & Hx). rewrite Hs, Hx.
    destruct (sub64 (b_size b2) (b_index b2) <? n); [apply (rel_err _ _ _ _ _ Hsubb); exact H|].
    apply b_keep_sim; [exact H|]. apply (rr_ensure _ _ _ _ Hops), Hi.
  - intros b1 b2 H. pose proof H as (Hi & Hs & Hx). rewrite Hs, Hx.
    destruct (b_index b2 <? b_size b2); [|apply (rel_err _ _ _ _ _ Hsubb); exact H].
    apply b_lift_sim; [exact H|]. apply (rr_read1 _ _ _ _ Hops), Hi.
  - intros n b1 b2 H. pose proof H as (Hi & Hs & Hx). rewrite Hs, Hx.
    destruct (sub64 (b_size b2) (b_index b2) <? n); [apply (rel_err _ _ _ _ _ Hsubb); exact H|].
    apply b_lift_sim; [exact H|]. apply (rr_readn _ _ _ _ Hops), Hi.
  - intros n b1 b2 H. pose proof H as (Hi & Hs & Hx). rewrite Hs, Hx.
    destruct (sub64 (b_size b2) (b_index b2) <? n); [apply (rel_err _ _ _ _ _ Hsubb); exact H|].
    apply b_lift_sim; [exact H|]. apply (rr_skip _ _ _ _ Hops), Hi.
  - intros h b1 b2 H. pose proof H as (Hi & Hs & Hx).
    apply b_keep_sim; [exact H|]. apply (rr_gethandle _ _ _ _ Hops), Hi.
Qed.

Lemma bounded_read_padding_sim {R1 R2} (rho : R1 -> R2 -> Prop) (rhoe : N -> R1 -> N -> R2 -> Prop) o1 o2 b1 b2 :
  rops_relg rho rhoe o1 o2 -> brel rho b1 b2 ->
  rel_resg bd (brel rho) (brele rhoe) (bounded_read_padding o1 b1) (bounded_read_padding o2 b2).
Proof.
  intros Hops H. pose proof H as (Hi & Hs & Hx). unfold bounded_read_padding.
  rewrite Hs, Hx. apply b_lift_sim; [exact H|]. apply (rr_skip _ _ _ _ Hops), Hi.
Qed.

Lemma framed_read_sim {R1 R2} (rho : R1 -> R2 -> Prop) (rhoe : N -> R1 -> N -> R2 -> Prop) o1 o2
      (d1 : Bounded R1 -> res val (Bounded R1)) (d2 : Bounded R2 -> res val (Bounded R2)) :
  rops_relg rho rhoe o1 o2 ->
  (forall b1 b2, brel rho b1 b2 -> rel_resg bd (brel rho) (brele rhoe) (d1 b1) (d2 b2)) ->
  forall r1 r2, rho r1 r2 -> rel_resg bd rho rhoe (framed_read o1 d1 r1) (framed_read o2 d2 r2).
Proof.
  intros Hops Hd r1 r2 Hr. unfold framed_read.
  apply rel_bind; [apply read_u64_sim; assumption|]. intros sz y1 y2 Hy.
  assert (Hb : brel rho (b_make y1 sz) (b_make y2 sz))
    by (unfold brel, b_make, b_inner, b_size, b_index; cbn; auto).
  pose proof (Hd _ _ Hb) as H. unfold rel_resg in H |- *.
  destruct (d1 (b_make y1 sz)) as [v1 c1|e1 c1], (d2 (b_make y2 sz)) as [v2 c2|e2 c2];
    try contradiction.
  - destruct H as [-> Hc].
    pose proof (bounded_read_padding_sim rho rhoe o1 o2 c1 c2 Hops Hc) as Hp. unfold rel_resg in Hp.
    destruct (bounded_read_padding o1 c1), (bounded_read_padding o2 c2); try contradiction.
    + destruct Hp as [_ Hp]. split; [reflexivity|apply Hp].
    + destruct bd; [contradiction|exact I].
    + destruct bd; [|exact I]. apply Hp.
  - destruct bd; [contradiction|exact I].
  - destruct bd; [|exact I]. apply H.
Qed.

Lemma find_entry_sim {R1 R2} (rho : R1 -> R2 -> Prop) (rhoe : N -> R1 -> N -> R2 -> Prop) o1 o2 id
      (es1 : list (N * bool * (R1 -> res val R1))) (es2 : list (N * bool * (R2 -> res val R2))) :
  rops_relg rho rhoe o1 o2 ->
  Forall2 (fun (e1 : N * bool * (R1 -> res val R1)) (e2 : N * bool * (R2 -> res val R2)) =>
             fst e1 = fst e2 /\
             forall r1 r2, rho r1 r2 -> rel_resg bd rho rhoe (snd e1 r1) (snd e2 r2)) es1 es2 ->
  forall slots r1 r2, rho r1 r2 ->
  rel_resg bd rho rhoe (find_entry o1 id es1 slots r1) (find_entry o2 id es2 slots r2).
Proof.
  intros Hops H. induction H as [|[[eid1 act1] rd1] [[eid2 act2] rd2] es1' es2' [He Hrd] _ IH];
    intros slots r1 r2 Hr; cbn [find_entry].
  - apply rel_bind; [apply skip_entry_sim; assumption|]. intros; apply rel_ok; assumption.
  - cbn [fst snd] in He, Hrd. injection He as -> ->.
    destruct slots as [|sl slots'].
    + apply rel_bind; [apply skip_entry_sim; assumption|]. intros; apply rel_ok; assumption.
    + destruct (eid2 =? id).
      * destruct act2.
        -- destruct sl; try (relerr Hops Hr).
           apply rel_bind; [apply Hrd; exact Hr|]. intros; apply rel_ok; assumption.
        -- apply rel_bind; [apply skip_entry_sim; assumption|]. intros; apply rel_ok; assumption.
      * apply rel_bind; [apply IH; exact Hr|]. intros; apply rel_ok; assumption.
Qed.

(* ---- the logical-relation lemma for Encoding<T>::ReadPayload ---------------- *)
Theorem decp_sim : forall (t : ty) (p : N) (R1 R2 : Type) (rho : R1 -> R2 -> Prop) (rhoe : N -> R1 -> N -> R2 -> Prop)
                          (o1 : rops R1) (o2 : rops R2),
    rops_relg rho rhoe o1 o2 ->
    forall r1 r2, rho r1 r2 -> rel_resg bd rho rhoe (decp t p R1 o1 r1) (decp t p R2 o2 r2).
Proof.
  induction t using ty_ind'; intros p R1 R2 rho rhoe o1 o2 Hops r1 r2 Hr; cbn [decp].
  - (* scalar *) apply rel_rmap, read_scalar_payload_sim; assumption.
  - (* string *)
    apply rel_bind; [apply read_u64_sim; assumption|]. intros len s1 s2 Hs.
    destruct (negb (len mod cw =? 0)); [relerr Hops Hs|].
    apply rel_bind; [apply (rr_ensure _ _ _ _ Hops); exact Hs|]. intros _ s1' s2' Hs'.
    apply rel_bind; [apply (rr_readn _ _ _ _ Hops); exact Hs'|]. intros; apply rel_ok; assumption.
  - (* seq *)
    destruct (raw_kind t) as [[w sg]|].
    + apply rel_bind; [apply read_u64_sim; assumption|]. intros len s1 s2 Hs.
      destruct c as [|ca n|ca cap sk unb].
      * destruct (negb (len mod N.of_nat w =? 0)); [relerr Hops Hs|].
        apply rel_bind; [apply (rr_ensure _ _ _ _ Hops); exact Hs|]. intros _ s1' s2' Hs'.
        apply rel_bind; [apply (rr_readn _ _ _ _ Hops); exact Hs'|]. intros; apply rel_ok; assumption.
      * destruct (negb (len =? n * N.of_nat w)); [relerr Hops Hs|].
        apply rel_bind; [apply (rr_readn _ _ _ _ Hops); exact Hs|]. intros; apply rel_ok; assumption.
      * destruct ((negb unb && (cap * N.of_nat w <? len)) || negb (len mod N.of_nat w =? 0));
          [relerr Hops Hs|].
        apply rel_bind; [apply (rr_readn _ _ _ _ Hops); exact Hs|]. intros; apply rel_ok; assumption.
    + apply rel_bind; [apply read_u64_sim; assumption|]. intros n s1 s2 Hs.
      match goal with |- context [negb ?c] => destruct (negb c) end; [relerr Hops Hs|].
      apply rel_bind.
      * apply loop_res_sim; [|exact Hs]. intros acc u1 u2 Hu.
        apply rel_bind; [|intros; apply rel_ok; assumption].
        apply dec_with_sim; [assumption| |exact Hu]. intros; apply IHt; assumption.
      * intros; apply rel_ok; assumption.
  - (* tuple *)
    apply rel_bind; [apply read_u64_sim; assumption|]. intros n s1 s2 Hs.
    destruct (negb (n =? nlen ts)); [relerr Hops Hs|].
    apply rel_bind; [|intros; apply rel_ok; assumption].
    clear n. revert s1 s2 Hs. induction H as [|t' ts' Ht' _ IHts]; intros s1 s2 Hs.
    + apply rel_ok; exact Hs.
    + apply rel_bind.
      * apply dec_with_sim; [assumption| |exact Hs]. intros; apply Ht'; assumption.
      * intros v u1 u2 Hu. apply rel_bind; [apply IHts; exact Hu|].
        intros; apply rel_ok; assumption.
  - (* wrap *) apply IHt; assumption.
  - (* map *)
    apply rel_bind; [apply read_u64_sim; assumption|]. intros n s1 s2 Hs.
    apply rel_bind; [|intros; apply rel_ok; assumption].
    apply loop_res_sim; [|exact Hs]. intros acc u1 u2 Hu.
    apply rel_bind.
    + apply dec_with_sim; [assumption| |exact Hu]. intros; apply IHt1; assumption.
    + intros k w1 w2 Hw. apply rel_bind.
      * apply dec_with_sim; [assumption| |exact Hw]. intros; apply IHt2; assumption.
      * intros; apply rel_ok; assumption.
  - (* optional *)
    destruct (p =? P_NIL); [apply rel_ok; assumption|]. apply rel_rmap, IHt; assumption.
  - (* result *)
    destruct (p =? P_ERR); [apply rel_rmap, read_scalar_sim; assumption|].
    apply rel_rmap, IHt; assumption.
  - (* variant *)
    apply rel_bind; [apply read_scalar_sim; assumption|]. intros i s1 s2 Hs.
    destruct ((i <? -1)%Z || (Z.of_N (nlen ts) <=? i)%Z); [relerr Hops Hs|].
    destruct (i =? -1)%Z.
    + apply dec_with_sim; [assumption| |exact Hs]. intros; apply rel_ok; assumption.
    + generalize (Z.to_nat i) as n. induction H as [|t' ts' Ht' _ IHts]; intros n.
      * relerr Hops Hs.
      * destruct n as [|n'].
        -- apply rel_rmap. apply dec_with_sim; [assumption| |exact Hs].
           intros; apply Ht'; assumption.
        -- apply IHts.
  - (* handle *)
    apply rel_bind; [apply read_scalar_sim; assumption|]. intros tg s1 s2 Hs.
    destruct (negb (tg =? tag)%Z); [relerr Hops Hs|].
    apply rel_bind; [apply read_scalar_sim; assumption|]. intros ref u1 u2 Hu.
    apply rel_bind; [apply (rr_gethandle _ _ _ _ Hops); exact Hu|].
    intros; apply rel_ok; assumption.
  - (* table *)
    apply rel_bind; [apply read_u64_sim; assumption|]. intros hh s1 s2 Hs.
    destruct (negb (hh =? h)); [relerr Hops Hs|].
    apply rel_bind; [apply read_u64_sim; assumption|]. intros count u1 u2 Hu.
    apply rel_bind; [|intros; apply rel_ok; assumption].
    apply loop_res_sim; [|exact Hu]. intros slots w1 w2 Hw.
    apply rel_bind; [apply read_u64_sim; assumption|]. intros id x1 x2 Hx.
    apply find_entry_sim; [assumption| |exact Hx].
    clear -H Hops. induction H as [|[[eid act] t'] es' Ht' _ IHes]; cbn [map]; constructor; auto.
    cbn [fst snd] in *. split; [reflexivity|]. intros y1 y2 Hy.
    pose proof (bounded_rops_rel rho rhoe o1 o2 Hops) as Hbops.
    apply framed_read_sim; [assumption| |exact Hy]. intros b1 b2 Hb.
    apply dec_with_sim; [exact Hbops| |exact Hb]. intros p c1 c2 Hc. apply Ht'; assumption.
Qed.
End WithDirection.

(* ---- the common instance: equal error codes, states related as for success -- *)
Arguments same_err {S1 S2} rho e s1 f s2 /.

Definition rel_res {A S1 S2} (bd : bool) (rho : S1 -> S2 -> Prop) (m1 : res A S1) (m2 : res A S2) : Prop :=
  rel_resg bd rho (same_err rho) m1 m2.

Definition rops_rel {R1 R2} (bd : bool) (rho : R1 -> R2 -> Prop) (o1 : rops R1) (o2 : rops R2) : Prop :=
  rops_relg bd rho (same_err rho) o1 o2.

Lemma rel_resg_weaken {A S1 S2} bd (rho : S1 -> S2 -> Prop) (re re' : N -> S1 -> N -> S2 -> Prop)
      (m1 : res A S1) (m2 : res A S2) :
  (forall e s1 f s2, re e s1 f s2 -> re' e s1 f s2) ->
  rel_resg bd rho re m1 m2 -> rel_resg bd rho re' m1 m2.
Proof.
  intros H. unfold rel_resg. destruct m1, m2; auto. destruct bd; auto.
Qed.

Lemma rops_relg_weaken {R1 R2} bd (rho : R1 -> R2 -> Prop) (re re' : N -> R1 -> N -> R2 -> Prop) o1 o2 :
  (forall e s1 f s2, re e s1 f s2 -> re' e s1 f s2) ->
  rops_relg bd rho re o1 o2 -> rops_relg bd rho re' o1 o2.
Proof.
  intros H [H0 H1 H2 H3 H4 H5]. split; intros.
  - apply H, H0; assumption.
  - eapply rel_resg_weaken; [exact H|apply H1; assumption].
  - eapply rel_resg_weaken; [exact H|apply H2; assumption].
  - eapply rel_resg_weaken; [exact H|apply H3; assumption].
  - eapply rel_resg_weaken; [exact H|apply H4; assumption].
  - eapply rel_resg_weaken; [exact H|apply H5; assumption].
Qed.

Lemma bounded_rops_rel1 {R1 R2} bd (rho : R1 -> R2 -> Prop) o1 o2 :
  rops_rel bd rho o1 o2 -> rops_rel bd (brel rho) (bounded_rops o1) (bounded_rops o2).
Proof.
  intros H. unfold rops_rel in *.
  apply (rops_relg_weaken bd (brel rho) (brele (same_err rho))); [|apply bounded_rops_rel, H].
  intros e b1 f b2 ((-> & Hr) & Hs & Hx). cbn. unfold brel. auto.
Qed.

Lemma mk_rops_rel {R1 R2} bd (rho : R1 -> R2 -> Prop) (o1 : rops R1) (o2 : rops R2) :
  (forall n r1 r2, rho r1 r2 -> rel_res bd rho (r_ensure o1 n r1) (r_ensure o2 n r2)) ->
  (forall r1 r2, rho r1 r2 -> rel_res bd rho (r_read1 o1 r1) (r_read1 o2 r2)) ->
  (forall n r1 r2, rho r1 r2 -> rel_res bd rho (r_readn o1 n r1) (r_readn o2 n r2)) ->
  (forall n r1 r2, rho r1 r2 -> rel_res bd rho (r_skip o1 n r1) (r_skip o2 n r2)) ->
  (forall h r1 r2, rho r1 r2 -> rel_res bd rho (r_gethandle o1 h r1) (r_gethandle o2 h r2)) ->
  rops_rel bd rho o1 o2.
Proof. intros. split; auto. intros e r1 r2 Hr. cbn. auto. Qed.

Lemma rel_res_unfold {A S1 S2} bd (rho : S1 -> S2 -> Prop) (m1 : res A S1) (m2 : res A S2) :
  rel_res bd rho m1 m2 =
  match m1 with
  | Ok a s1 => match m2 with Ok b s2 => a = b /\ rho s1 s2 | Err _ _ => False end
  | Err e s1 => if bd then match m2 with Err f s2 => e = f /\ rho s1 s2 | Ok _ _ => False end else True
  end.
Proof. reflexivity. Qed.

Theorem decp_sim1 : forall (t : ty) (p : N) bd (R1 R2 : Type) (rho : R1 -> R2 -> Prop)
                           (o1 : rops R1) (o2 : rops R2),
    rops_rel bd rho o1 o2 ->
    forall r1 r2, rho r1 r2 -> rel_res bd rho (decp t p R1 o1 r1) (decp t p R2 o2 r2).
Proof. intros. unfold rel_res. eapply decp_sim; eassumption. Qed.

Lemma dec_with_sim1 {R1 R2} bd (rho : R1 -> R2 -> Prop) o1 o2 m dp1 dp2 r1 r2 :
  rops_rel bd rho o1 o2 ->
  (forall p s1 s2, rho s1 s2 -> rel_res bd rho (dp1 p s1) (dp2 p s2)) ->
  rho r1 r2 -> rel_res bd rho (dec_with o1 m dp1 r1) (dec_with o2 m dp2 r2).
Proof. intros. unfold rel_res. eapply dec_with_sim; eassumption. Qed.
