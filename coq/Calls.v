(* Calls.v — primitive call sequences on readers and writers (C16, C17):
   definitions (extracted for the correspondence driver) and their theorems. *)
From Nop Require Import Spec Sim WSim EncSpec ScalarRT DecSpec Readers.
Local Open Scope N_scope.

Inductive rcall := RcEnsure (n : N) | RcRead1 | RcReadN (n : N) | RcSkip (n : N).
Inductive wcall := WcPrepare (n : N) | WcWrite1 (b : N) | WcWriteN (bs : bytes) | WcSkip (n v : N).

(* outcome of one call: status (0 = success) and the bytes delivered *)
Definition run_rcall {R} (o : rops R) (c : rcall) (r : R) : (N * bytes) * R :=
  match c with
  | RcEnsure n => match r_ensure o n r with Ok _ r' => ((0, []), r') | Err e r' => ((e, []), r') end
  | RcRead1 => match r_read1 o r with Ok b r' => ((0, [b]), r') | Err e r' => ((e, []), r') end
  | RcReadN n => match r_readn o n r with Ok bs r' => ((0, bs), r') | Err e r' => ((e, []), r') end
  | RcSkip n => match r_skip o n r with Ok _ r' => ((0, []), r') | Err e r' => ((e, []), r') end
  end.

Fixpoint run_rcalls {R} (o : rops R) (cs : list rcall) (r : R) : list (N * bytes) * R :=
  match cs with
  | [] => ([], r)
  | c :: cs' => let '(x, r') := run_rcall o c r in
                let '(xs, r'') := run_rcalls o cs' r' in (x :: xs, r'')
  end.

Definition run_wcall {W} (o : wops W) (c : wcall) (w : W) : N * W :=
  let st (m : res unit W) := match m with Ok _ w' => (0, w') | Err e w' => (e, w') end in
  match c with
  | WcPrepare n => st (w_prepare o n w)
  | WcWrite1 b => st (w_write1 o b w)
  | WcWriteN bs => st (w_writen o bs w)
  | WcSkip n v => st (w_skip o n v w)
  end.

Fixpoint run_wcalls {W} (o : wops W) (cs : list wcall) (w : W) : list N * W :=
  match cs with
  | [] => ([], w)
  | c :: cs' => let '(x, w') := run_wcall o c w in
                let '(xs, w'') := run_wcalls o cs' w' in (x :: xs, w'')
  end.

(* ---- C17: related readers give the same outcomes on every call sequence ---------- *)
Lemma run_rcall_rel {R1 R2} (rho : R1 -> R2 -> Prop) o1 o2 c r1 r2 :
  rops_rel true rho o1 o2 -> rho r1 r2 ->
  fst (run_rcall o1 c r1) = fst (run_rcall o2 c r2) /\ rho (snd (run_rcall o1 c r1)) (snd (run_rcall o2 c r2)).
Proof.
  intros Hops Hr. destruct c; cbn [run_rcall].
  - pose proof (rr_ensure _ _ _ _ _ Hops n r1 r2 Hr) as H. unfold rel_resg, same_err in H.
    destruct (r_ensure o1 n r1), (r_ensure o2 n r2); try contradiction; destruct H as [-> H]; auto.
  - pose proof (rr_read1 _ _ _ _ _ Hops r1 r2 Hr) as H. unfold rel_resg, same_err in H.
    destruct (r_read1 o1 r1), (r_read1 o2 r2); try contradiction; destruct H as [-> H]; auto.
  - pose proof (rr_readn _ _ _ _ _ Hops n r1 r2 Hr) as H. unfold rel_resg, same_err in H.
    destruct (r_readn o1 n r1), (r_readn o2 n r2); try contradiction; destruct H as [-> H]; auto.
  - pose proof (rr_skip _ _ _ _ _ Hops n r1 r2 Hr) as H. unfold rel_resg, same_err in H.
    destruct (r_skip o1 n r1), (r_skip o2 n r2); try contradiction; destruct H as [-> H]; auto.
Qed.

Theorem run_rcalls_rel {R1 R2} (rho : R1 -> R2 -> Prop) o1 o2 cs : forall r1 r2,
  rops_rel true rho o1 o2 -> rho r1 r2 ->
  fst (run_rcalls o1 cs r1) = fst (run_rcalls o2 cs r2) /\
  rho (snd (run_rcalls o1 cs r1)) (snd (run_rcalls o2 cs r2)).
Proof.
  induction cs as [|c cs IH]; intros r1 r2 Hops Hr; cbn [run_rcalls]; [auto|].
  destruct (run_rcall_rel rho o1 o2 c r1 r2 Hops Hr) as [E1 H1].
  destruct (run_rcall o1 c r1) as [x1 s1], (run_rcall o2 c r2) as [x2 s2]. cbn [fst snd] in *. subst x2.
  destruct (IH s1 s2 Hops H1) as [E2 H2].
  destruct (run_rcalls o1 cs s1) as [xs1 t1], (run_rcalls o2 cs s2) as [xs2 t2]. cbn [fst snd] in *. subst xs2. auto.
Qed.

(* Ensure(n) on the buffer reader succeeds exactly when n bytes remain *)
Theorem bufr_ensure_exact (r : bufr) n : br_idx r <= br_size r -> br_size r < two64 ->
  r_ensure bufr_ops n r = if n <=? br_size r - br_idx r then Ok tt r else Err EReadLimit r.
Proof.
  intros H1 H2. cbn. rewrite sub64_small by lia.
  destruct (N.ltb_spec (br_size r - br_idx r) n); destruct (N.leb_spec n (br_size r - br_idx r)); try lia; reflexivity.
Qed.

(* checked buffer writers refuse exactly the calls that would exceed capacity *)
Theorem bufw_checked_exact (w : bufw) bs : bw_idx w <= bw_cap w -> bw_cap w < two64 ->
  w_writen (bufw_ops true) bs w =
  if nlen bs <=? bw_cap w - bw_idx w then Ok tt (bw_put w bs) else Err EWriteLimit w.
Proof.
  intros H1 H2. cbn. rewrite sub64_small by lia. fold (nlen bs).
  destruct (N.ltb_spec (bw_cap w - bw_idx w) (nlen bs)); destruct (N.leb_spec (nlen bs) (bw_cap w - bw_idx w)); try lia; reflexivity.
Qed.

Theorem bufw_prepare_exact checked (w : bufw) n : bw_idx w <= bw_cap w -> bw_cap w < two64 ->
  w_prepare (bufw_ops checked) n w = if n <=? bw_cap w - bw_idx w then Ok tt w else Err EWriteLimit w.
Proof.
  intros H1 H2. cbn. rewrite sub64_small by lia.
  destruct (N.ltb_spec (bw_cap w - bw_idx w) n); destruct (N.leb_spec n (bw_cap w - bw_idx w)); try lia; reflexivity.
Qed.

(* ---- C16: BoundedReader / BoundedWriter ------------------------------------------------ *)
Definition wfb {X} (b : Bounded X) : Prop := b_index b <= b_size b /\ b_size b < two64.

(* a call that would cross the limit fails with ReadLimitReached and leaves the
   wrapped reader (and the count) untouched *)
Theorem bounded_read_cross {R} (o : rops R) (b : Bounded R) n : wfb b -> b_size b - b_index b < n ->
  r_ensure (bounded_rops o) n b = Err EReadLimit b /\
  r_readn (bounded_rops o) n b = Err EReadLimit b /\
  r_skip (bounded_rops o) n b = Err EReadLimit b.
Proof.
  intros [H1 H2] H. cbn. rewrite sub64_small by lia. rewrite (proj2 (N.ltb_lt _ _) H). auto.
Qed.

Theorem bounded_read1_cross {R} (o : rops R) (b : Bounded R) : b_index b = b_size b ->
  r_read1 (bounded_rops o) b = Err EReadLimit b.
Proof. intros H. cbn. rewrite H, N.ltb_irrefl. reflexivity. Qed.

(* within the limit the call is the wrapped reader's call; the count advances
   exactly when it succeeds *)
Theorem bounded_read_within {R} (o : rops R) (b : Bounded R) n : wfb b -> n <= b_size b - b_index b ->
  r_readn (bounded_rops o) n b =
    match r_readn o n (b_inner b) with
    | Ok bs x => Ok bs (x, b_size b, b_index b + n)
    | Err e x => Err e (x, b_size b, b_index b)
    end /\
  r_skip (bounded_rops o) n b =
    match r_skip o n (b_inner b) with
    | Ok u x => Ok u (x, b_size b, b_index b + n)
    | Err e x => Err e (x, b_size b, b_index b)
    end.
Proof.
  intros [H1 H2] H. cbn. rewrite sub64_small by lia. rewrite (proj2 (N.ltb_ge _ _)) by lia.
  unfold b_lift, b_with. rewrite add64_small by lia. split.
  - destruct (r_readn o n (b_inner b)); reflexivity.
  - destruct (r_skip o n (b_inner b)); reflexivity.
Qed.

(* the invariant index <= limit survives every call, successful or not *)
Theorem bounded_read_inv {R} (o : rops R) (c : rcall) (b : Bounded R) :
  wfb b -> wfb (snd (run_rcall (bounded_rops o) c b)) /\
           b_index b <= b_index (snd (run_rcall (bounded_rops o) c b)).
Proof.
  intros [H1 H2]. unfold wfb in *. destruct b as [[x sz] idx].
  unfold b_index, b_size, b_inner in *; cbn [fst snd] in *.
  destruct c; cbn [run_rcall bounded_rops r_ensure r_read1 r_readn r_skip];
    unfold b_keep, b_lift, b_with, b_index, b_size, b_inner; cbn [fst snd].
  - rewrite sub64_small by lia. destruct (N.ltb_spec (sz - idx) n); [cbn; lia|].
    destruct (r_ensure o n x); cbn; lia.
  - destruct (N.ltb_spec idx sz); [|cbn; lia].
    destruct (r_read1 o x); cbn; [rewrite add64_small by lia|]; lia.
  - rewrite sub64_small by lia. destruct (N.ltb_spec (sz - idx) n); [cbn; lia|].
    destruct (r_readn o n x); cbn; [rewrite add64_small by lia|]; lia.
  - rewrite sub64_small by lia. destruct (N.ltb_spec (sz - idx) n); [cbn; lia|].
    destruct (r_skip o n x); cbn; [rewrite add64_small by lia|]; lia.
Qed.

Theorem bounded_read_seq_inv {R} (o : rops R) (cs : list rcall) : forall (b : Bounded R),
  wfb b -> wfb (snd (run_rcalls (bounded_rops o) cs b)).
Proof.
  induction cs as [|c cs IH]; intros b H; cbn [run_rcalls]; [exact H|].
  destruct (bounded_read_inv o c b H) as [H' _].
  destruct (run_rcall (bounded_rops o) c b) as [x b']. cbn [snd] in H'.
  specialize (IH b' H'). destruct (run_rcalls (bounded_rops o) cs b') as [xs b'']. exact IH.
Qed.

(* ReadPadding leaves the wrapped reader exactly at the limit *)
Theorem bounded_padding_to_limit {R} (o : rops R) (b b' : Bounded R) : wfb b ->
  bounded_read_padding o b = Ok tt b' -> b_index b' = b_size b' /\ b_size b' = b_size b.
Proof.
  intros [H1 H2]. unfold bounded_read_padding, b_lift, b_with. rewrite sub64_small by lia.
  destruct (r_skip o (b_size b - b_index b) (b_inner b)) as [[] x|]; [|discriminate].
  intros E. injection E as <-. cbn. rewrite add64_small by lia. split; [lia|reflexivity].
Qed.

(* writers: symmetric *)
Theorem bounded_write_cross {W} (o : wops W) (b : Bounded W) n bs v : wfb b ->
  (b_size b - b_index b < n -> w_prepare (bounded_wops o) n b = Err EWriteLimit b /\
                               w_skip (bounded_wops o) n v b = Err EWriteLimit b) /\
  (b_size b - b_index b < nlen bs -> w_writen (bounded_wops o) bs b = Err EWriteLimit b).
Proof.
  intros [H1 H2]. cbn. rewrite sub64_small by lia. fold (nlen bs). split.
  - intros H. rewrite (proj2 (N.ltb_lt _ _) H). auto.
  - intros H. rewrite (proj2 (N.ltb_lt _ _) H). auto.
Qed.

Theorem bounded_write_within {W} (o : wops W) (b : Bounded W) bs : wfb b -> nlen bs <= b_size b - b_index b ->
  w_writen (bounded_wops o) bs b =
    match w_writen o bs (b_inner b) with
    | Ok u x => Ok u (x, b_size b, b_index b + nlen bs)
    | Err e x => Err e (x, b_size b, b_index b)
    end.
Proof.
  intros [H1 H2] H. cbn. rewrite sub64_small by lia. fold (nlen bs). rewrite (proj2 (N.ltb_ge _ _)) by lia.
  unfold b_lift, b_with. rewrite add64_small by lia. destruct (w_writen o bs (b_inner b)); reflexivity.
Qed.

Theorem bounded_write_inv {W} (o : wops W) (c : wcall) (b : Bounded W) :
  wfb b -> wfb (snd (run_wcall (bounded_wops o) c b)).
Proof.
  intros [H1 H2]. unfold wfb in *. destruct b as [[x sz] idx].
  unfold b_index, b_size, b_inner in *; cbn [fst snd] in *.
  destruct c; cbn [run_wcall bounded_wops w_prepare w_write1 w_writen w_skip];
    unfold b_keep, b_lift, b_with, b_index, b_size, b_inner; cbn [fst snd].
  - rewrite sub64_small by lia. destruct (N.ltb_spec (sz - idx) n); [cbn; lia|].
    destruct (w_prepare o n x); cbn; lia.
  - destruct (N.ltb_spec idx sz); [|cbn; lia].
    destruct (w_write1 o b x); cbn; [rewrite add64_small by lia|]; lia.
  - rewrite sub64_small by lia. destruct (N.ltb_spec (sz - idx) (N.of_nat (length bs))); [cbn; lia|].
    destruct (w_writen o bs x); cbn; [rewrite add64_small by lia|]; lia.
  - rewrite sub64_small by lia. destruct (N.ltb_spec (sz - idx) n); [cbn; lia|].
    destruct (w_skip o n v x); cbn; [rewrite add64_small by lia|]; lia.
Qed.

Theorem bounded_write_padding_fills {W} (o : wops W) v (b b' : Bounded W) : wfb b ->
  bounded_write_padding o v b = Ok tt b' ->
  b_index b' = b_size b' /\
  exists x, w_skip o (b_size b - b_index b) v (b_inner b) = Ok tt x /\ b_inner b' = x.
Proof.
  intros [H1 H2]. unfold bounded_write_padding, b_lift, b_with. rewrite sub64_small by lia.
  destruct (w_skip o (b_size b - b_index b) v (b_inner b)) as [[] x|]; [|discriminate].
  intros E. injection E as <-. cbn. rewrite add64_small by lia. split; [lia|]. exists x. auto.
Qed.
