(* Objects.v — state machines of nop::Optional / Entry, nop::Result / Status,
   nop::Variant and nop::UniqueHandle over element objects that track their own
   lifetime.  The steps mirror the code of types/optional.h, types/result.h,
   types/variant.h, types/handle.h in terms of four primitive actions on an
   element slot: construct, destroy, assign, read.  Definitions only; proofs in
   ObjectsProps.v. *)
From Coq Require Export List ZArith NArith Bool Lia.
Export ListNotations.
Local Open Scope Z_scope.

(* ---- element slots and the global lifetime accounting -------------------------- *)
Inductive slot := Dead | Alive (v : Z).

Record stats := { ctor : nat; dtor : nat; bad : nat }.
(* bad counts protocol violations: construction over a live element (leak),
   destruction of a dead one (double destruction), assignment to or read of a
   dead one *)

Definition moved : Z := -1.      (* value of a moved-from element *)

Definition s_construct (v : Z) (s : slot) (st : stats) : slot * stats :=
  match s with
  | Dead => (Alive v, {| ctor := S (ctor st); dtor := dtor st; bad := bad st |})
  | Alive _ => (Alive v, {| ctor := S (ctor st); dtor := dtor st; bad := S (bad st) |})
  end.

Definition s_destroy (s : slot) (st : stats) : slot * stats :=
  match s with
  | Alive _ => (Dead, {| ctor := ctor st; dtor := S (dtor st); bad := bad st |})
  | Dead => (Dead, {| ctor := ctor st; dtor := dtor st; bad := S (bad st) |})
  end.

Definition s_assign (v : Z) (s : slot) (st : stats) : slot * stats :=
  match s with
  | Alive _ => (Alive v, st)
  | Dead => (Dead, {| ctor := ctor st; dtor := dtor st; bad := S (bad st) |})
  end.

Definition s_value (s : slot) : Z := match s with Alive v => v | Dead => 0 end.

(* reading an element that is then moved from: the source keeps living with the
   moved-from value *)
Definition s_move_out (s : slot) (st : stats) : Z * slot * stats :=
  match s with
  | Alive v => (v, Alive moved, st)
  | Dead => (0, Dead, {| ctor := ctor st; dtor := dtor st; bad := S (bad st) |})
  end.

Definition stats0 : stats := {| ctor := 0; dtor := 0; bad := 0 |}.

Fixpoint upd {A} (l : list A) (i : nat) (x : A) : list A :=
  match l, i with
  | [], _ => []
  | _ :: r, O => x :: r
  | a :: r, S i' => a :: upd r i' x
  end.

(* ================================ Optional<T> / Entry<T,Id> ======================= *)
Record ostate := { o_empty : bool; o_slot : slot }.
Definition o_new : ostate := {| o_empty := true; o_slot := Dead |}.

(* Optional::Assign(U&&): placement-new when empty, element assignment otherwise *)
Definition o_assign (v : Z) (o : ostate) (st : stats) : ostate * stats :=
  if o_empty o then
    let '(s, st) := s_construct v (o_slot o) st in ({| o_empty := false; o_slot := s |}, st)
  else
    let '(s, st) := s_assign v (o_slot o) st in ({| o_empty := false; o_slot := s |}, st).

(* Optional::Destruct() *)
Definition o_destruct (o : ostate) (st : stats) : ostate * stats :=
  if o_empty o then (o, st)
  else let '(s, st) := s_destroy (o_slot o) st in ({| o_empty := true; o_slot := s |}, st).

Record oworld := { o_objs : list (option ostate); o_st : stats }.

Inductive oop :=
| ONew (i : nat)                 (* Optional()                        *)
| OVal (i : nat) (x : Z)         (* Optional(const T&)                *)
| OMoveVal (i : nat) (x : Z)     (* Optional(T&&)                     *)
| OInPlace (i : nat) (x : Z)     (* Optional(InPlace, args)           *)
| OCopy (i j : nat)              (* Optional(const Optional&)         *)
| OMove (i j : nat)              (* Optional(Optional&&)              *)
| ODestroy (i : nat)             (* ~Optional()                       *)
| OAssign (i j : nat)            (* a = b                             *)
| OMoveAssign (i j : nat)        (* a = std::move(b)                  *)
| OSetVal (i : nat) (x : Z)      (* a = value (lvalue)                *)
| OSetMoveVal (i : nat) (x : Z)  (* a = std::move(value)              *)
| OSetConv (i : nat) (x : Z)     (* a = Optional<U>{x}                *)
| OSetConvEmpty (i : nat)        (* a = Optional<U>{}                 *)
| OClear (i : nat)               (* a.clear()                         *)
| OTake (i : nat).               (* T x = a.take()                    *)

Definition o_get (w : oworld) (i : nat) : option ostate := nth i (o_objs w) None.
Definition o_put (w : oworld) (i : nat) (o : option ostate) (st : stats) : oworld :=
  {| o_objs := upd (o_objs w) i o; o_st := st |}.

(* precondition: constructors need a destroyed object, everything else a living
   one (and a living source); take() needs a value *)
Definition o_pre (w : oworld) (op : oop) : bool :=
  let dead i := match o_get w i with None => (i <? length (o_objs w))%nat | Some _ => false end in
  let live i := match o_get w i with Some _ => true | None => false end in
  match op with
  | ONew i | OVal i _ | OMoveVal i _ | OInPlace i _ => dead i
  | OCopy i j | OMove i j => dead i && live j
  | ODestroy i | OSetVal i _ | OSetMoveVal i _ | OSetConv i _ | OSetConvEmpty i | OClear i => live i
  | OAssign i j | OMoveAssign i j => live i && live j
  | OTake i => match o_get w i with Some o => negb (o_empty o) | None => false end
  end.

Definition o_step (w : oworld) (op : oop) : oworld :=
  if negb (o_pre w op) then w else
  let st := o_st w in
  match op with
  | ONew i => o_put w i (Some o_new) st
  | OVal i x | OMoveVal i x | OInPlace i x =>
      let '(s, st) := s_construct x Dead st in o_put w i (Some {| o_empty := false; o_slot := s |}) st
  | OCopy i j =>
      match o_get w j with
      | Some src =>
          if o_empty src then o_put w i (Some o_new) st
          else let '(s, st) := s_construct (s_value (o_slot src)) Dead st in
               o_put w i (Some {| o_empty := false; o_slot := s |}) st
      | None => w
      end
  | OMove i j =>
      match o_get w j with
      | Some src =>
          if o_empty src then o_put w i (Some o_new) st
          else
            (* State(State&&): the element is move-constructed; the source stays non-empty *)
            let '(v, ss, st) := s_move_out (o_slot src) st in
            let '(s, st) := s_construct v Dead st in
            let w := o_put w j (Some {| o_empty := false; o_slot := ss |}) st in
            o_put w i (Some {| o_empty := false; o_slot := s |}) st
      | None => w
      end
  | ODestroy i =>
      match o_get w i with
      | Some o => let '(_, st) := o_destruct o st in o_put w i None st
      | None => w
      end
  | OAssign i j =>
      if Nat.eqb i j then w else
      match o_get w i, o_get w j with
      | Some a, Some b =>
          if o_empty b then let '(a, st) := o_destruct a st in o_put w i (Some a) st
          else let '(a, st) := o_assign (s_value (o_slot b)) a st in o_put w i (Some a) st
      | _, _ => w
      end
  | OMoveAssign i j =>
      if Nat.eqb i j then w else
      match o_get w i, o_get w j with
      | Some a, Some b =>
          if o_empty b then let '(a, st) := o_destruct a st in o_put w i (Some a) st
          else
            (* Assign(other.take()); other.Destruct(); *)
            let '(v, bs, st) := s_move_out (o_slot b) st in
            let '(a, st) := o_assign v a st in
            let '(b, st) := o_destruct {| o_empty := false; o_slot := bs |} st in
            let w := o_put w i (Some a) st in
            o_put w j (Some b) st
      | _, _ => w
      end
  | OSetVal i x | OSetMoveVal i x | OSetConv i x =>
      match o_get w i with
      | Some a => let '(a, st) := o_assign x a st in o_put w i (Some a) st
      | None => w
      end
  | OSetConvEmpty i | OClear i =>
      match o_get w i with
      | Some a => let '(a, st) := o_destruct a st in o_put w i (Some a) st
      | None => w
      end
  | OTake i =>
      match o_get w i with
      | Some a =>
          (* T x = a.take(): a local element is move-constructed and destroyed at the
             end of the statement; the Optional stays non-empty with a moved-from element *)
          let '(v, s, st) := s_move_out (o_slot a) st in
          let '(tmp, st) := s_construct v Dead st in
          let '(_, st) := s_destroy tmp st in
          o_put w i (Some {| o_empty := false; o_slot := s |}) st
      | None => w
      end
  end.

Definition o_init (n : nat) : oworld := {| o_objs := repeat None n; o_st := stats0 |}.

(* ================================ Result<E,T> / Status<T> ========================= *)
Inductive rtag := RtEmpty | RtError (e : Z) | RtValue.
Record rstate := { r_tag : rtag; r_slot : slot }.
Definition r_new : rstate := {| r_tag := RtEmpty; r_slot := Dead |}.
Definition r_has_value (r : rstate) : bool := match r_tag r with RtValue => true | _ => false end.

(* Result::Destruct(): if (has_value()) value_.~T(); error_ = None; state_ = Empty *)
Definition r_destruct (r : rstate) (st : stats) : rstate * stats :=
  if r_has_value r then
    let '(s, st) := s_destroy (r_slot r) st in ({| r_tag := RtEmpty; r_slot := s |}, st)
  else ({| r_tag := RtEmpty; r_slot := r_slot r |}, st).

(* Result::Assign(value) *)
Definition r_assign_value (v : Z) (r : rstate) (st : stats) : rstate * stats :=
  if r_has_value r then
    let '(s, st) := s_assign v (r_slot r) st in ({| r_tag := RtValue; r_slot := s |}, st)
  else
    let '(s, st) := s_construct v (r_slot r) st in ({| r_tag := RtValue; r_slot := s |}, st).

(* Result::Assign(error): Destruct(); if (error != None) { error_ = error; state_ = Error; } *)
Definition r_assign_error (e : Z) (r : rstate) (st : stats) : rstate * stats :=
  let '(r, st) := r_destruct r st in
  if Z.eqb e 0 then (r, st) else ({| r_tag := RtError e; r_slot := r_slot r |}, st).

Record rworld := { r_objs : list (option rstate); r_stt : stats }.

Inductive rop :=
| RNew (i : nat) | RVal (i : nat) (x : Z) | RMoveVal (i : nat) (x : Z) | RErr (i : nat) (e : Z)
| RCopy (i j : nat) | RMove (i j : nat) | RDestroy (i : nat)
| RAssign (i j : nat) | RMoveAssign (i j : nat)
| RSetVal (i : nat) (x : Z) | RSetMoveVal (i : nat) (x : Z) | RSetErr (i : nat) (e : Z)
| RClear (i : nat) | RTake (i : nat).

Definition r_get (w : rworld) (i : nat) : option rstate := nth i (r_objs w) None.
Definition r_put (w : rworld) (i : nat) (o : option rstate) (st : stats) : rworld :=
  {| r_objs := upd (r_objs w) i o; r_stt := st |}.

Definition r_pre (w : rworld) (op : rop) : bool :=
  let dead i := match r_get w i with None => (i <? length (r_objs w))%nat | Some _ => false end in
  let live i := match r_get w i with Some _ => true | None => false end in
  match op with
  | RNew i | RVal i _ | RMoveVal i _ | RErr i _ => dead i
  | RCopy i j | RMove i j => dead i && live j
  | RDestroy i | RSetVal i _ | RSetMoveVal i _ | RSetErr i _ | RClear i => live i
  | RAssign i j | RMoveAssign i j => live i && live j
  | RTake i => match r_get w i with Some r => r_has_value r | None => false end
  end.

(* the body of operator=(const Result&) / operator=(Result&&) for this != &other *)
Definition r_copy_from (a b : rstate) (st : stats) : rstate * stats :=
  if r_has_value b then r_assign_value (s_value (r_slot b)) a st
  else r_assign_error (match r_tag b with RtError e => e | _ => 0 end) a st.

Definition r_move_from (a b : rstate) (st : stats) : rstate * rstate * stats :=
  if r_has_value b then
    let '(v, bs, st) := s_move_out (r_slot b) st in
    let '(a, st) := r_assign_value v a st in
    let '(b, st) := r_destruct {| r_tag := RtValue; r_slot := bs |} st in (a, b, st)
  else
    let '(a, st) := r_assign_error (match r_tag b with RtError e => e | _ => 0 end) a st in
    let '(b, st) := r_destruct b st in (a, b, st).

Definition r_step (w : rworld) (op : rop) : rworld :=
  if negb (r_pre w op) then w else
  let st := r_stt w in
  match op with
  | RNew i => r_put w i (Some r_new) st
  | RVal i x | RMoveVal i x =>
      let '(s, st) := s_construct x Dead st in r_put w i (Some {| r_tag := RtValue; r_slot := s |}) st
  | RErr i e => r_put w i (Some {| r_tag := if Z.eqb e 0 then RtEmpty else RtError e; r_slot := Dead |}) st
  | RCopy i j =>
      match r_get w j with
      | Some b => let '(a, st) := r_copy_from r_new b st in r_put w i (Some a) st
      | None => w
      end
  | RMove i j =>
      match r_get w j with
      | Some b => let '(a, b, st) := r_move_from r_new b st in
                  let w := r_put w j (Some b) st in r_put w i (Some a) st
      | None => w
      end
  | RDestroy i =>
      match r_get w i with
      | Some r => let '(_, st) := r_destruct r st in r_put w i None st
      | None => w
      end
  | RAssign i j =>
      if Nat.eqb i j then w else
      match r_get w i, r_get w j with
      | Some a, Some b => let '(a, st) := r_copy_from a b st in r_put w i (Some a) st
      | _, _ => w
      end
  | RMoveAssign i j =>
      if Nat.eqb i j then w else
      match r_get w i, r_get w j with
      | Some a, Some b => let '(a, b, st) := r_move_from a b st in
                          let w := r_put w i (Some a) st in r_put w j (Some b) st
      | _, _ => w
      end
  | RSetVal i x | RSetMoveVal i x =>
      match r_get w i with
      | Some a => let '(a, st) := r_assign_value x a st in r_put w i (Some a) st
      | None => w
      end
  | RSetErr i e =>
      match r_get w i with
      | Some a => let '(a, st) := r_assign_error e a st in r_put w i (Some a) st
      | None => w
      end
  | RClear i =>
      match r_get w i with
      | Some a => let '(a, st) := r_destruct a st in r_put w i (Some a) st
      | None => w
      end
  | RTake i =>
      match r_get w i with
      | Some a =>
          let '(v, s, st) := s_move_out (r_slot a) st in
          let '(tmp, st) := s_construct v Dead st in
          let '(_, st) := s_destroy tmp st in
          r_put w i (Some {| r_tag := RtValue; r_slot := s |}) st
      | None => w
      end
  end.

Definition r_init (n : nat) : rworld := {| r_objs := repeat None n; r_stt := stats0 |}.

(* ================================ the 18 comparison operators ===================== *)
Section Compare.
  Variable A : Type.
  Variables (eqb ltb : A -> A -> bool).
  (* Optional - Optional *)
  Definition oo_eq (a b : option A) : bool :=
    match a, b with None, None => true | Some x, Some y => eqb x y | _, _ => false end.
  Definition oo_ne a b := negb (oo_eq a b).
  Definition oo_lt (a b : option A) : bool :=
    match b with None => false | Some y => match a with None => true | Some x => ltb x y end end.
  Definition oo_gt a b := oo_lt b a.
  Definition oo_le a b := negb (oo_lt b a).
  Definition oo_ge a b := negb (oo_lt a b).
  (* Optional - value *)
  Definition ov_eq (a : option A) (b : A) := match a with Some x => eqb x b | None => false end.
  Definition ov_ne a b := negb (ov_eq a b).
  Definition ov_lt (a : option A) (b : A) := match a with Some x => ltb x b | None => true end.
  Definition ov_gt (a : option A) (b : A) := match a with Some x => ltb b x | None => false end.
  Definition ov_le (a : option A) (b : A) := match a with Some x => negb (ltb b x) | None => true end.
  Definition ov_ge (a : option A) (b : A) := match a with Some x => negb (ltb x b) | None => false end.
  (* value - Optional *)
  Definition vo_eq (a : A) (b : option A) := match b with Some y => eqb a y | None => false end.
  Definition vo_ne a b := negb (vo_eq a b).
  Definition vo_lt (a : A) (b : option A) := match b with Some y => ltb a y | None => false end.
  Definition vo_gt (a : A) (b : option A) := match b with Some y => ltb y a | None => true end.
  Definition vo_le (a : A) (b : option A) := match b with Some y => negb (ltb y a) | None => false end.
  Definition vo_ge (a : A) (b : option A) := match b with Some y => negb (ltb a y) | None => true end.
End Compare.

(* ================================ Variant<Ts...> ================================== *)
(* n alternatives; index -1 = empty; one slot per variant (the union); element
   constructors may throw: [throw] says whether the next construction throws *)
Record vstate := { v_index : Z; v_slot : slot }.
Definition v_new : vstate := {| v_index := -1; v_slot := Dead |}.

Definition v_destruct (v : vstate) (st : stats) : vstate * stats :=
  if Z.eqb (v_index v) (-1) then ({| v_index := -1; v_slot := v_slot v |}, st)
  else let '(s, st) := s_destroy (v_slot v) st in ({| v_index := -1; v_slot := s |}, st).

(* Construct(TypeTag<T_k>, value); a throwing constructor leaves the variant as it is *)
Definition v_construct (k : Z) (x : Z) (throw : bool) (v : vstate) (st : stats) : vstate * stats :=
  if throw then (v, st)
  else let '(s, st) := s_construct x (v_slot v) st in ({| v_index := k; v_slot := s |}, st).

(* Assign(TypeTag<T_k>, value): in place when alternative k is active, else Destruct + Construct *)
Definition v_assign (k : Z) (x : Z) (throw : bool) (v : vstate) (st : stats) : vstate * stats :=
  if Z.eqb (v_index v) k then
    let '(s, st) := s_assign x (v_slot v) st in ({| v_index := k; v_slot := s |}, st)
  else
    let '(v, st) := v_destruct v st in v_construct k x throw v st.

Record vworld := { v_objs : list (option vstate); v_stt : stats; v_n : Z }.

Inductive vop :=
| VNew (i : nat) | VVal (i : nat) (k : Z) (x : Z) (throw : bool)
| VCopy (i j : nat) | VMove (i j : nat) | VDestroy (i : nat)
| VSet (i : nat) (k : Z) (x : Z) (throw : bool)        (* v = value of alternative k *)
| VSetEmpty (i : nat)                                  (* v = EmptyVariant{}         *)
| VAssign (i j : nat) | VMoveAssign (i j : nat)
| VBecome (i : nat) (k : Z).

Definition v_get (w : vworld) (i : nat) : option vstate := nth i (v_objs w) None.
Definition v_put (w : vworld) (i : nat) (o : option vstate) (st : stats) : vworld :=
  {| v_objs := upd (v_objs w) i o; v_stt := st; v_n := v_n w |}.

Definition v_pre (w : vworld) (op : vop) : bool :=
  let dead i := match v_get w i with None => (i <? length (v_objs w))%nat | Some _ => false end in
  let live i := match v_get w i with Some _ => true | None => false end in
  let alt k := (0 <=? k) && (k <? v_n w) in
  match op with
  | VNew i => dead i
  | VVal i k _ _ => dead i && alt k
  | VCopy i j | VMove i j => dead i && live j
  | VDestroy i | VSetEmpty i | VBecome i _ => live i
  | VSet i k _ _ => live i && alt k
  | VAssign i j | VMoveAssign i j => live i && live j
  end.

Definition v_step (w : vworld) (op : vop) : vworld :=
  if negb (v_pre w op) then w else
  let st := v_stt w in
  match op with
  | VNew i => v_put w i (Some v_new) st
  | VVal i k x throw =>
      (* a throwing element constructor: the Variant object itself is not constructed *)
      if throw then w
      else let '(v, st) := v_construct k x false v_new st in v_put w i (Some v) st
  | VCopy i j =>
      match v_get w j with
      | Some b =>
          if Z.eqb (v_index b) (-1) then v_put w i (Some v_new) st
          else let '(v, st) := v_construct (v_index b) (s_value (v_slot b)) false v_new st in v_put w i (Some v) st
      | None => w
      end
  | VMove i j =>
      match v_get w j with
      | Some b =>
          if Z.eqb (v_index b) (-1) then v_put w i (Some v_new) st
          else
            let '(x, bs, st) := s_move_out (v_slot b) st in
            let '(v, st) := v_construct (v_index b) x false v_new st in
            let w := v_put w j (Some {| v_index := v_index b; v_slot := bs |}) st in
            v_put w i (Some v) st
      | None => w
      end
  | VDestroy i =>
      match v_get w i with
      | Some v => let '(_, st) := v_destruct v st in v_put w i None st
      | None => w
      end
  | VSet i k x throw =>
      match v_get w i with
      | Some v => let '(v, st) := v_assign k x throw v st in v_put w i (Some v) st
      | None => w
      end
  | VSetEmpty i =>
      match v_get w i with
      | Some v => let '(v, st) := v_destruct v st in v_put w i (Some v) st
      | None => w
      end
  | VAssign i j =>
      (* other.Visit([this](const auto& value) { *this = value; }) — also for i = j *)
      match v_get w i, v_get w j with
      | Some a, Some b =>
          if Z.eqb (v_index b) (-1) then let '(a, st) := v_destruct a st in v_put w i (Some a) st
          else let '(a, st) := v_assign (v_index b) (s_value (v_slot b)) false a st in v_put w i (Some a) st
      | _, _ => w
      end
  | VMoveAssign i j =>
      match v_get w i, v_get w j with
      | Some a, Some b =>
          if Z.eqb (v_index b) (-1) then let '(a, st) := v_destruct a st in v_put w i (Some a) st
          else if Nat.eqb i j then
            (* self move-assignment: the element is move-assigned to itself *)
            let '(s, st) := s_assign (s_value (v_slot a)) (v_slot a) st in
            v_put w i (Some {| v_index := v_index a; v_slot := s |}) st
          else
            let '(x, bs, st) := s_move_out (v_slot b) st in
            let '(a, st) := v_assign (v_index b) x false a st in
            let w := v_put w j (Some {| v_index := v_index b; v_slot := bs |}) st in
            v_put w i (Some a) st
      | _, _ => w
      end
  | VBecome i k =>
      match v_get w i with
      | Some v =>
          if Z.eqb k (v_index v) then w
          else
            let '(v, st) := v_destruct v st in
            if (0 <=? k) && (k <? v_n w) then
              let '(s, st) := s_construct 0 (v_slot v) st in v_put w i (Some {| v_index := k; v_slot := s |}) st
            else v_put w i (Some v) st
      | None => w
      end
  end.

Definition v_init (n : nat) (alts : Z) : vworld := {| v_objs := repeat None n; v_stt := stats0; v_n := alts |}.

(* ---- converting operations ------------------------------------------------------- *)
(* A Variant also accepts values of types that are not alternatives: a type T that exactly one alternative k is
   constructible from (construction: Variant(T&&); assignment: v = T{..}), and other Variant types
   Variant<Other...> whose every alternative is convertible (construction visits the source and CONSTRUCTS the first
   alternative constructible from the visited value; assignment visits the source and ASSIGNS the value, which takes
   the tagged path when its type is an alternative).  In terms of the state machine each of them is one of the
   operations above; [ctor_target] / [assign_target] say which alternative of this Variant a value of the other
   Variant's alternative j lands in (-1: the source is empty). *)
Inductive vcop :=
| VCOp (op : vop)
| VCConvConstruct (i : nat) (k : Z) (x : Z)
| VCConvAssign (i : nat) (k : Z) (x : Z)
| VCFromOther (i : nat) (j : Z) (x : Z)
| VCAssignOther (i : nat) (j : Z) (x : Z).

Definition vc_to_vop (ctor_target assign_target : Z -> Z) (c : vcop) : vop :=
  match c with
  | VCOp op => op
  | VCConvConstruct i k x => VVal i k x false
  | VCConvAssign i k x => VSet i k x false
  | VCFromOther i j x => if (j <? 0)%Z then VNew i else VVal i (ctor_target j) x false
  | VCAssignOther i j x => if (j <? 0)%Z then VSetEmpty i else VSet i (assign_target j) x false
  end.

Definition vc_step (ct at_ : Z -> Z) (w : vworld) (c : vcop) : vworld := v_step w (vc_to_vop ct at_ c).

(* the harness's pair: Variant<float, TcA, int, TcB> receiving from Variant<SrcA, SrcB, float, int>.  Construction from
   an int picks the float (the first alternative constructible from int); assignment of an int assigns the int. *)
Definition harness_ctor_target (j : Z) : Z := if (j =? 0)%Z then 1 else if (j =? 1)%Z then 3 else 0.
Definition harness_assign_target (j : Z) : Z := if (j =? 0)%Z then 1 else if (j =? 1)%Z then 3 else if (j =? 2)%Z then 0 else 2.

(* ================================ UniqueHandle<Policy> ============================ *)
(* a handle value: -1 = empty (Policy::Default()); the policy counts Close calls per
   resource; [closed] is the multiset of resources Close was called on *)
Record hworld := { h_objs : list (option Z); h_closed : list Z; h_released : list Z }.

Inductive hop :=
| HNew (i : nat) | HVal (i : nat) (x : Z) | HMove (i j : nat) | HDestroy (i : nat)
| HMoveAssign (i j : nat) | HClose (i : nat) | HRelease (i : nat).

Definition h_get (w : hworld) (i : nat) : option Z := nth i (h_objs w) None.

(* Policy::Close(&value): counts the resource when it is valid, then empties the handle *)
Definition h_close (v : Z) (closed : list Z) : Z * list Z :=
  if (0 <=? v) then (-1, v :: closed) else (-1, closed).

Definition h_pre (w : hworld) (op : hop) : bool :=
  let dead i := match h_get w i with None => (i <? length (h_objs w))%nat | Some _ => false end in
  let live i := match h_get w i with Some _ => true | None => false end in
  match op with
  | HNew i | HVal i _ => dead i
  | HMove i j => dead i && live j
  | HDestroy i | HClose i | HRelease i => live i
  | HMoveAssign i j => live i && live j
  end.

Definition h_step (w : hworld) (op : hop) : hworld :=
  if negb (h_pre w op) then w else
  let put objs closed rel := {| h_objs := objs; h_closed := closed; h_released := rel |} in
  match op with
  | HNew i => put (upd (h_objs w) i (Some (-1))) (h_closed w) (h_released w)
  | HVal i x => put (upd (h_objs w) i (Some x)) (h_closed w) (h_released w)
  | HMove i j =>
      (* UniqueHandle(UniqueHandle&& other) : UniqueHandle() { *this = std::move(other); } *)
      match h_get w j with
      | Some b => let '(_, closed) := h_close (-1) (h_closed w) in
                  put (upd (upd (h_objs w) i (Some b)) j (Some (-1))) closed (h_released w)
      | None => w
      end
  | HDestroy i =>
      match h_get w i with
      | Some a => let '(_, closed) := h_close a (h_closed w) in put (upd (h_objs w) i None) closed (h_released w)
      | None => w
      end
  | HMoveAssign i j =>
      if Nat.eqb i j then w else
      match h_get w i, h_get w j with
      | Some a, Some b =>
          (* close(); std::swap(value_, other.value_) *)
          let '(a', closed) := h_close a (h_closed w) in
          put (upd (upd (h_objs w) i (Some b)) j (Some a')) closed (h_released w)
      | _, _ => w
      end
  | HClose i =>
      match h_get w i with
      | Some a => let '(a', closed) := h_close a (h_closed w) in put (upd (h_objs w) i (Some a')) closed (h_released w)
      | None => w
      end
  | HRelease i =>
      match h_get w i with
      | Some a => put (upd (h_objs w) i (Some (-1))) (h_closed w) (if 0 <=? a then a :: h_released w else h_released w)
      | None => w
      end
  end.

Definition h_init (n : nat) : hworld := {| h_objs := repeat None n; h_closed := []; h_released := [] |}.
