(* Spec.v — the wire format of docs/format.md as a schema-directed encoder,
   written in direct style over byte lists, independently of the
   reader/writer machinery of Codec.v.  Definitions only; readable in minutes.

   Each clause is one diagram of the document:
     UINT64 / INT64 classes  -> uint_enc / int_enc (narrowest class)
     BIN = 0xbc UINT64(bytes) raw elements     STR = 0xbd UINT64(bytes) raw chars
     ARY = 0xba UINT64(n) n elements           MAP = 0xbb UINT64(n) n (key value)
     STU = 0xb9 UINT64(n) n members            VAR = 0xb8 INT(index) element | -1 NIL
     HND = 0xb7 TYPE INT64(ref)                ERR = 0xb6 ENUM        NIL = 0xbe
     TAB = 0xb5 UINT64(hash) UINT64(n) n x ( UINT64(id) UINT64(size) value padding ) *)
From Nop Require Export Codec.
Local Open Scope N_scope.

(* prefix byte followed by the little-endian payload of the narrowest class *)
Definition scalar_enc (s : scalar) (z : Z) : bytes := scalar_prefix s z :: scalar_payload s z.
Definition uint_enc (n : N) : bytes := scalar_enc sU64 (Z.of_N n).
Definition int32_enc (z : Z) : bytes := scalar_enc sI32 z.
Definition int64_enc (z : Z) : bytes := scalar_enc sI64 z.

Definition is_some (v : val) : bool := match v with VSome _ => true | _ => false end.

Fixpoint spec_enc (t : ty) (v : val) {struct t} : bytes :=
  match t with
  | TScalar _ s => match v with VInt z => scalar_enc s z | _ => [] end
  | TStr cw =>
      match v with
      | VSeq vs => P_STR :: uint_enc (nlen vs * cw) ++ raw_bytes (N.to_nat cw) vs
      | _ => []
      end
  | TSeq _ t' =>
      match v with
      | VSeq vs =>
          match raw_kind t' with
          | Some (w, _) => P_BIN :: uint_enc (nlen vs * N.of_nat w) ++ raw_bytes w vs
          | None => P_ARY :: uint_enc (nlen vs) ++ flat_map (spec_enc t') vs
          end
      | _ => []
      end
  | TTuple k ts =>
      match v with
      | VSeq vs =>
          (match k with KStruct => P_STU | _ => P_ARY end) :: uint_enc (nlen ts) ++
          (fix go (ts : list ty) (vs : list val) {struct ts} : bytes :=
             match ts, vs with
             | t' :: ts', x :: vs' => spec_enc t' x ++ go ts' vs'
             | _, _ => []
             end) ts vs
      | _ => []
      end
  | TWrap _ t' => spec_enc t' v
  | TMap _ kt vt =>
      match v with
      | VMap kvs =>
          P_MAP :: uint_enc (nlen kvs) ++
          flat_map (fun kv => spec_enc kt (fst kv) ++ spec_enc vt (snd kv)) kvs
      | _ => []
      end
  | TOpt t' => match v with VSome x => spec_enc t' x | _ => [P_NIL] end
  | TRes _ ek t' =>
      match v with
      | VOk x => spec_enc t' x
      | VErr e => P_ERR :: scalar_enc (SInt ek) e
      | _ => []
      end
  | TVar ts =>
      match v with
      | VAlt i x =>
          P_VAR :: int32_enc i ++
          (fix pick (ts : list ty) (n : nat) {struct ts} : bytes :=
             match ts with
             | [] => []
             | t' :: ts' => match n with O => spec_enc t' x | S n' => pick ts' n' end
             end) ts (Z.to_nat i)
      | _ => P_VAR :: int32_enc (-1) ++ [P_NIL]
      end
  | THnd _ tk tag =>
      match v with
      | VHnd h => P_HND :: scalar_enc (SInt tk) tag ++ int64_enc h
      | _ => []
      end
  | TTab hash es =>
      match v with
      | VTab xs =>
          P_TAB :: uint_enc hash ++ uint_enc (nlen (filter is_some xs)) ++
          (fix go (es : list (N * bool * ty)) (xs : list val) {struct es} : bytes :=
             match es, xs with
             | (eid, act, t') :: es', x :: xs' =>
                 (match x with
                  | VSome y =>
                      let body := spec_enc t' y in
                      let sz := tsize t' y in      (* the writer's size estimate *)
                      uint_enc eid ++ uint_enc sz ++ body ++
                      repeat 0 (N.to_nat (sz - nlen body))
                  | _ => []                         (* empty entries are omitted *)
                  end) ++ go es' xs'
             | _, _ => []
             end) es xs
      | _ => []
      end
  end.

(* types whose encodings contain no handle (GetSize is exact for them) *)
Fixpoint no_handles (t : ty) : bool :=
  match t with
  | TScalar _ _ | TStr _ => true
  | TSeq _ t' | TWrap _ t' | TOpt t' | TRes _ _ t' => no_handles t'
  | TTuple _ ts | TVar ts => forallb no_handles ts
  | TMap _ k v => no_handles k && no_handles v
  | THnd _ _ _ => false
  | TTab _ es => forallb (fun e => no_handles (snd e)) es
  end.

(* schema well-formedness: what the library's static_asserts and C++ itself
   guarantee about a type, plus the prefix-disjointness that makes
   Optional / Result unambiguous on the wire (see finding K1) *)
Fixpoint nodup_ids (ids : list N) : bool :=
  match ids with
  | [] => true
  | i :: r => negb (existsb (N.eqb i) r) && nodup_ids r
  end.

Fixpoint wf (t : ty) : bool :=
  match t with
  | TScalar _ _ => true
  | TStr cw => (cw =? 1) || (cw =? 2) || (cw =? 4)
  | TSeq c t' =>
      wf t' &&
      match c with
      | CVec => true
      | CArr _ n => (1 <=? n) && (n <? two64)
      | CLBuf _ cap sk unb => (1 <=? cap) && (cap <? two64) && in_range sk (Z.of_N cap)
      end
  | TTuple k ts =>
      forallb wf ts && (nlen ts <? two64) &&
      match k with KPair => (length ts =? 2)%nat | KStruct => (1 <=? length ts)%nat | KTuple => true end
  | TWrap _ t' => wf t'
  | TMap _ k v => wf k && wf v
  | TOpt t' => wf t' && negb (tmatch t' P_NIL)
  | TRes _ _ t' => wf t' && negb (tmatch t' P_ERR)
  | TVar ts => forallb wf ts && (nlen ts <? 2147483648)
  | THnd _ tk tag => in_range tk tag
  | TTab hash es =>
      forallb (fun e => wf (snd e)) es && (hash <? two64) && (nlen es <? two64) &&
      forallb (fun e => fst (fst e) <? two64) es &&
      nodup_ids (map (fun e => fst (fst e)) es)
  end.
