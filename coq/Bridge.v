(* Bridge.v — the hand-written leaf definitions of the model (Base.v, Wire.v, SipHash.v)
   agree with Gen.v, which tools/nop2coq.py regenerates from /repo's headers on every
   run.  A change of an enumerator, of BaseEncodingSize, or of any Encoding<T>::Prefix /
   Match decision chain in the code changes Gen.v and breaks a lemma here. *)
From Nop Require Import Base Wire SipHash Gen.
(* Gen.v defines a function by the model itself when its C++ source is outside the translated subset (then the
   lemma below is trivial and the function is tied by the correspondence check only): the proofs allow for both. *)
From Coq Require Import Lia ZifyBool.
Local Open Scope N_scope.

(* ---- enumerators and constants -------------------------------------------------------- *)
Lemma prefix_bytes_agree :
  P_U8 = gen_EncodingByte_U8 /\ P_U16 = gen_EncodingByte_U16 /\ P_U32 = gen_EncodingByte_U32 /\ P_U64 = gen_EncodingByte_U64 /\
  P_I8 = gen_EncodingByte_I8 /\ P_I16 = gen_EncodingByte_I16 /\ P_I32 = gen_EncodingByte_I32 /\ P_I64 = gen_EncodingByte_I64 /\
  P_F32 = gen_EncodingByte_F32 /\ P_F64 = gen_EncodingByte_F64 /\
  P_TAB = gen_EncodingByte_Table /\ P_ERR = gen_EncodingByte_Error /\ P_HND = gen_EncodingByte_Handle /\
  P_VAR = gen_EncodingByte_Variant /\ P_STU = gen_EncodingByte_Structure /\ P_ARY = gen_EncodingByte_Array /\
  P_MAP = gen_EncodingByte_Map /\ P_BIN = gen_EncodingByte_Binary /\ P_STR = gen_EncodingByte_String /\
  P_NIL = gen_EncodingByte_Nil /\ P_EXT = gen_EncodingByte_Extension /\ P_NEGMIN = gen_EncodingByte_NegativeFixIntMin /\
  gen_EncodingByte_PositiveFixIntMax = 127 /\ gen_EncodingByte_NegativeFixIntMax = 255 /\
  gen_EncodingByte_False = 0 /\ gen_EncodingByte_True = 1.
Proof. repeat split; reflexivity. Qed.

Lemma error_codes_agree :
  ENone = gen_ErrorStatus_None /\ EType = gen_ErrorStatus_UnexpectedEncodingType /\
  EHandleType = gen_ErrorStatus_UnexpectedHandleType /\ EVariant = gen_ErrorStatus_UnexpectedVariantType /\
  EContLen = gen_ErrorStatus_InvalidContainerLength /\ EMemberCount = gen_ErrorStatus_InvalidMemberCount /\
  EStrLen = gen_ErrorStatus_InvalidStringLength /\ ETableHash = gen_ErrorStatus_InvalidTableHash /\
  EHandleRef = gen_ErrorStatus_InvalidHandleReference /\ EHandleValue = gen_ErrorStatus_InvalidHandleValue /\
  EInterfaceMethod = gen_ErrorStatus_InvalidInterfaceMethod /\ EDupEntry = gen_ErrorStatus_DuplicateTableEntry /\
  EReadLimit = gen_ErrorStatus_ReadLimitReached /\ EWriteLimit = gen_ErrorStatus_WriteLimitReached /\
  EStream = gen_ErrorStatus_StreamError /\ EProtocol = gen_ErrorStatus_ProtocolError /\ EIO = gen_ErrorStatus_IOError /\
  ESystem = gen_ErrorStatus_SystemError /\ EDebug = gen_ErrorStatus_DebugError.
Proof. repeat split; reflexivity. Qed.

Lemma hash_keys_agree :
  kNopTableKey0 = gen_kNopTableKey0 /\ kNopTableKey1 = gen_kNopTableKey1 /\
  kNopInterfaceKey0 = gen_kNopInterfaceKey0 /\ kNopInterfaceKey1 = gen_kNopInterfaceKey1.
Proof. repeat split; reflexivity. Qed.

(* ---- functions of a prefix byte: all 256 values -------------------------------------- *)
Definition all_prefixes : list N := map N.of_nat (seq 0 256).
Lemma all_prefixes_complete p : p < 256 -> In p all_prefixes.
Proof.
  intros H. unfold all_prefixes. apply in_map_iff. exists (N.to_nat p). split; [apply N2Nat.id|].
  apply in_seq. lia.
Qed.

Lemma sweep (f g : N -> bool) : forallb (fun p => Bool.eqb (f p) (g p)) all_prefixes = true ->
  forall p, p < 256 -> f p = g p.
Proof.
  intros H p Hp. rewrite forallb_forall in H. apply Bool.eqb_prop, H, all_prefixes_complete, Hp.
Qed.

Lemma base_size_agrees p : p < 256 -> base_size p = gen_BaseEncodingSize p.
Proof.
  intros Hp.
  assert (H : forallb (fun p => base_size p =? gen_BaseEncodingSize p) all_prefixes = true) by (vm_compute; reflexivity).
  rewrite forallb_forall in H. apply N.eqb_eq, H, all_prefixes_complete, Hp.
Qed.

Lemma match_agrees p : p < 256 ->
  scalar_match SBool p = gen_Match_bool p /\
  scalar_match (SInt U8) p = gen_Match_u8 p /\ scalar_match (SInt U8) p = gen_Match_char p /\
  scalar_match (SInt I8) p = gen_Match_i8 p /\
  scalar_match (SInt U16) p = gen_Match_u16 p /\ scalar_match (SInt I16) p = gen_Match_i16 p /\
  scalar_match (SInt U32) p = gen_Match_u32 p /\ scalar_match (SInt I32) p = gen_Match_i32 p /\
  scalar_match (SInt U64) p = gen_Match_u64 p /\ scalar_match (SInt I64) p = gen_Match_i64 p /\
  scalar_match SF32 p = gen_Match_f32 p /\ scalar_match SF64 p = gen_Match_f64 p.
Proof.
  intros Hp. repeat split; revert p Hp; apply sweep; vm_compute; reflexivity.
Qed.

(* ---- Prefix of a value: every value of the type --------------------------------------- *)
Local Open Scope Z_scope.
Ltac chain :=
  repeat match goal with
         | |- context [if ?b then _ else _] => destruct b eqn:?
         end; try reflexivity; try lia.

Lemma mod256_small z : 0 <= z < 256 -> z mod 256 = z.
Proof. intros H. apply Z.mod_small. lia. Qed.

Ltac range_hyp H :=
  unfold in_range, bits, width, signed in H; cbn in H;
  apply andb_prop in H; let H0 := fresh "H0" in let H1 := fresh "H1" in destruct H as [H0 H1];
  apply Z.leb_le in H0; apply Z.ltb_lt in H1.

Ltac unfold_prefixes :=
  unfold scalar_prefix, signed, uprefix, sprefix, gen_Prefix_u8, gen_Prefix_char, gen_Prefix_u16, gen_Prefix_u32, gen_Prefix_u64,
    gen_Prefix_i8, gen_Prefix_i16, gen_Prefix_i32, gen_Prefix_i64, P_U8, P_U16, P_U32, P_U64, P_I8, P_I16, P_I32, P_I64.

Lemma prefix_agrees_u8 z : in_range U8 z = true -> scalar_prefix (SInt U8) z = gen_Prefix_u8 z.
Proof. intros H. range_hyp H. unfold_prefixes. try rewrite (mod256_small z) by lia. chain. Qed.
Lemma prefix_agrees_char z : in_range U8 z = true -> scalar_prefix (SInt U8) z = gen_Prefix_char z.
Proof. intros H. range_hyp H. unfold_prefixes. try rewrite (mod256_small z) by lia. chain. Qed.
Lemma prefix_agrees_u16 z : in_range U16 z = true -> scalar_prefix (SInt U16) z = gen_Prefix_u16 z.
Proof. intros H. range_hyp H. unfold_prefixes. chain; try (rewrite (mod256_small z) by lia); reflexivity. Qed.
Lemma prefix_agrees_u32 z : in_range U32 z = true -> scalar_prefix (SInt U32) z = gen_Prefix_u32 z.
Proof. intros H. range_hyp H. unfold_prefixes. chain; try (rewrite (mod256_small z) by lia); reflexivity. Qed.
Lemma prefix_agrees_u64 z : in_range U64 z = true -> scalar_prefix (SInt U64) z = gen_Prefix_u64 z.
Proof. intros H. range_hyp H. unfold_prefixes. chain; try (rewrite (mod256_small z) by lia); reflexivity. Qed.
Lemma prefix_agrees_i8 z : in_range I8 z = true -> scalar_prefix (SInt I8) z = gen_Prefix_i8 z.
Proof. intros H. range_hyp H. unfold_prefixes. chain. Qed.
Lemma prefix_agrees_i16 z : in_range I16 z = true -> scalar_prefix (SInt I16) z = gen_Prefix_i16 z.
Proof. intros H. range_hyp H. unfold_prefixes. chain. Qed.
Lemma prefix_agrees_i32 z : in_range I32 z = true -> scalar_prefix (SInt I32) z = gen_Prefix_i32 z.
Proof. intros H. range_hyp H. unfold_prefixes. chain. Qed.
Lemma prefix_agrees_i64 z : in_range I64 z = true -> scalar_prefix (SInt I64) z = gen_Prefix_i64 z.
Proof. intros H. range_hyp H. unfold_prefixes. chain. Qed.

Lemma prefix_agrees_bool (b : bool) : scalar_prefix SBool (if b then 1 else 0) = gen_Prefix_bool b.
Proof. destruct b; reflexivity. Qed.
