(* Properties_C07.v — C07: tables stay readable across definition versions in
   both directions.  Statements only; proofs in TableProps.v. *)
From Nop Require Import Spec Sim EncSpec ScalarRT DecSpec Readers Lang TableSpec TableProps.
Local Open Scope N_scope.

(* Two definitions of one table (same hash) with arbitrary entry lists — added,
   removed, deleted, reordered entries — where an id that is active in both
   carries the same type.  Data written with es_w and read with es_r: the read
   succeeds, ends exactly after the table ([rest] untouched), and for every
   declared id of the reader: an active entry holds the writer's value if the
   writer had a non-empty active entry with that id and is empty otherwise;
   entries the reader marks deleted or does not declare are skipped.
   (The statement is symmetric in the two definitions: take them in either role.) *)
Theorem C07_cross_version : forall h es_w es_r xs rest,
  h < two64 -> nlen es_w < two64 ->
  forallb (fun e => fst (fst e) <? two64) es_w = true ->
  nodup_ids (map (fun e => fst (fst e)) es_w) = true ->
  forallb (fun e => wf (snd e)) es_w = true ->
  entries_typed es_w xs = true ->
  (forall id t_w t_r sl, In (id, true, t_w) es_w ->
      slot_of es_r (map (fun _ => VNone) es_r) id = Some (true, t_r, sl) -> t_r = t_w) ->
  exists s, ldec (TTab h es_r) (spec_enc (TTab h es_w) (VTab xs) ++ rest) = Ok (VTab s) rest /\
    forall id, slot_of es_r s id =
      match slot_of es_r (map (fun _ => VNone) es_r) id with
      | Some (true, t_r, _) =>
          Some (true, t_r, match writer_value es_w xs id with Some (_, y) => VSome y | None => VNone end)
      | other => other
      end.
Proof. exact cross_version. Qed.
Print Assumptions C07_cross_version.

(* what the writer emits is the generic table wire form of its non-empty entries *)
Theorem C07_wire_form : forall h es xs, entries_typed es xs = true ->
  spec_enc (TTab h es) (VTab xs) = table_wire h (wire_entries es xs).
Proof. exact spec_enc_table_wire. Qed.
Print Assumptions C07_wire_form.

(* non-vacuity: v1 = {1:u32, 2:string, 3:vector<i16>} written, read by
   v2 = {3:vector<i16>, 2:deleted, 9:u8 (new), 1:u32} *)
Example C07_nonvacuous :
  let u32 := TScalar 0 (SInt U32) in let str := TStr 1 in let v16 := TSeq CVec (TScalar 0 (SInt I16)) in
  let es_w := [(1, true, u32); (2, true, str); (3, true, v16)] in
  let es_r := [(3, true, v16); (2, false, str); (9, true, TScalar 0 (SInt U8)); (1, true, u32)] in
  let xs := [VSome (VInt 70000); VSome (VSeq [VInt 104]); VSome (VSeq [VInt (-2); VInt 300])] in
  ldec (TTab 5 es_r) (spec_enc (TTab 5 es_w) (VTab xs) ++ [255]) =
  Ok (VTab [VSome (VSeq [VInt (-2); VInt 300]); VNone; VNone; VSome (VInt 70000)]) [255].
Proof. vm_compute. reflexivity. Qed.
